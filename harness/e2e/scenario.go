// Package e2e decides C01: the collector binary, fed by scripted gNMI targets
// over real gRPC/TLS, must show every client exactly the targets' final state —
// through the client library's cache and through the gnmi_cli binary, however
// the request is handed to the CLI.
package e2e

import (
	"fmt"

	"pgregory.net/rapid"
	"verif/harness/internal/gn"
)

// Up is one update of a notification that carries several (atomic, group).
type Up struct {
	Path []gn.Elem `json:"path"`
	Val  gn.Val    `json:"val"`
	Pad  int       `json:"pad,omitempty"`
}

// Op is one step of a scripted target: a message it sends, or something it does to its stream.
type Op struct {
	// Kind: update delete sync multi - atomic group fill - break await wait
	// (a break with Via "silence" is the target going quiet until the collector's receive timeout ends the stream)
	// quiet: the device has nothing to say for N milliseconds of REAL time (its streams stay open and idle)
	Kind   string `json:"kind"`
	Origin string `json:"origin,omitempty"` // prefix origin ("" = none: the collector files it under "openconfig"; "openconfig" may also be spelled out)
	// PTarget is what the device puts into prefix.target of this notification: nothing, the name the collector
	// subscribed with (echo), its own idea of its name (a host name, an address), the name of ANOTHER configured
	// target. The collector documents that whatever a target streams is filed under the CONFIGURED name.
	// NoPrefix: the notification carries no prefix message at all (only when there is nothing to put into one).
	PTarget  string    `json:"ptarget,omitempty"`
	NoPrefix bool      `json:"no_prefix,omitempty"`
	Prefix   []gn.Elem `json:"prefix,omitempty"`
	Path     []gn.Elem `json:"path,omitempty"`
	Element  bool      `json:"element,omitempty"` // deprecated path encoding
	Val      gn.Val    `json:"val,omitempty"`
	Cut      int       `json:"cut,omitempty"` // multi: the delete path is the first Cut elements of prefix+path
	Pad      int       `json:"pad,omitempty"` // the string value is lengthened by Pad bytes when sent
	// atomic: ONE notification with the atomic flag, Prefix and these updates (the device's container);
	// group: one plain notification with several updates below Prefix.
	Ups []Up `json:"ups,omitempty"`
	// fill: N leaves fill/e[id=i]/v = "f<Ver>.<i>", 250 per notification; wait: N milliseconds; await: which pause (1-based)
	// Bulk>0 (fill): Bulk leaves per notification instead of 250 - a device that dumps a whole table in ONE SubscribeResponse
	// (and does so again whenever it is subscribed to again)
	// Enc (fill): "" - the leaves are typed strings; "json" / "ietf" / "bytes": the same text travels in the deprecated
	// Update.value field with that encoding (a JSON string literal, or the raw bytes)
	N    int    `json:"n,omitempty"`
	Ver  int    `json:"ver,omitempty"`
	Bulk int    `json:"bulk,omitempty"`
	Enc  string `json:"enc,omitempty"`
	// break: the target's stream ends - Via "error" (the RPC returns a status), "conn" (the transport is closed),
	// "rpc" (the collector is asked to reconnect through its Collector service), "silence" (the target - configured
	// with a receive timeout - sends nothing, heartbeats included, until the collector itself gives the stream up).
	// When the collector subscribes again the target first reports its current state, then a sync_response, then goes
	// on with the script.
	// LoseMod>0: the units (leaves, containers) whose rank in key order is LoseRem modulo LoseMod are gone when it comes back
	// (whatever ended the stream: the state reported on the NEW stream is what counts).
	// Code (Via "error"): the status the RPC ends with - unavailable (default) canceled internal deadline eof (= the handler returns nil).
	Via     string `json:"via,omitempty"`
	Code    string `json:"code,omitempty"`
	LoseMod int    `json:"lose_mod,omitempty"`
	LoseRem int    `json:"lose_rem,omitempty"`
	// await: the script goes on when observer Obs reached Event (start dialed first sync pause tick resub), or after a bounded wait
	// (MaxMs, 0: 3 s)
	Obs   int    `json:"obs,omitempty"`
	Event string `json:"event,omitempty"`
	MaxMs int    `json:"max_ms,omitempty"`
}

// Addr is one line of a target's configured `addresses`.
type Addr struct {
	// Kind: "live" - the address of the scripted server the target lives on; otherwise an address nobody answers gNMI on:
	// "refused" (nothing listens: the connection is refused), "silent" (TCP connections are accepted and never spoken to),
	// "closing" (accepted and closed at once), "plaintext" (a service that answers without TLS), "tlsfail" (a TLS endpoint that
	// aborts every handshake).
	Kind string `json:"kind"`
	// Inst: which dead endpoint of that kind (0, 1): the same endpoint may be listed twice, and by several targets
	Inst int `json:"inst,omitempty"`
	// Chain: the rest of an address chain ("first;next;..."): the collector connects to the first element (a proxy would be told the rest)
	Chain string `json:"chain,omitempty"`
}

// Target is one configured target and its stream.
type Target struct {
	Name   string `json:"name"`
	Server int    `json:"server"` // which scripted server address it lives on
	// Legacy>0: the device still speaks the old value encoding - that share (percent) of the values it generates travel in
	// the deprecated Update.value field (gnmi.Value: bytes + encoding JSON / JSON_IETF / BYTES) instead of Update.val.
	// (Informative: the ops carry the values; kinds "deprecated" = JSON, "legacy-ietf", "legacy-bytes".)
	Legacy  int  `json:"legacy,omitempty"`
	Request int  `json:"request"` // which request of the configuration it references
	Ops     []Op `json:"ops"`
	// Addrs (none: the live address alone): the addresses the target is configured with, in this order; "live" occurs at least once.
	Addrs []Addr `json:"addrs,omitempty"`
	// RecvTimeoutMs>0: the target is configured with meta receive_timeout; the scripted target then sends a heartbeat
	// (a leaf outside every view) every tenth of it on every stream, except while a "silence" break lasts.
	RecvTimeoutMs int `json:"recv_timeout_ms,omitempty"`
}

// QPath is one path of a client query: Path is what goes into client.Query.Queries (an element is a plain
// string - '/' allowed - or name[key=value]...), Index is the same path in index form (names and key values).
type QPath struct {
	Path  []string `json:"path"`
	Index []string `json:"index"`
}

// Pause makes an observer a slow consumer for a while. Script positions count the ops a target has STARTED.
type Pause struct {
	From    int `json:"from"`               // the first notification handled once the clock target started From ops blocks the handler ...
	Until   int `json:"until"`              // ... until it started Until ops (or finished; or a wall-clock bound passed),
	SleepMs int `json:"sleep_ms,omitempty"` // and then for this long
}

// Observer is a client-library STREAM subscription through the collector that lives while the scripts play.
type Observer struct {
	Scope   int     `json:"scope"`              // index of the target subscribed to; -1: "*"
	Clock   int     `json:"clock"`              // index of the target whose script positions Start and Pauses refer to
	Start   int     `json:"start"`              // subscribes once that target started Start ops,
	DelayUs int     `json:"delay_us,omitempty"` // plus this long
	Slow    bool    `json:"slow,omitempty"`     // static 64KB HTTP/2 windows: a handler that blocks stops the sender after a bounded amount of data
	Pauses  []Pause `json:"pauses,omitempty"`
	// Queries (none: everything, "*"): the paths of its client.Query.Queries; the harness adds the path of the sentinel.
	Queries []QPath `json:"queries,omitempty"`
	// OnceFirst: the SAME client.Query value is first used for a ONCE subscription (view not judged: the scripts are
	// playing), then - with Type changed, its Queries shared - for the STREAM subscription that is judged.
	OnceFirst bool `json:"once_first,omitempty"`
	// Reconnect: the observer is a client.ReconnectClient around the cache client (its cache is cleared in the reset
	// callback, which is what the callback is for). Cuts: its transport to the COLLECTOR is closed once the clock
	// target started that many ops (and the current subscription has received something); the library subscribes
	// again with the same Query value.
	Reconnect bool  `json:"reconnect,omitempty"`
	Cuts      []int `json:"cuts,omitempty"`
	// TimeoutMs: client.Query.Timeout of its subscriptions (0: 15 s). Library: the connection is dialled by the client
	// library itself (client type "gnmi", client/gnmi.New - what every application gets) instead of the harness's dialers.
	TimeoutMs int  `json:"timeout_ms,omitempty"`
	Library   bool `json:"library,omitempty"`
}

// Reuse is a sequence of subscriptions made after quiescence with ONE client.Query value (Type changed in
// between, Queries shared): every view must equal the part of the targets' final state the paths address.
type Reuse struct {
	Scope   int      `json:"scope"` // index of the target; -1: "*"
	Queries []QPath  `json:"queries"`
	Modes   []string `json:"modes"` // once | stream
}

// Scenario is a collector configuration plus the streams of its targets.
type Scenario struct {
	Targets   []Target   `json:"targets"`
	Servers   int        `json:"servers"`
	Requests  int        `json:"requests"`
	Subtree   int        `json:"subtree"` // CLI: which leaf's top-level subtree is queried besides the whole target
	Observers []Observer `json:"observers,omitempty"`
	Reuse     []Reuse    `json:"reuse,omitempty"`
	// NoMeta: the collector runs without -metadata_update_period (its default: no periodic metadata), so a target
	// that says nothing means a subscriber's stream that carries nothing. Otherwise the period is 200 ms.
	NoMeta bool `json:"no_meta,omitempty"`
	// DialTimeoutMs: the collector's -dial_timeout (0: 10 s). An address that does not answer costs the collector one
	// such timeout per attempt; that the live address is reached nevertheless is the collector's business.
	DialTimeoutMs int `json:"dial_timeout_ms,omitempty"`
}

// Element names and key values: mostly plain, some containing '/' (interface names, prefixes; a leading and a
// trailing one) - a path element is an opaque string to everything but the client's string form of a query.
var (
	names   = []string{"a", "b", "c", "iface", "state", "a", "b", "a/b", "/r", "t/"}
	keyVals = []string{"eth0", "eth1", "7", "eth1/1", "10.0.0.0/8", "x/"}
)

func genElem(t *rapid.T, glob bool) gn.Elem {
	alpha := names
	if glob {
		alpha = append(append([]string{}, names...), "*")
	}
	e := gn.Elem{Name: rapid.SampledFrom(alpha).Draw(t, "name")}
	if e.Name != "*" && rapid.IntRange(0, 3).Draw(t, "keyed") == 0 {
		e.Keys = map[string]string{}
		for i := rapid.IntRange(1, 2).Draw(t, "nkeys"); i > 0; i-- {
			e.Keys[rapid.SampledFrom([]string{"name", "id"}).Draw(t, "key")] = rapid.SampledFrom(keyVals).Draw(t, "kval")
		}
	}
	return e
}

func genElems(t *rapid.T, min, max int, glob bool) []gn.Elem {
	n := rapid.IntRange(min, max).Draw(t, "nelem")
	out := make([]gn.Elem, 0, n)
	for i := 0; i < n; i++ {
		out = append(out, genElem(t, glob))
	}
	return out
}

func genVal(t *rapid.T) gn.Val {
	switch rapid.IntRange(0, 10).Draw(t, "vkind") {
	case 0:
		return gn.Val{Kind: "string", S: rapid.SampledFrom([]string{"up", "", "héllo", "a b"}).Draw(t, "s")}
	case 1:
		return gn.Val{Kind: "int", I: rapid.SampledFrom([]int64{0, -5, 42, 1 << 40}).Draw(t, "i")}
	case 2:
		return gn.Val{Kind: "uint", I: rapid.SampledFrom([]int64{0, 7, 1 << 41}).Draw(t, "u")}
	case 3:
		return gn.Val{Kind: "bool", B: rapid.Bool().Draw(t, "b")}
	case 4:
		return gn.Val{Kind: "bytes", S: rapid.SampledFrom([]string{"\x01\x02", "xyz"}).Draw(t, "by")}
	case 5:
		return gn.Val{Kind: "float", F: rapid.SampledFrom([]float64{0.5, -2.25}).Draw(t, "f")}
	case 6:
		return gn.Val{Kind: "double", F: rapid.SampledFrom([]float64{0, 1.5, 1e100}).Draw(t, "d")}
	case 7:
		return gn.Val{Kind: "decimal", I: rapid.SampledFrom([]int64{125, -30}).Draw(t, "digits"), F: float64(rapid.IntRange(0, 2).Draw(t, "prec"))}
	case 8:
		// the same members in every rotation: a list in another order is another value
		l := []gn.Val{{Kind: "int", I: 1}, {Kind: "string", S: "x"}, {Kind: "bool", B: true}}
		r := rapid.IntRange(0, 2).Draw(t, "rot")
		return gn.Val{Kind: "leaflist", L: append(append([]gn.Val{}, l[r:]...), l[:r]...)}
	case 9:
		return gn.Val{Kind: "json", S: rapid.SampledFrom([]string{`{"a":1}`, `[1,2]`, `"s"`}).Draw(t, "j")}
	default:
		return gn.Val{Kind: "jsonietf", S: rapid.SampledFrom([]string{`{"b":"c"}`, `3`}).Draw(t, "ji")}
	}
}

// ---- values in the deprecated Update.value field ("legacy" encoding) ----------------------------------------------
//
// gnmi.Update still has field 2, `value` (gnmi.Value: bytes + an Encoding), and devices that predate TypedValue fill
// it instead of `val`. The client library documents what it makes of it (client/gnmi, func noti): JSON and JSON_IETF
// payloads are decoded with json.Unmarshal into an `any` (objects: map[string]any, arrays: []any, numbers: float64,
// null: nil), BYTES payloads are handed over as they are; any other encoding is an error (not generated).
// Value kinds of this engine: "deprecated" (JSON; the kind internal/gn knows), "legacy-ietf", "legacy-bytes".

func isLegacy(kind string) bool {
	return kind == "deprecated" || kind == "legacy-ietf" || kind == "legacy-bytes"
}

// JSON texts a device may put there: objects, arrays, strings, numbers, booleans, null; some with insignificant
// white space and escapes. No number beyond float64's integer range (what the library makes of it is its business),
// no string with a line break (the CLI prints one leaf per line).
var legacyJSON = []string{
	`{"a":1}`, `{"name":"eth0","up":true,"mtu":1500,"tags":["x","y"],"peer":null}`, `{}`, `{"a": [1, 2],  "b": null}`,
	`[1,2]`, `[]`, `["a",{"b":[true,null]},1.5]`,
	`"up"`, `""`, `"h\u00e9llo \"q\""`, `"a b"`, `"12"`,
	`0`, `-5`, `42`, `1.5`, `1e100`,
	`true`, `false`, `null`,
}

// payloads of BYTES values: some look like JSON or like a number - they stay bytes
var legacyBytes = []string{"\x01\x02", "xyz", `{"a":1}`, "héllo", "12"}

func genLegacyVal(t *rapid.T) gn.Val {
	switch rapid.IntRange(0, 7).Draw(t, "lkind") {
	case 0:
		return gn.Val{Kind: "legacy-bytes", S: rapid.SampledFrom(legacyBytes).Draw(t, "lbytes")}
	case 1, 2:
		return gn.Val{Kind: "legacy-ietf", S: rapid.SampledFrom(legacyJSON).Draw(t, "lietf")}
	default:
		return gn.Val{Kind: "deprecated", S: rapid.SampledFrom(legacyJSON).Draw(t, "ljson")}
	}
}

// jsonShape names what a JSON text is at its top level.
func jsonShape(s string) string {
	switch {
	case s == "":
		return "empty"
	case s[0] == '{':
		return "object"
	case s[0] == '[':
		return "array"
	case s[0] == '"':
		return "string"
	case s == "true" || s == "false":
		return "bool"
	case s == "null":
		return "null"
	}
	return "number"
}

// opKey is the index (without target) under which the collector files an update.
func opKey(o Op) []string {
	origin := o.Origin
	if origin == "" {
		origin = "openconfig"
	}
	k := []string{origin}
	k = append(k, gn.IndexOfElems(o.Prefix, o.Element)...)
	return append(k, gn.IndexOfElems(o.Path, o.Element)...)
}

// ---- one target's script, generated against the reference interpretation of what was generated so far ----

type tgen struct {
	t      *rapid.T
	ops    []Op
	m      *model   // the device's state after ops
	groups []Op     // group notifications sent so far (candidates for a re-send)
	serial int      // makes values that must differ from what is stored
	name   string   // the name the target is configured with
	peers  []string // the names of the other configured targets
	legacy int      // percent of its values that travel in the deprecated Update.value field (see Target.Legacy)
	lists  bool     // most of its values are leaf-lists over the same few members (see val)
}

// How much of what a device says is in the old encoding: most devices none of it; one that still speaks it does so
// for most of its leaves (so that legacy values meet on one leaf, in re-sent containers, in coalesced deliveries).
var legacyShares = []int{0, 0, 0, 0, 0, 60, 85, 100}

func newTgen(t *rapid.T, name string, peers []string) *tgen {
	return &tgen{t: t, m: newModel(), name: name, peers: peers, legacy: rapid.SampledFrom(legacyShares).Draw(t, "legacy"), lists: rapid.IntRange(0, 5).Draw(t, "lists") == 0}
}

func (g *tgen) speaksLegacy() bool {
	return g.legacy > 0 && rapid.IntRange(1, 100).Draw(g.t, "aslegacy") <= g.legacy
}

// val draws a value the way this device encodes values.
func (g *tgen) val() gn.Val {
	if g.speaksLegacy() {
		return genLegacyVal(g.t)
	}
	if g.lists && rapid.IntRange(0, 2).Draw(g.t, "aslist") > 0 {
		// a device whose leaves are mostly leaf-lists over the same members: lists that differ only in
		// order (or in a repeated member) follow each other on one leaf
		l := []gn.Val{{Kind: "string", S: "10.0.0.1"}, {Kind: "string", S: "10.0.0.2"}, {Kind: "int", I: 1}}
		r := rapid.IntRange(0, 3).Draw(g.t, "lrot")
		if r == 3 {
			return gn.Val{Kind: "leaflist", L: append(l[:2:2], l[1])}
		}
		return gn.Val{Kind: "leaflist", L: append(append([]gn.Val{}, l[r:]...), l[:r]...)}
	}
	return genVal(g.t)
}

// distinct makes a value that differs from everything the device said before: the text <prefix><serial> as a typed
// string, or - from a device that speaks the old encoding - inside a JSON / JSON_IETF / BYTES payload.
// paddable: only forms that Pad lengthens (string, JSON string literal, bytes).
func (g *tgen) distinct(prefix string, paddable bool) gn.Val {
	g.serial++
	s := fmt.Sprintf("%s%d", prefix, g.serial)
	if !g.speaksLegacy() {
		return gn.Val{Kind: "string", S: s}
	}
	k := rapid.IntRange(0, 7).Draw(g.t, "dkind")
	if paddable && k < 3 {
		k += 3
	}
	switch k {
	case 0:
		return gn.Val{Kind: "deprecated", S: fmt.Sprintf(`{"v":%q,"n":%d}`, s, g.serial)}
	case 1:
		return gn.Val{Kind: "deprecated", S: fmt.Sprintf(`[%q,%d,true,null]`, s, g.serial)}
	case 2:
		return gn.Val{Kind: "legacy-ietf", S: fmt.Sprintf(`%d`, g.serial)}
	case 3:
		return gn.Val{Kind: "legacy-bytes", S: s}
	case 4:
		return gn.Val{Kind: "legacy-ietf", S: fmt.Sprintf("%q", s)}
	default:
		return gn.Val{Kind: "deprecated", S: fmt.Sprintf("%q", s)}
	}
}

// fillEnc: how this device encodes the leaves of a bulk state.
func (g *tgen) fillEnc() string {
	if g.speaksLegacy() {
		return rapid.SampledFrom([]string{"json", "json", "ietf", "bytes"}).Draw(g.t, "fillenc")
	}
	return ""
}

// rewrite sends the plain leaf stored under k again with a new value (nothing if that is no longer possible).
func (g *tgen) rewrite(k string, v gn.Val) {
	o := keyToOp("update", gn.Unkey(k))
	o.Val = v
	if u := g.m.units[k]; g.conflict(opKey(o)) || (u != nil && u.Kind == "atomic") {
		return
	}
	g.emit(o)
}

// plainKeys: the plain leaves the device holds, without the bulk state (fill, bulk) and the harness's tick.
func (g *tgen) plainKeys() []string {
	var ks []string
	for _, k := range g.m.keys() {
		if p := gn.Unkey(k); g.m.units[k].Kind != "atomic" && len(p) > 1 && p[1] != "fill" && p[1] != "bulk" && p[1] != "tick" {
			ks = append(ks, k)
		}
	}
	return ks
}

func (g *tgen) emit(o Op) {
	g.dress(&o)
	g.ops = append(g.ops, o)
	g.m.apply(o, nil)
}

// What devices are seen to put into prefix.target besides nothing and the echoed name.
var hostNames = []string{"edge-router-1.example.net", "10.0.0.1:6030", "DEV0", "*", "dev", "r 1/a"}

// isMessage: the op is a notification the target sends.
func isMessage(kind string) bool {
	switch kind {
	case "update", "delete", "multi", "atomic", "group", "fill":
		return true
	}
	return false
}

// bare: the notification of this op has nothing to put into a prefix besides origin and target.
func bare(o Op) bool {
	switch o.Kind {
	case "update", "group":
		return len(o.Prefix) == 0
	case "delete", "multi", "fill":
		return true
	}
	return false
}

// dress draws what the device writes into the prefix of this notification besides the path elements - drawn anew
// for every notification, also one that is sent again: the default origin absent or spelled out, and prefix.target
// absent / echoed / the device's own name / the name of another configured target; sometimes no prefix at all.
// None of it changes where the collector has to file the notification.
func (g *tgen) dress(o *Op) {
	if !isMessage(o.Kind) {
		return
	}
	t := g.t
	if o.Origin == "" || o.Origin == "openconfig" {
		o.Origin = rapid.SampledFrom([]string{"", "", "openconfig"}).Draw(t, "porigin")
	}
	o.PTarget, o.NoPrefix = "", false
	switch k := rapid.IntRange(0, 8).Draw(t, "ptarget"); {
	case k <= 1:
	case k == 2:
		o.PTarget = g.name
	case k >= 7:
		o.NoPrefix = o.Origin == "" && bare(*o)
	case k <= 4 || len(g.peers) == 0:
		o.PTarget = rapid.SampledFrom(hostNames).Draw(t, "phost")
	default:
		o.PTarget = rapid.SampledFrom(g.peers).Draw(t, "ppeer")
	}
}

// conflict: storing k would put a leaf above or below a stored unit (the leaf set stays
// prefix-free by construction; conflicts belong to C02/C09).
func (g *tgen) conflict(k []string) bool {
	for s := range g.m.units {
		p := gn.Unkey(s)
		if gn.IsProperPrefix(p, k) || gn.IsProperPrefix(k, p) {
			return true
		}
	}
	return false
}

func (g *tgen) containers() []string {
	var ks []string
	for _, k := range g.m.keys() {
		if g.m.units[k].Kind == "atomic" {
			ks = append(ks, k)
		}
	}
	return ks
}

// deleteAddressesWholeUnits: a delete must remove an atomic container completely or not at all
// (the collector keeps it as one leaf at its prefix; a device cannot drop part of an atomic group).
func (g *tgen) deleteAddressesWholeUnits(pat []string) bool {
	for _, ck := range g.containers() {
		whole := gn.Matches(pat, gn.Unkey(ck))
		for _, up := range g.m.units[ck].Ups {
			if gn.Matches(pat, append(gn.Unkey(ck), gn.IndexOfElems(up.Path, false)...)) != whole {
				return false
			}
		}
	}
	return true
}

func keyToOp(kind string, leaf []string) Op {
	o := Op{Kind: kind, Origin: leaf[0]}
	if o.Origin == "openconfig" {
		o.Origin = ""
	}
	for _, e := range leaf[1:] {
		o.Path = append(o.Path, gn.Elem{Name: e})
	}
	return o
}

// delete addresses an existing unit exactly, its parent subtree, or through a glob.
func (g *tgen) delete() {
	t := g.t
	ks := g.m.keys()
	if len(ks) == 0 {
		return
	}
	leaf := gn.Unkey(ks[rapid.IntRange(0, len(ks)-1).Draw(t, "dwhich")])
	p := leaf[1:]
	switch rapid.IntRange(0, 3).Draw(t, "dshape") {
	case 1:
		if len(p) > 1 {
			p = p[:len(p)-1]
		}
	case 2:
		p = append([]string{}, p...)
		p[rapid.IntRange(0, len(p)-1).Draw(t, "globat")] = "*"
	case 3:
		p = []string{"*"}
	}
	o := keyToOp("delete", append([]string{leaf[0]}, p...))
	if !g.deleteAddressesWholeUnits(opKey(o)) {
		return
	}
	g.emit(o)
}

// update writes a new plain leaf, overwrites a stored one, or does so inside a "replace" notification.
func (g *tgen) update() {
	t := g.t
	o := Op{Kind: "update", Origin: rapid.SampledFrom([]string{"", "", "oc2"}).Draw(t, "origin"), Element: rapid.IntRange(0, 5).Draw(t, "element") == 0}
	o.Prefix = genElems(t, 0, 1, false)
	o.Path = genElems(t, 1, 2, false)
	if ks := g.m.keys(); rapid.IntRange(0, 2).Draw(t, "again") == 0 && len(ks) > 0 {
		// overwrite an existing leaf with a new value (a container: send it again)
		k := ks[rapid.IntRange(0, len(ks)-1).Draw(t, "which")]
		if g.m.units[k].Kind == "atomic" {
			g.resendAtomic(k)
			return
		}
		o = keyToOp("update", gn.Unkey(k))
	}
	o.Val = g.val()
	k := opKey(o)
	if g.conflict(k) {
		return
	}
	if u := g.m.units[gn.Key(k)]; u != nil && u.Kind == "atomic" {
		return
	}
	if !o.Element && rapid.IntRange(0, 4).Draw(t, "replace") == 0 {
		// a "replace": the same notification deletes a subtree that covers this update
		o.Kind = "multi"
		o.Cut = rapid.IntRange(1, len(o.Prefix)+len(o.Path)).Draw(t, "cut")
		if !g.deleteAddressesWholeUnits(delKeyOfMulti(o)) {
			return
		}
	}
	g.emit(o)
}

func (g *tgen) ups(base []string, min, max int) []Up {
	t := g.t
	var out []Up
	var idx [][]string
	for i := rapid.IntRange(min, max).Draw(t, "nups"); i > 0; i-- {
		u := Up{Path: genElems(t, 1, 2, false), Val: g.val()}
		k := gn.IndexOfElems(u.Path, false)
		ok := true
		for _, p := range idx {
			if gn.Key(p) == gn.Key(k) || gn.IsProperPrefix(p, k) || gn.IsProperPrefix(k, p) {
				ok = false
			}
		}
		if base != nil {
			full := append(append([]string{}, base...), k...)
			if u := g.m.units[gn.Key(full)]; g.conflict(full) || (u != nil && u.Kind == "atomic") {
				ok = false
			}
		}
		if ok {
			idx = append(idx, k)
			out = append(out, u)
		}
	}
	return out
}

// atomic creates a container: one atomic notification with 2-6 updates below a prefix with at least one element.
func (g *tgen) atomic() bool {
	t := g.t
	o := Op{Kind: "atomic", Origin: rapid.SampledFrom([]string{"", "", "oc2"}).Draw(t, "origin"), Prefix: genElems(t, 1, 2, false)}
	k := contKey(o)
	if g.conflict(k) || g.m.units[gn.Key(k)] != nil {
		return false
	}
	o.Ups = g.ups(nil, 2, 6)
	if len(o.Ups) < 2 {
		return false
	}
	g.emit(o)
	return true
}

// resendAtomic sends a stored container again, same updates, some values changed — mostly not the first one's.
func (g *tgen) resendAtomic(k string) {
	t := g.t
	old := g.m.units[k]
	o := *old
	o.Ups = append([]Up{}, old.Ups...)
	for i := range o.Ups {
		odds := 1 // every other update changes ...
		if i == 0 {
			odds = 3 // ... the first one rarely: what else a coalesced delivery carries is the point
		}
		if rapid.IntRange(0, odds).Draw(t, "achange") == 0 {
			o.Ups[i].Val = g.val()
			if rapid.Bool().Draw(t, "aserial") {
				o.Ups[i].Val = g.distinct("v", false)
			}
		}
	}
	g.emit(o)
}

// group sends one plain notification with several updates, or sends an earlier one again with some values changed.
func (g *tgen) group() {
	t := g.t
	if len(g.groups) > 0 && rapid.Bool().Draw(t, "gresend") {
		old := g.groups[rapid.IntRange(0, len(g.groups)-1).Draw(t, "gwhich")]
		o := old
		o.Ups = append([]Up{}, old.Ups...)
		for i := range o.Ups {
			if rapid.Bool().Draw(t, "gchange") {
				o.Ups[i].Val = g.distinct("g", false)
			}
			full := opKey(Op{Origin: o.Origin, Prefix: o.Prefix, Path: o.Ups[i].Path})
			if u := g.m.units[gn.Key(full)]; g.conflict(full) || (u != nil && u.Kind == "atomic") {
				return
			}
		}
		g.emit(o)
		return
	}
	o := Op{Kind: "group", Origin: rapid.SampledFrom([]string{"", "", "oc2"}).Draw(t, "origin"), Prefix: genElems(t, 0, 2, false)}
	o.Ups = g.ups(contKey(o), 2, 5)
	if len(o.Ups) < 2 {
		return
	}
	g.groups = append(g.groups, o)
	g.emit(o)
}

// step appends (at most) one randomly chosen message.
func (g *tgen) step() {
	t := g.t
	if rapid.IntRange(0, 3).Draw(t, "isdelete") == 0 && len(g.m.units) > 0 {
		g.delete()
		return
	}
	switch rapid.IntRange(0, 9).Draw(t, "shape") {
	case 0:
		if cs := g.containers(); len(cs) > 0 && rapid.IntRange(0, 2).Draw(t, "aresend") > 0 {
			g.resendAtomic(cs[rapid.IntRange(0, len(cs)-1).Draw(t, "awhich")])
		} else {
			g.atomic()
		}
	case 1:
		g.group()
	default:
		g.update()
	}
}

// targetNames: the configured names of n targets; peersOf: all but the i-th.
func targetNames(n int) []string {
	var out []string
	for i := 0; i < n; i++ {
		out = append(out, fmt.Sprintf("dev%d", i))
	}
	return out
}

func peersOf(names []string, i int) []string {
	var out []string
	for j, n := range names {
		if j != i {
			out = append(out, n)
		}
	}
	return out
}

// genTarget generates the i-th of the configured targets (of: how many there are).
func genTarget(t *rapid.T, i, of, servers, requests int) Target {
	tg := Target{Name: targetNames(of)[i], Server: rapid.IntRange(0, servers-1).Draw(t, "server"), Request: rapid.IntRange(0, requests-1).Draw(t, "request")}
	g := newTgen(t, tg.Name, peersOf(targetNames(of), i))
	n := rapid.IntRange(2, 10).Draw(t, "nops")
	syncAt := rapid.IntRange(0, n).Draw(t, "syncat")
	for j := 0; j < n; j++ {
		if j == syncAt {
			g.emit(Op{Kind: "sync"})
		}
		g.step()
	}
	if syncAt >= n {
		g.emit(Op{Kind: "sync"})
	}
	tg.Ops, tg.Legacy = g.ops, g.legacy
	return tg
}

func sortStrings(s []string) {
	for i := 1; i < len(s); i++ {
		for j := i; j > 0 && s[j] < s[j-1]; j-- {
			s[j], s[j-1] = s[j-1], s[j]
		}
	}
}

func genScenario(t *rapid.T) *Scenario {
	sc := &Scenario{Servers: rapid.IntRange(1, 2).Draw(t, "servers"), Requests: rapid.IntRange(1, 2).Draw(t, "requests"), Subtree: rapid.IntRange(0, 5).Draw(t, "subtree")}
	n := rapid.IntRange(1, 3).Draw(t, "ntargets")
	for i := 0; i < n; i++ {
		sc.Targets = append(sc.Targets, genTarget(t, i, n, sc.Servers, sc.Requests))
	}
	sc.Reuse = genReuse(t, sc.Targets)
	return sc
}
