package e2e

import (
	"fmt"

	"pgregory.net/rapid"
	"verif/harness/internal/gn"
)

// The "size" part: single SubscribeResponses that are unusually LARGE. A gNMI notification may carry any number
// of updates and values of any length; devices dump whole tables (initial sync, all counters) in one notification.
// The scripts of this part are short, and one or two of their messages are big: a notification with a few very
// large string/bytes values (0.5-3 MiB each, more than 4 MiB - sometimes more than 8 MiB - in one response), as a
// plain notification or as an atomic container (which the collector hands on to its subscribers in ONE response,
// too); a notification with thousands of updates (small ones, or of a size that takes the response above 4 MiB);
// rarely one leaf whose value alone is above 4 MiB. They are sent in the burst before the target's sync_response
// and/or after it, while client-library observers stream through the collector. A target that is subscribed to
// again reports such state the way it sent it (one response). The oracle is the one of every part.

const (
	kib = 1 << 10
)

type sizeParams struct {
	maxCount int // most updates in one notification
	maxBytes int // largest notification by count x value length (bytes)
}

type sizeGen struct {
	t      *rapid.T
	p      sizeParams
	g      *tgen
	ver    int
	serial int
}

// legacyForm: a large string/bytes value as a device that speaks the old value encoding sends it - a JSON string
// literal or a BYTES payload in the deprecated Update.value field (Pad lengthens both).
func (f *sizeGen) legacyForm(v gn.Val) gn.Val {
	if !f.g.speaksLegacy() {
		return v
	}
	if v.Kind == "bytes" {
		return gn.Val{Kind: "legacy-bytes", S: v.S}
	}
	return gn.Val{Kind: rapid.SampledFrom([]string{"deprecated", "deprecated", "legacy-ietf"}).Draw(f.t, "bigenc"), S: fmt.Sprintf("%q", v.S)}
}

// values: one notification with 2-5 very large values below big/c[id=k] - plain (group) or atomic.
func (f *sizeGen) values() bool {
	t, g := f.t, f.g
	kind := rapid.SampledFrom([]string{"group", "atomic"}).Draw(t, "bigkind")
	o := Op{Kind: kind, Origin: rapid.SampledFrom([]string{"", "", "oc2"}).Draw(t, "origin"),
		Prefix: []gn.Elem{{Name: "big"}, {Name: "c", Keys: map[string]string{"id": fmt.Sprint(rapid.IntRange(0, 1).Draw(t, "bigid"))}}}}
	k := contKey(o)
	if old := g.m.units[gn.Key(k)]; old != nil {
		if kind != "atomic" {
			return false
		}
	} else if g.conflict(k) {
		// the subtree holds plain leaves (or the container): a group may write there again, a container may not be put on top
		if kind == "atomic" {
			return false
		}
	}
	n := rapid.IntRange(2, 5).Draw(t, "nbig")
	small := rapid.IntRange(0, 2).Draw(t, "smallmember") == 0
	if old := g.m.units[gn.Key(k)]; old != nil && old.Kind == "atomic" {
		// a container is sent again with the members it has (as tgen.resendAtomic does): a device cannot drop part of an
		// atomic group by leaving it out - nothing it streams says so, and a client's merged view keeps the member
		n, small = 0, false
		for _, u := range old.Ups {
			if len(u.Path) == 1 && u.Path[0].Name == "state" {
				small = true
			} else {
				n++
			}
		}
	}
	for i := 0; i < n; i++ {
		f.serial++
		v := gn.Val{Kind: "string", S: fmt.Sprintf("s%d-", f.serial)}
		if rapid.IntRange(0, 2).Draw(t, "asbytes") == 0 {
			v = gn.Val{Kind: "bytes", S: fmt.Sprintf("b%d-", f.serial)}
		}
		v = f.legacyForm(v)
		pads := []int{512 * kib, mib, mib + 300*kib, 3 * mib / 2, 2 * mib, 3 * mib}
		if f.p.maxBytes >= 20*mib {
			// thorough tier: containers beyond 16 MiB (a limit a receiver might think generous), single values of 6 MiB
			pads = append(pads, 4*mib, 6*mib)
		}
		pad := rapid.SampledFrom(pads).Draw(t, "bigpad")
		u := Up{Path: []gn.Elem{{Name: fmt.Sprintf("v%d", i)}}, Val: v, Pad: pad}
		if kind == "group" {
			full := append(append([]string{}, k...), gn.IndexOfElems(u.Path, false)...)
			if un := g.m.units[gn.Key(full)]; g.conflict(full) || (un != nil && un.Kind == "atomic") {
				return false
			}
		}
		o.Ups = append(o.Ups, u)
	}
	if small {
		o.Ups = append(o.Ups, Up{Path: []gn.Elem{{Name: "state"}}, Val: g.val()})
	}
	g.emit(o)
	return true
}

// table: one notification (or two, or four) with thousands of updates.
func (f *sizeGen) table() bool {
	t, g := f.t, f.g
	counts := []int{1000, 2000, 3000, 5000, 8000}
	for _, c := range []int{12000, 20000, 50000, 100000} {
		if c <= f.p.maxCount {
			counts = append(counts, c)
		}
	}
	n := rapid.SampledFrom(counts).Draw(t, "count")
	pad := rapid.SampledFrom([]int{0, 0, 100, 400, 1000, 2500}).Draw(t, "countpad")
	if max := f.p.maxBytes/n - 60; pad > max {
		pad = max
		if pad < 0 {
			pad = 0
		}
	}
	f.ver++
	o := Op{Kind: "fill", N: n, Ver: f.ver, Pad: pad, Bulk: n / rapid.SampledFrom([]int{1, 1, 1, 2, 4}).Draw(t, "split"), Enc: g.fillEnc()}
	if g.conflict([]string{"openconfig", "fill", "e", "0", "v"}) {
		return false
	}
	g.emit(o)
	return true
}

// single: one leaf whose value alone is above 4 MiB.
func (f *sizeGen) single() bool {
	t, g := f.t, f.g
	f.serial++
	v := gn.Val{Kind: "string", S: fmt.Sprintf("one%d-", f.serial)}
	if rapid.IntRange(0, 2).Draw(t, "asbytes") == 0 {
		v.Kind = "bytes"
	}
	v = f.legacyForm(v)
	o := Op{Kind: "update", Path: []gn.Elem{{Name: "huge"}, {Name: "blob"}}, Val: v, Pad: rapid.SampledFrom([]int{4*mib + 100*kib, 5 * mib, 9 * mib}).Draw(t, "hugepad")}
	if g.conflict(opKey(o)) {
		return false
	}
	g.emit(o)
	return true
}

func (f *sizeGen) big() {
	for tries := 0; tries < 4; tries++ {
		ok := false
		switch k := rapid.IntRange(0, 9).Draw(f.t, "bigshape"); {
		case k < 5:
			ok = f.values()
		case k < 9:
			ok = f.table()
		default:
			ok = f.single()
		}
		if ok {
			return
		}
	}
}

func genSizeScenario(t *rapid.T, p sizeParams) *Scenario {
	sc := &Scenario{Servers: rapid.IntRange(1, 2).Draw(t, "servers"), Requests: rapid.IntRange(1, 2).Draw(t, "requests"), Subtree: rapid.IntRange(0, 5).Draw(t, "subtree")}
	nt := rapid.SampledFrom([]int{1, 1, 1, 2}).Draw(t, "ntargets")
	names := targetNames(nt)
	tg := Target{Name: names[0], Server: rapid.IntRange(0, sc.Servers-1).Draw(t, "server"), Request: rapid.IntRange(0, sc.Requests-1).Draw(t, "request")}
	f := &sizeGen{t: t, p: p, g: newTgen(t, tg.Name, peersOf(names, 0))}
	g := f.g
	// client-library observers that stream through the collector while the script plays
	for n := rapid.IntRange(0, 2).Draw(t, "nobs"); n > 0; n-- {
		sc.Observers = append(sc.Observers, Observer{Scope: rapid.SampledFrom([]int{0, 0, -1}).Draw(t, "scope"), Clock: 0, Library: rapid.Bool().Draw(t, "library")})
	}
	when := rapid.SampledFrom([]string{"burst", "stream", "stream", "both"}).Draw(t, "when")
	for x := rapid.IntRange(1, 3).Draw(t, "pre"); x > 0; x-- {
		g.step()
	}
	if when != "stream" {
		f.big()
		for x := rapid.IntRange(0, 1).Draw(t, "mid"); x > 0; x-- {
			g.step()
		}
	}
	g.emit(Op{Kind: "sync"})
	for i := range sc.Observers {
		g.emit(Op{Kind: "await", Obs: i, Event: "sync"})
	}
	for x := rapid.IntRange(1, 2).Draw(t, "post"); x > 0; x-- {
		g.step()
	}
	if when != "burst" {
		f.big()
	}
	if rapid.IntRange(0, 5).Draw(t, "broken") == 0 {
		// the stream breaks: the device reports its state - the big parts as it sent them - on the next one
		g.emit(Op{Kind: "break", Via: "error"})
	}
	for x := rapid.IntRange(1, 3).Draw(t, "tail"); x > 0; x-- {
		if rapid.IntRange(0, 2).Draw(t, "drop") == 0 {
			g.delete() // part of what the device holds (mostly of its big state) goes away again
			continue
		}
		g.step()
	}
	tg.Ops, tg.Legacy = g.ops, g.legacy
	sc.Targets = append(sc.Targets, tg)
	for i := 1; i < nt; i++ {
		sc.Targets = append(sc.Targets, genTarget(t, i, nt, sc.Servers, sc.Requests))
	}
	for i := range sc.Observers {
		if rapid.IntRange(0, 3).Draw(t, "narrow") == 0 {
			sc.Observers[i].Queries = newQueryGen(sc.Targets, sc.Observers[i].Scope).paths(t)
		}
	}
	sc.Reuse = genReuse(t, sc.Targets)
	return sc
}
