package e2e

import (
	"context"
	"crypto/tls"
	"encoding/json"
	"fmt"
	"hash/crc32"
	"os"
	"path/filepath"
	"reflect"
	"sort"
	"strings"
	"sync"
	"time"

	"github.com/openconfig/gnmi/client"
	gclient "github.com/openconfig/gnmi/client/gnmi"
	pb "github.com/openconfig/gnmi/proto/gnmi"
	tpb "github.com/openconfig/gnmi/proto/target"
	"github.com/openconfig/gnmi/value"
	"google.golang.org/protobuf/encoding/prototext"
	"verif/harness/internal/gn"
)

const sentinelName = "zz-sentinel"

type stats struct {
	kinds                                                map[string]bool
	keyed, origin, element, deleteAfterSync, multiTarget bool
	sharedServer, sharedRequest, cliChecked, retried     bool
	cliKeyedQuery, replaceNoti, cliSlashQuery            bool
	leaves                                               int
	// what the scripts contain beyond single updates and deletes
	atomic, atomicResent, atomicTailChanged, group, groupResent, padded, breakLoses bool
	fill, breaks                                                                    int
	breakVia, aimed, breakCode                                                      map[string]bool
	collectorSideLoses, recvTimeout, slashPath, unscriptedEnd                       bool
	// client queries that address part of a target, one Query value used for several subscriptions
	narrowObserver, slashQuery, bracketQuery, onceFirst, reconnectObserver, cutsDone, cutNoEffect, resubscribed bool
	reuse, reuseSlash                                                                                           bool
	lastAwait                                                                                                   string // the op before the one being interpreted was an await for this event
	aimedBig                                                                                                    bool
	// what the observers that lived while the scripts played went through (schedule dependent; labels only)
	observers                                                                    int
	slowObserver, paused, coalesced, coalescedAtPaused, coalescedAtomic          bool
	wildBeforeSync, whileDown, pauseByBound, boundHit, lateObserver, reconnected bool
	// what the devices write into the prefix of their notifications (self, names: whose script is being interpreted)
	self                                                        string
	names                                                       map[string]bool
	ptEmpty, ptEcho, ptHost, ptPeer, noPrefix, originSpelledOut bool
	ptVaries                                                    map[string]map[string]bool // target -> prefix.target values it used
	// quiet periods in real time: the longest scripted one, the collector's periodic metadata off, and what observers went through
	quietMs                               int
	noMeta, libraryObserver, idleObserver bool
	longestIdle                           time.Duration
	// how the collector reaches its targets: what the configured address lists contain, and which dead addresses were dialled
	multiAddr, deadBeforeLive, liveFirst, addrTwice, addrChain, deadDialled, shortDialTimeout bool
	deadPerTarget                                                                             int
	deadKinds                                                                                 map[string]bool
	deadUsers                                                                                 map[string]map[string]bool // dead endpoint -> targets that list it
	// message sizes: the largest single SubscribeResponses the targets sent (measured where they are sent)
	sizes sizeStats
	// values in the deprecated Update.value field: what the scripts contain ...
	legacyTargets, typedTargets                                                      int
	legacyRewrite, legacyAtomic, legacyAtomicFirst, legacyAtomicResent, legacyGroup  bool
	legacyMulti, legacyFill, legacyAcrossBreak, legacyFinal, legacyPadded, legacyHot bool
	legacyEnc, legacyShapes                                                          map[string]bool
	// ... and what the schedule made of them (labels only): a coalesced delivery (duplicate count > 0) of a leaf whose
	// final value is a legacy one; that delivery carrying the final value (the coalesced re-send is the last word on the
	// leaf); the same at an observer whose handler had been blocked
	coalescedLegacy, coalescedLegacyLast, coalescedLegacyLastBlocked bool
}

// noteLegacy records what a value in the deprecated field looks like.
func (s *stats) noteLegacy(v gn.Val, pad int) {
	if s.legacyEnc == nil {
		s.legacyEnc, s.legacyShapes = map[string]bool{}, map[string]bool{}
	}
	switch v.Kind {
	case "legacy-bytes":
		s.legacyEnc["bytes"] = true
	case "legacy-ietf":
		s.legacyEnc["json-ietf"] = true
		s.legacyShapes[jsonShape(v.S)] = true
	default:
		s.legacyEnc["json"] = true
		s.legacyShapes[jsonShape(v.S)] = true
	}
	if pad > 0 {
		s.legacyPadded = true
	}
}

// bigResponse: some target sent a single SubscribeResponse above 4 MiB or with >= 1000 updates.
func (s *stats) bigResponse() bool {
	z := s.sizes
	return z.over4Burst || z.over4Stream || z.manyBurst || z.manyStream
}

// notePrefix records what kind of prefix.target / origin a scripted notification carries.
func (s *stats) notePrefix(o Op) {
	switch {
	case o.NoPrefix && o.Origin == "" && o.PTarget == "" && bare(o):
		s.noPrefix = true
	case o.PTarget == "":
		s.ptEmpty = true
	case o.PTarget == s.self:
		s.ptEcho = true
	case s.names[o.PTarget]:
		s.ptPeer = true
	default:
		s.ptHost = true
	}
	if o.Origin == "openconfig" {
		s.originSpelledOut = true
	}
	if s.ptVaries != nil {
		if s.ptVaries[s.self] == nil {
			s.ptVaries[s.self] = map[string]bool{}
		}
		s.ptVaries[s.self][o.PTarget] = true
	}
}

func (s *stats) nontrivial() bool {
	return len(s.kinds) >= 2 && (s.keyed || s.origin) && s.deleteAfterSync
}

func (s *stats) labels() []string {
	var l []string
	add := func(b bool, n string) {
		if b {
			l = append(l, n)
		}
	}
	for k := range s.kinds {
		l = append(l, "value-"+k)
	}
	add(s.keyed, "keyed-path")
	add(s.origin, "origin-in-prefix")
	add(s.element, "deprecated-element-encoding")
	add(s.deleteAfterSync, "delete-after-sync")
	add(s.multiTarget, "multiple-targets")
	add(s.sharedServer, "targets-share-an-address")
	add(s.sharedRequest, "targets-share-a-request")
	add(s.cliChecked, "cli-three-invocations-compared")
	add(s.cliKeyedQuery, "cli-query-with-list-key")
	add(s.cliSlashQuery, "cli-query-with-slash-in-key-value")
	add(s.replaceNoti, "notification-with-delete-and-updates")
	add(s.retried, "rerun-after-slow-quiescence")
	add(s.leaves == 0, "empty-final-state")
	add(s.atomic, "atomic-notification")
	add(s.atomicResent, "atomic-notification-sent-again")
	add(s.atomicTailChanged, "atomic-sent-again-with-a-later-update-changed")
	add(s.group, "notification-with-several-updates")
	add(s.groupResent, "several-updates-notification-sent-again")
	add(s.padded, "large-values")
	add(s.fill >= 1000, "bulk-state>=1000-leaves")
	add(s.breaks > 0, "target-stream-breaks")
	add(s.breaks > 1, "target-stream-breaks-twice")
	for v := range s.breakVia {
		l = append(l, "stream-break-via-"+v)
	}
	for v := range s.aimed {
		l = append(l, "stream-break-when-an-attaching-observer-reached-"+v)
	}
	add(s.aimedBig, "stream-break-at-registration-or-first-update-of-a-walk-over>=1000-leaves")
	add(s.breakLoses, "leaves-lost-while-disconnected")
	add(s.collectorSideLoses, "leaves-lost-across-a-break-made-by-the-collector")
	for v := range s.breakCode {
		l = append(l, "stream-ends-with-status-"+v)
	}
	add(s.recvTimeout, "target-with-receive-timeout")
	add(s.unscriptedEnd, "receive-timeout-fired-unscripted")
	add(s.slashPath, "path-element-or-key-with-slash")
	add(s.narrowObserver, "observer-with-query-paths")
	add(s.slashQuery, "observer-query-with-slash")
	add(s.bracketQuery, "observer-query-with-key-syntax")
	add(s.onceFirst, "observer-once-then-stream-with-one-query-value")
	add(s.reconnectObserver, "reconnecting-observer")
	add(s.cutsDone, "observer-connection-cut")
	add(s.cutNoEffect, "observer-connection-cut-without-effect")
	add(s.resubscribed, "observer-subscribed-again-with-the-same-query-value")
	add(s.reuse, "one-query-value-for-several-subscriptions-after-quiescence")
	add(s.reuseSlash, "reused-query-value-with-slash")
	add(s.reconnected, "collector-subscribed-again")
	add(s.observers > 0, "observers-while-the-scripts-play")
	add(s.observers >= 4, "observers>=4")
	add(s.lateObserver, "observer-attached-mid-script")
	add(s.slowObserver, "observer-with-static-windows")
	add(s.paused, "observer-handler-blocked")
	add(s.coalesced, "coalesced-delivery-observed")
	add(s.coalescedAtPaused, "coalesced-delivery-at-blocked-observer")
	add(s.coalescedAtomic, "coalesced-atomic-delivery-observed")
	add(s.wildBeforeSync, "origin-wide-delete-inside-an-initial-walk")
	add(s.whileDown, "observer-attached-while-target-disconnected")
	add(s.pauseByBound, "handler-released-by-wall-clock-bound")
	add(s.boundHit, "some-bounded-wait-ended-by-its-bound")
	add(s.noPrefix, "notification-without-prefix")
	add(s.ptEmpty, "prefix-target-empty")
	add(s.ptEcho, "prefix-target-echoes-the-configured-name")
	add(s.ptHost, "prefix-target-is-the-devices-own-name")
	add(s.ptPeer, "prefix-target-names-another-configured-target")
	add(s.originSpelledOut, "prefix-origin-openconfig-spelled-out")
	varies := false
	for _, vs := range s.ptVaries {
		varies = varies || len(vs) >= 3
	}
	add(varies, "prefix-target-differs-between-notifications-of-one-target")
	add(s.quietMs >= 30000, "target-silent>=30s-real-time")
	add(s.noMeta, "collector-without-periodic-metadata")
	add(s.libraryObserver, "observer-dialled-by-the-client-library")
	add(s.idleObserver, "observer-stream-idle>=33s-then-updated")
	add(s.multiAddr, "target-with-several-addresses")
	add(s.deadBeforeLive, "dead-address-listed-before-the-live-one")
	add(s.liveFirst && s.multiAddr, "live-address-listed-first")
	add(s.deadPerTarget >= 2, "target-with>=2-dead-addresses")
	add(s.addrTwice, "address-listed-twice")
	add(s.addrChain, "address-chain")
	add(s.deadDialled, "collector-dialled-a-dead-address")
	add(s.shortDialTimeout, "collector-with-short-dial-timeout")
	for k := range s.deadKinds {
		l = append(l, "dead-address-"+k)
	}
	for _, us := range s.deadUsers {
		add(len(us) > 1, "dead-address-shared-by-targets")
	}
	z := s.sizes
	add(z.over4Burst, "response>4MiB-in-the-sync-burst")
	add(z.over4Stream, "response>4MiB-after-sync")
	add(z.over8, "response>8MiB")
	add(z.manyBurst, "response-with>=1000-updates-in-the-sync-burst")
	add(z.manyStream, "response-with>=1000-updates-after-sync")
	add(z.maxUpdates >= 5000, "response-with>=5000-updates")
	add(z.over4Atomic, "atomic-container>4MiB")
	add(z.over16Atomic, "atomic-container>16MiB")
	add(z.over4WhileObserved, "response>4MiB-while-an-observer-streams")
	add(z.resentOnAgain, "response>4MiB-on-a-later-stream")
	add(z.maxValue >= mib/2, "value>=512KiB")
	add(z.maxValue > 4*mib, "single-value>4MiB")
	add(z.bigString, "large-string-value")
	add(z.bigBytes, "large-bytes-value")
	add(z.bigLegacy, "legacy-value>=512KiB")
	add(s.legacyTargets > 0, "target-speaking-the-legacy-value-encoding")
	add(s.legacyTargets > 0 && s.typedTargets > 0, "legacy-and-typed-targets-behind-one-collector")
	for k := range s.legacyEnc {
		l = append(l, "legacy-value-encoding-"+k)
	}
	for k := range s.legacyShapes {
		l = append(l, "legacy-json-"+k)
	}
	add(s.legacyRewrite, "legacy-value-overwrites-legacy-value")
	add(s.legacyAtomic, "legacy-value-in-atomic-container")
	add(s.legacyAtomicFirst, "legacy-value-first-in-atomic-container")
	add(s.legacyAtomicResent, "atomic-container-with-legacy-first-value-sent-again")
	add(s.legacyGroup, "legacy-value-in-notification-with-several-updates")
	add(s.legacyMulti, "legacy-value-in-notification-with-delete-and-update")
	add(s.legacyFill, "bulk-state-in-legacy-encoding")
	add(s.legacyPadded, "large-legacy-value")
	add(s.legacyAcrossBreak, "legacy-values-reported-again-after-a-stream-break")
	add(s.legacyFinal, "final-state-holds-legacy-values")
	add(s.legacyHot, "legacy-leaf-written>=2-times-inside-an-observers-pause-and-never-after")
	add(s.coalescedLegacy, "coalesced-delivery-of-legacy-leaf-observed")
	add(s.coalescedLegacyLast, "coalesced-legacy-delivery-is-the-last-word-on-its-leaf")
	add(s.coalescedLegacyLastBlocked, "coalesced-legacy-delivery-is-the-last-word-at-blocked-observer")
	l = dedup(l)
	sort.Strings(l)
	return l
}

func dedup(l []string) []string {
	seen := map[string]bool{}
	out := l[:0]
	for _, x := range l {
		if !seen[x] {
			seen[x] = true
			out = append(out, x)
		}
	}
	return out
}

// scalarOf is the Go value the client library documents for a TypedValue of this spec.
func scalarOf(v gn.Val) interface{} {
	switch v.Kind {
	case "string":
		return v.S
	case "int":
		return v.I
	case "uint":
		return uint64(v.I)
	case "bool":
		return v.B
	case "bytes":
		return []byte(v.S)
	case "float":
		return float32(v.F)
	case "double":
		return v.F
	case "decimal":
		d := float64(v.I)
		for i := 0; i < int(v.F); i++ {
			d /= 10
		}
		return float32(d)
	case "leaflist":
		out := make([]interface{}, 0, len(v.L))
		for _, e := range v.L {
			out = append(out, scalarOf(e))
		}
		return out
	case "json", "jsonietf":
		var i interface{}
		json.Unmarshal([]byte(v.S), &i)
		msg := "Deprecated TypedValue_JsonVal"
		if v.Kind == "jsonietf" {
			msg = "Deprecated TypedValue_JsonIetfVal"
		}
		return value.DeprecatedScalar{Message: msg, Value: i}
	case "deprecated", "legacy-ietf":
		// Update.value with encoding JSON / JSON_IETF: the client hands the application the decoded JSON value
		// (json.Unmarshal into an `any`, no wrapper)
		var i interface{}
		if err := json.Unmarshal([]byte(v.S), &i); err != nil {
			panic(fmt.Sprintf("e2e: generated JSON value %q does not parse: %v", cut(v.S), err))
		}
		return i
	case "legacy-bytes":
		// Update.value with encoding BYTES: the payload as it is
		return []byte(v.S)
	}
	return nil
}

// reference interprets the scripts: key (with target) -> Go scalar.
func reference(sc *Scenario, st *stats) map[string]interface{} {
	ref := map[string]interface{}{}
	st.kinds, st.breakVia, st.aimed, st.breakCode = map[string]bool{}, map[string]bool{}, map[string]bool{}, map[string]bool{}
	servers, requests := map[int]int{}, map[int]int{}
	st.names, st.ptVaries, st.noMeta = map[string]bool{}, map[string]map[string]bool{}, sc.NoMeta
	st.deadKinds, st.deadUsers = map[string]bool{}, map[string]map[string]bool{}
	st.shortDialTimeout = sc.DialTimeoutMs > 0 && sc.DialTimeoutMs < 5000
	for _, tg := range sc.Targets {
		st.names[tg.Name] = true
	}
	for _, tg := range sc.Targets {
		st.self = tg.Name
		servers[tg.Server]++
		requests[tg.Request]++
		st.recvTimeout = st.recvTimeout || tg.RecvTimeoutMs > 0
		m := newModel()
		for _, o := range tg.Ops {
			m.apply(o, st)
		}
		m.leaves(tg.Name, ref)
		speaks := false
		for _, u := range m.units {
			st.legacyFinal = st.legacyFinal || legacyAny(u)
		}
		for _, k := range st.kindsOf(tg) {
			speaks = speaks || isLegacy(k)
		}
		if speaks {
			st.legacyTargets++
		} else {
			st.typedTargets++
		}
		st.noteHot(sc, tg, m)
	}
	for _, n := range servers {
		if n > 1 {
			st.sharedServer = true
		}
	}
	for _, n := range requests {
		if n > 1 {
			st.sharedRequest = true
		}
	}
	st.multiTarget = len(sc.Targets) > 1
	st.leaves = len(ref)
	return ref
}

// kindsOf: the value kinds a target's script carries.
func (s *stats) kindsOf(tg Target) []string {
	seen := map[string]bool{}
	for _, o := range tg.Ops {
		switch o.Kind {
		case "update", "multi":
			seen[o.Val.Kind] = true
		case "atomic", "group":
			for _, u := range o.Ups {
				seen[u.Val.Kind] = true
			}
		case "fill":
			seen[fillVal(o, 0).Kind] = true
		}
	}
	var out []string
	for k := range seen {
		out = append(out, k)
	}
	sort.Strings(out)
	return out
}

// noteHot looks for the slow-consumer shape in the scripts (schedule independent): an observer that watches tg and takes
// its pauses from tg's script positions; a unit written at least twice by the ops tg starts while the handler is blocked
// (ops From..Until-1) and by no later op; and the unit's final head value - the update a coalesced delivery carries its
// duplicate count on - is a legacy one. Whether the collector did coalesce is the schedule's business (see the
// coalesced-legacy-... labels).
func (s *stats) noteHot(sc *Scenario, tg Target, final *model) {
	for _, ob := range sc.Observers {
		clock := sc.Targets[0].Name
		if ob.Clock >= 0 {
			clock = sc.Targets[ob.Clock%len(sc.Targets)].Name
		}
		if clock != tg.Name || (ob.Scope >= 0 && sc.Targets[ob.Scope%len(sc.Targets)].Name != tg.Name) {
			continue
		}
		for _, p := range ob.Pauses {
			inside, after := map[string]int{}, map[string]bool{}
			for i := p.From; i < len(tg.Ops); i++ {
				if i < 0 {
					continue
				}
				if tg.Ops[i].Kind == "break" {
					// the device reports its state again afterwards: the coalesced delivery is not the last word
					inside = nil
					break
				}
				for _, k := range written(tg.Ops[i]) {
					if i < p.Until {
						inside[k]++
					} else {
						after[k] = true
					}
				}
			}
			for k, n := range inside {
				if u := final.units[k]; n >= 2 && !after[k] && u != nil && final.legacyHead(u) {
					s.legacyHot = true
				}
			}
		}
	}
}

// delKeyOfMulti is the index of the delete path of a "multi" op: the first Cut elements of its update path.
func delKeyOfMulti(o Op) []string {
	origin := o.Origin
	if origin == "" {
		origin = "openconfig"
	}
	all := append(append([]gn.Elem{}, o.Prefix...), o.Path...)
	return append([]string{origin}, gn.IndexOfElems(all[:o.Cut], false)...)
}

type violation struct{ class, msg string }

func (v *violation) Error() string { return v.msg }

type inconclusive struct {
	msg  string
	hang bool // the hang rule: alive, everything sent, and still incomplete after 20 s
}

func (i *inconclusive) Error() string { return i.msg }

// observe subscribes through the collector with the client library's cache
// and returns its leaves once the sentinel of every target in scope arrived.
func observe(addr, target string, want map[string]string, timeout time.Duration) (client.Leaves, error) {
	return subscribeView(baseQuery(addr, target, nil, client.Stream), want, timeout)
}

func baseQuery(addr, target string, qs []QPath, typ client.Type) client.Query {
	return client.Query{Addrs: []string{addr}, Target: target, Queries: clientPaths(qs), Type: typ, Timeout: 10 * time.Second, TLS: &tls.Config{InsecureSkipVerify: true}}
}

// subscribeView makes ONE subscription with the Query value it is given (the caller may have used the same
// value - same Queries slices - before and may use it again) through a new cache client and returns the view:
// STREAM: once the sync marker and the sentinel of every target in scope arrived; ONCE: when it completed.
func subscribeView(q client.Query, want map[string]string, timeout time.Duration) (client.Leaves, error) {
	c := client.New()
	defer c.Close()
	target := q.Target
	var mu sync.Mutex
	seen := map[string]bool{}
	synced := false
	done := make(chan struct{})
	var once sync.Once
	q.NotificationHandler = func(n client.Notification) error {
		// Quiescence: the sentinel of every target in scope AND the sync marker.
		// Updates made after the subscription registered reach it in order, so the
		// sentinel vouches for them; the initial walk has no order (the sentinel may
		// come out of it before other leaves), so the sync marker vouches for the walk.
		mu.Lock()
		defer mu.Unlock()
		switch u := n.(type) {
		case client.Sync:
			synced = true
		case client.Update:
			if len(u.Path) >= 3 && u.Path[len(u.Path)-1] == sentinelName {
				if s, _ := u.Val.(string); s == want[u.Path[0]] {
					seen[u.Path[0]] = true
				}
			}
		}
		if synced && len(seen) == len(want) {
			once.Do(func() { close(done) })
		}
		return nil
	}
	ctx, cancel := context.WithCancel(context.Background())
	defer cancel()
	errC := make(chan error, 1)
	go func() { errC <- c.Subscribe(ctx, q, gclient.Type) }()
	timer := time.After(timeout)
	hung := func() (client.Leaves, error) {
		mu.Lock()
		defer mu.Unlock()
		return nil, &inconclusive{msg: fmt.Sprintf("subscription for target %q: sentinel seen for %v of %d targets after %v", target, seen, len(want), timeout), hang: true}
	}
	if q.Type == client.Once {
		select {
		case err := <-errC:
			if err != nil {
				return nil, &violation{"rpc-error", fmt.Sprintf("ONCE subscription for target %q through the collector ended: %v", target, err)}
			}
			return c.Leaves(), nil
		case <-timer:
			return hung()
		}
	}
	select {
	case <-done:
	case err := <-errC:
		return nil, &violation{"rpc-error", fmt.Sprintf("subscription for target %q through the collector ended: %v", target, err)}
	case <-timer:
		return hung()
	}
	// the handler runs after the cache was updated: everything before the sentinel is in
	return c.Leaves(), nil
}

// fmtScalar renders a value for a message; a long one is cut (its length and a checksum identify it).
func fmtScalar(v interface{}) string {
	switch x := v.(type) {
	case string:
		if len(x) > 200 {
			return fmt.Sprintf("%q...(string of %d bytes, crc32 %08x)", x[:40], len(x), crc32.ChecksumIEEE([]byte(x)))
		}
	case []byte:
		if len(x) > 200 {
			return fmt.Sprintf("%#v...(%d bytes, crc32 %08x)", x[:16], len(x), crc32.ChecksumIEEE(x))
		}
	}
	return cut(fmt.Sprintf("%#v", v))
}

func cut(s string) string {
	if len(s) > 600 {
		return fmt.Sprintf("%s...(%d bytes, crc32 %08x)", s[:200], len(s), crc32.ChecksumIEEE([]byte(s)))
	}
	return s
}

// compareLeaves checks the observer's view of the targets in scope against the reference.
var debugDump bool

func compareLeaves(what string, leaves client.Leaves, ref map[string]interface{}, scope map[string]bool, qs ...QPath) error {
	if debugDump {
		for _, l := range leaves {
			fmt.Printf("LEAF %q = %#v\n", l.Path, l.Val)
		}
	}
	got := map[string]interface{}{}
	for _, l := range leaves {
		if len(l.Path) < 2 || !scope[l.Path[0]] || l.Path[1] == "meta" || isHarnessLeaf(l.Path[len(l.Path)-1]) {
			continue
		}
		got[gn.Key(l.Path)] = l.Val
	}
	var diffs []string
	for k, w := range ref {
		if p := gn.Unkey(k); !scope[p[0]] || !addressed(qs, p) {
			continue
		}
		g, ok := got[k]
		switch {
		case !ok:
			diffs = append(diffs, fmt.Sprintf("missing %q (target state has %s)", gn.Unkey(k), fmtScalar(w)))
		case !reflect.DeepEqual(g, w):
			diffs = append(diffs, fmt.Sprintf("%q is %s, target state has %s", gn.Unkey(k), fmtScalar(g), fmtScalar(w)))
		}
	}
	for k, g := range got {
		if _, ok := ref[k]; !ok {
			diffs = append(diffs, fmt.Sprintf("extra or stale %q=%s", gn.Unkey(k), fmtScalar(g)))
		}
	}
	if len(diffs) > 0 {
		sort.Strings(diffs)
		return &violation{"view-mismatch", what + ": " + strings.Join(diffs, "; ")}
	}
	return nil
}

// ---- CLI output ------------------------------------------------------------------------------------

// valStr renders a scalar the way the grouped display documents: strings quoted, lists bracketed.
func valStr(v interface{}) string {
	switch x := v.(type) {
	case string:
		return fmt.Sprintf("%q", x)
	case []interface{}:
		var parts []string
		for _, e := range x {
			parts = append(parts, valStr(e))
		}
		return "[" + strings.Join(parts, ", ") + "]"
	}
	return fmt.Sprintf("%v", v)
}

// parseGroup flattens the nested grouped display into path -> rendered value.
func parseGroup(out string) (map[string]string, error) {
	res := map[string]string{}
	var stack []string
	for _, line := range strings.Split(out, "\n") {
		l := strings.TrimSpace(line)
		switch {
		case l == "" || l == "{" || strings.HasPrefix(l, "//"):
		case l == "}" || l == "},":
			if len(stack) > 0 {
				stack = stack[:len(stack)-1]
			}
		case strings.HasPrefix(l, `"`):
			// "key": value   |   "key": {
			var key string
			rest := l
			end := 1
			for end < len(rest) && (rest[end] != '"' || rest[end-1] == '\\') {
				end++
			}
			if _, err := fmt.Sscanf(rest[:end+1], "%q", &key); err != nil {
				return nil, fmt.Errorf("cannot parse key in line %q", l)
			}
			val := strings.TrimPrefix(strings.TrimSpace(rest[end+1:]), ":")
			val = strings.TrimSpace(val)
			if val == "{" {
				stack = append(stack, key)
				continue
			}
			val = strings.TrimSuffix(val, ",")
			res[gn.Key(append(append([]string{}, stack...), key))] = val
		default:
			return nil, fmt.Errorf("unexpected line %q", l)
		}
	}
	return res, nil
}

// parseSingle parses "path, value" lines. The display joins the path with '/', so two different paths whose
// elements contain '/' can print the same text: the result counts LINES (path text -> rendered values, sorted
// and joined), it does not pretend that the text identifies a leaf.
func parseSingle(out string) map[string]string {
	vals := map[string][]string{}
	for _, line := range strings.Split(out, "\n") {
		if line == "" || strings.HasPrefix(line, "//") {
			continue
		}
		i := strings.Index(line, ", ")
		if i < 0 {
			continue
		}
		vals[line[:i]] = append(vals[line[:i]], line[i+2:])
	}
	return joinVals(vals)
}

func joinVals(vals map[string][]string) map[string]string {
	res := map[string]string{}
	for k, v := range vals {
		sort.Strings(v)
		res[k] = strings.Join(v, " AND ")
	}
	return res
}

func textReq(target string, query []gn.Elem, mode string) string {
	var elems []string
	for _, e := range query {
		var keys []string
		ks := make([]string, 0, len(e.Keys))
		for k := range e.Keys {
			ks = append(ks, k)
		}
		sort.Strings(ks)
		for _, k := range ks {
			keys = append(keys, fmt.Sprintf(" key:{key:%q value:%q}", k, e.Keys[k]))
		}
		elems = append(elems, fmt.Sprintf("elem:{name:%q%s}", e.Name, strings.Join(keys, "")))
	}
	return fmt.Sprintf("subscribe:{prefix:{target:%q} subscription:{path:{%s}} mode:%s}", target, strings.Join(elems, " "), mode)
}

// flagQuery renders the query the way the -q flag wants it: name[key=value] elements joined by '/'.
func flagQuery(query []gn.Elem) string {
	var parts []string
	for _, e := range query {
		p := e.Name
		ks := make([]string, 0, len(e.Keys))
		for k := range e.Keys {
			ks = append(ks, k)
		}
		sort.Strings(ks)
		for _, k := range ks {
			p += fmt.Sprintf("[%s=%s]", k, e.Keys[k])
		}
		parts = append(parts, p)
	}
	return strings.Join(parts, "/")
}

// checkCLI runs the CLI three ways for the same subscription and both display types.
func checkCLI(e *env, dir, addr, target string, query []gn.Elem, ref map[string]interface{}, st *stats) error {
	wantGroup, singles := map[string]string{}, map[string][]string{}
	qidx := gn.IndexOfElems(query, false)
	for _, el := range query {
		if len(el.Keys) > 0 {
			st.cliKeyedQuery = true
		}
		for _, v := range el.Keys {
			if strings.Contains(v, "/") {
				st.cliSlashQuery = true
			}
		}
	}
	for k, v := range ref {
		p := gn.Unkey(k)
		if p[0] != target || !gn.Matches(append([]string{target}, qidx...), p) {
			continue
		}
		wantGroup[k] = valStr(v)
		singles[strings.Join(p, "/")] = append(singles[strings.Join(p, "/")], fmt.Sprintf("%v", v))
	}
	wantSingle := joinVals(singles)
	protoFile := filepath.Join(dir, "req.txt")
	os.WriteFile(protoFile, []byte(textReq(target, query, "ONCE")), 0o644)
	common := []string{"-a", addr, "-tls_skip_verify", "-timeout", "10s"}
	styles := map[string][]string{
		"query flags":  append([]string{"-t", target, "-q", flagQuery(query), "-qt", "once"}, common...),
		"inline proto": append([]string{"-proto", textReq(target, query, "ONCE")}, common...),
		"proto file":   append([]string{"-proto_file", protoFile}, common...),
	}
	for _, dt := range []string{"group", "single"} {
		outputs := map[string]map[string]string{}
		for name, args := range styles {
			out, errOut, err := runCLI(e, append(append([]string{}, args...), "-dt", dt)...)
			if err != nil {
				tailErr := errOut
				if len(tailErr) > 600 {
					tailErr = tailErr[len(tailErr)-600:]
				}
				return &violation{"cli-failed", fmt.Sprintf("gnmi_cli (%s, display %s, target %s, query %q) failed: %v; stderr: %s", name, dt, target, flagQuery(query), err, tailErr)}
			}
			var parsed map[string]string
			if dt == "group" {
				p, perr := parseGroup(out)
				if perr != nil {
					return &violation{"cli-output", fmt.Sprintf("gnmi_cli (%s) grouped output cannot be read back: %v\n%s", name, perr, tailOf(out, 3000))}
				}
				parsed = p
			} else {
				parsed = parseSingle(out)
			}
			clean := map[string]string{}
			for k, v := range parsed {
				var p []string
				if dt == "group" {
					p = gn.Unkey(k)
				} else {
					p = strings.Split(k, "/")
				}
				if len(p) < 2 || p[1] == "meta" || isHarnessLeaf(p[len(p)-1]) {
					continue
				}
				clean[k] = v
			}
			outputs[name] = clean
		}
		want := wantGroup
		if dt == "single" {
			want = wantSingle
		}
		for name, got := range outputs {
			if !reflect.DeepEqual(got, want) {
				return &violation{"cli-mismatch", fmt.Sprintf("gnmi_cli (%s, display %s, target %s, query %q) printed %v, the target's final state is %v", name, dt, target, flagQuery(query), renderMap(got), renderMap(want))}
			}
		}
	}
	st.cliChecked = true
	return nil
}

func renderMap(m map[string]string) string {
	var ks []string
	for k := range m {
		ks = append(ks, k)
	}
	sort.Strings(ks)
	var parts []string
	for _, k := range ks {
		parts = append(parts, fmt.Sprintf("%q=%s", strings.ReplaceAll(k, gn.Sep, "/"), cut(m[k])))
	}
	return "{" + strings.Join(parts, ", ") + "}"
}

// ---- the case ------------------------------------------------------------------------------------------

var caseCounter int

func runOnce(e *env, workDir string, sc *Scenario, st *stats) error {
	caseCounter++
	id := fmt.Sprintf("case-%d-%d", os.Getpid(), caseCounter)
	dir, err := os.MkdirTemp(workDir, "case-")
	if err != nil {
		return &inconclusive{msg: err.Error()}
	}
	defer os.RemoveAll(dir)
	ref := reference(sc, st)
	// scripted servers
	h := newHub()
	var colAddr string
	var servers []*scriptedServer
	for i := 0; i < sc.Servers; i++ {
		s, err := startScripted(e, h, func() string { h.mu.Lock(); defer h.mu.Unlock(); return colAddr })
		if err != nil {
			return &inconclusive{msg: err.Error()}
		}
		defer s.srv.Stop()
		servers = append(servers, s)
	}
	cfg := &tpb.Configuration{Request: map[string]*pb.SubscribeRequest{}, Target: map[string]*tpb.Target{}}
	for i := 0; i < sc.Requests; i++ {
		cfg.Request[fmt.Sprintf("req%d", i)] = &pb.SubscribeRequest{Request: &pb.SubscribeRequest_Subscribe{Subscribe: &pb.SubscriptionList{
			Prefix: &pb.Path{Origin: fmt.Sprintf("origin%d", i)}, Mode: pb.SubscriptionList_STREAM,
			Subscription: []*pb.Subscription{{Path: &pb.Path{Elem: []*pb.PathElem{{Name: "*"}}}}}}}}
	}
	want := map[string]string{}
	dead := &deadEnds{e: e}
	defer dead.stop()
	for _, tg := range sc.Targets {
		s := servers[tg.Server%len(servers)]
		s.addScript(tg, id)
		addrs, err := dead.addresses(tg, s.addr, st)
		if err != nil {
			return &inconclusive{msg: err.Error()}
		}
		cfg.Target[tg.Name] = &tpb.Target{Addresses: addrs, Request: fmt.Sprintf("req%d", tg.Request%sc.Requests)}
		if tg.RecvTimeoutMs > 0 {
			cfg.Target[tg.Name].Meta = map[string]string{"receive_timeout": fmt.Sprintf("%dms", tg.RecvTimeoutMs)}
		}
		want[tg.Name] = id
	}
	b, _ := prototext.Marshal(cfg)
	cfgFile := filepath.Join(dir, "collector.cfg")
	os.WriteFile(cfgFile, b, 0o644)
	// the observers exist (not yet subscribed) before the collector can reach a target: scripts may wait for them
	fr := newObservers(h, sc, id)
	defer fr.stop()
	col, err := startCollector(e, dir, cfgFile, sc.NoMeta, time.Duration(sc.DialTimeoutMs)*time.Millisecond)
	if err != nil {
		return &inconclusive{msg: err.Error()}
	}
	defer col.stop()
	h.change(func() { colAddr = col.addr })
	// from here on the streams end because the harness tears the case down
	defer h.change(func() { h.over = true })

	err = judge(e, dir, id, sc, st, ref, h, fr, col, servers, want)
	st.unscriptedEnd = h.unscriptedEnds() > 0
	for _, d := range dead.ends {
		st.deadDialled = st.deadDialled || d.dialled() > 0
	}
	st.sizes = h.sizes()
	if inc, ok := err.(*inconclusive); ok && inc.hang {
		// what the collector has to say about it (diagnostic)
		lg, _ := os.ReadFile(col.log)
		inc.msg += "; collector log ends: " + lastLines(string(lg), 6, 400)
	}
	// A target configured with a receive timeout depends on the scripted target's heartbeats arriving in time:
	// a machine that stalls for longer makes the collector drop and re-read the target's state at an instant
	// the script did not choose. A verdict against the code therefore needs positive evidence that this did
	// not happen around the observation that produced it; without the evidence the case has no verdict.
	switch err.(type) {
	case *violation:
		if inc := h.confirmStreams(col.addr); inc != nil {
			return inc
		}
	case *inconclusive:
		if h.unscriptedEnds() > 0 {
			err.(*inconclusive).hang = false
		}
	}
	return err
}

// judge is the case proper: everything between "the collector runs" and the verdict.
func judge(e *env, dir, id string, sc *Scenario, st *stats, ref map[string]interface{}, h *hub, fr *flowRun, col *collectorProc, servers []*scriptedServer, want map[string]string) error {
	// observers that live while the scripts play (none in the "random" part)
	fr.start(col.addr)
	if err := fr.wait(col); err != nil {
		return err
	}
	if err := fr.check(ref, st); err != nil {
		return err
	}
	fr.stop()
	if debugStall > 0 {
		time.Sleep(debugStall / 2) // harness self-test: let the fresh observers meet the stalled target's reset
	}

	// observer (a): the client library's cache, per target and for all targets
	for _, tg := range sc.Targets {
		leaves, err := observe(col.addr, tg.Name, map[string]string{tg.Name: id}, 20*time.Second)
		if err != nil {
			if !col.alive() {
				return col.died()
			}
			return err
		}
		if err := compareLeaves(fmt.Sprintf("client cache subscribed to %s", tg.Name), leaves, ref, map[string]bool{tg.Name: true}); err != nil {
			return err
		}
	}
	all := map[string]bool{}
	for _, tg := range sc.Targets {
		all[tg.Name] = true
	}
	leaves, err := observe(col.addr, "*", want, 20*time.Second)
	if err != nil {
		return err
	}
	if err := compareLeaves("client cache subscribed to *", leaves, ref, all); err != nil {
		return err
	}
	// one client.Query value (paths as strings) used for several subscriptions in a row
	for i, ru := range sc.Reuse {
		target, scope, rwant := "*", all, want
		if ru.Scope >= 0 {
			target = sc.Targets[ru.Scope%len(sc.Targets)].Name
			scope, rwant = map[string]bool{target: true}, map[string]string{target: id}
		}
		q := baseQuery(col.addr, target, ru.Queries, client.Once)
		for j, mode := range ru.Modes {
			q.Type = client.Once
			if mode == "stream" {
				q.Type = client.Stream
			}
			leaves, err := subscribeView(q, rwant, 20*time.Second)
			if err != nil {
				return err
			}
			what := fmt.Sprintf("client cache of subscription %d of %d (%s) made with one client.Query value, target %s, paths %s", j+1, len(ru.Modes), mode, target, describeQueries(ru.Queries))
			if err := compareLeaves(what, leaves, ref, scope, ru.Queries...); err != nil {
				return err
			}
		}
		st.reuse = true
		st.reuseSlash = st.reuseSlash || slashInQueries(ru.Queries)
		_ = i
	}
	// the request each target received was customised with its name
	for _, tg := range sc.Targets {
		s := servers[tg.Server%len(servers)]
		s.mu.Lock()
		reqs := s.requests[tg.Name]
		s.mu.Unlock()
		if len(reqs) == 0 {
			return &violation{"request-not-customised", fmt.Sprintf("no subscribe request carrying target name %q reached its address", tg.Name)}
		}
		wantOrigin := fmt.Sprintf("origin%d", tg.Request%sc.Requests)
		if o := reqs[0].GetSubscribe().GetPrefix().GetOrigin(); o != wantOrigin {
			return &violation{"wrong-request", fmt.Sprintf("target %s is configured with request %d but received a request with prefix origin %q", tg.Name, tg.Request%sc.Requests, o)}
		}
	}
	// observer (b): the CLI binary, after (a) saw every sentinel
	tg := sc.Targets[0]
	if err := checkCLI(e, dir, col.addr, tg.Name, []gn.Elem{{Name: "*"}}, ref, st); err != nil {
		return err
	}
	// a subtree query: origin + the first element (with its list keys) of some update
	var cands [][]gn.Elem
	for _, o := range tg.Ops {
		if o.Kind != "update" && o.Kind != "multi" {
			continue
		}
		ups := []Op{o}
		for _, u := range ups {
			if u.Element {
				continue
			}
			all := append(append([]gn.Elem{}, u.Prefix...), u.Path...)
			if len(all) == 0 || strings.Contains(all[0].Name, "/") {
				// the -q flag splits at '/' outside [..]: an element NAME with a slash cannot be given that way
				// (a key value can, and is)
				continue
			}
			origin := u.Origin
			if origin == "" {
				origin = "openconfig"
			}
			cands = append(cands, []gn.Elem{{Name: origin}, all[0]})
		}
	}
	if len(cands) > 0 {
		if err := checkCLI(e, dir, col.addr, tg.Name, cands[sc.Subtree%len(cands)], ref, st); err != nil {
			return err
		}
	}
	return nil
}

// lastLines: the last n lines of a log, each cut to width bytes (a log line may quote a whole message).
func lastLines(s string, n, width int) string {
	lines := strings.Split(strings.TrimRight(s, "\n"), "\n")
	if len(lines) > n {
		lines = lines[len(lines)-n:]
	}
	for i, l := range lines {
		if len(l) > width {
			lines[i] = l[:width] + "..."
		}
	}
	return strings.Join(lines, " | ")
}

func tailOf(s string, n int) string {
	if len(s) > n {
		return s[len(s)-n:]
	}
	return s
}

// run executes the scenario; a slow quiescence is retried once from scratch.
func run(workDir string, sc *Scenario) (*stats, error) {
	st := &stats{}
	e, err := getEnv(workDir)
	if err != nil {
		return st, &inconclusive{msg: err.Error()}
	}
	err = runOnce(e, workDir, sc, st)
	if inc, ok := err.(*inconclusive); ok && inc.hang {
		st2 := &stats{}
		err2 := runOnce(e, workDir, sc, st2)
		st2.retried = true
		if inc2, ok := err2.(*inconclusive); ok && inc2.hang {
			return st2, &violation{"quiesced-but-incomplete", "twice in a row, everything alive and 20s of silence: " + inc2.msg}
		}
		return st2, err2
	}
	return st, err
}
