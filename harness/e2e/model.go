package e2e

import (
	"fmt"
	"sort"
	"strings"

	pb "github.com/openconfig/gnmi/proto/gnmi"
	"verif/harness/internal/gn"
)

// The reference interpretation of a target's script: the state a device that
// sent these messages is in. It is kept in units - a plain leaf, or an atomic
// container (all updates of an atomic notification, addressed by its prefix) -
// because a scripted target that is asked to subscribe again (after a stream
// break) reports its CURRENT state first, the way a device does, and has to
// build that report from the same interpretation the oracle uses.

const fillBatch = 250

// expand is the value an update really carries: a string or bytes value lengthened by pad bytes
// (scenarios stay small; large values are what makes gRPC flow control - and message size limits - bite).
func expand(v gn.Val, pad int) gn.Val {
	if pad > 0 {
		switch v.Kind {
		case "string":
			v.S += strings.Repeat("x", pad)
		case "bytes", "legacy-bytes":
			v.S += strings.Repeat("\x00\xfey", pad/3+1)[:pad]
		case "deprecated", "legacy-ietf":
			// a JSON string literal grows inside its quotes; other JSON texts stay as they are
			if n := len(v.S); n >= 2 && v.S[0] == '"' && v.S[n-1] == '"' {
				v.S = v.S[:n-1] + strings.Repeat("x", pad) + `"`
			}
		}
	}
	return v
}

// mkUpdate is the update a device sends for a value: a TypedValue in Update.val, or - the legacy kinds - a gnmi.Value
// in the deprecated Update.value field, val unset.
func mkUpdate(p *pb.Path, v gn.Val) *pb.Update {
	switch v.Kind {
	case "deprecated":
		return gn.MakeUpdate(p, v)
	case "legacy-ietf":
		return &pb.Update{Path: p, Value: &pb.Value{Value: []byte(v.S), Type: pb.Encoding_JSON_IETF}}
	case "legacy-bytes":
		return &pb.Update{Path: p, Value: &pb.Value{Value: []byte(v.S), Type: pb.Encoding_BYTES}}
	}
	return &pb.Update{Path: p, Val: v.TV()}
}

// fillVal is the value of the i-th leaf of a "fill" op.
func fillVal(o Op, i int) gn.Val {
	s := fmt.Sprintf("f%d.%d", o.Ver, i)
	switch o.Enc {
	case "json":
		return gn.Val{Kind: "deprecated", S: `"` + s + `"`}
	case "ietf":
		return gn.Val{Kind: "legacy-ietf", S: `"` + s + `"`}
	case "bytes":
		return gn.Val{Kind: "legacy-bytes", S: s}
	}
	return gn.Val{Kind: "string", S: s}
}

// batchOf: how many leaves of a "fill" travel in one notification.
func batchOf(o Op) int {
	if o.Bulk > 0 {
		return o.Bulk
	}
	return fillBatch
}

func originOf(o Op) string {
	if o.Origin == "" {
		return "openconfig"
	}
	return o.Origin
}

// contKey is the index (without target) of an atomic container: origin + prefix.
func contKey(o Op) []string {
	return append([]string{originOf(o)}, gn.IndexOfElems(o.Prefix, false)...)
}

// fillOp is the i-th leaf of a "fill" op as a plain update.
func fillOp(o Op, i int) Op {
	return Op{Kind: "update", Origin: o.Origin, PTarget: o.PTarget, NoPrefix: o.NoPrefix, Path: []gn.Elem{{Name: "fill"}, {Name: "e", Keys: map[string]string{"id": fmt.Sprint(i)}}, {Name: "v"}},
		Val: fillVal(o, i), Pad: o.Pad, Bulk: o.Bulk}
}

// prefixOf is the prefix message of the notification an op is sent as: origin and target as the device writes them
// (see Op.PTarget), the elements given - or none at all.
func prefixOf(o Op, elems []gn.Elem, element bool) *pb.Path {
	if o.NoPrefix && o.Origin == "" && o.PTarget == "" && len(elems) == 0 {
		return nil
	}
	return gn.Path(o.PTarget, o.Origin, elems, element, 0)
}

type model struct {
	units  map[string]*Op // key (without target) -> plain "update" op or "atomic" op
	synced bool
}

func newModel() *model { return &model{units: map[string]*Op{}} }

func (m *model) remove(pat []string, keep string, st *stats) {
	for k := range m.units {
		if k != keep && gn.Matches(pat, gn.Unkey(k)) {
			delete(m.units, k)
			if st != nil && m.synced {
				st.deleteAfterSync = true
			}
		}
	}
}

func (m *model) setPlain(o Op) {
	o.Kind = "update"
	o.Ups = nil
	m.units[gn.Key(opKey(o))] = &o
}

// apply interprets one scripted op. st (optional) collects what the scenario contains.
func (m *model) apply(o Op, st *stats) {
	note := func(f func(*stats)) {
		if st != nil {
			f(st)
		}
	}
	if o.Kind == "await" {
		note(func(s *stats) { s.lastAwait = o.Event })
		return
	}
	defer note(func(s *stats) { s.lastAwait = "" })
	if isMessage(o.Kind) {
		note(func(s *stats) { s.notePrefix(o) })
	}
	if o.Kind == "quiet" {
		note(func(s *stats) {
			if o.N > s.quietMs {
				s.quietMs = o.N
			}
		})
	}
	noteVal := func(u Op) {
		note(func(s *stats) {
			s.kinds[u.Val.Kind] = true
			for _, e := range append(append([]gn.Elem{}, u.Prefix...), u.Path...) {
				if len(e.Keys) > 0 && !u.Element {
					s.keyed = true
				}
				if strings.Contains(strings.Join(gn.IndexOfElems([]gn.Elem{e}, u.Element), gn.Sep), "/") {
					s.slashPath = true
				}
			}
			if u.Origin != "" {
				s.origin = true
			}
			if u.Element {
				s.element = true
			}
			if u.Pad > 0 {
				s.padded = true
			}
			if isLegacy(u.Val.Kind) {
				s.noteLegacy(u.Val, u.Pad)
			}
		})
	}
	// plain: a plain leaf is written; two legacy values meeting on one leaf is worth a label
	plain := func(p Op) {
		if old := m.units[gn.Key(opKey(p))]; old != nil && old.Kind != "atomic" && isLegacy(old.Val.Kind) && isLegacy(p.Val.Kind) {
			note(func(s *stats) { s.legacyRewrite = true })
		}
		m.setPlain(p)
	}
	switch o.Kind {
	case "sync":
		m.synced = true
	case "update":
		plain(o)
		noteVal(o)
	case "delete":
		m.remove(opKey(o), "", st)
	case "multi":
		// one notification: a delete and an update that the delete covers (a gNMI "replace").
		// Its updates are applied, then its deletes; a delete never removes what the same
		// notification wrote (same timestamp), only what was there before.
		note(func(s *stats) {
			s.replaceNoti = true
			s.kinds[o.Val.Kind] = true
			if isLegacy(o.Val.Kind) {
				s.legacyMulti = true
				s.noteLegacy(o.Val, o.Pad)
			}
		})
		m.remove(delKeyOfMulti(o), gn.Key(opKey(o)), st)
		plain(o)
	case "atomic":
		k := gn.Key(contKey(o))
		if old := m.units[k]; old != nil && old.Kind == "atomic" {
			note(func(s *stats) {
				s.atomicResent = true
				if len(o.Ups) > 0 && len(old.Ups) > 0 && isLegacy(o.Ups[0].Val.Kind) && isLegacy(old.Ups[0].Val.Kind) {
					s.legacyAtomicResent = true
				}
				for i := 1; i < len(o.Ups) && i < len(old.Ups); i++ {
					if fmt.Sprint(expand(old.Ups[i].Val, old.Ups[i].Pad)) != fmt.Sprint(expand(o.Ups[i].Val, o.Ups[i].Pad)) {
						s.atomicTailChanged = true
					}
				}
			})
		}
		c := o
		m.units[k] = &c
		note(func(s *stats) { s.atomic = true })
		for i, u := range o.Ups {
			noteVal(Op{Origin: o.Origin, Prefix: o.Prefix, Path: u.Path, Val: u.Val, Pad: u.Pad})
			if isLegacy(u.Val.Kind) {
				note(func(s *stats) { s.legacyAtomic = true; s.legacyAtomicFirst = s.legacyAtomicFirst || i == 0 })
			}
		}
	case "group":
		note(func(s *stats) { s.group = true })
		for _, u := range o.Ups {
			p := Op{Origin: o.Origin, Prefix: o.Prefix, Path: u.Path, Val: u.Val, Pad: u.Pad}
			if m.units[gn.Key(opKey(p))] != nil {
				note(func(s *stats) { s.groupResent = true })
			}
			if isLegacy(p.Val.Kind) {
				note(func(s *stats) { s.legacyGroup = true })
			}
			plain(p)
			noteVal(p)
		}
	case "fill":
		for i := 0; i < o.N; i++ {
			m.setPlain(fillOp(o, i))
		}
		note(func(s *stats) {
			if o.N > 0 {
				v := fillVal(o, 0)
				s.kinds[v.Kind] = true
				if isLegacy(v.Kind) {
					s.legacyFill = true
					s.noteLegacy(v, o.Pad)
				}
			}
			s.keyed = true
			if o.N > s.fill {
				s.fill = o.N
			}
		})
	case "break":
		note(func(s *stats) {
			s.breaks++
			s.breakVia[o.Via] = true
			if s.lastAwait != "" {
				s.aimed[s.lastAwait] = true
				if (s.lastAwait == "first" || s.lastAwait == "dialed") && len(m.units) >= 1000 {
					s.aimedBig = true
				}
			}
		})
		if o.Via == "error" && o.Code != "" {
			note(func(s *stats) { s.breakCode[o.Code] = true })
		}
		if o.LoseMod > 0 {
			// the device comes back without some of its leaves: whole units, by rank in key order
			// (whoever ended the stream: what the device reports on the new stream is its state)
			ks := m.keys()
			for i, k := range ks {
				if i%o.LoseMod == o.LoseRem%o.LoseMod {
					delete(m.units, k)
					note(func(s *stats) {
						s.breakLoses = true
						if o.Via == "rpc" || o.Via == "silence" {
							s.collectorSideLoses = true
						}
					})
				}
			}
		}
		// what the device reports on its next stream: legacy values among it?
		for _, u := range m.units {
			if legacyAny(u) {
				note(func(s *stats) { s.legacyAcrossBreak = true })
				break
			}
		}
	}
}

// legacyHead: the first (or only) update of the notification the collector keeps for this unit carries a legacy value -
// the update on which a coalesced delivery carries its duplicate count.
func (m *model) legacyHead(u *Op) bool {
	if u.Kind == "atomic" {
		return len(u.Ups) > 0 && isLegacy(u.Ups[0].Val.Kind)
	}
	return isLegacy(u.Val.Kind)
}

// legacyAny: some value of the unit travels in the legacy encoding.
func legacyAny(u *Op) bool {
	for _, up := range u.Ups {
		if u.Kind == "atomic" && isLegacy(up.Val.Kind) {
			return true
		}
	}
	return u.Kind != "atomic" && isLegacy(u.Val.Kind)
}

// legacyHeads: key (with target) of every leaf that is such a head -> its value in the reference view.
func (m *model) legacyHeads(target string, into map[string]interface{}) {
	for k, u := range m.units {
		if !m.legacyHead(u) {
			continue
		}
		full := append([]string{target}, gn.Unkey(k)...)
		val, pad := u.Val, u.Pad
		if u.Kind == "atomic" {
			full = append(full, gn.IndexOfElems(u.Ups[0].Path, false)...)
			val, pad = u.Ups[0].Val, u.Ups[0].Pad
		}
		into[gn.Key(full)] = scalarOf(expand(val, pad))
	}
}

// written: the keys (without target) of the units an op writes (bulk fills left out).
func written(o Op) []string {
	switch o.Kind {
	case "update", "multi":
		return []string{gn.Key(opKey(o))}
	case "atomic":
		return []string{gn.Key(contKey(o))}
	case "group":
		var ks []string
		for _, u := range o.Ups {
			ks = append(ks, gn.Key(opKey(Op{Origin: o.Origin, Prefix: o.Prefix, Path: u.Path})))
		}
		return ks
	}
	return nil
}

func (m *model) keys() []string {
	ks := make([]string, 0, len(m.units))
	for k := range m.units {
		ks = append(ks, k)
	}
	sort.Strings(ks)
	return ks
}

// leaves expands the units into the reference view: key (with target) -> Go scalar.
func (m *model) leaves(target string, into map[string]interface{}) {
	for k, u := range m.units {
		if u.Kind == "atomic" {
			for _, up := range u.Ups {
				full := append(append([]string{target}, gn.Unkey(k)...), gn.IndexOfElems(up.Path, false)...)
				into[gn.Key(full)] = scalarOf(expand(up.Val, up.Pad))
			}
			continue
		}
		into[gn.Key(append([]string{target}, gn.Unkey(k)...))] = scalarOf(expand(u.Val, u.Pad))
	}
}

func resp(n *pb.Notification) *pb.SubscribeResponse {
	return &pb.SubscribeResponse{Response: &pb.SubscribeResponse_Update{Update: n}}
}

func syncResp() *pb.SubscribeResponse {
	return &pb.SubscribeResponse{Response: &pb.SubscribeResponse_SyncResponse{SyncResponse: true}}
}

func next(ts *int64) int64 { *ts += 1000; return *ts }

// wire renders one op as the message(s) the target sends for it.
func wire(o Op, ts *int64) []*pb.SubscribeResponse {
	switch o.Kind {
	case "sync":
		return []*pb.SubscribeResponse{syncResp()}
	case "update":
		return []*pb.SubscribeResponse{resp(&pb.Notification{Timestamp: next(ts), Prefix: prefixOf(o, o.Prefix, o.Element),
			Update: []*pb.Update{mkUpdate(gn.Path("", "", o.Path, o.Element, 0), expand(o.Val, o.Pad))}})}
	case "delete":
		return []*pb.SubscribeResponse{resp(&pb.Notification{Timestamp: next(ts), Prefix: prefixOf(o, nil, false), Delete: []*pb.Path{gn.Path("", "", o.Path, false, 0)}})}
	case "multi":
		all := append(append([]gn.Elem{}, o.Prefix...), o.Path...)
		return []*pb.SubscribeResponse{resp(&pb.Notification{Timestamp: next(ts), Prefix: prefixOf(o, nil, false),
			Delete: []*pb.Path{gn.Path("", "", all[:o.Cut], false, 0)},
			Update: []*pb.Update{mkUpdate(gn.Path("", "", all, false, 0), expand(o.Val, o.Pad))}})}
	case "atomic", "group":
		n := &pb.Notification{Timestamp: next(ts), Prefix: prefixOf(o, o.Prefix, false), Atomic: o.Kind == "atomic"}
		for _, u := range o.Ups {
			n.Update = append(n.Update, mkUpdate(gn.Path("", "", u.Path, false, 0), expand(u.Val, u.Pad)))
		}
		return []*pb.SubscribeResponse{resp(n)}
	case "fill":
		var out []*pb.SubscribeResponse
		for i, batch := 0, batchOf(o); i < o.N; i += batch {
			n := &pb.Notification{Timestamp: next(ts), Prefix: prefixOf(o, nil, false)}
			for j := i; j < o.N && j < i+batch; j++ {
				f := fillOp(o, j)
				n.Update = append(n.Update, mkUpdate(gn.Path("", "", f.Path, false, 0), expand(f.Val, f.Pad)))
			}
			out = append(out, resp(n))
		}
		return out
	}
	return nil
}

// report is what the device sends first on a new stream after a break: its current state.
// Plain leaves in the elem encoding travel bundled per origin and per way the device fills in
// the rest of the prefix (a device reports its state in bulk: 250 leaves per notification, or as
// many as the bulk notification that wrote them carried - a device that dumps a table in ONE
// notification does so on every stream), everything else as the notification that created it.
func (m *model) report(ts *int64) []*pb.SubscribeResponse {
	var out []*pb.SubscribeResponse
	bundles := map[string]*pb.Notification{}
	var order []string
	for _, k := range m.keys() {
		u := m.units[k]
		if u.Kind == "atomic" || u.Element {
			out = append(out, wire(*u, ts)...)
			continue
		}
		bk := fmt.Sprintf("%s\x00%s\x00%v\x00%d", u.Origin, u.PTarget, u.NoPrefix, u.Bulk)
		n := bundles[bk]
		if n == nil {
			n = &pb.Notification{Prefix: prefixOf(*u, nil, false)}
			bundles[bk] = n
			order = append(order, bk)
		}
		all := append(append([]gn.Elem{}, u.Prefix...), u.Path...)
		n.Update = append(n.Update, mkUpdate(gn.Path("", "", all, false, 0), expand(u.Val, u.Pad)))
		if len(n.Update) >= batchOf(*u) {
			n.Timestamp = next(ts)
			out = append(out, resp(n))
			delete(bundles, bk)
		}
	}
	for _, o := range order {
		if n := bundles[o]; n != nil && len(n.Update) > 0 {
			n.Timestamp = next(ts)
			out = append(out, resp(n))
			delete(bundles, o)
		}
	}
	return out
}
