// Package coalesceprop decides property C11 (coalescing queue): an exhaustive
// single-goroutine enumeration against a sequential model and a gate-scheduled
// many-producers/one-consumer search inside synctest bubbles, checked against
// an interval ("which behaviours of the model explain this history") oracle.
package coalesceprop

import (
	"fmt"
	"sort"
	"strings"
)

// ---------------------------------------------------------------------------
// Sequential model: FIFO of distinct pending items + per-item counter of extra
// insertions + closed flag. Used directly by the exhaustive part and as the
// transition relation of the interval checker of the concurrent part.
// ---------------------------------------------------------------------------

const maxItems = 8

type mstate struct {
	fifo   []uint8          // distinct pending items, head first
	cnt    [maxItems]uint32 // extra insertions while pending
	prot   [maxItems]bool   // the pending entry was created before the close took effect
	closed bool
}

func (m *mstate) pending(x int) bool {
	for _, y := range m.fifo {
		if int(y) == x {
			return true
		}
	}
	return false
}

func (m *mstate) clone() mstate {
	c := *m
	c.fifo = append([]uint8(nil), m.fifo...)
	return c
}

func (m *mstate) key() string {
	var b strings.Builder
	if m.closed {
		b.WriteByte('C')
	} else {
		b.WriteByte('O')
	}
	for _, x := range m.fifo {
		p := 'u'
		if m.prot[x] {
			p = 'p'
		}
		fmt.Fprintf(&b, " %d+%d%c", x, m.cnt[x], p)
	}
	return b.String()
}

func (m *mstate) String() string {
	var parts []string
	for _, x := range m.fifo {
		s := fmt.Sprintf("%s+%d", itemName(int(x)), m.cnt[x])
		if m.closed && !m.prot[x] {
			s += "(late)"
		}
		parts = append(parts, s)
	}
	st := "open"
	if m.closed {
		st = "closed"
	}
	return fmt.Sprintf("[%s] %s", strings.Join(parts, " "), st)
}

// insert applies an accepted insertion (no closed check); returns fresh.
func (m *mstate) insert(x int, protected bool) bool {
	if m.pending(x) {
		m.cnt[x]++
		return false
	}
	m.fifo = append(m.fifo, uint8(x))
	m.cnt[x] = 0
	m.prot[x] = protected
	return true
}

// pop removes the head.
func (m *mstate) pop() (int, uint32) {
	x := int(m.fifo[0])
	d := m.cnt[x]
	m.fifo = m.fifo[1:]
	m.cnt[x] = 0
	m.prot[x] = false
	return x, d
}

func (m *mstate) protectedPending() bool {
	for _, x := range m.fifo {
		if m.prot[x] {
			return true
		}
	}
	return false
}

func itemName(x int) string {
	if x >= 0 && x < 26 {
		return string(rune('a' + x))
	}
	return fmt.Sprintf("item%d", x)
}

// ---------------------------------------------------------------------------
// Histories of the concurrent part.
// ---------------------------------------------------------------------------

type errKind int

const (
	errNone errKind = iota
	errClosed
	errCtx
	errOther
)

func (e errKind) String() string {
	return [...]string{"nil", "closed-queue", "context-cancelled", "other"}[e]
}

// opRec is one call on the queue. Inv/Ret are step numbers: the scenario runs
// one step at a time to quiescence, so a call that neither parks at a gate nor
// blocks has Inv == Ret; Ret == -1 means it never returned.
type opRec struct {
	ID       int
	Kind     string // insert | next | close
	P        int    // producer (insert)
	Item     int    // insert argument / delivered item
	Inv, Ret int
	Fresh    bool
	Dup      uint32
	Err      errKind
	ErrText  string
	Ctx      int          // next: id of the context it was called with
	Waiting  map[int]bool // next: steps at whose end the call was blocked inside Next (not held by the harness)
	Parked   map[int]bool // steps at whose end the call was held at a gate by the harness
	Arrivals int          // next: arrivals at coalesce.next.empty during this call
}

func (o *opRec) String() string {
	iv := fmt.Sprintf("[step %d..%d]", o.Inv, o.Ret)
	if o.Inv == o.Ret {
		iv = fmt.Sprintf("[step %d]", o.Inv)
	}
	switch o.Kind {
	case "insert":
		if o.Ret < 0 {
			return fmt.Sprintf("p%d.Insert(%s) %s never returned", o.P, itemName(o.Item), iv)
		}
		return fmt.Sprintf("p%d.Insert(%s)=(%v,%s) %s", o.P, itemName(o.Item), o.Fresh, o.Err, iv)
	case "next":
		if o.Ret < 0 {
			return fmt.Sprintf("Next(ctx%d) %s never returned", o.Ctx, iv)
		}
		if o.Err != errNone {
			return fmt.Sprintf("Next(ctx%d)=error %s %s", o.Ctx, o.Err, iv)
		}
		return fmt.Sprintf("Next(ctx%d)=(%s,dup %d) %s", o.Ctx, itemName(o.Item), o.Dup, iv)
	}
	return fmt.Sprintf("Close() %s", iv)
}

type history struct {
	ops        []*opRec
	nSteps     int
	lenAt      []int       // Len() observed at the end of each step (quiescent)
	cancelStep map[int]int // context id -> step at which the harness cancelled it
	firstClose int         // step of the first Close, -1 if none
	stepDesc   []string
}

func (h *history) closedBy(s int) bool { return h.firstClose >= 0 && h.firstClose <= s }

func (h *history) dump() string {
	var b strings.Builder
	for s := 0; s < h.nSteps; s++ {
		fmt.Fprintf(&b, "\n  step %d: %s", s, h.stepDesc[s])
		for _, o := range h.ops {
			if o.Ret == s {
				fmt.Fprintf(&b, " | returned: %s", o)
			}
		}
		for _, o := range h.ops {
			if o.Inv <= s && (o.Ret > s || o.Ret < 0) {
				switch {
				case o.Parked[s]:
					fmt.Fprintf(&b, " | held at gate: %s#%d", o.Kind, o.ID)
				case o.Waiting[s]:
					fmt.Fprintf(&b, " | blocked in Next: #%d", o.ID)
				}
			}
		}
		if s < len(h.lenAt) {
			fmt.Fprintf(&b, " | Len=%d", h.lenAt[s])
		}
	}
	return b.String()
}

// verr is a classified oracle failure.
type verr struct {
	class string
	msg   string
}

func (v *verr) Error() string { return v.class + ": " + v.msg }

func newVerr(class, format string, a ...any) *verr {
	return &verr{class: class, msg: fmt.Sprintf(format, a...)}
}

// ---------------------------------------------------------------------------
// Interval checker. A history is accepted iff every call can be given an
// effect point inside its [Inv,Ret] interval such that the sequential model,
// taking the effects in that order, produces exactly the recorded results.
// Calls active in the same step are unordered (they were concurrent).
//
// Relaxation the property states for the insert-vs-close window: an Insert
// whose interval overlaps the Close (invoked before it, effect after it) may
// return nil; such an insertion did not complete before the close, so it is
// either dropped, or entered as an unprotected ("late") pending entry that the
// consumer may or may not receive. "Closed" may be reported only when the
// queue is closed and no protected entry is pending.
//
// Quiescence constraints (each step runs until every goroutine is durably
// blocked): a Next call that is blocked inside Next and not held at a harness
// gate has not taken effect and the queue is empty; Len() observed at the
// end of a step equals the number of pending entries.
// ---------------------------------------------------------------------------

type cand struct {
	st  mstate
	eff map[int]bool // ids of still-active calls that already took effect
}

func (c *cand) key() string {
	ids := make([]int, 0, len(c.eff))
	for id := range c.eff {
		ids = append(ids, id)
	}
	sort.Ints(ids)
	return fmt.Sprint(ids) + c.st.key()
}

func (c *cand) with(st mstate, id int) *cand {
	n := &cand{st: st, eff: make(map[int]bool, len(c.eff)+1)}
	for k := range c.eff {
		n.eff[k] = true
	}
	n.eff[id] = true
	return n
}

// apply returns the successor states of taking op's effect in st at step s such
// that the model's response equals the recorded response, or a reason.
func (h *history) apply(st *mstate, o *opRec, s int) ([]mstate, string) {
	switch o.Kind {
	case "close":
		n := st.clone()
		n.closed = true
		return []mstate{n}, ""
	case "insert":
		switch o.Err {
		case errClosed:
			if !st.closed {
				return nil, "insert-refused-while-open"
			}
			return []mstate{st.clone()}, ""
		case errNone:
			if !st.closed {
				n := st.clone()
				if fresh := n.insert(o.Item, true); fresh != o.Fresh {
					return nil, "fresh-flag"
				}
				return []mstate{n}, ""
			}
			if h.firstClose >= 0 && o.Inv > h.firstClose {
				return nil, "insert-after-close-accepted"
			}
			// overlapped the close: dropped, or entered late
			out := []mstate{st.clone()}
			n := st.clone()
			if fresh := n.insert(o.Item, false); fresh == o.Fresh {
				out = append(out, n)
			}
			return out, ""
		default:
			return nil, "unexpected-error"
		}
	case "next":
		switch o.Err {
		case errNone:
			if len(st.fifo) == 0 {
				return nil, "delivery-not-pending"
			}
			if int(st.fifo[0]) != o.Item {
				if st.pending(o.Item) {
					return nil, "order"
				}
				return nil, "delivery-not-pending"
			}
			if st.cnt[o.Item] != o.Dup {
				return nil, "dup-count"
			}
			n := st.clone()
			n.pop()
			return []mstate{n}, ""
		case errClosed:
			if !st.closed {
				return nil, "closed-reported-while-open"
			}
			if st.protectedPending() {
				return nil, "closed-before-drained"
			}
			return []mstate{st.clone()}, ""
		case errCtx:
			if cs, ok := h.cancelStep[o.Ctx]; !ok || cs > s {
				return nil, "spurious-ctx-error"
			}
			return []mstate{st.clone()}, ""
		default:
			return nil, "unexpected-error"
		}
	}
	return nil, "unknown-op"
}

var reasonPriority = []string{
	"unexpected-error", "spurious-ctx-error", "insert-after-close-accepted", "insert-refused-while-open",
	"closed-reported-while-open", "closed-before-drained", "delivery-not-pending", "order", "dup-count", "fresh-flag", "unknown-op",
}

func pickReason(rs map[string]int) string {
	// the most specific reason: one shared by every candidate if any, else by priority
	best, bestN := "", -1
	for _, r := range reasonPriority {
		if n, ok := rs[r]; ok && n > bestN {
			best, bestN = r, n
		}
	}
	if best == "" {
		return "unexplained"
	}
	return best
}

func candStates(cs map[string]*cand, max int) string {
	keys := make([]string, 0, len(cs))
	for k := range cs {
		keys = append(keys, k)
	}
	sort.Strings(keys)
	seen := map[string]bool{}
	var out []string
	for _, k := range keys {
		s := cs[k].st.String()
		if !seen[s] {
			seen[s] = true
			out = append(out, s)
		}
	}
	if len(out) > max {
		out = append(out[:max], "...")
	}
	return strings.Join(out, " or ")
}

// explain returns nil if the history is a behaviour of the model.
func (h *history) explain() *verr {
	cands := map[string]*cand{}
	init := &cand{eff: map[int]bool{}}
	cands[init.key()] = init
	for s := 0; s < h.nSteps; s++ {
		var active []*opRec
		for _, o := range h.ops {
			if o.Inv <= s && (o.Ret < 0 || o.Ret >= s) {
				active = append(active, o)
			}
		}
		before := cands
		// closure under "some active call that has not taken effect takes effect now"
		all := map[string]*cand{}
		var work []*cand
		for k, c := range cands {
			all[k] = c
			work = append(work, c)
		}
		sort.Slice(work, func(i, j int) bool { return work[i].key() < work[j].key() })
		reasons := map[int]map[string]int{}
		for len(work) > 0 {
			c := work[len(work)-1]
			work = work[:len(work)-1]
			for _, o := range active {
				if c.eff[o.ID] {
					continue
				}
				succ, why := h.apply(&c.st, o, s)
				if why != "" {
					if reasons[o.ID] == nil {
						reasons[o.ID] = map[string]int{}
					}
					reasons[o.ID][why]++
					continue
				}
				for _, st := range succ {
					n := c.with(st, o.ID)
					k := n.key()
					if _, ok := all[k]; !ok {
						all[k] = n
						work = append(work, n)
					}
				}
			}
		}
		// every call that returned in this step has taken effect
		next := map[string]*cand{}
		for _, c := range all {
			ok := true
			for _, o := range active {
				if o.Ret == s && !c.eff[o.ID] {
					ok = false
					break
				}
			}
			if ok {
				next[c.key()] = c
			}
		}
		if len(next) == 0 {
			// blame the first returning call that no candidate could perform
			for _, o := range active {
				if o.Ret != s {
					continue
				}
				done := false
				for _, c := range all {
					if c.eff[o.ID] {
						done = true
						break
					}
				}
				if !done {
					why := pickReason(reasons[o.ID])
					return newVerr(why, "step %d: %s is not a behaviour of the queue model (%s); model state before the step: %s", s, o, why, candStates(before, 4))
				}
			}
			return newVerr("unexplained", "step %d: the calls returning in this step cannot all be explained together; model state before the step: %s", s, candStates(before, 4))
		}
		// quiescence: a consumer blocked inside Next has not taken effect and the queue is empty
		for _, o := range active {
			if o.Kind == "next" && (o.Ret < 0 || o.Ret > s) && o.Waiting[s] {
				kept := map[string]*cand{}
				for k, c := range next {
					if !c.eff[o.ID] && len(c.st.fifo) == 0 {
						kept[k] = c
					}
				}
				if len(kept) == 0 {
					return newVerr("stuck-consumer", "after step %d the consumer is blocked inside %s although every explanation of the history so far has pending items: %s", s, o, candStates(next, 4))
				}
				next = kept
			}
		}
		// Len() at quiescence
		if s < len(h.lenAt) && h.lenAt[s] >= 0 {
			kept := map[string]*cand{}
			for k, c := range next {
				if len(c.st.fifo) == h.lenAt[s] {
					kept[k] = c
				}
			}
			if len(kept) == 0 {
				return newVerr("len-mismatch", "after step %d Len()=%d but the model holds %s", s, h.lenAt[s], candStates(next, 4))
			}
			next = kept
		}
		// forget calls that are over
		for _, c := range next {
			for _, o := range active {
				if o.Ret == s {
					delete(c.eff, o.ID)
				}
			}
		}
		cands = map[string]*cand{}
		for _, c := range next {
			cands[c.key()] = c
		}
	}
	return nil
}

// ---------------------------------------------------------------------------
// Direct oracles (each one a clause of the property, stated on the history
// without the model). They are implied by explain(); they exist to give
// violations the class the property names and to cross-check the checker.
// ---------------------------------------------------------------------------

func (h *history) direct() *verr {
	type count struct{ before, accepted, delivered int }
	per := map[int]*count{}
	get := func(x int) *count {
		if per[x] == nil {
			per[x] = &count{}
		}
		return per[x]
	}
	overlapClose := false
	for _, o := range h.ops {
		if o.Ret < 0 {
			return newVerr("stuck-call", "%s", o)
		}
		switch o.Kind {
		case "insert":
			switch o.Err {
			case errNone:
				if h.firstClose >= 0 && o.Inv > h.firstClose {
					return newVerr("insert-after-close-accepted", "%s started after Close() returned in step %d and was accepted", o, h.firstClose)
				}
				c := get(o.Item)
				c.accepted++
				if h.firstClose < 0 || o.Ret < h.firstClose {
					c.before++
				} else {
					overlapClose = true
				}
			case errClosed:
				if h.firstClose < 0 || o.Ret < h.firstClose {
					return newVerr("insert-refused-while-open", "%s was refused before any Close()", o)
				}
			default:
				return newVerr("unexpected-error", "%s: %s", o, o.ErrText)
			}
		case "next":
			switch o.Err {
			case errNone:
				if o.Item < 0 {
					return newVerr("delivery-not-pending", "%s delivered a value that was never inserted: %s", o, o.ErrText)
				}
			case errCtx:
				if cs, ok := h.cancelStep[o.Ctx]; !ok || cs > o.Ret {
					return newVerr("spurious-ctx-error", "%s although its context was not cancelled", o)
				}
			case errClosed:
				if h.firstClose < 0 || o.Ret < h.firstClose {
					return newVerr("closed-reported-while-open", "%s before any Close()", o)
				}
			default:
				return newVerr("unexpected-error", "%s: %s", o, o.ErrText)
			}
		}
	}
	// deliveries in return order (one consumer, sequential calls)
	var nexts []*opRec
	for _, o := range h.ops {
		if o.Kind == "next" {
			nexts = append(nexts, o)
		}
	}
	sort.SliceStable(nexts, func(i, j int) bool { return nexts[i].Ret < nexts[j].Ret })
	told := false
	for _, n := range nexts {
		switch n.Err {
		case errNone:
			c := get(n.Item)
			c.delivered += 1 + int(n.Dup)
			// a delivery cannot account for more insertions than were started
			started := 0
			for _, o := range h.ops {
				if o.Kind == "insert" && o.Item == n.Item && o.Err == errNone && o.Inv <= n.Ret {
					started++
				}
			}
			if c.delivered > started {
				return newVerr("conservation", "%s: deliveries of %s now account for %d insertions but only %d accepted Insert(%s) calls had started", n, itemName(n.Item), c.delivered, started, itemName(n.Item))
			}
		case errClosed:
			told = true
			// every insertion that completed before the close has been delivered
			for x, c := range per {
				if c.delivered < c.before {
					return newVerr("closed-before-drained", "%s: consumer told the queue is closed although only %d of the %d insertions of %s that completed before Close() (step %d) were delivered", n, c.delivered, c.before, itemName(x), h.firstClose)
				}
			}
		}
	}
	if !told {
		return newVerr("no-closed-report", "the consumer was never told the queue is closed although it kept calling Next after Close()")
	}
	items := make([]int, 0, len(per))
	for x := range per {
		items = append(items, x)
	}
	sort.Ints(items)
	for _, x := range items {
		c := per[x]
		if c.delivered < c.before || c.delivered > c.accepted {
			rel := "nothing overlapped the close, so they must be equal"
			if overlapClose {
				rel = fmt.Sprintf("%d accepted insertions overlapped the close", c.accepted-c.before)
			}
			return newVerr("conservation", "item %s: sum of (1+dup) over deliveries = %d, insertions accepted before Close was invoked = %d, accepted at all = %d (%s)", itemName(x), c.delivered, c.before, c.accepted, rel)
		}
	}
	return nil
}
