package coalesceprop

import (
	"encoding/json"
	"flag"
	"fmt"
	"os"
	"sync/atomic"
	"testing"

	"verif/harness/internal/vstat"
)

func TestMain(m *testing.M) {
	flag.Parse()
	os.Exit(m.Run())
}

// replayTries: the queue's Next blocks in a select; which ready case it takes
// is chosen by the Go runtime, not by the scenario. A replay therefore runs
// the scenario repeatedly and fails if any run fails.
var replayTries = flag.Int("c11.replaytries", 64, "how many times TestReplay runs the scenario (fails if any run fails)")

// shrinkTries: how often a shrink candidate is run before it counts as passing
// (only after the first failure of a rapid run; the search itself runs every
// generated case once).
const shrinkTries = 16

// whereNow: what the (single) case goroutine of a rapid part is doing, for the lock watch's message.
var whereNow atomic.Pointer[func() string]

func setWhere(format string, a ...any) {
	s := fmt.Sprintf(format, a...)
	setWhereFunc(func() string { return s })
}

func setWhereFunc(f func() string) { whereNow.Store(&f) }

func getWhere() string {
	if p := whereNow.Load(); p != nil {
		return (*p)()
	}
	return ""
}

// lockVerdictMessage words the lock watch's verdict for one stuck case.
func lockVerdictMessage(c stuckCase, glogV int, waiters string) string {
	where := c.where
	if where == "" {
		where = "a call of the queue"
	}
	return fmt.Sprintf("%s never returns (glog verbosity %d): every goroutine of the case is blocked and at least one waits for a lock that nobody is left to release "+
		"(goroutine states, not a timeout). A call that hangs with the queue's mutex held blocks every later Insert, Next and Len: pending items are never delivered and the waiting consumer is never told 'closed'.\ngoroutines waiting for a lock:\n%s", where, glogV, waiters)
}

// watchPart starts the lock watch for a part: the stuck cases become violations (replay = scenario,
// the drawn glog verbosity is recorded with it) and the process ends, since goroutines that wait
// for a lock for ever cannot be unwound.
func watchPart(rec *vstat.Recorder, kind string) *lockWatch {
	return startLockWatch(func(stuck []stuckCase, waiters string) {
		for i, c := range stuck {
			if i >= 3 {
				break
			}
			v := vstat.GlogV()
			if sc, ok := c.scenario.(*SeqScenario); ok {
				v = sc.V
			}
			msg := lockVerdictMessage(c, v, waiters)
			rec.AddViolation(c.scenario, kind, "deadlock-on-lock", "%s", msg)
			fmt.Printf("C11 violation (deadlock-on-lock): %s\n", msg)
		}
		rec.Flush(true)
		os.Exit(1)
	})
}

// TestReplay re-runs a saved scenario of either kind without the generators.
func TestReplay(t *testing.T) {
	rf, ok, err := vstat.LoadReplay()
	if !ok {
		t.Skip()
	}
	if err != nil {
		t.Fatal(err)
	}
	rec := vstat.New(rf.Property, "replay")
	defer rec.Flush(true)
	w := startLockWatch(func(stuck []stuckCase, waiters string) {
		msg := lockVerdictMessage(stuck[0], replayV(rf), waiters)
		rec.AddViolation(json.RawMessage(rf.Scenario), rf.Kind, "deadlock-on-lock", "%s", msg)
		rec.Flush(true)
		fmt.Println("REPLAY-FAIL:", msg)
		os.Exit(1)
	})
	defer w.close()
	slot := w.slot()
	slot.begin(func() (any, string) { return json.RawMessage(rf.Scenario), getWhere() })
	defer slot.end()
	if msg := replayOne(t, rf); msg != "" {
		rec.AddViolation(json.RawMessage(rf.Scenario), rf.Kind, rf.Class, "%s", msg)
		fmt.Println("REPLAY-FAIL:", msg)
		t.Fail()
		return
	}
	rec.Case(json.RawMessage(rf.Scenario), false, "replayed")
	fmt.Println("REPLAY-OK")
}

func replayOne(t *testing.T, rf *vstat.ReplayFile) string {
	if rf.Property != "C11" {
		return "replay file is for property " + rf.Property + ", this engine decides C11"
	}
	switch {
	case rf.Part == "window":
		return replayWindow(t, rf)
	case rf.Part == "large":
		return replayLarge(t, rf)
	case rf.Part == "stress":
		return replayStress(t, rf)
	case rf.Kind == "seq" || rf.Part == "exhaustive":
		var sc SeqScenario
		if err := json.Unmarshal(rf.Scenario, &sc); err != nil {
			return "bad scenario: " + err.Error()
		}
		defer vstat.SetGlogV(sc.V)()
		var progress atomic.Int32
		for i := 0; i < *replayTries; i++ {
			setWhereFunc(func() string { return seqWhere(&sc, int(progress.Load())) })
			if _, err := runSeqP(t, &sc, &progress); err != nil {
				return fmt.Sprintf("(run %d of %d) %v", i+1, *replayTries, err)
			}
		}
		return ""
	case rf.Kind == "rapid" || rf.Kind == "crash" || rf.Part == "concurrent":
		var sc ConcScenario
		if err := json.Unmarshal(rf.Scenario, &sc); err != nil {
			return "bad scenario: " + err.Error()
		}
		for i := 0; i < *replayTries; i++ {
			if _, err := runConc(t, &sc); err != nil {
				return fmt.Sprintf("(run %d of %d) %v", i+1, *replayTries, err)
			}
		}
		return ""
	}
	return "unknown replay kind " + rf.Kind
}

// replayV is the glog verbosity a replay runs at: the exhaustive part carries it inside the
// scenario, the rapid parts in the replay file (vstat.LoadReplay has applied that one already).
func replayV(rf *vstat.ReplayFile) int {
	var sc struct {
		V int `json:"glog_v"`
	}
	if json.Unmarshal(rf.Scenario, &sc) == nil && sc.V > 0 {
		return sc.V
	}
	return rf.GlogV
}
