package coalesceprop

import (
	"encoding/json"
	"flag"
	"fmt"
	"os"
	"testing"

	"verif/harness/internal/vstat"
)

func TestMain(m *testing.M) {
	flag.Parse()
	os.Exit(m.Run())
}

// replayTries: the queue's Next blocks in a select; which ready case it takes
// is chosen by the Go runtime, not by the scenario. A replay therefore runs
// the scenario repeatedly and fails if any run fails.
var replayTries = flag.Int("c11.replaytries", 64, "how many times TestReplay runs the scenario (fails if any run fails)")

// shrinkTries: how often a shrink candidate is run before it counts as passing
// (only after the first failure of a rapid run; the search itself runs every
// generated case once).
const shrinkTries = 16

// TestReplay re-runs a saved scenario of either kind without the generators.
func TestReplay(t *testing.T) {
	rf, ok, err := vstat.LoadReplay()
	if !ok {
		t.Skip()
	}
	if err != nil {
		t.Fatal(err)
	}
	rec := vstat.New(rf.Property, "replay")
	defer rec.Flush(true)
	if msg := replayOne(t, rf); msg != "" {
		rec.AddViolation(json.RawMessage(rf.Scenario), rf.Kind, rf.Class, "%s", msg)
		fmt.Println("REPLAY-FAIL:", msg)
		t.Fail()
		return
	}
	rec.Case(json.RawMessage(rf.Scenario), false, "replayed")
	fmt.Println("REPLAY-OK")
}

func replayOne(t *testing.T, rf *vstat.ReplayFile) string {
	if rf.Property != "C11" {
		return "replay file is for property " + rf.Property + ", this engine decides C11"
	}
	switch {
	case rf.Part == "window":
		return replayWindow(t, rf)
	case rf.Part == "large":
		return replayLarge(rf)
	case rf.Part == "stress":
		return replayStress(t, rf)
	case rf.Kind == "seq" || rf.Part == "exhaustive":
		var sc SeqScenario
		if err := json.Unmarshal(rf.Scenario, &sc); err != nil {
			return "bad scenario: " + err.Error()
		}
		for i := 0; i < *replayTries; i++ {
			if _, err := runSeq(t, &sc); err != nil {
				return fmt.Sprintf("(run %d of %d) %v", i+1, *replayTries, err)
			}
		}
		return ""
	case rf.Kind == "rapid" || rf.Kind == "crash" || rf.Part == "concurrent":
		var sc ConcScenario
		if err := json.Unmarshal(rf.Scenario, &sc); err != nil {
			return "bad scenario: " + err.Error()
		}
		for i := 0; i < *replayTries; i++ {
			if _, err := runConc(t, &sc); err != nil {
				return fmt.Sprintf("(run %d of %d) %v", i+1, *replayTries, err)
			}
		}
		return ""
	}
	return "unknown replay kind " + rf.Kind
}
