package coalesceprop

import (
	"context"
	"errors"
	"fmt"
	"runtime"
	"sync"
	"sync/atomic"
	"testing"
	"testing/synctest"

	"github.com/openconfig/gnmi/coalesce"
	"verif/harness/internal/vstat"
)

// SeqScenario is a single-goroutine op sequence on a fresh queue.
// Ops: "ia" "ib" "ic" (Insert of item a/b/c), "next", "len", "close".
type SeqScenario struct {
	Ops []string `json:"ops"`
	// V is the glog verbosity (-v) of the process while the sequence runs: code inside
	// `if log.V(n)` blocks of the queue (formatting, extra locking, calls of the queue's own
	// methods) only executes at V >= n. 0 = the default, as in every test of the repository.
	V int `json:"glog_v,omitempty"`
}

var seqAlphabet = []string{"ia", "ib", "ic", "next", "len", "close"}

type seqStats struct {
	dupWhilePending, closeWithPending, refusedInsert, cancelledNext, closedReported, drainedAfterClose, reinsertAfterDelivery, dupGE2 bool
	secondLifetime                                                                                                                    bool
	verbose                                                                                                                           int
	sawInsert, sawNext, sawClose                                                                                                      bool
}

func (s seqStats) nontrivial() bool { return s.dupWhilePending && s.closeWithPending }

func (s seqStats) labels() []string {
	var l []string
	add := func(b bool, n string) {
		if b {
			l = append(l, n)
		}
	}
	add(s.dupWhilePending, "dup-coalesced")
	add(s.dupGE2, "dup-ge-2")
	add(s.closeWithPending, "close-with-pending")
	add(s.refusedInsert, "insert-after-close-refused")
	add(s.cancelledNext, "next-on-empty-open-cancelled-ctx")
	add(s.closedReported, "closed-reported-when-empty")
	add(s.drainedAfterClose, "delivery-after-close")
	add(s.reinsertAfterDelivery, "reinsert-after-delivery")
	add(s.secondLifetime, "stale-handle-of-closed-queue-used-after-next-NewQueue")
	add(s.verbose > 0, "glog-verbosity>0")
	add(s.verbose > 0 && s.sawInsert && s.sawNext && s.sawClose, "glog-verbosity>0:insert+next+close+len-in-one-sequence")
	add(s.verbose > 0 && s.dupWhilePending && s.closeWithPending, "glog-verbosity>0:nontrivial")
	return l
}

// runSeq executes sc inside its own bubble. A call that blocks leaves every
// goroutine of the bubble durably blocked, which synctest reports by a panic
// on the calling goroutine: that is how "Next ignored the cancelled context"
// (or any other unexpected blocking) is decided without a wall-clock timeout.
// A call that waits for a mutex forever is not durably blocked; that verdict
// comes from the lock watch (lockwatch.go), which reads progress.
// The caller has set the process's glog verbosity to sc.V (seqAtV).
func runSeq(t *testing.T, sc *SeqScenario) (st seqStats, err error) {
	var progress atomic.Int32
	return runSeqP(t, sc, &progress)
}

func runSeqP(t *testing.T, sc *SeqScenario, progress *atomic.Int32) (st seqStats, err error) {
	progress.Store(-1)
	defer func() {
		if r := recover(); r != nil {
			err = newVerr("blocked-call", "%s did not return (glog verbosity %d): %v", seqWhere(sc, int(progress.Load())), sc.V, r)
		}
	}()
	synctest.Test(t, func(*testing.T) {
		defer func() {
			if r := recover(); r != nil {
				err = newVerr("panic", "panic at %s (glog verbosity %d): %v", seqWhere(sc, int(progress.Load())), sc.V, r)
			}
		}()
		st, err = runSeqBubble(sc, progress)
	})
	return st, err
}

// seqWhere names the call a sequence is in. Every op is followed by Len() and IsClosed();
// progress is 3*i while op i runs, 3*i+1 during the Len() after it, 3*i+2 during IsClosed().
func seqWhere(sc *SeqScenario, progress int) string {
	i := progress / 3
	switch {
	case progress < 0:
		return "NewQueue()"
	case i >= len(sc.Ops):
		return "the second-lifetime epilogue (NewQueue after the closed queue was drained, then calls through the old handle)"
	}
	what := map[string]string{"ia": "Insert(a)", "ib": "Insert(b)", "ic": "Insert(c)", "next": "Next", "len": "Len()", "close": "Close()"}[sc.Ops[i]]
	switch progress % 3 {
	case 1:
		return fmt.Sprintf("Len() after op %d (%s)", i, what)
	case 2:
		return fmt.Sprintf("IsClosed() after op %d (%s)", i, what)
	}
	return fmt.Sprintf("op %d (%s)", i, what)
}

// seqAtV runs f with the process's glog verbosity set to v.
func seqAtV(v int, f func()) {
	defer vstat.SetGlogV(v)()
	f()
}

func runSeqBubble(sc *SeqScenario, progress *atomic.Int32) (st seqStats, err error) {
	q := coalesce.NewQueue()
	var m mstate
	live, cancelLive := context.WithCancel(context.Background())
	defer cancelLive()
	dead, cancelDead := context.WithCancel(context.Background())
	cancelDead()
	delivered := [maxItems]bool{}
	st.verbose = sc.V
	toldClosed := false
	for i, op := range sc.Ops {
		progress.Store(int32(3 * i))
		switch op {
		case "ia", "ib", "ic":
			st.sawInsert = true
			x := int(op[1] - 'a')
			fresh, ierr := q.Insert(x)
			if m.closed {
				if ierr == nil {
					return st, newVerr("insert-after-close-accepted", "op %d Insert(%s) on a closed queue returned (%v, nil); model %s", i, itemName(x), fresh, &m)
				}
				if !coalesce.IsClosedQueue(ierr) {
					return st, newVerr("unexpected-error", "op %d Insert(%s) on a closed queue returned error %v, not the closed-queue error", i, itemName(x), ierr)
				}
				st.refusedInsert = true
				break
			}
			if ierr != nil {
				return st, newVerr("insert-refused-while-open", "op %d Insert(%s) on an open queue returned error %v; model %s", i, itemName(x), ierr, &m)
			}
			want := m.insert(x, true)
			if fresh != want {
				return st, newVerr("fresh-flag", "op %d Insert(%s) returned fresh=%v, model says %v; model %s", i, itemName(x), fresh, want, &m)
			}
			if !want {
				st.dupWhilePending = true
				if m.cnt[x] >= 2 {
					st.dupGE2 = true
				}
			} else if delivered[x] {
				st.reinsertAfterDelivery = true
			}
		case "next":
			st.sawNext = true
			switch {
			case len(m.fifo) > 0:
				it, dup, nerr := q.Next(live)
				if nerr != nil {
					return st, newVerr(classOfNextErr(nerr, &m), "op %d Next returned error %v, model %s", i, nerr, &m)
				}
				got, ok := it.(int)
				if !ok {
					return st, newVerr("delivery-not-pending", "op %d Next returned %v (%T), never inserted", i, it, it)
				}
				before := m.String()
				wx, wd := m.pop()
				if got != wx {
					return st, newVerr("order", "op %d Next returned (%s, dup %d), model %s expects (%s, dup %d)", i, itemName(got), dup, before, itemName(wx), wd)
				}
				if dup != wd {
					return st, newVerr("dup-count", "op %d Next returned (%s, dup %d), model %s expects dup %d", i, itemName(got), dup, before, wd)
				}
				delivered[got] = true
				if m.closed {
					st.drainedAfterClose = true
				}
			case m.closed:
				it, _, nerr := q.Next(live)
				if !coalesce.IsClosedQueue(nerr) {
					return st, newVerr("no-closed-report", "op %d Next on an empty closed queue returned (%v, %v), want the closed-queue error", i, it, nerr)
				}
				st.closedReported = true
				toldClosed = true
			default:
				// would block: called with an already-cancelled context
				it, _, nerr := q.Next(dead)
				if nerr == nil {
					return st, newVerr("delivery-not-pending", "op %d Next on an empty open queue returned item %v", i, it)
				}
				if coalesce.IsClosedQueue(nerr) {
					return st, newVerr("closed-reported-while-open", "op %d Next on an empty open queue reported closed", i)
				}
				if !errors.Is(nerr, dead.Err()) {
					return st, newVerr("unexpected-error", "op %d Next(cancelled ctx) on an empty open queue returned %v, want %v", i, nerr, dead.Err())
				}
				st.cancelledNext = true
			}
		case "len":
			// checked after every op below
		case "close":
			st.sawClose = true
			if len(m.fifo) > 0 && !m.closed {
				st.closeWithPending = true
			}
			q.Close()
			m.closed = true
		default:
			return st, fmt.Errorf("unknown op %q", op)
		}
		progress.Store(int32(3*i + 1))
		if n := q.Len(); n != len(m.fifo) {
			return st, newVerr("len-mismatch", "after op %d (%s) Len()=%d, model %s", i, op, n, &m)
		}
		progress.Store(int32(3*i + 2))
		if c := q.IsClosed(); c != m.closed {
			return st, newVerr("isclosed-mismatch", "after op %d (%s) IsClosed()=%v, model %s", i, op, c, &m)
		}
	}
	progress.Store(int32(3 * len(sc.Ops)))
	if toldClosed && len(m.fifo) == 0 {
		// Second lifetime: the queue is closed, drained and its consumer has been told so. The server
		// creates the next subscriber's queue now, while producers of the finished subscription still
		// hold the old handle: "insertions after close are refused" has no expiry date, and what goes
		// into the new queue is exactly what comes out of it.
		st.secondLifetime = true
		q2 := coalesce.NewQueue()
		if fresh, err := q2.Insert(7); err != nil || !fresh {
			return st, newVerr("insert-refused-while-open", "Insert(7) into a new queue (created after the first one was closed and drained) returned (%v, %v)", fresh, err)
		}
		if fresh, err := q.Insert(0); err == nil {
			return st, newVerr("insert-after-close-accepted", "Insert(a) through the handle of the closed and drained queue, after NewQueue() was called for the next queue, returned (%v, nil)", fresh)
		} else if !coalesce.IsClosedQueue(err) {
			return st, newVerr("unexpected-error", "Insert(a) on the closed queue returned error %v, not the closed-queue error", err)
		}
		if n, c := q.Len(), q.IsClosed(); n != 0 || !c {
			return st, newVerr("len-mismatch", "closed and drained queue after NewQueue() for the next queue: Len()=%d IsClosed()=%v, want 0 true", n, c)
		}
		if _, _, nerr := q.Next(live); !coalesce.IsClosedQueue(nerr) {
			return st, newVerr("no-closed-report", "Next on the closed and drained queue, after NewQueue() for the next queue, returned %v, want the closed-queue error", nerr)
		}
		if n, c := q2.Len(), q2.IsClosed(); n != 1 || c {
			return st, newVerr("len-mismatch", "new queue holding one item: Len()=%d IsClosed()=%v, want 1 false", n, c)
		}
		if it, dup, nerr := q2.Next(live); nerr != nil || it != 7 || dup != 0 {
			return st, newVerr("delivery-not-pending", "new queue holding item 7: Next returned (%v, dup %d, %v)", it, dup, nerr)
		}
		q2.Close()
		if _, _, nerr := q2.Next(live); !coalesce.IsClosedQueue(nerr) {
			return st, newVerr("no-closed-report", "Next on the second queue, closed and empty, returned %v", nerr)
		}
	}
	return st, nil
}

func classOfNextErr(err error, m *mstate) string {
	if coalesce.IsClosedQueue(err) {
		if m.closed {
			return "closed-before-drained"
		}
		return "closed-reported-while-open"
	}
	return "unexpected-error"
}

func classOf(err error) string {
	var v *verr
	if errors.As(err, &v) {
		return v.class
	}
	return "harness-error"
}

// enumerateSeq calls f on every sequence of exactly n ops (at glog verbosity v, which the caller
// has set), split over all cores. Every worker announces its case to the lock watch.
func enumerateSeq(n, v int, w *lockWatch, f func(*SeqScenario, *atomic.Int32) bool) {
	total := 1
	for i := 0; i < n; i++ {
		total *= len(seqAlphabet)
	}
	workers := runtime.NumCPU()
	chunk := (total + workers*4 - 1) / (workers * 4)
	var wg sync.WaitGroup
	sem := make(chan struct{}, workers)
	for lo := 0; lo < total; lo += chunk {
		hi := lo + chunk
		if hi > total {
			hi = total
		}
		wg.Add(1)
		sem <- struct{}{}
		go func(lo, hi int) {
			defer wg.Done()
			defer func() { <-sem }()
			sc := &SeqScenario{Ops: make([]string, n), V: v}
			var progress atomic.Int32
			slot := w.slot()
			sample := func() (any, string) {
				return &SeqScenario{Ops: append([]string(nil), sc.Ops...), V: sc.V}, seqWhere(sc, int(progress.Load()))
			}
			for idx := lo; idx < hi; idx++ {
				rest := idx
				for i := n - 1; i >= 0; i-- {
					sc.Ops[i] = seqAlphabet[rest%len(seqAlphabet)]
					rest /= len(seqAlphabet)
				}
				slot.begin(sample)
				ok := f(sc, &progress)
				slot.end()
				if !ok {
					return
				}
			}
		}(lo, hi)
	}
	wg.Wait()
}

const seqMaxLen = 7

// seqPhases: the whole space at the default verbosity, then bounded sub-enumerations with the
// process's glog verbosity raised (the verbosity is process-wide, so the phases run one after the other).
var seqPhases = []struct{ v, maxLen int }{{0, seqMaxLen}, {2, 6}, {3, 6}, {1, 5}}

// TestC11Exhaustive enumerates every sequence of <=7 ops over the 6-op alphabet, and every
// sequence of <=6 (<=5) ops again at glog verbosity 2 and 3 (1).
func TestC11Exhaustive(t *testing.T) {
	if !vstat.Enabled("C11") {
		t.Skip()
	}
	rec := vstat.New("C11", "exhaustive")
	defer rec.Flush(true)
	rec.SetExhaustive()
	w := watchPart(rec, "seq")
	defer w.close()
	var violations atomic.Int32
	check := func(sc *SeqScenario, progress *atomic.Int32) bool {
		st, err := runSeqP(t, sc, progress)
		nt := st.nontrivial()
		var h uint64
		if nt {
			h = vstat.Hash(sc)
		}
		clone := func() any { return &SeqScenario{Ops: append([]string(nil), sc.Ops...), V: sc.V} }
		rec.CaseHash(h, nt, clone, st.labels()...)
		if err != nil {
			rec.AddViolation(clone(), "seq", classOf(err), "%v", err)
			return violations.Add(1) < 3
		}
		return violations.Load() == 0
	}
	for _, ph := range seqPhases {
		seqAtV(ph.v, func() {
			for n := 1; n <= ph.maxLen && violations.Load() == 0; n++ {
				enumerateSeq(n, ph.v, w, check)
			}
		})
	}
	rec.Note("exhaustive: all sequences of <=%d ops over {Insert(a),Insert(b),Insert(c),Next,Len,Close} from one goroutine, each in its own synctest bubble (a call that blocks is detected as a bubble deadlock, a call that waits for a lock nobody can release by the lock watch: goroutine states, not a timeout); Next uses an already-cancelled context exactly when the model says it would block; Len() and IsClosed() compared after every op; a sequence that ends closed, drained and told so continues into a second queue lifetime (NewQueue, then Insert/Len/IsClosed/Next through the old handle and the new one)", seqMaxLen)
	rec.Note("exhaustive: glog verbosity as a dimension: all sequences of <=6 ops again at -v=2 and at -v=3, all of <=5 ops at -v=1 (labels glog-verbosity>0...); the verbosity is part of the scenario (glog_v)")
	if violations.Load() > 0 {
		t.Fail()
	}
}
