package coalesceprop

import (
	"context"
	"errors"
	"fmt"
	"runtime"
	"sync"
	"sync/atomic"
	"testing"
	"testing/synctest"

	"github.com/openconfig/gnmi/coalesce"
	"verif/harness/internal/vstat"
)

// SeqScenario is a single-goroutine op sequence on a fresh queue.
// Ops: "ia" "ib" "ic" (Insert of item a/b/c), "next", "len", "close".
type SeqScenario struct {
	Ops []string `json:"ops"`
}

var seqAlphabet = []string{"ia", "ib", "ic", "next", "len", "close"}

type seqStats struct {
	dupWhilePending, closeWithPending, refusedInsert, cancelledNext, closedReported, drainedAfterClose, reinsertAfterDelivery, dupGE2 bool
}

func (s seqStats) nontrivial() bool { return s.dupWhilePending && s.closeWithPending }

func (s seqStats) labels() []string {
	var l []string
	add := func(b bool, n string) {
		if b {
			l = append(l, n)
		}
	}
	add(s.dupWhilePending, "dup-coalesced")
	add(s.dupGE2, "dup-ge-2")
	add(s.closeWithPending, "close-with-pending")
	add(s.refusedInsert, "insert-after-close-refused")
	add(s.cancelledNext, "next-on-empty-open-cancelled-ctx")
	add(s.closedReported, "closed-reported-when-empty")
	add(s.drainedAfterClose, "delivery-after-close")
	add(s.reinsertAfterDelivery, "reinsert-after-delivery")
	return l
}

// runSeq executes sc inside its own bubble. A call that blocks leaves every
// goroutine of the bubble durably blocked, which synctest reports by a panic
// on the calling goroutine: that is how "Next ignored the cancelled context"
// (or any other unexpected blocking) is decided without a wall-clock timeout.
func runSeq(t *testing.T, sc *SeqScenario) (st seqStats, err error) {
	var progress atomic.Int32
	progress.Store(-1)
	defer func() {
		if r := recover(); r != nil {
			i := int(progress.Load())
			what := "?"
			if i >= 0 && i < len(sc.Ops) {
				what = sc.Ops[i]
			}
			err = newVerr("blocked-call", "op %d (%s) did not return: %v", i, what, r)
		}
	}()
	synctest.Test(t, func(*testing.T) {
		defer func() {
			if r := recover(); r != nil {
				err = newVerr("panic", "panic at op %d: %v", progress.Load(), r)
			}
		}()
		st, err = runSeqBubble(sc, &progress)
	})
	return st, err
}

func runSeqBubble(sc *SeqScenario, progress *atomic.Int32) (st seqStats, err error) {
	q := coalesce.NewQueue()
	var m mstate
	live, cancelLive := context.WithCancel(context.Background())
	defer cancelLive()
	dead, cancelDead := context.WithCancel(context.Background())
	cancelDead()
	delivered := [maxItems]bool{}
	for i, op := range sc.Ops {
		progress.Store(int32(i))
		switch op {
		case "ia", "ib", "ic":
			x := int(op[1] - 'a')
			fresh, ierr := q.Insert(x)
			if m.closed {
				if ierr == nil {
					return st, newVerr("insert-after-close-accepted", "op %d Insert(%s) on a closed queue returned (%v, nil); model %s", i, itemName(x), fresh, &m)
				}
				if !coalesce.IsClosedQueue(ierr) {
					return st, newVerr("unexpected-error", "op %d Insert(%s) on a closed queue returned error %v, not the closed-queue error", i, itemName(x), ierr)
				}
				st.refusedInsert = true
				break
			}
			if ierr != nil {
				return st, newVerr("insert-refused-while-open", "op %d Insert(%s) on an open queue returned error %v; model %s", i, itemName(x), ierr, &m)
			}
			want := m.insert(x, true)
			if fresh != want {
				return st, newVerr("fresh-flag", "op %d Insert(%s) returned fresh=%v, model says %v; model %s", i, itemName(x), fresh, want, &m)
			}
			if !want {
				st.dupWhilePending = true
				if m.cnt[x] >= 2 {
					st.dupGE2 = true
				}
			} else if delivered[x] {
				st.reinsertAfterDelivery = true
			}
		case "next":
			switch {
			case len(m.fifo) > 0:
				it, dup, nerr := q.Next(live)
				if nerr != nil {
					return st, newVerr(classOfNextErr(nerr, &m), "op %d Next returned error %v, model %s", i, nerr, &m)
				}
				got, ok := it.(int)
				if !ok {
					return st, newVerr("delivery-not-pending", "op %d Next returned %v (%T), never inserted", i, it, it)
				}
				before := m.String()
				wx, wd := m.pop()
				if got != wx {
					return st, newVerr("order", "op %d Next returned (%s, dup %d), model %s expects (%s, dup %d)", i, itemName(got), dup, before, itemName(wx), wd)
				}
				if dup != wd {
					return st, newVerr("dup-count", "op %d Next returned (%s, dup %d), model %s expects dup %d", i, itemName(got), dup, before, wd)
				}
				delivered[got] = true
				if m.closed {
					st.drainedAfterClose = true
				}
			case m.closed:
				it, _, nerr := q.Next(live)
				if !coalesce.IsClosedQueue(nerr) {
					return st, newVerr("no-closed-report", "op %d Next on an empty closed queue returned (%v, %v), want the closed-queue error", i, it, nerr)
				}
				st.closedReported = true
			default:
				// would block: called with an already-cancelled context
				it, _, nerr := q.Next(dead)
				if nerr == nil {
					return st, newVerr("delivery-not-pending", "op %d Next on an empty open queue returned item %v", i, it)
				}
				if coalesce.IsClosedQueue(nerr) {
					return st, newVerr("closed-reported-while-open", "op %d Next on an empty open queue reported closed", i)
				}
				if !errors.Is(nerr, dead.Err()) {
					return st, newVerr("unexpected-error", "op %d Next(cancelled ctx) on an empty open queue returned %v, want %v", i, nerr, dead.Err())
				}
				st.cancelledNext = true
			}
		case "len":
			// checked after every op below
		case "close":
			if len(m.fifo) > 0 && !m.closed {
				st.closeWithPending = true
			}
			q.Close()
			m.closed = true
		default:
			return st, fmt.Errorf("unknown op %q", op)
		}
		if n := q.Len(); n != len(m.fifo) {
			return st, newVerr("len-mismatch", "after op %d (%s) Len()=%d, model %s", i, op, n, &m)
		}
		if c := q.IsClosed(); c != m.closed {
			return st, newVerr("isclosed-mismatch", "after op %d (%s) IsClosed()=%v, model %s", i, op, c, &m)
		}
	}
	progress.Store(int32(len(sc.Ops)))
	return st, nil
}

func classOfNextErr(err error, m *mstate) string {
	if coalesce.IsClosedQueue(err) {
		if m.closed {
			return "closed-before-drained"
		}
		return "closed-reported-while-open"
	}
	return "unexpected-error"
}

func classOf(err error) string {
	var v *verr
	if errors.As(err, &v) {
		return v.class
	}
	return "harness-error"
}

// enumerateSeq calls f on every sequence of exactly n ops, split over all cores.
func enumerateSeq(n int, f func(*SeqScenario) bool) {
	total := 1
	for i := 0; i < n; i++ {
		total *= len(seqAlphabet)
	}
	workers := runtime.NumCPU()
	chunk := (total + workers*4 - 1) / (workers * 4)
	var wg sync.WaitGroup
	sem := make(chan struct{}, workers)
	for lo := 0; lo < total; lo += chunk {
		hi := lo + chunk
		if hi > total {
			hi = total
		}
		wg.Add(1)
		sem <- struct{}{}
		go func(lo, hi int) {
			defer wg.Done()
			defer func() { <-sem }()
			sc := &SeqScenario{Ops: make([]string, n)}
			for v := lo; v < hi; v++ {
				w := v
				for i := n - 1; i >= 0; i-- {
					sc.Ops[i] = seqAlphabet[w%len(seqAlphabet)]
					w /= len(seqAlphabet)
				}
				if !f(sc) {
					return
				}
			}
		}(lo, hi)
	}
	wg.Wait()
}

const seqMaxLen = 7

// TestC11Exhaustive enumerates every sequence of <=7 ops over the 6-op alphabet.
func TestC11Exhaustive(t *testing.T) {
	if !vstat.Enabled("C11") {
		t.Skip()
	}
	rec := vstat.New("C11", "exhaustive")
	defer rec.Flush(true)
	rec.SetExhaustive()
	var violations atomic.Int32
	check := func(sc *SeqScenario) bool {
		st, err := runSeq(t, sc)
		nt := st.nontrivial()
		var h uint64
		if nt {
			h = vstat.Hash(sc)
		}
		clone := func() any { return &SeqScenario{Ops: append([]string(nil), sc.Ops...)} }
		rec.CaseHash(h, nt, clone, st.labels()...)
		if err != nil {
			rec.AddViolation(clone(), "seq", classOf(err), "%v", err)
			return violations.Add(1) < 3
		}
		return violations.Load() == 0
	}
	for n := 1; n <= seqMaxLen && violations.Load() == 0; n++ {
		enumerateSeq(n, check)
	}
	rec.Note("exhaustive: all sequences of <=%d ops over {Insert(a),Insert(b),Insert(c),Next,Len,Close} from one goroutine, each in its own synctest bubble (a call that blocks is detected as a bubble deadlock); Next uses an already-cancelled context exactly when the model says it would block; Len() and IsClosed() compared after every op", seqMaxLen)
	if violations.Load() > 0 {
		t.Fail()
	}
}
