package coalesceprop

import (
	"context"
	"errors"
	"fmt"
	"strings"
	"sync"
	"testing"
	"testing/synctest"

	"github.com/openconfig/gnmi/coalesce"
	"github.com/openconfig/gnmi/verifhook"
	"pgregory.net/rapid"
	"verif/harness/internal/vstat"
)

// ConcScenario: logical producers with their item sequences, one consumer, and
// a schedule. Every step runs until all goroutines of the bubble are durably
// blocked (synctest.Wait), so the interleaving is part of the data.
type ConcScenario struct {
	Producers [][]int `json:"producers"`
	Steps     []CStep `json:"steps"`
	// DrainFirst: at the end of the schedule the queue is closed and the consumer
	// drained before the still-parked producers are released (see epilogue).
	DrainFirst bool `json:"drain_first,omitempty"`
}

// CStep kinds:
//
//	ins    the P-th (mod count) producer among those that are not parked and have
//	       items left calls Insert with its next item; G: arm the gate
//	       coalesce.insert.checked first, so that the call parks after the closed
//	       check and before the insertion (no-op if no producer can act)
//	rel    release the P-th (mod count) parked producer (no-op if none is parked)
//	take   the consumer starts a Next call unless one is outstanding; G: arm the
//	       gate coalesce.next.empty (the consumer's next arrival there parks:
//	       it saw the queue empty and has not started to wait)
//	crel   release the consumer from its gate / disarm it
//	close  Close()
//	cancel cancel the context of the outstanding Next call (no-op if none)
type CStep struct {
	K string `json:"k"`
	P int    `json:"p,omitempty"`
	G bool   `json:"g,omitempty"`
}

func (s CStep) String() string {
	g := ""
	if s.G {
		g = "+gate"
	}
	switch s.K {
	case "ins", "rel":
		return fmt.Sprintf("%s p%d%s", s.K, s.P, g)
	}
	return s.K + g
}

const (
	pointInsertChecked = "coalesce.insert.checked"
	pointNextEmpty     = "coalesce.next.empty"
)

type insCall struct {
	op    *opRec
	done  bool
	fresh bool
	err   error
}

type nextCall struct {
	op   *opRec
	done bool
	item interface{}
	dup  uint32
	err  error
}

type simpleCall struct{ done bool }

type harness struct {
	mu sync.Mutex
	q  *coalesce.Queue
	h  *history
	sc *ConcScenario

	// producers
	ptr       []int
	ins       []*insCall      // outstanding Insert per producer
	armIns    int             // producer whose next arrival at insert.checked parks, -1 if none
	parkedIns []chan struct{} // non-nil while producer is held at the gate

	// consumer
	cons       *nextCall
	armCons    bool
	parkedCons chan struct{}
	ctxs       []context.Context
	cancels    []context.CancelFunc
	curCtx     int // -1 if none yet

	panics []string
	st     concStats
	// last Next result returned (for the epilogue)
	lastNextErr errKind
	lastNextRet int
	accepted    int
}

type concStats struct {
	labels     map[string]bool
	nontrivial bool
}

func (h *harness) label(l string) {
	if h.st.labels == nil {
		h.st.labels = map[string]bool{}
	}
	h.st.labels[l] = true
}

func (s concStats) labelList() []string {
	out := make([]string, 0, len(s.labels))
	for l := range s.labels {
		out = append(out, l)
	}
	// order is irrelevant for counting but keep it deterministic
	sortStrings(out)
	return out
}

// hook is the verifhook handler: parks the arriving goroutine on a channel
// created inside the bubble when the gate is armed for it.
func (h *harness) hook(name string, key interface{}) {
	if q, ok := key.(*coalesce.Queue); !ok || q != h.q {
		return
	}
	switch name {
	case pointInsertChecked:
		h.mu.Lock()
		p := h.armIns
		if p < 0 {
			h.mu.Unlock()
			return
		}
		h.armIns = -1
		ch := make(chan struct{})
		h.parkedIns[p] = ch
		h.mu.Unlock()
		<-ch
	case pointNextEmpty:
		h.mu.Lock()
		if h.cons != nil {
			h.cons.op.Arrivals++
		}
		if !h.armCons {
			h.mu.Unlock()
			return
		}
		h.armCons = false
		ch := make(chan struct{})
		h.parkedCons = ch
		h.mu.Unlock()
		<-ch
	}
}

func (h *harness) recoverInto(what string) {
	if r := recover(); r != nil {
		h.mu.Lock()
		h.panics = append(h.panics, fmt.Sprintf("%s panicked: %v", what, r))
		h.mu.Unlock()
	}
}

func (h *harness) newOp(kind string, s int) *opRec {
	o := &opRec{ID: len(h.h.ops), Kind: kind, Inv: s, Ret: -1, Waiting: map[int]bool{}, Parked: map[int]bool{}}
	h.h.ops = append(h.h.ops, o)
	return o
}

func kindOfErr(err error) errKind {
	switch {
	case err == nil:
		return errNone
	case coalesce.IsClosedQueue(err):
		return errClosed
	case errors.Is(err, context.Canceled):
		return errCtx
	}
	return errOther
}

// simple runs f on a goroutine of its own and reports whether it returned by quiescence.
func (h *harness) simple(what string, f func()) bool {
	c := &simpleCall{}
	go func() {
		defer h.recoverInto(what)
		f()
		h.mu.Lock()
		c.done = true
		h.mu.Unlock()
	}()
	synctest.Wait()
	h.mu.Lock()
	defer h.mu.Unlock()
	return c.done
}

func (h *harness) finishInsert(p, s int) *verr {
	c := h.ins[p]
	h.mu.Lock()
	done, parked := c.done, h.parkedIns[p] != nil
	h.mu.Unlock()
	switch {
	case done:
		c.op.Ret = s
		c.op.Fresh = c.fresh
		c.op.Err = kindOfErr(c.err)
		if c.err != nil {
			c.op.ErrText = c.err.Error()
		} else {
			h.accepted++
		}
		h.ins[p] = nil
	case parked:
		c.op.Parked[s] = true
	default:
		return newVerr("blocked-call", "step %d: %s neither returned nor reached the gate", s, c.op)
	}
	return nil
}

// exec performs one step to quiescence and observes.
func (h *harness) exec(tok CStep) *verr {
	s := h.h.nSteps
	h.h.nSteps++
	desc := tok.String()
	setWhere("step %d (%s): a call started or released by this step, or one released earlier,", s, desc)
	np := len(h.sc.Producers)
	switch tok.K {
	case "ins":
		// P picks among the producers that can act (not parked, items left)
		var able []int
		for p := 0; p < np; p++ {
			if h.ins[p] == nil && h.ptr[p] < len(h.sc.Producers[p]) {
				able = append(able, p)
			}
		}
		if len(able) == 0 {
			desc += " (skipped)"
			break
		}
		p := able[((tok.P%len(able))+len(able))%len(able)]
		item := h.sc.Producers[p][h.ptr[p]]
		h.ptr[p]++
		op := h.newOp("insert", s)
		op.P, op.Item = p, item
		desc = fmt.Sprintf("p%d starts Insert(%s)", p, itemName(item))
		if tok.G {
			desc += " with gate " + pointInsertChecked + " armed"
		}
		c := &insCall{op: op}
		h.ins[p] = c
		h.mu.Lock()
		if tok.G {
			h.armIns = p
		}
		h.mu.Unlock()
		go func() {
			defer h.recoverInto(op.String())
			fresh, err := h.q.Insert(item)
			h.mu.Lock()
			c.fresh, c.err, c.done = fresh, err, true
			h.mu.Unlock()
		}()
		synctest.Wait()
		h.mu.Lock()
		if h.armIns == p {
			h.armIns = -1 // gate not reached (refused before the point)
			h.label("insert-gate-not-reached")
		}
		h.mu.Unlock()
		if v := h.finishInsert(p, s); v != nil {
			h.h.stepDesc = append(h.h.stepDesc, desc)
			return v
		}
	case "rel":
		// P picks among the parked producers
		h.mu.Lock()
		var parked []int
		for p := 0; p < np; p++ {
			if h.parkedIns[p] != nil {
				parked = append(parked, p)
			}
		}
		if len(parked) == 0 {
			h.mu.Unlock()
			desc += " (skipped)"
			break
		}
		p := parked[((tok.P%len(parked))+len(parked))%len(parked)]
		ch := h.parkedIns[p]
		h.parkedIns[p] = nil
		h.mu.Unlock()
		desc = fmt.Sprintf("release p%d from %s", p, pointInsertChecked)
		close(ch)
		synctest.Wait()
		if v := h.finishInsert(p, s); v != nil {
			h.h.stepDesc = append(h.h.stepDesc, desc)
			return v
		}
	case "take":
		if h.cons != nil {
			h.mu.Lock()
			if tok.G && h.parkedCons == nil && !h.armCons {
				h.armCons = true
				desc = "arm " + pointNextEmpty + " (Next outstanding)"
			} else {
				desc += " (skipped)"
			}
			h.mu.Unlock()
			break
		}
		if h.curCtx < 0 || h.cancelled(h.curCtx) {
			ctx, cancel := context.WithCancel(context.Background())
			h.ctxs = append(h.ctxs, ctx)
			h.cancels = append(h.cancels, cancel)
			h.curCtx = len(h.ctxs) - 1
		}
		op := h.newOp("next", s)
		op.Ctx = h.curCtx
		desc = fmt.Sprintf("consumer starts Next(ctx%d)", op.Ctx)
		c := &nextCall{op: op}
		h.mu.Lock()
		if tok.G {
			h.armCons = true
			desc += " with gate " + pointNextEmpty + " armed"
		}
		h.cons = c
		h.mu.Unlock()
		ctx := h.ctxs[op.Ctx]
		go func() {
			defer h.recoverInto(op.String())
			it, dup, err := h.q.Next(ctx)
			h.mu.Lock()
			c.item, c.dup, c.err, c.done = it, dup, err, true
			h.mu.Unlock()
		}()
		synctest.Wait()
	case "crel":
		h.mu.Lock()
		ch := h.parkedCons
		h.parkedCons = nil
		armed := h.armCons
		h.armCons = false
		h.mu.Unlock()
		switch {
		case ch != nil:
			desc = "release consumer from " + pointNextEmpty
			close(ch)
			synctest.Wait()
		case armed:
			desc = "disarm " + pointNextEmpty
		default:
			desc += " (skipped)"
		}
	case "close":
		op := h.newOp("close", s)
		if !h.simple("Close()", h.q.Close) {
			h.h.stepDesc = append(h.h.stepDesc, desc)
			return newVerr("blocked-call", "step %d: Close() did not return", s)
		}
		op.Ret = s
		if h.h.firstClose < 0 {
			h.h.firstClose = s
		} else {
			h.label("double-close")
		}
	case "cancel":
		if h.cons == nil || h.cancelled(h.cons.op.Ctx) {
			desc += " (skipped)"
			break
		}
		id := h.cons.op.Ctx
		desc = fmt.Sprintf("cancel ctx%d", id)
		h.h.cancelStep[id] = s
		h.cancels[id]()
		synctest.Wait()
	default:
		h.h.stepDesc = append(h.h.stepDesc, desc)
		return newVerr("harness-error", "unknown step %q", tok.K)
	}
	h.h.stepDesc = append(h.h.stepDesc, desc)
	return h.observe(s)
}

func (h *harness) cancelled(id int) bool {
	_, ok := h.h.cancelStep[id]
	return ok
}

// observe looks at the quiescent system after step s.
func (h *harness) observe(s int) *verr {
	h.mu.Lock()
	panics := append([]string(nil), h.panics...)
	h.mu.Unlock()
	if len(panics) > 0 {
		return newVerr("panic", "step %d: %s", s, panics[0])
	}
	// still-parked producers
	for _, c := range h.ins {
		if c != nil && c.op.Ret < 0 {
			c.op.Parked[s] = true
		}
	}
	// queue length at quiescence
	n := -1
	setWhere("Len() at the end of step %d (%s)", s, h.h.stepDesc[s])
	if !h.simple("Len()", func() { n = h.q.Len() }) {
		return newVerr("blocked-call", "step %d: Len() did not return", s)
	}
	h.h.lenAt = append(h.h.lenAt, n)
	if c := h.cons; c != nil {
		h.mu.Lock()
		done, parked := c.done, h.parkedCons != nil
		h.mu.Unlock()
		switch {
		case done:
			c.op.Ret = s
			c.op.Err = kindOfErr(c.err)
			c.op.Dup = c.dup
			if c.err != nil {
				c.op.ErrText = c.err.Error()
			} else if x, ok := c.item.(int); ok && x >= 0 && x < maxItems {
				c.op.Item = x
			} else {
				c.op.Item = -1
				c.op.ErrText = fmt.Sprintf("%v (%T)", c.item, c.item)
			}
			h.lastNextErr, h.lastNextRet = c.op.Err, s
			h.cons = nil
		case parked:
			c.op.Parked[s] = true
		default:
			c.op.Waiting[s] = true
			// no stuck consumer: blocked inside Next at quiescence
			switch {
			case h.h.closedBy(s):
				return newVerr("stuck-consumer", "after step %d the consumer is still blocked in %s although Close() returned in step %d (not woken by close); Len()=%d", s, c.op, h.h.firstClose, n)
			case h.cancelled(c.op.Ctx):
				return newVerr("stuck-consumer", "after step %d the consumer is still blocked in %s although its context was cancelled in step %d (not woken by cancellation); Len()=%d", s, c.op, h.h.cancelStep[c.op.Ctx], n)
			case n > 0:
				return newVerr("stuck-consumer", "after step %d the consumer is blocked in %s while Len()=%d and no call is in progress (lost wake-up)", s, c.op, n)
			}
		}
	}
	return nil
}

// cleanup lets every goroutine of the case end.
func (h *harness) cleanup() {
	h.mu.Lock()
	h.armIns, h.armCons = -1, false
	var chans []chan struct{}
	for p, ch := range h.parkedIns {
		if ch != nil {
			chans = append(chans, ch)
			h.parkedIns[p] = nil
		}
	}
	if h.parkedCons != nil {
		chans = append(chans, h.parkedCons)
		h.parkedCons = nil
	}
	h.mu.Unlock()
	for _, ch := range chans {
		close(ch)
	}
	for _, c := range h.cancels {
		c()
	}
	synctest.Wait()
	// a consumer that ignores its context still ends when the queue closes
	h.simple("Close()", h.q.Close)
}

func runConc(t *testing.T, sc *ConcScenario) (st concStats, err error) {
	defer func() {
		if r := recover(); r != nil {
			// synctest: goroutines of the case are still blocked after everything
			// was released, cancelled and closed.
			msg := fmt.Sprintf("goroutines of the case remain blocked after every gate was released, every context cancelled and the queue closed: %v", r)
			if err != nil {
				msg = err.Error() + "; additionally " + msg
			}
			err = newVerr("stuck-consumer", "%s", msg)
		}
	}()
	synctest.Test(t, func(*testing.T) {
		defer func() {
			if r := recover(); r != nil {
				err = newVerr("panic", "panic on the scenario goroutine: %v", r)
			}
		}()
		var v *verr
		st, v = runConcBubble(sc)
		if v != nil {
			err = v
		}
	})
	return st, err
}

func runConcBubble(sc *ConcScenario) (concStats, *verr) {
	if len(sc.Producers) == 0 {
		return concStats{}, newVerr("harness-error", "scenario without producers")
	}
	for _, seq := range sc.Producers {
		for _, x := range seq {
			if x < 0 || x >= maxItems {
				return concStats{}, newVerr("harness-error", "item %d out of range", x)
			}
		}
	}
	np := len(sc.Producers)
	h := &harness{
		q:  coalesce.NewQueue(),
		h:  &history{cancelStep: map[int]int{}, firstClose: -1},
		sc: sc, ptr: make([]int, np), ins: make([]*insCall, np), armIns: -1, parkedIns: make([]chan struct{}, np), curCtx: -1,
	}
	verifhook.Set(h.hook)
	defer verifhook.Set(nil)
	defer h.cleanup()

	for _, tok := range sc.Steps {
		if v := h.exec(tok); v != nil {
			v.msg += "\nhistory:" + h.h.dump()
			return h.st, v
		}
	}
	scenarioSteps := h.h.nSteps
	// Epilogue (a fixed function of the state and of sc.DrainFirst): release every
	// parked producer, release the consumer, close, and keep calling Next until
	// the consumer is told "closed". With DrainFirst the consumer is closed and
	// drained *before* the parked producers are released, so that their
	// insertions (closed check passed before the close) land after the consumer
	// was already told "closed"; it then calls Next again.
	epilogue := func() *verr {
		anyParked := func() bool {
			for _, ch := range h.parkedIns {
				if ch != nil {
					return true
				}
			}
			return false
		}
		closeAndDrain := func(mark int) *verr {
			told := func() bool { return h.cons == nil && h.lastNextErr == errClosed && h.lastNextRet >= mark }
			if h.parkedCons != nil || h.armCons {
				if v := h.exec(CStep{K: "crel"}); v != nil {
					return v
				}
			}
			if h.h.firstClose < 0 {
				if v := h.exec(CStep{K: "close"}); v != nil {
					return v
				}
			}
			calls := 0
			for ; calls < h.accepted+3 && !told(); calls++ {
				if v := h.exec(CStep{K: "take"}); v != nil {
					return v
				}
			}
			if told() {
				return nil
			}
			return newVerr("no-closed-report", "after Close() the consumer called Next %d more times (accepted insertions: %d) without being told the queue is closed", calls, h.accepted)
		}
		if sc.DrainFirst && anyParked() {
			if v := closeAndDrain(h.h.nSteps); v != nil {
				return v
			}
		}
		for i := 0; i < len(sc.Producers) && anyParked(); i++ {
			// lowest-numbered parked producer first
			if v := h.exec(CStep{K: "rel", P: 0}); v != nil {
				return v
			}
		}
		// from here on nothing can be inserted any more: a "closed" report is final
		return closeAndDrain(h.h.nSteps)
	}
	if v := epilogue(); v != nil {
		v.msg += "\nhistory:" + h.h.dump()
		return h.st, v
	}
	h.collect(scenarioSteps)
	dv := h.h.direct()
	ev := h.h.explain()
	switch {
	case dv != nil && ev == nil:
		dv.msg += " (NOTE: the interval model accepted this history; the two oracles disagree)"
		fallthrough
	case dv != nil:
		dv.msg += "\nhistory:" + h.h.dump()
		return h.st, dv
	case ev != nil:
		ev.msg += "\nhistory:" + h.h.dump()
		return h.st, ev
	}
	return h.st, nil
}

// collect derives the labels and the non-trivial rule from what happened.
func (h *harness) collect(scenarioSteps int) {
	hist := h.h
	closeSteps := map[int]bool{}
	insRet := map[int]*opRec{} // step -> accepted insert that returned there
	cancelAt := map[int]bool{}
	for _, s := range hist.cancelStep {
		cancelAt[s] = true
	}
	dupWhilePending, closeWithPending := false, false
	for _, o := range hist.ops {
		switch o.Kind {
		case "close":
			closeSteps[o.Inv] = true
			if o.Inv < scenarioSteps {
				h.label("close-in-scenario")
				if o.Inv == hist.firstClose {
					if o.Inv > 0 && hist.lenAt[o.Inv-1] > 0 {
						closeWithPending = true
						h.label("close-with-pending")
					} else {
						h.label("close-while-empty")
					}
				}
			}
		case "insert":
			if o.Err == errNone {
				insRet[o.Ret] = o
				if !o.Fresh {
					dupWhilePending = true
				}
			}
		}
	}
	delivered := map[int]bool{}
	parkedNow := func(s int) int {
		n := 0
		for _, o := range hist.ops {
			if o.Kind == "insert" && o.Parked[s] {
				n++
			}
		}
		return n
	}
	for s := 0; s < hist.nSteps; s++ {
		if parkedNow(s) >= 2 {
			h.label("two-or-more-producers-parked")
			break
		}
	}
	toldAt := -1 // step of the first "closed" report
	for _, o := range hist.ops {
		if o.Kind == "next" && o.Err == errClosed && (toldAt < 0 || o.Ret < toldAt) {
			toldAt = o.Ret
		}
	}
	for _, o := range hist.ops {
		switch o.Kind {
		case "insert":
			if o.Ret > o.Inv {
				h.label("producer-parked")
				if hist.firstClose > o.Inv && hist.firstClose < o.Ret {
					h.label("producer-parked-across-close")
					if toldAt >= 0 && toldAt < o.Ret {
						h.label("parked-insert-lands-after-closed-report")
					}
				}
				for _, o2 := range hist.ops {
					if o2 != o && o2.Kind == "insert" && o2.Item == o.Item && o2.Err == errNone && o2.Ret > o.Inv && o2.Ret < o.Ret {
						h.label("same-item-inserted-while-parked")
					}
				}
			}
			if o.Err == errClosed {
				h.label("insert-after-close-refused")
			}
			if o.Err == errNone && o.Fresh && delivered[o.Item] {
				h.label("reinsert-after-delivery")
			}
		case "next":
			woken := o.Ret > o.Inv && o.Waiting[o.Ret-1]
			wasParked := len(o.Parked) > 0
			if wasParked {
				h.label("consumer-parked-at-empty")
			}
			if o.Arrivals >= 2 {
				h.label("stale-token-recheck")
			}
			for s := range o.Parked {
				// held at the end of s and of s+1: step s+1 happened while the consumer was held
				if o.Parked[s+1] {
					if insRet[s+1] != nil {
						h.label("consumer-parked-at-empty-then-insert")
					}
					if closeSteps[s+1] {
						h.label("consumer-parked-at-empty-then-close")
					}
					if cancelAt[s+1] {
						h.label("consumer-parked-at-empty-then-cancel")
					}
				}
			}
			switch o.Err {
			case errNone:
				delivered[o.Item] = true
				if o.Dup >= 1 {
					h.label("dup-coalesced")
				}
				if o.Dup >= 2 {
					h.label("dup-ge-2")
				}
				if woken && insRet[o.Ret] != nil {
					h.label("waiting-consumer-woken-by-insert")
				}
				if hist.closedBy(o.Ret) {
					h.label("delivery-after-close")
				}
				if toldAt >= 0 && o.Ret > toldAt {
					h.label("delivery-after-closed-report")
				}
			case errClosed:
				if woken && closeSteps[o.Ret] {
					h.label("waiting-consumer-woken-by-close")
				}
				if o.Ret < scenarioSteps {
					h.label("closed-reported-in-scenario")
				}
			case errCtx:
				if woken && cancelAt[o.Ret] {
					h.label("cancel-while-waiting")
				} else {
					h.label("cancel-observed-after-gate-release")
				}
			}
		}
	}
	if dupWhilePending {
		h.label("insert-while-pending")
	}
	switch n := len(h.sc.Steps); {
	case n < 10:
		h.label("steps-1-9")
	case n < 20:
		h.label("steps-10-19")
	default:
		h.label("steps-20-40")
	}
	skipped := 0
	for s := 0; s < scenarioSteps; s++ {
		if strings.HasSuffix(hist.stepDesc[s], "(skipped)") {
			skipped++
		}
	}
	if 2*skipped > scenarioSteps {
		h.label("more-than-half-of-steps-skipped")
	}
	h.st.nontrivial = dupWhilePending && closeWithPending
	if h.st.nontrivial {
		h.label("nontrivial")
	}
	// the glog verbosity drawn for the case (vstat.RunRapid) in combination with what happened in it
	if vstat.GlogV() > 0 {
		for _, l := range []string{"nontrivial", "close-with-pending", "waiting-consumer-woken-by-close", "waiting-consumer-woken-by-insert", "cancel-while-waiting",
			"insert-after-close-refused", "producer-parked-across-close", "consumer-parked-at-empty-then-close", "double-close"} {
			if h.st.labels[l] {
				h.label("glog-verbosity>0:" + l)
			}
		}
	}
}

func sortStrings(a []string) {
	for i := 1; i < len(a); i++ {
		for j := i; j > 0 && a[j] < a[j-1]; j-- {
			a[j], a[j-1] = a[j-1], a[j]
		}
	}
}

// --- generators --------------------------------------------------------------

func weighted(w map[string]int) []string {
	var k []string
	for kind, n := range w {
		for i := 0; i < n; i++ {
			k = append(k, kind)
		}
	}
	sortStrings(k)
	return k
}

var (
	// first half of a scenario: no Close, so that the queue has a history when it is closed
	stepKindsOpen = weighted(map[string]int{"ins": 18, "rel": 4, "take": 7, "crel": 3, "cancel": 2})
	stepKindsAll  = weighted(map[string]int{"ins": 16, "rel": 5, "take": 7, "crel": 3, "cancel": 2, "close": 3})
)

func genCStep(np int, kinds []string) func(t *rapid.T) CStep {
	return func(t *rapid.T) CStep {
		st := CStep{K: rapid.SampledFrom(kinds).Draw(t, "k")}
		switch st.K {
		case "ins":
			st.P = rapid.IntRange(0, np-1).Draw(t, "p")
			st.G = rapid.IntRange(0, 2).Draw(t, "g") == 0
		case "rel":
			st.P = rapid.IntRange(0, np-1).Draw(t, "p")
		case "take":
			st.G = rapid.IntRange(0, 2).Draw(t, "g") == 0
		}
		return st
	}
}

func genConcScenario(t *rapid.T) *ConcScenario {
	items := rapid.IntRange(1, 3).Draw(t, "items")
	sc := &ConcScenario{}
	sc.Producers = rapid.SliceOfN(rapid.SliceOfN(rapid.IntRange(0, items-1), 1, 8), 1, 6).Draw(t, "producers")
	// four segments: rapid's slice lengths are strongly biased towards the
	// minimum, one slice of 1..48 would make four cases in five shorter than 10 steps
	np := len(sc.Producers)
	open := rapid.Custom(genCStep(np, stepKindsOpen))
	all := rapid.Custom(genCStep(np, stepKindsAll))
	sc.Steps = rapid.SliceOfN(all, 1, 12).Draw(t, "steps")
	sc.Steps = append(rapid.SliceOfN(open, 0, 12).Draw(t, "before1"), sc.Steps...)
	sc.Steps = append(rapid.SliceOfN(open, 0, 12).Draw(t, "before0"), sc.Steps...)
	sc.Steps = append(sc.Steps, rapid.SliceOfN(all, 0, 12).Draw(t, "after")...)
	sc.DrainFirst = rapid.Bool().Draw(t, "drain_first")
	return sc
}

// TestC11Concurrent: gate-scheduled producers/consumer scenarios in bubbles.
func TestC11Concurrent(t *testing.T) {
	if !vstat.Enabled("C11") {
		t.Skip()
	}
	rec := vstat.New("C11", "concurrent")
	w := watchPart(rec, "rapid")
	defer w.close()
	slot := w.slot()
	failedOnce := false
	// The code under test blocks in a select whose choice among ready cases is
	// made by the Go runtime, so the same scenario can pass in one run and fail
	// in the next (e.g. "closed" and "inserted" both ready). The search runs
	// every generated case once. After the first failure (i.e. while rapid
	// re-runs and shrinks) a candidate is run up to shrinkTries times and its
	// verdict is remembered, because rapid gives up ("flaky") as soon as one
	// input yields two different outcomes.
	memo := map[uint64]error{}
	rec.RunRapid(t, func(rt *rapid.T) {
		sc := genConcScenario(rt)
		rec.Current(sc)
		var st concStats
		var err error
		// the verdict of a case belongs to (scenario, glog verbosity): the shrinker changes both
		key := vstat.Hash(sc) ^ (uint64(vstat.GlogV()+1) * 0x9e3779b97f4a7c15)
		if prev, seen := memo[key]; failedOnce && seen {
			err = prev
		} else {
			slot.begin(func() (any, string) { return sc, getWhere() })
			st, err = runConc(t, sc)
			rec.Case(sc, st.nontrivial, st.labelList()...)
			for i := 0; err == nil && failedOnce && i < shrinkTries-1; i++ {
				_, err = runConc(t, sc)
			}
			slot.end()
			if failedOnce || err != nil {
				memo[key] = err
			}
		}
		if err != nil {
			failedOnce = true
			// rapid only shrinks while re-runs fail with the *same* message; the
			// history in ours depends on the runtime's select choices, so the
			// detailed message goes to the log and the replay file.
			rt.Logf("%s", rec.Fail(sc, classOf(err), "%v", err))
			rt.Fatalf("property C11 violated (class and history above and in the replay file)")
		}
	})
}
