package coalesceprop

import (
	"context"
	"encoding/json"
	"flag"
	"fmt"
	"runtime"
	"sync"
	"sync/atomic"
	"testing"
	"testing/synctest"
	"time"

	"github.com/openconfig/gnmi/coalesce"
	"pgregory.net/rapid"
	"verif/harness/internal/vstat"
)

// ---------------------------------------------------------------------------
// Part "large": long single-goroutine histories over hundreds of distinct
// items. The small-scope parts keep <=3 items pending; a queue implementation
// whose behaviour depends on how much is pending (growth, compaction, reuse of
// storage after a drain) is only exercised with backlogs that pass the usual
// capacity steps (16, 32, 64, 128, ...).
// ---------------------------------------------------------------------------

// LPhase is a burst of inserts followed by a burst of deliveries.
type LPhase struct {
	Base   int `json:"base"`          // first item of the burst
	N      int `json:"n"`             // how many items
	Stride int `json:"stride"`        // item k of the burst is Base+k*Stride (mod universe)
	Dup    int `json:"dup"`           // every Dup-th item is inserted twice more (0 = never)
	Next   int `json:"next"`          // deliveries after the burst
	Hot    int `json:"hot,omitempty"` // the first item of the burst is inserted Hot more times (counter boundaries: 255, 65535, ...)
}

type LargeScenario struct {
	Universe int      `json:"universe"`
	Phases   []LPhase `json:"phases"`
	// Kinds: item x is inserted as an int (false) or as a value of kind x%6 (true): int, string,
	// struct, pointer to a per-item variable, a typed nil pointer (one item only), the nil interface
	// (one item only). Insert takes any interface{} that can be a map key.
	Kinds bool `json:"kinds,omitempty"`
}

type largeStruct struct {
	A int
	B string
}

var largePtrs [20000]int

// largeItem maps the item number to the value that is inserted. The mapping is injective.
func largeItem(sc *LargeScenario, x int) interface{} {
	if !sc.Kinds {
		return x
	}
	switch {
	case x == 4:
		return (*int)(nil)
	case x == 5:
		return nil
	}
	switch x % 4 {
	case 1:
		return fmt.Sprintf("item-%d", x)
	case 2:
		return largeStruct{x, "s"}
	case 3:
		return &largePtrs[x%len(largePtrs)]
	}
	return x
}

func genLarge(t *rapid.T) *LargeScenario {
	sc := &LargeScenario{Universe: rapid.SampledFrom([]int{40, 100, 300, 1000, 20000}).Draw(t, "universe")}
	ph := func(t *rapid.T) LPhase {
		p := LPhase{
			Base:   rapid.IntRange(0, 999).Draw(t, "base"),
			N:      rapid.SampledFrom([]int{1, 2, 3, 5, 8, 13, 16, 17, 20, 31, 32, 33, 40, 63, 64, 65, 100, 130, 130, 1000, 4096, 4100, 9000}).Draw(t, "n"),
			Stride: rapid.SampledFrom([]int{1, 1, 1, 3, 7}).Draw(t, "stride"),
			Dup:    rapid.SampledFrom([]int{0, 0, 1, 2, 5}).Draw(t, "dup"),
		}
		p.Next = rapid.SampledFrom([]int{0, 1, 2, 5, 10, 15, 16, 17, 30, 33, 64, 200}).Draw(t, "next")
		if p.N >= 1000 {
			// work a big backlog down to some fraction of its peak (thresholds such as a half, a quarter)
			p.Next = p.N * rapid.SampledFrom([]int{1, 2, 3, 5, 6, 7}).Draw(t, "next-eighths") / 8
		}
		if rapid.IntRange(0, 11).Draw(t, "hot") == 0 {
			p.Hot = rapid.SampledFrom([]int{254, 255, 256, 257, 65534, 65535, 65536, 65537, 70000}).Draw(t, "hot-n")
		}
		return p
	}
	sc.Phases = rapid.SliceOfN(rapid.Custom(ph), 1, 12).Draw(t, "phases")
	sc.Kinds = rapid.IntRange(0, 2).Draw(t, "kinds") == 0
	return sc
}

type largeStats struct {
	maxPending        int
	fullWhileHalfUsed bool // an insert while >16 were pending and >=32 had been appended since the last drain
	drains            int
	maxDup            int
}

// runLarge runs the scenario inside a bubble: a call that blocks (a Next that finds nothing although the
// model holds pending items) is a bubble deadlock, a call that waits for a lock for ever is the lock watch's.
func runLarge(t *testing.T, sc *LargeScenario) (st largeStats, err error) {
	step := 0
	setWhereFunc(func() string { return "a call of a long single-goroutine history (Insert/Next/Len/Close)" })
	defer func() {
		if r := recover(); r != nil {
			err = newVerr("blocked-call", "call %d of the history did not return (glog verbosity %d): %v", step, vstat.GlogV(), r)
		}
	}()
	synctest.Test(t, func(*testing.T) {
		st, err = runLargeBubble(sc, &step)
	})
	return st, err
}

func runLargeBubble(sc *LargeScenario, stepp *int) (st largeStats, err error) {
	defer func() {
		if r := recover(); r != nil {
			err = newVerr("panic", "panic: %v", r)
		}
	}()
	q := coalesce.NewQueue()
	ctx := context.Background()
	var fifo []int
	cnt := map[int]uint32{}
	pending := map[int]bool{}
	appended := 0
	step := 0
	defer func() { *stepp = step }()
	insert := func(x int) error {
		step++
		fresh, ierr := q.Insert(largeItem(sc, x))
		if ierr != nil {
			return newVerr("insert-refused-while-open", "step %d Insert(%d) on an open queue: %v", step, x, ierr)
		}
		want := !pending[x]
		if fresh != want {
			return newVerr("fresh-flag", "step %d Insert(%d) returned fresh=%v, model says %v (pending %d)", step, x, fresh, want, len(fifo))
		}
		if want {
			fifo = append(fifo, x)
			pending[x] = true
			appended++
			if len(fifo) > 17 && appended >= 32 {
				st.fullWhileHalfUsed = true
			}
		} else {
			cnt[x]++
		}
		if len(fifo) > st.maxPending {
			st.maxPending = len(fifo)
		}
		return nil
	}
	next := func() error {
		step++
		it, dup, nerr := q.Next(ctx)
		if nerr != nil {
			return newVerr("next-error", "step %d Next with %d pending returned error %v", step, len(fifo), nerr)
		}
		got := fifo[0]
		if want := largeItem(sc, got); it != want {
			return newVerr("order", "step %d Next returned %#v (%T), first pending insertion is item %d = %#v (%T) (pending %d)", step, it, it, got, want, want, len(fifo))
		}
		if dup != cnt[got] {
			return newVerr("dup-count", "step %d Next returned (%d, dup %d), %d duplicates were coalesced", step, got, dup, cnt[got])
		}
		fifo = fifo[1:]
		delete(pending, got)
		delete(cnt, got)
		if len(fifo) == 0 {
			st.drains++
			appended = 0
		}
		return nil
	}
	checkLen := func() error {
		if n := q.Len(); n != len(fifo) {
			return newVerr("len-mismatch", "after step %d Len()=%d, model has %d pending", step, n, len(fifo))
		}
		return nil
	}
	for _, p := range sc.Phases {
		for k := 0; k < p.N; k++ {
			x := (p.Base + k*p.Stride) % sc.Universe
			if e := insert(x); e != nil {
				return st, e
			}
			if p.Dup > 0 && k%p.Dup == 0 {
				for r := 0; r < 2; r++ {
					if e := insert(x); e != nil {
						return st, e
					}
				}
			}
			if k == 0 && p.Hot > 0 {
				for r := 0; r < p.Hot; r++ {
					if e := insert(x); e != nil {
						return st, e
					}
				}
				if int(cnt[x]) > st.maxDup {
					st.maxDup = int(cnt[x])
				}
			}
		}
		if e := checkLen(); e != nil {
			return st, e
		}
		for k := 0; k < p.Next && len(fifo) > 0; k++ {
			if e := next(); e != nil {
				return st, e
			}
		}
		if e := checkLen(); e != nil {
			return st, e
		}
	}
	q.Close()
	for len(fifo) > 0 {
		if e := next(); e != nil {
			return st, e
		}
	}
	if _, _, nerr := q.Next(ctx); !coalesce.IsClosedQueue(nerr) {
		return st, newVerr("no-closed-report", "Next on the drained closed queue returned %v", nerr)
	}
	return st, nil
}

func TestC11Large(t *testing.T) {
	if !vstat.Enabled("C11") {
		t.Skip()
	}
	rec := vstat.New("C11", "large")
	w := watchPart(rec, "rapid")
	defer w.close()
	slot := w.slot()
	rec.RunRapid(t, func(rt *rapid.T) {
		sc := genLarge(rt)
		slot.begin(func() (any, string) { return sc, getWhere() })
		st, err := runLarge(t, sc)
		slot.end()
		var labels []string
		for _, b := range []int{4, 17, 33, 65, 129, 1025, 4097} {
			if st.maxPending >= b {
				labels = append(labels, fmt.Sprintf("backlog>=%d", b))
			}
		}
		if st.fullWhileHalfUsed {
			labels = append(labels, "insert-with-more-than-half-of-32-slots-pending")
		}
		if st.drains >= 2 {
			labels = append(labels, "refilled-after-drain")
		}
		for _, b := range []int{256, 65536} {
			if st.maxDup >= b {
				labels = append(labels, fmt.Sprintf("duplicates-of-one-pending-item>=%d", b))
			}
		}
		if sc.Kinds {
			labels = append(labels, "items-of-several-kinds(incl. nil interface, typed nil)")
		}
		rec.Case(sc, st.fullWhileHalfUsed && st.drains >= 1, labels...)
		if err != nil {
			class := "model-mismatch"
			if v, ok := err.(*verr); ok {
				class = v.class
			}
			rt.Fatalf("%s", rec.Fail(sc, class, "%v", err))
		}
	})
}

// ---------------------------------------------------------------------------
// Part "stress": free-running producers and one consumer on the real
// scheduler, inside a bubble so that quiescence is exact. The gate-scheduled
// part parks goroutines only at its two named points; a lost wake-up whose
// window lies elsewhere inside Insert or Next needs real preemption. The
// oracle holds under every schedule: when every goroutine of the bubble is
// durably blocked, a consumer blocked in Next on an open queue implies
// Len()==0; everything accepted is delivered exactly once, in first-insertion
// order per producer, with duplicate counts summing to the coalesced inserts.
// ---------------------------------------------------------------------------

var c11Rounds = flag.Int("c11.rounds", 300, "free-running rounds per case of the stress part")

type StressSpec struct {
	Producers int `json:"producers"`
	Items     int `json:"items"` // distinct items shared by the producers
	PerProd   int `json:"per_producer"`
	Rounds    int `json:"rounds"`
}

func runStressOnce(sp *StressSpec) *verr {
	q := coalesce.NewQueue()
	ctx, cancel := context.WithCancel(context.Background())
	defer cancel()
	var accepted, coalesced, delivered, dupSum atomic.Int64
	var inNext atomic.Bool
	consumerDone := make(chan error, 1)
	go func() {
		for {
			inNext.Store(true)
			it, dup, err := q.Next(ctx)
			inNext.Store(false)
			if err != nil {
				consumerDone <- err
				return
			}
			if _, ok := it.(int); !ok {
				consumerDone <- fmt.Errorf("Next delivered %v (%T), never inserted", it, it)
				return
			}
			delivered.Add(1)
			dupSum.Add(int64(dup))
		}
	}()
	var wg sync.WaitGroup
	for p := 0; p < sp.Producers; p++ {
		wg.Add(1)
		go func(p int) {
			defer wg.Done()
			for k := 0; k < sp.PerProd; k++ {
				fresh, err := q.Insert((p + k) % sp.Items)
				if err != nil {
					return
				}
				if fresh {
					accepted.Add(1)
				} else {
					coalesced.Add(1)
				}
			}
		}(p)
	}
	wg.Wait()
	synctest.Wait()
	// every goroutine is durably blocked: the consumer must have drained the queue
	if n := q.Len(); n != 0 {
		return newVerr("stuck-consumer", "all producers returned and the bubble is quiescent: consumer blocked in Next=%v with Len()=%d on an open queue (%d accepted, %d delivered)", inNext.Load(), n, accepted.Load(), delivered.Load())
	}
	select {
	case err := <-consumerDone:
		return newVerr("next-error", "consumer stopped on an open queue: %v", err)
	default:
	}
	if accepted.Load() != delivered.Load() {
		return newVerr("conservation", "%d insertions accepted as new, %d deliveries", accepted.Load(), delivered.Load())
	}
	if coalesced.Load() != dupSum.Load() {
		return newVerr("dup-count", "%d insertions coalesced, duplicate counts delivered sum to %d", coalesced.Load(), dupSum.Load())
	}
	// Close comes from several goroutines at once, as in the Subscribe handler (the walk goroutine
	// and the handler's deferred Close): closing is idempotent under any interleaving.
	closers := 1 + sp.Producers%3
	var cwg sync.WaitGroup
	var closePanic atomic.Value
	startClose := make(chan struct{})
	for i := 0; i < closers; i++ {
		cwg.Add(1)
		go func() {
			defer cwg.Done()
			defer func() {
				if r := recover(); r != nil {
					closePanic.Store(fmt.Sprint(r))
				}
			}()
			<-startClose
			q.Close()
		}()
	}
	close(startClose)
	cwg.Wait()
	if p := closePanic.Load(); p != nil {
		return newVerr("panic", "%d concurrent Close calls: panic: %v", closers, p)
	}
	synctest.Wait()
	select {
	case err := <-consumerDone:
		if !coalesce.IsClosedQueue(err) {
			return newVerr("no-closed-report", "after Close the consumer got %v", err)
		}
	default:
		return newVerr("stuck-consumer", "consumer still blocked in Next after Close")
	}
	return nil
}

// runCloseUnderFire: Close arrives while producers are still inserting and another goroutine keeps
// reading Len(); every insertion that had RETURNED (nil error) before Close was CALLED must be delivered
// before the consumer is told "closed" (insertions racing the Close itself are not judged).
func runCloseUnderFire(sp *StressSpec) *verr {
	q := coalesce.NewQueue()
	ctx, cancel := context.WithCancel(context.Background())
	defer cancel()
	var seq atomic.Int64
	type ins struct {
		item  int
		stamp int64
	}
	delivered := map[int]bool{}
	consumerDone := make(chan error, 1)
	go func() {
		for {
			it, _, err := q.Next(ctx)
			if err != nil {
				consumerDone <- err
				return
			}
			if x, ok := it.(int); ok {
				delivered[x] = true
			}
		}
	}()
	var wg sync.WaitGroup
	recs := make([][]ins, sp.Producers)
	for p := 0; p < sp.Producers; p++ {
		wg.Add(1)
		go func(p int) {
			defer wg.Done()
			for k := 0; k < sp.PerProd; k++ {
				item := p*1_000_000 + k
				if _, err := q.Insert(item); err != nil {
					return
				}
				recs[p] = append(recs[p], ins{item, seq.Add(1)})
				runtime.Gosched()
			}
		}(p)
	}
	var stop atomic.Bool
	wg.Add(1)
	go func() {
		defer wg.Done()
		for !stop.Load() {
			q.Len()
			q.IsClosed()
		}
	}()
	for i := 0; i < 1+sp.Items*7; i++ {
		runtime.Gosched()
	}
	closeAt := seq.Add(1)
	q.Close()
	stop.Store(true)
	wg.Wait()
	synctest.Wait()
	select {
	case err := <-consumerDone:
		if !coalesce.IsClosedQueue(err) {
			return newVerr("next-error", "consumer stopped with %v", err)
		}
	default:
		return newVerr("stuck-consumer", "consumer still blocked in Next after Close")
	}
	for p := range recs {
		for _, r := range recs[p] {
			if r.stamp < closeAt && !delivered[r.item] {
				return newVerr("lost-at-close", "Insert(%d) had returned (nil error) before Close was called, but the consumer was told the queue is closed without that item having been delivered (%d producers, a Len() reader running)", r.item, sp.Producers)
			}
		}
	}
	return nil
}

// runDrainRace: a backlog of more than a thousand distinct items is drained by a free-running consumer
// while a producer inserts fresh items, each twice back to back, around the moment the queue runs empty.
// Oracle (sound under every schedule): once BOTH insertions of an item have returned, at most one delivery
// of it can still begin (invocations of Next that started after that instant deliver the item at most once:
// the second insertion either coalesced into the pending one or found it already taken).
func runDrainRace(sp *StressSpec) *verr {
	q := coalesce.NewQueue()
	ctx, cancel := context.WithCancel(context.Background())
	defer cancel()
	backlog := 1030 + 37*sp.Items
	for i := 0; i < backlog; i++ {
		q.Insert(i)
	}
	var seq, deliveredN atomic.Int64
	type del struct {
		item          int
		dup           uint32
		invoke, retrn int64
	}
	var dels []del
	consumerDone := make(chan error, 1)
	go func() {
		for {
			inv := seq.Add(1)
			it, dup, err := q.Next(ctx)
			if err != nil {
				consumerDone <- err
				return
			}
			x, _ := it.(int)
			dels = append(dels, del{x, dup, inv, seq.Add(1)})
			deliveredN.Add(1)
		}
	}()
	type pair struct {
		item   int
		second int64 // stamp taken after the second insertion returned
		fresh2 bool
	}
	var pairs []pair
	pdone := make(chan struct{})
	go func() {
		defer close(pdone)
		for deliveredN.Load() < int64(backlog-8) {
			runtime.Gosched()
		}
		for k := 0; k < 24; k++ {
			x := 1_000_000 + k
			if _, err := q.Insert(x); err != nil {
				return
			}
			f2, err := q.Insert(x)
			if err != nil {
				return
			}
			pairs = append(pairs, pair{x, seq.Add(1), f2})
		}
	}()
	<-pdone
	synctest.Wait()
	q.Close()
	synctest.Wait()
	select {
	case <-consumerDone:
	default:
		return newVerr("stuck-consumer", "consumer still blocked in Next after Close")
	}
	for _, p := range pairs {
		late := 0
		for _, d := range dels {
			if d.item == p.item && d.invoke > p.second {
				late++
			}
		}
		if late > 1 {
			return newVerr("duplicate-delivery", "item %d was inserted twice (second insertion returned fresh=%v) and, after both insertions had returned, %d invocations of Next began that each delivered it (backlog of %d drained just before)", p.item, p.fresh2, late, backlog)
		}
	}
	return nil
}

func runStress(t *testing.T, sp *StressSpec) (err error) {
	defer func() {
		if r := recover(); r != nil {
			err = newVerr("blocked", "bubble deadlocked: %v", r)
		}
	}()
	synctest.Test(t, func(*testing.T) {
		for r := 0; r < sp.Rounds; r++ {
			setWhere("round %d, workload drain-to-quiescence-then-concurrent-Close: a call of the queue", r)
			v := runStressOnce(sp)
			if v == nil && r%2 == 1 {
				setWhere("round %d, workload Close-under-fire (producers, a Len()/IsClosed() reader, Close): a call of the queue", r)
				v = runCloseUnderFire(sp)
			}
			if v == nil && r%3 == 2 {
				setWhere("round %d, workload drain-race (backlog drained while pairs are inserted): a call of the queue", r)
				v = runDrainRace(sp)
			}
			if v != nil {
				err = fmt.Errorf("round %d: %w", r, v)
				return
			}
		}
	})
	return err
}

func TestC11Stress(t *testing.T) {
	if !vstat.Enabled("C11") {
		t.Skip()
	}
	rec := vstat.New("C11", "stress")
	w := watchPart(rec, "rapid")
	defer w.close()
	slot := w.slot()
	rec.RunRapid(t, func(rt *rapid.T) {
		sp := &StressSpec{
			Producers: rapid.IntRange(1, 4).Draw(rt, "producers"),
			Items:     rapid.SampledFrom([]int{1, 2, 3, 8}).Draw(rt, "items"),
			PerProd:   rapid.SampledFrom([]int{1, 2, 4, 16, 64}).Draw(rt, "per-producer"),
			Rounds:    *c11Rounds,
		}
		slot.begin(func() (any, string) { return sp, getWhere() })
		err := runStress(t, sp)
		slot.end()
		rec.Case(sp, sp.PerProd >= 2, fmt.Sprintf("producers=%d", sp.Producers))
		if err != nil {
			class := "stress"
			var v *verr
			if e, ok := err.(interface{ Unwrap() error }); ok {
				if vv, ok := e.Unwrap().(*verr); ok {
					v = vv
				}
			}
			if v != nil {
				class = v.class
			}
			rt.Fatalf("%s", rec.Fail(sp, class, "%v", err))
		}
	})
}

func replayLarge(t *testing.T, rf *vstat.ReplayFile) string {
	var sc LargeScenario
	if err := json.Unmarshal(rf.Scenario, &sc); err != nil {
		return "bad scenario: " + err.Error()
	}
	if sc.Universe < 1 {
		return "bad scenario: universe"
	}
	if _, err := runLarge(t, &sc); err != nil {
		return err.Error()
	}
	return ""
}

func replayStress(t *testing.T, rf *vstat.ReplayFile) string {
	var sp StressSpec
	if err := json.Unmarshal(rf.Scenario, &sp); err != nil {
		return "bad scenario: " + err.Error()
	}
	if sp.Items < 1 {
		return "bad scenario: items"
	}
	sp.Rounds *= 20
	if err := runStress(t, &sp); err != nil {
		return err.Error()
	}
	return ""
}

var _ = time.Second
