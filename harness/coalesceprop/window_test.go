package coalesceprop

import (
	"context"
	"encoding/json"
	"fmt"
	"runtime"
	"testing"
	"testing/synctest"

	"github.com/openconfig/gnmi/coalesce"
	"github.com/openconfig/gnmi/verifhook"
	"pgregory.net/rapid"
	"verif/harness/internal/vstat"
)

// Part "window": the consumer is parked between finding the queue empty and its blocking select
// (schedule point coalesce.next.empty); meanwhile insertions complete and the queue is closed, and
// — the new dimension — ANOTHER goroutine is inside a critical section of the queue (it holds the
// queue's mutex, as a producer in the middle of an Insert does) when the consumer is released. Whichever
// ready arm the consumer's select takes (the runtime chooses; every case is repeated), it must deliver
// every insertion that completed before the Close before it reports "closed".

type WindowScenario struct {
	Before  int  `json:"before"`   // items inserted and delivered before the consumer parks (warms internal state)
	LenRead bool `json:"len_read"` // Len() is read while the queue is empty, before the window
	Inserts int  `json:"inserts"`  // insertions completed while the consumer is parked (0-3 distinct items)
	Dups    int  `json:"dups"`     // extra insertions of the first of them
	Close   bool `json:"close"`    // the queue is closed while the consumer is parked
	Hold    bool `json:"hold"`     // another goroutine holds the queue's mutex while the consumer resumes
	Repeats int  `json:"repeats"`
}

func genWindow(t *rapid.T) *WindowScenario {
	return &WindowScenario{
		Before:  rapid.IntRange(0, 2).Draw(t, "before"),
		LenRead: rapid.Bool().Draw(t, "len-read"),
		Inserts: rapid.IntRange(0, 3).Draw(t, "inserts"),
		Dups:    rapid.IntRange(0, 2).Draw(t, "dups"),
		Close:   rapid.IntRange(0, 3).Draw(t, "close") > 0,
		Hold:    rapid.IntRange(0, 3).Draw(t, "hold") > 0,
		Repeats: 24,
	}
}

func runWindowOnce(sc *WindowScenario) *verr {
	q := coalesce.NewQueue()
	ctx, cancel := context.WithCancel(context.Background())
	defer cancel()
	for i := 0; i < sc.Before; i++ {
		q.Insert(1000 + i)
		if _, _, err := q.Next(ctx); err != nil {
			return newVerr("next-error", "warm-up Next: %v", err)
		}
	}
	if sc.LenRead {
		q.Len()
	}
	gate := make(chan struct{})
	parked := make(chan struct{}, 1)
	armed := true
	verifhook.Set(func(name string, key interface{}) {
		if name == "coalesce.next.empty" && armed {
			armed = false
			parked <- struct{}{}
			<-gate
		}
	})
	defer verifhook.Set(nil)
	type res struct {
		it  interface{}
		dup uint32
		err error
	}
	var got []res
	done := make(chan struct{})
	go func() {
		defer close(done)
		for {
			it, dup, err := q.Next(ctx)
			got = append(got, res{it, dup, err})
			if err != nil {
				return
			}
		}
	}()
	synctest.Wait()
	select {
	case <-parked:
	default:
		return newVerr("harness", "the consumer did not reach the schedule point on an empty queue")
	}
	for i := 0; i < sc.Inserts; i++ {
		if fresh, err := q.Insert(i); err != nil || !fresh {
			return newVerr("fresh-flag", "Insert(%d) on an open queue returned (%v, %v)", i, fresh, err)
		}
	}
	for i := 0; i < sc.Dups && sc.Inserts > 0; i++ {
		q.Insert(0)
	}
	if sc.Close {
		q.Close()
	}
	if sc.Hold {
		q.Lock()
	}
	close(gate)
	for i := 0; i < 300; i++ {
		runtime.Gosched()
	}
	if sc.Hold {
		q.Unlock()
	}
	if !sc.Close {
		synctest.Wait()
		q.Close()
	}
	synctest.Wait()
	select {
	case <-done:
	default:
		return newVerr("stuck-consumer", "the consumer did not finish after Close")
	}
	// everything inserted before the Close, in order, with the duplicate count on the first item, then "closed"
	if len(got) != sc.Inserts+1 {
		return newVerr("lost-at-close", "%d insertions completed before Close; the consumer got %d deliveries before its final result %v (another goroutine inside the queue's critical section: %v)", sc.Inserts, len(got)-1, got[len(got)-1].err, sc.Hold)
	}
	for i := 0; i < sc.Inserts; i++ {
		wantDup := uint32(0)
		if i == 0 {
			wantDup = uint32(sc.Dups)
		}
		if got[i].err != nil || got[i].it != i || got[i].dup != wantDup {
			return newVerr("order", "delivery %d is (%v, dup %d, %v), want (%d, dup %d)", i, got[i].it, got[i].dup, got[i].err, i, wantDup)
		}
	}
	if !coalesce.IsClosedQueue(got[len(got)-1].err) {
		return newVerr("no-closed-report", "final result %v, want the closed-queue error", got[len(got)-1].err)
	}
	return nil
}

func runWindow(t *testing.T, sc *WindowScenario) (err error) {
	defer func() {
		if r := recover(); r != nil {
			err = newVerr("blocked", "bubble deadlocked: %v", r)
		}
	}()
	synctest.Test(t, func(*testing.T) {
		for r := 0; r < sc.Repeats; r++ {
			setWhere("repeat %d: a call of the queue (the consumer's Next resumed from between its emptiness check and its select, or Insert/Close/Len of the scenario goroutine)", r)
			if v := runWindowOnce(sc); v != nil {
				err = fmt.Errorf("repeat %d: %w", r, v)
				return
			}
		}
	})
	return err
}

func TestC11Window(t *testing.T) {
	if !vstat.Enabled("C11") {
		t.Skip()
	}
	rec := vstat.New("C11", "window")
	w := watchPart(rec, "rapid")
	defer w.close()
	slot := w.slot()
	rec.RunRapid(t, func(rt *rapid.T) {
		sc := genWindow(rt)
		slot.begin(func() (any, string) { return sc, getWhere() })
		err := runWindow(t, sc)
		slot.end()
		var labels []string
		if sc.Hold {
			labels = append(labels, "another-goroutine-inside-the-critical-section-when-the-consumer-resumes")
		}
		if sc.Close && sc.Inserts > 0 {
			labels = append(labels, "insert-and-close-while-the-consumer-is-between-empty-check-and-select")
		}
		rec.Case(sc, sc.Hold && sc.Close && sc.Inserts > 0, labels...)
		if err != nil {
			rt.Fatalf("%s", rec.Fail(sc, "window", "%v", err))
		}
	})
}

func replayWindow(t *testing.T, rf *vstat.ReplayFile) string {
	var sc WindowScenario
	if err := json.Unmarshal(rf.Scenario, &sc); err != nil {
		return "bad scenario: " + err.Error()
	}
	sc.Repeats = 200
	if err := runWindow(t, &sc); err != nil {
		return err.Error()
	}
	return ""
}
