package coalesceprop

import (
	"fmt"
	"regexp"
	"runtime"
	"sort"
	"strings"
	"sync"
	"sync/atomic"
	"time"
)

// ---------------------------------------------------------------------------
// Lock watch: the verdict for a call of the queue that waits for a mutex that
// is never released (a method that calls another locking method while it holds
// the queue's non-reentrant mutex, two locks taken in opposite orders, a lock
// kept over a blocking operation, ...).
//
// synctest cannot give that verdict: a goroutine waiting for a sync.Mutex is
// not "durably" blocked, so synctest.Wait never returns, the bubble's deadlock
// panic never fires and virtual time never moves; the process would sit there
// until the go-test deadline (= "inconclusive" for the driver).
//
// The verdict is structural, not a timeout. Every part announces the case it
// runs (one slot per goroutine that runs cases). A monitor goroutine outside
// every bubble wakes up now and then; only if some slot is still inside the
// case it was in at the previous look does it take a dump of all goroutines.
// Deadlock is declared iff
//   - no goroutine of any synctest bubble is running, runnable, in a syscall
//     or waiting for I/O, and no goroutine outside a bubble (other than the
//     monitor) is running, in a syscall, helping the garbage collector or
//     waiting for a semaphore or lock (the runtime detaches a bubble goroutine
//     from its bubble while it starts or assists a collection),
//   - at least one goroutine of a bubble waits for a lock,
//   - a second dump `confirm` later shows exactly the same goroutines in
//     exactly the same states, and the slots are still inside the same cases.
// Every engine case runs inside a bubble and nothing outside a bubble ever
// holds a lock of the code under test, so such a state cannot change any
// more: nothing is left that could release the lock. A case that is merely
// slow always has a goroutine that is not blocked.
//
// On a verdict the callback gets the cases that are stuck and the stacks of
// the goroutines that wait for locks; it records violations (the scenario is
// the replay, the glog verbosity travels with it) and ends the process: the
// stuck goroutines cannot be unwound.
// ---------------------------------------------------------------------------

// watchSlot is owned by one goroutine that runs cases one after the other.
type watchSlot struct {
	n atomic.Uint64 // odd while a case runs; bumped at begin and at end
	// sample returns the scenario being run and a short description of where it
	// is. Written by the owner before begin; read by the monitor only after
	// the verdict, i.e. when the owner is blocked for good (ordered by n).
	sample func() (scenario any, where string)
}

func (s *watchSlot) begin(sample func() (any, string)) {
	if sample != nil {
		s.sample = sample
	}
	s.n.Add(1)
}

func (s *watchSlot) end() { s.n.Add(1) }

type stuckCase struct {
	scenario any
	where    string
}

type lockWatch struct {
	mu      sync.Mutex
	slots   []*watchSlot
	stop    chan struct{}
	poll    time.Duration
	confirm time.Duration
	verdict func(stuck []stuckCase, waiters string)
}

// startLockWatch starts the monitor. verdict must not return (it ends the process).
func startLockWatch(verdict func(stuck []stuckCase, waiters string)) *lockWatch {
	w := &lockWatch{stop: make(chan struct{}), poll: 1500 * time.Millisecond, confirm: 2500 * time.Millisecond, verdict: verdict}
	go w.loop()
	return w
}

func (w *lockWatch) close() { close(w.stop) }

// slot returns a new slot (one per goroutine that runs cases).
func (w *lockWatch) slot() *watchSlot {
	s := &watchSlot{}
	w.mu.Lock()
	w.slots = append(w.slots, s)
	w.mu.Unlock()
	return s
}

func (w *lockWatch) running() map[*watchSlot]uint64 {
	w.mu.Lock()
	defer w.mu.Unlock()
	out := map[*watchSlot]uint64{}
	for _, s := range w.slots {
		if n := s.n.Load(); n%2 == 1 {
			out[s] = n
		}
	}
	return out
}

func (w *lockWatch) sleep(d time.Duration) bool {
	select {
	case <-w.stop:
		return false
	case <-time.After(d):
		return true
	}
}

func (w *lockWatch) loop() {
	prev := map[*watchSlot]uint64{}
	for w.sleep(w.poll) {
		cur := w.running()
		var cand []*watchSlot
		for s, n := range cur {
			if prev[s] == n {
				cand = append(cand, s)
			}
		}
		prev = cur
		if len(cand) == 0 {
			continue
		}
		s1 := takeSnapshot()
		if !s1.deadlocked() {
			continue
		}
		if !w.sleep(w.confirm) {
			return
		}
		s2 := takeSnapshot()
		if !s2.deadlocked() || s1.fingerprint != s2.fingerprint {
			continue
		}
		var stuck []stuckCase
		for _, s := range cand {
			if s.n.Load() == cur[s] && s.sample != nil {
				sc, where := s.sample()
				stuck = append(stuck, stuckCase{sc, where})
			}
		}
		if len(stuck) == 0 {
			continue
		}
		select {
		case <-w.stop:
			return
		default:
		}
		sort.Slice(stuck, func(i, j int) bool {
			a, b := fmt.Sprint(stuck[i].scenario), fmt.Sprint(stuck[j].scenario)
			if len(a) != len(b) {
				return len(a) < len(b)
			}
			return a < b
		})
		w.verdict(stuck, s2.waiters)
		return
	}
}

type snapshot struct {
	fingerprint string
	total       int    // goroutines that belong to a bubble
	active      int    // ... that are not blocked (or untagged goroutines that may be detached bubble goroutines)
	onLock      int    // ... that wait for something synctest does not consider durable
	waiters     string // stacks of those
}

func (s *snapshot) deadlocked() bool { return s.total > 0 && s.active == 0 && s.onLock > 0 }

var goroutineHeader = regexp.MustCompile(`^goroutine (\d+) \[([^\]]*)\]:`)

func takeSnapshot() *snapshot {
	buf := make([]byte, 1<<22)
	buf = buf[:runtime.Stack(buf, true)]
	s := &snapshot{}
	var parts, waiters []string
	untaggedBusy := 0
	for _, g := range strings.Split(string(buf), "\n\n") {
		m := goroutineHeader.FindStringSubmatch(g)
		if m == nil {
			continue
		}
		state := m[2]
		first := strings.SplitN(state, ",", 2)[0]
		if !strings.Contains(state, "synctest bubble") {
			// Not blocked, or blocked on something short-lived that a bubble goroutine detached by the
			// runtime (it starts or assists a garbage collection) or a case goroutine between two
			// bubbles may be waiting for: counted as activity, the verdict only becomes more cautious.
			for _, p := range []string{"running", "runnable", "syscall", "GC assist", "semacquire", "sync.Mutex.Lock", "sync.RWMutex"} {
				if strings.HasPrefix(first, p) {
					untaggedBusy++
					break
				}
			}
			continue
		}
		s.total++
		switch {
		case strings.HasPrefix(first, "running"), strings.HasPrefix(first, "runnable"), strings.HasPrefix(first, "syscall"), strings.HasPrefix(first, "IO wait"):
			s.active++
		case !strings.Contains(first, "(durable)"):
			s.onLock++
			if len(waiters) < 4 {
				waiters = append(waiters, trimStack(g, 14))
			}
		}
		parts = append(parts, m[1]+":"+first)
	}
	if untaggedBusy > 1 { // one is the monitor itself
		s.active += untaggedBusy - 1
	}
	sort.Strings(parts)
	s.fingerprint = strings.Join(parts, " ")
	s.waiters = strings.Join(waiters, "\n\n")
	return s
}

// trimStack keeps the function lines of the first frames of one goroutine's dump.
func trimStack(g string, frames int) string {
	lines := strings.Split(g, "\n")
	out := []string{lines[0]}
	for _, l := range lines[1:] {
		if strings.HasPrefix(l, "\t") {
			// file:line of the frame above
			f := strings.TrimSpace(l)
			if i := strings.Index(f, " +0x"); i >= 0 {
				f = f[:i]
			}
			out[len(out)-1] += "  (" + f + ")"
			continue
		}
		if len(out) > frames {
			break
		}
		out = append(out, "  "+l)
	}
	return strings.Join(out, "\n")
}
