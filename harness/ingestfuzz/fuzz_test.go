package ingestfuzz

import (
	"fmt"
	"math"
	"os"
	"testing"

	"github.com/openconfig/gnmi/metadata"
	pb "github.com/openconfig/gnmi/proto/gnmi"
	"google.golang.org/protobuf/proto"
	"verif/harness/internal/vstat"
)

// hostile constants: byte mutation alone does not find a metadata leaf name or
// a timestamp beyond the wall clock (observed while prototyping), so the seed
// corpus enumerates them.
func seedNotifications() []*pb.Notification {
	var out []*pb.Notification
	vals := []*pb.TypedValue{
		nil, {}, {Value: &pb.TypedValue_StringVal{StringVal: "x"}}, {Value: &pb.TypedValue_IntVal{IntVal: 7}},
		{Value: &pb.TypedValue_BoolVal{BoolVal: true}}, {Value: &pb.TypedValue_DoubleVal{DoubleVal: 1.5}},
		{Value: &pb.TypedValue_LeaflistVal{LeaflistVal: &pb.ScalarArray{Element: []*pb.TypedValue{{}}}}},
	}
	for _, name := range metaNames {
		for _, v := range vals {
			for _, ts := range []int64{1, 1 << 62} {
				p := &pb.Path{Elem: []*pb.PathElem{{Name: metadata.Root}, {Name: name}}}
				out = append(out, &pb.Notification{Timestamp: ts, Prefix: &pb.Path{Target: "dev"}, Update: []*pb.Update{{Path: p, Val: v}}})
				out = append(out, &pb.Notification{Timestamp: ts, Prefix: &pb.Path{Target: "dev", Origin: metadata.Root}, Update: []*pb.Update{{Path: &pb.Path{Elem: []*pb.PathElem{{Name: name}}}, Val: v}}})
				out = append(out, &pb.Notification{Timestamp: ts, Atomic: true, Prefix: &pb.Path{Target: "dev", Elem: p.Elem}, Update: []*pb.Update{{Path: &pb.Path{Elem: []*pb.PathElem{{Name: "x"}}}, Val: v}}})
			}
		}
		out = append(out, &pb.Notification{Timestamp: math.MaxInt64, Prefix: &pb.Path{Target: "dev"}, Delete: []*pb.Path{{Elem: []*pb.PathElem{{Name: metadata.Root}, {Name: name}}}}})
	}
	for _, p := range []*pb.Path{nil, {}, {Elem: []*pb.PathElem{{Name: metadata.Root}}}, {Element: []string{metadata.Root}}, {Elem: []*pb.PathElem{{Name: "*"}}}, {Elem: []*pb.PathElem{{Name: "a"}, {Name: "b"}}}} {
		for _, v := range vals[:4] {
			out = append(out, &pb.Notification{Timestamp: 5, Prefix: &pb.Path{Target: "dev"}, Update: []*pb.Update{{Path: p, Val: v}}})
			out = append(out, &pb.Notification{Timestamp: 5, Atomic: true, Prefix: &pb.Path{Target: "dev"}, Update: []*pb.Update{{Path: p, Val: v}}})
		}
		if p != nil {
			out = append(out, &pb.Notification{Timestamp: 5, Prefix: &pb.Path{Target: "dev"}, Delete: []*pb.Path{p}})
		}
	}
	out = append(out, &pb.Notification{}, &pb.Notification{Prefix: &pb.Path{}}, &pb.Notification{Prefix: &pb.Path{Target: "*"}, Delete: []*pb.Path{{Elem: []*pb.PathElem{{Name: "*"}}}}})
	return out
}

var fixedPre = func() [][]byte {
	var out [][]byte
	ts := int64(1_000_000)
	add := func(n *pb.Notification) { ts += 10; n.Timestamp = ts; out = append(out, wire(n)) }
	add(&pb.Notification{Prefix: &pb.Path{Target: "dev"}, Update: []*pb.Update{{Path: &pb.Path{Elem: []*pb.PathElem{{Name: "a"}, {Name: "b"}}}, Val: &pb.TypedValue{Value: &pb.TypedValue_DoubleVal{DoubleVal: 1.5}}}}})
	add(&pb.Notification{Prefix: &pb.Path{Target: "dev"}, Update: []*pb.Update{{Path: &pb.Path{Elem: []*pb.PathElem{{Name: "a"}, {Name: "c"}}}, Val: &pb.TypedValue{Value: &pb.TypedValue_StringVal{StringVal: "x"}}}}})
	add(&pb.Notification{Atomic: true, Prefix: &pb.Path{Target: "dev", Elem: []*pb.PathElem{{Name: "c"}, {Name: "at"}}}, Update: []*pb.Update{{Path: &pb.Path{Elem: []*pb.PathElem{{Name: "x"}}}, Val: &pb.TypedValue{Value: &pb.TypedValue_IntVal{IntVal: 1}}}}})
	return out
}()

// fuzzRecorder: every fuzz worker is its own process and writes its own result file.
func fuzzRecorder(name string) *vstat.Recorder {
	return vstat.New("C12", fmt.Sprintf("%s.w%d", name, os.Getpid()))
}

func fuzzRun(t *testing.T, rec *vstat.Recorder, n *int, sc *Scenario) {
	rec.Current(sc)
	st, err := runScenario(t, sc)
	rec.Case(sc, st.nontrivial(), st.list()...)
	*n++
	if err != nil {
		rec.AddViolation(sc, "fuzz", "crash-or-corruption", "%v", err)
		rec.Flush(true)
		t.Fatalf("%v", err)
	}
	if *n%500 == 0 {
		rec.Flush(true)
	}
}

func FuzzC12Notification(f *testing.F) {
	for _, n := range seedNotifications() {
		f.Add(wire(n), true, uint8(3))
	}
	rec := fuzzRecorder("fuzz-notification")
	count := 0
	f.Fuzz(func(t *testing.T, b []byte, stamp bool, life uint8) {
		n := &pb.Notification{}
		if proto.Unmarshal(b, n) != nil {
			return
		}
		sc := &Scenario{Kind: "ingest", Pre: fixedPre, Msgs: [][]byte{b}, Stamp: stamp, Text: []string{fmt.Sprint(n)}}
		for i, l := range []string{"sync", "connect", "connecterr", "updmeta"} {
			if life&(1<<i) != 0 {
				sc.Lifecycle = append(sc.Lifecycle, l)
			}
		}
		fuzzRun(t, rec, &count, sc)
	})
}

func FuzzC12SubscribeRequest(f *testing.F) {
	seeds := []*pb.SubscribeRequest{
		{}, {Request: &pb.SubscribeRequest_Poll{Poll: &pb.Poll{}}}, {Request: &pb.SubscribeRequest_Subscribe{}},
	}
	for _, mode := range []pb.SubscriptionList_Mode{0, 1, 2, 3} {
		for _, tgt := range []string{"dev", "*", "", "nosuch"} {
			for _, p := range []*pb.Path{nil, {}, {Elem: []*pb.PathElem{{Name: "*"}}}, {Elem: []*pb.PathElem{{Name: "meta"}}}, {Origin: "o", Elem: []*pb.PathElem{{Name: "a"}}}} {
				seeds = append(seeds, &pb.SubscribeRequest{Request: &pb.SubscribeRequest_Subscribe{Subscribe: &pb.SubscriptionList{
					Mode: mode, Prefix: &pb.Path{Target: tgt}, Subscription: []*pb.Subscription{{Path: p}}}}})
			}
		}
	}
	for _, s := range seeds {
		f.Add(wire(s), wire(&pb.SubscribeRequest{Request: &pb.SubscribeRequest_Poll{Poll: &pb.Poll{}}}))
	}
	rec := fuzzRecorder("fuzz-subscribe-request")
	count := 0
	f.Fuzz(func(t *testing.T, first, second []byte) {
		r := &pb.SubscribeRequest{}
		if proto.Unmarshal(first, r) != nil {
			return
		}
		sc := &Scenario{Kind: "subscribe", Pre: append(append([][]byte{}, fixedPre...), fixedPre...), Msgs: [][]byte{first, second}, Text: []string{fmt.Sprint(r)}}
		fuzzRun(t, rec, &count, sc)
	})
}

func FuzzC12SubscribeResponse(f *testing.F) {
	for _, n := range seedNotifications() {
		f.Add(wire(&pb.SubscribeResponse{Response: &pb.SubscribeResponse_Update{Update: n}}), uint8(0))
		n2 := proto.Clone(n).(*pb.Notification)
		if n2.Prefix != nil {
			n2.Prefix.Target = ""
		}
		f.Add(wire(&pb.SubscribeResponse{Response: &pb.SubscribeResponse_Update{Update: n2}}), uint8(7))
	}
	f.Add(wire(&pb.SubscribeResponse{}), uint8(1))
	f.Add(wire(&pb.SubscribeResponse{Response: &pb.SubscribeResponse_Error{Error: &pb.Error{}}}), uint8(2))
	rec := fuzzRecorder("fuzz-subscribe-response")
	count := 0
	f.Fuzz(func(t *testing.T, b []byte, mode uint8) {
		r := &pb.SubscribeResponse{}
		if proto.Unmarshal(b, r) != nil {
			return
		}
		sync := wire(&pb.SubscribeResponse{Response: &pb.SubscribeResponse_SyncResponse{SyncResponse: true}})
		sc := &Scenario{Kind: "client", Msgs: [][]byte{b, sync, b}, Text: []string{fmt.Sprint(r)}}
		sc.QueryType = []string{"once", "poll", "stream"}[int(mode)%3]
		sc.Display = []string{"g", "s", "p", "sp"}[int(mode/3)%4]
		sc.Timestamp = []string{"", "on", "raw"}[int(mode/12)%3]
		fuzzRun(t, rec, &count, sc)
	})
}
