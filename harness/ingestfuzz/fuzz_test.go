package ingestfuzz

import (
	"encoding/binary"
	"fmt"
	"math"
	"os"
	"strings"
	"testing"

	"github.com/openconfig/gnmi/metadata"
	pb "github.com/openconfig/gnmi/proto/gnmi"
	"google.golang.org/protobuf/proto"
	"pgregory.net/rapid"
	"verif/harness/internal/vstat"
)

// hostile constants: byte mutation alone does not find a metadata leaf name or
// a timestamp beyond the wall clock (observed while prototyping), so the seed
// corpus enumerates them.
func seedNotifications() []*pb.Notification {
	var out []*pb.Notification
	vals := []*pb.TypedValue{
		nil, {}, {Value: &pb.TypedValue_StringVal{StringVal: "x"}}, {Value: &pb.TypedValue_IntVal{IntVal: 7}},
		{Value: &pb.TypedValue_BoolVal{BoolVal: true}}, {Value: &pb.TypedValue_DoubleVal{DoubleVal: 1.5}},
		{Value: &pb.TypedValue_LeaflistVal{LeaflistVal: &pb.ScalarArray{Element: []*pb.TypedValue{{}}}}},
	}
	for _, name := range metaNames {
		for _, v := range vals {
			for _, ts := range []int64{1, 1 << 62} {
				p := &pb.Path{Elem: []*pb.PathElem{{Name: metadata.Root}, {Name: name}}}
				out = append(out, &pb.Notification{Timestamp: ts, Prefix: &pb.Path{Target: "dev"}, Update: []*pb.Update{{Path: p, Val: v}}})
				out = append(out, &pb.Notification{Timestamp: ts, Prefix: &pb.Path{Target: "dev", Origin: metadata.Root}, Update: []*pb.Update{{Path: &pb.Path{Elem: []*pb.PathElem{{Name: name}}}, Val: v}}})
				out = append(out, &pb.Notification{Timestamp: ts, Atomic: true, Prefix: &pb.Path{Target: "dev", Elem: p.Elem}, Update: []*pb.Update{{Path: &pb.Path{Elem: []*pb.PathElem{{Name: "x"}}}, Val: v}}})
			}
		}
		out = append(out, &pb.Notification{Timestamp: math.MaxInt64, Prefix: &pb.Path{Target: "dev"}, Delete: []*pb.Path{{Elem: []*pb.PathElem{{Name: metadata.Root}, {Name: name}}}}})
	}
	for _, p := range []*pb.Path{nil, {}, {Elem: []*pb.PathElem{{Name: metadata.Root}}}, {Element: []string{metadata.Root}}, {Elem: []*pb.PathElem{{Name: "*"}}}, {Elem: []*pb.PathElem{{Name: "a"}, {Name: "b"}}}} {
		for _, v := range vals[:4] {
			out = append(out, &pb.Notification{Timestamp: 5, Prefix: &pb.Path{Target: "dev"}, Update: []*pb.Update{{Path: p, Val: v}}})
			out = append(out, &pb.Notification{Timestamp: 5, Atomic: true, Prefix: &pb.Path{Target: "dev"}, Update: []*pb.Update{{Path: p, Val: v}}})
		}
		if p != nil {
			out = append(out, &pb.Notification{Timestamp: 5, Prefix: &pb.Path{Target: "dev"}, Delete: []*pb.Path{p}})
		}
	}
	out = append(out, &pb.Notification{}, &pb.Notification{Prefix: &pb.Path{}}, &pb.Notification{Prefix: &pb.Path{Target: "*"}, Delete: []*pb.Path{{Elem: []*pb.PathElem{{Name: "*"}}}}})
	return append(out, sizeSeedNotifications()...)
}

func keyedElem(name string, nk int) *pb.PathElem {
	e := &pb.PathElem{Name: name, Key: map[string]string{}}
	for j := 0; j < nk; j++ {
		e.Key[fmt.Sprintf("k%d", j)] = fmt.Sprint(j % 3)
	}
	return e
}

func longPath(n int) *pb.Path {
	p := &pb.Path{}
	for i := 0; i < n; i++ {
		p.Elem = append(p.Elem, &pb.PathElem{Name: string(rune('a' + i%3))})
	}
	return p
}

// sizeSeedNotifications: every size dimension on both sides of the usual
// capacity steps. Byte mutation rarely synthesises, say, nine well-formed map
// entries inside one nested path element, so the corpus starts from them.
func sizeSeedNotifications() []*pb.Notification {
	var out []*pb.Notification
	iv := func(i int) *pb.TypedValue { return &pb.TypedValue{Value: &pb.TypedValue_IntVal{IntVal: int64(i)}} }
	dev := func() *pb.Path { return &pb.Path{Target: "dev"} }
	for _, n := range []int{3, 4, 5, 8, 9, 16, 17} {
		// keys of one element: in an update path, a delete path, the prefix, an atomic prefix
		out = append(out, &pb.Notification{Timestamp: 5, Prefix: dev(), Update: []*pb.Update{{Path: &pb.Path{Elem: []*pb.PathElem{{Name: "l"}, keyedElem("e", n), {Name: "v"}}}, Val: iv(n)}}})
		out = append(out, &pb.Notification{Timestamp: 5, Prefix: dev(), Delete: []*pb.Path{{Elem: []*pb.PathElem{keyedElem("e", n)}}}})
		out = append(out, &pb.Notification{Timestamp: 5, Prefix: &pb.Path{Target: "dev", Elem: []*pb.PathElem{keyedElem("e", n)}}, Update: []*pb.Update{{Path: &pb.Path{Elem: []*pb.PathElem{{Name: "v"}}}, Val: iv(n)}}})
		out = append(out, &pb.Notification{Timestamp: 5, Atomic: true, Prefix: &pb.Path{Target: "dev", Elem: []*pb.PathElem{{Name: "l"}, keyedElem("e", n)}}, Update: []*pb.Update{{Path: &pb.Path{Elem: []*pb.PathElem{keyedElem("v", n)}}, Val: iv(n)}}})
	}
	for _, n := range []int{5, 9, 17, 33, 40} {
		// elements of one path, in both encodings, in the prefix
		out = append(out, &pb.Notification{Timestamp: 5, Prefix: dev(), Update: []*pb.Update{{Path: longPath(n), Val: iv(n)}}, Delete: []*pb.Path{longPath(n - 1)}})
		out = append(out, &pb.Notification{Timestamp: 5, Prefix: &pb.Path{Target: "dev", Elem: longPath(n).Elem}, Update: []*pb.Update{{Path: longPath(n), Val: iv(n)}}})
		el := &pb.Path{}
		for i := 0; i < n; i++ {
			el.Element = append(el.Element, "e")
		}
		out = append(out, &pb.Notification{Timestamp: 5, Prefix: dev(), Update: []*pb.Update{{Path: el, Val: iv(n)}}})
	}
	for _, n := range []int{5, 17, 65, 257} {
		// entries of one notification
		no := &pb.Notification{Timestamp: 5, Prefix: dev()}
		at := &pb.Notification{Timestamp: 5, Atomic: true, Prefix: &pb.Path{Target: "dev", Elem: []*pb.PathElem{{Name: "at"}}}}
		for i := 0; i < n; i++ {
			p := &pb.Path{Elem: []*pb.PathElem{{Name: "l"}, {Name: "e", Key: map[string]string{"k": fmt.Sprint(i)}}}}
			no.Update = append(no.Update, &pb.Update{Path: p, Val: iv(i)})
			at.Update = append(at.Update, &pb.Update{Path: p, Val: iv(i)})
			if i%2 == 0 {
				no.Delete = append(no.Delete, p)
			}
		}
		out = append(out, no, at)
		// elements of a leaf-list
		sa := &pb.ScalarArray{}
		for i := 0; i < n; i++ {
			sa.Element = append(sa.Element, iv(i))
		}
		out = append(out, &pb.Notification{Timestamp: 5, Prefix: dev(), Update: []*pb.Update{{Path: longPath(2), Val: &pb.TypedValue{Value: &pb.TypedValue_LeaflistVal{LeaflistVal: sa}}}}})
	}
	for _, n := range []int{3, 17, 40} {
		// leaf-lists inside leaf-lists
		tv := iv(n)
		for i := 0; i < n; i++ {
			tv = &pb.TypedValue{Value: &pb.TypedValue_LeaflistVal{LeaflistVal: &pb.ScalarArray{Element: []*pb.TypedValue{tv}}}}
		}
		out = append(out, &pb.Notification{Timestamp: 5, Prefix: dev(), Update: []*pb.Update{{Path: longPath(2), Val: tv}}})
	}
	for _, n := range []int{255, 256, 4096, 5000} {
		// long strings wherever a string goes
		l := strings.Repeat("x", n)
		out = append(out, &pb.Notification{Timestamp: 5, Prefix: &pb.Path{Target: "dev", Origin: l}, Update: []*pb.Update{{Path: &pb.Path{Elem: []*pb.PathElem{{Name: l, Key: map[string]string{l: l}}}}, Val: &pb.TypedValue{Value: &pb.TypedValue_StringVal{StringVal: l}}}}})
		out = append(out, &pb.Notification{Timestamp: 5, Prefix: &pb.Path{Target: l}, Update: []*pb.Update{{Path: &pb.Path{Element: []string{l}}, Val: &pb.TypedValue{Value: &pb.TypedValue_JsonVal{JsonVal: []byte(`"` + l + `"`)}}}}})
		out = append(out, &pb.Notification{Timestamp: 5, Prefix: dev(), Update: []*pb.Update{{Path: &pb.Path{Elem: []*pb.PathElem{{Name: "meta"}, {Name: "connectError"}}}, Val: &pb.TypedValue{Value: &pb.TypedValue_StringVal{StringVal: l}}}}})
	}
	return out
}

// generatedSeeds adds what the structured generators draw when every size
// dimension is large, for a few fixed seeds (deterministic).
func generatedSeeds[M any](n int, gen func(*rapid.T) M) []M {
	var out []M
	g := rapid.Custom(func(t *rapid.T) M {
		bigDims = map[string]bool{}
		for _, d := range allDims {
			bigDims[d] = true
		}
		defer func() { bigDims = nil }()
		return gen(t)
	})
	for i := 1; i <= n; i++ {
		out = append(out, g.Example(i))
	}
	return out
}

var fixedPre = func() [][]byte {
	var out [][]byte
	ts := int64(1_000_000)
	add := func(n *pb.Notification) { ts += 10; n.Timestamp = ts; out = append(out, wire(n)) }
	add(&pb.Notification{Prefix: &pb.Path{Target: "dev"}, Update: []*pb.Update{{Path: &pb.Path{Elem: []*pb.PathElem{{Name: "a"}, {Name: "b"}}}, Val: &pb.TypedValue{Value: &pb.TypedValue_DoubleVal{DoubleVal: 1.5}}}}})
	add(&pb.Notification{Prefix: &pb.Path{Target: "dev"}, Update: []*pb.Update{{Path: &pb.Path{Elem: []*pb.PathElem{{Name: "a"}, {Name: "c"}}}, Val: &pb.TypedValue{Value: &pb.TypedValue_StringVal{StringVal: "x"}}}}})
	add(&pb.Notification{Atomic: true, Prefix: &pb.Path{Target: "dev", Elem: []*pb.PathElem{{Name: "c"}, {Name: "at"}}}, Update: []*pb.Update{{Path: &pb.Path{Elem: []*pb.PathElem{{Name: "x"}}}, Val: &pb.TypedValue{Value: &pb.TypedValue_IntVal{IntVal: 1}}}}})
	return out
}()

// fuzzRecorder: every fuzz worker is its own process and writes its own result file.
func fuzzRecorder(name string) *vstat.Recorder {
	return vstat.New("C12", fmt.Sprintf("%s.w%d", name, os.Getpid()))
}

func fuzzRun(t *testing.T, rec *vstat.Recorder, n *int, sc *Scenario) {
	rec.Current(sc)
	st, err := runScenario(t, sc)
	rec.Case(sc, st.nontrivial(), st.list()...)
	*n++
	if err != nil {
		rec.AddViolation(sc, "fuzz", "crash-or-corruption", "%v", err)
		rec.Flush(true)
		t.Fatalf("%v", err)
	}
	if *n%500 == 0 {
		rec.Flush(true)
	}
}

func FuzzC12Notification(f *testing.F) {
	for _, n := range seedNotifications() {
		f.Add(wire(n), true, uint8(3))
	}
	for _, n := range generatedSeeds(24, func(t *rapid.T) *pb.Notification { return genNotification(t, allTargets) }) {
		f.Add(wire(n), false, uint8(0))
	}
	rec := fuzzRecorder("fuzz-notification")
	count := 0
	f.Fuzz(func(t *testing.T, b []byte, stamp bool, life uint8) {
		n := &pb.Notification{}
		if proto.Unmarshal(b, n) != nil {
			return
		}
		sc := &Scenario{Kind: "ingest", Pre: fixedPre, Msgs: [][]byte{b}, Stamp: stamp, Text: []string{fmt.Sprint(n)}}
		for i, l := range []string{"sync", "connect", "connecterr", "updmeta"} {
			if life&(1<<i) != 0 {
				sc.Lifecycle = append(sc.Lifecycle, l)
			}
		}
		fuzzRun(t, rec, &count, sc)
	})
}

func FuzzC12SubscribeRequest(f *testing.F) {
	seeds := []*pb.SubscribeRequest{
		{}, {Request: &pb.SubscribeRequest_Poll{Poll: &pb.Poll{}}}, {Request: &pb.SubscribeRequest_Subscribe{}},
	}
	for _, mode := range []pb.SubscriptionList_Mode{0, 1, 2, 3} {
		for _, tgt := range []string{"dev", "*", "", "nosuch"} {
			for _, p := range []*pb.Path{nil, {}, {Elem: []*pb.PathElem{{Name: "*"}}}, {Elem: []*pb.PathElem{{Name: "meta"}}}, {Origin: "o", Elem: []*pb.PathElem{{Name: "a"}}}} {
				seeds = append(seeds, &pb.SubscribeRequest{Request: &pb.SubscribeRequest_Subscribe{Subscribe: &pb.SubscriptionList{
					Mode: mode, Prefix: &pb.Path{Target: tgt}, Subscription: []*pb.Subscription{{Path: p}}}}})
			}
		}
	}
	// sizes: subscriptions per list, keys per element, elements per path, long strings; undeclared enum numbers near and far
	for i, mode := range []pb.SubscriptionList_Mode{0, 1, 2, 3, 4, 16, 17, -1, math.MaxInt32, math.MinInt32} {
		for _, n := range [][]int{{5, 65}, {9, 17}, {17, 100}, {4, 33}}[i%4] {
			sl := &pb.SubscriptionList{Mode: mode, Encoding: pb.Encoding(n), Prefix: &pb.Path{Target: "dev", Elem: []*pb.PathElem{keyedElem("e", n%18)}}}
			for i := 0; i < n; i++ {
				sl.Subscription = append(sl.Subscription, &pb.Subscription{Mode: pb.SubscriptionMode(i - 1), Path: &pb.Path{Elem: []*pb.PathElem{{Name: "l"}, keyedElem("e", i%18), {Name: "*"}}}})
			}
			sl.Subscription = append(sl.Subscription, &pb.Subscription{Path: longPath(n % 41)}, &pb.Subscription{Path: &pb.Path{Origin: strings.Repeat("o", n*50), Elem: []*pb.PathElem{{Name: strings.Repeat("n", n*50)}}}})
			seeds = append(seeds, &pb.SubscribeRequest{Request: &pb.SubscribeRequest_Subscribe{Subscribe: sl}})
		}
	}
	seeds = append(seeds, generatedSeeds(24, func(t *rapid.T) *pb.SubscribeRequest { return genSubscribeRequest(t, true, allTargets) })...)
	for _, s := range seeds {
		f.Add(wire(s), wire(&pb.SubscribeRequest{Request: &pb.SubscribeRequest_Poll{Poll: &pb.Poll{}}}))
	}
	rec := fuzzRecorder("fuzz-subscribe-request")
	count := 0
	f.Fuzz(func(t *testing.T, first, second []byte) {
		r := &pb.SubscribeRequest{}
		if proto.Unmarshal(first, r) != nil {
			return
		}
		sc := &Scenario{Kind: "subscribe", Pre: append(append([][]byte{}, fixedPre...), fixedPre...), Msgs: [][]byte{first, second}, Text: []string{fmt.Sprint(r)}}
		fuzzRun(t, rec, &count, sc)
	})
}

func FuzzC12SubscribeResponse(f *testing.F) {
	for _, n := range seedNotifications() {
		f.Add(wire(&pb.SubscribeResponse{Response: &pb.SubscribeResponse_Update{Update: n}}), uint8(0))
		n2 := proto.Clone(n).(*pb.Notification)
		if n2.Prefix != nil {
			n2.Prefix.Target = ""
		}
		f.Add(wire(&pb.SubscribeResponse{Response: &pb.SubscribeResponse_Update{Update: n2}}), uint8(7))
	}
	f.Add(wire(&pb.SubscribeResponse{}), uint8(1))
	f.Add(wire(&pb.SubscribeResponse{Response: &pb.SubscribeResponse_Error{Error: &pb.Error{}}}), uint8(2))
	rec := fuzzRecorder("fuzz-subscribe-response")
	count := 0
	f.Fuzz(func(t *testing.T, b []byte, mode uint8) {
		r := &pb.SubscribeResponse{}
		if proto.Unmarshal(b, r) != nil {
			return
		}
		sync := wire(&pb.SubscribeResponse{Response: &pb.SubscribeResponse_SyncResponse{SyncResponse: true}})
		sc := &Scenario{Kind: "client", Msgs: [][]byte{b, sync, b}, Text: []string{fmt.Sprint(r)}}
		sc.QueryType = []string{"once", "poll", "stream"}[int(mode)%3]
		sc.Display = []string{"g", "s", "p", "sp"}[int(mode/3)%4]
		sc.Timestamp = []string{"", "on", "raw"}[int(mode/12)%3]
		fuzzRun(t, rec, &count, sc)
	})
}

// ---- the life of one (cache, server) pair as fuzz input -------------------------------------------
//
// A life scenario is flattened into one byte string of records
//   header, a, b, uvarint(len), payload
// header: bits 0-1 kind (0 n, 1 r, 2 l, 3 p), bit 2 stamp, bit 3 cancel, bit 4 noauth, bits 5-7 hold;
// a: target / peer; b: lifecycle call; payload: the Notification, or the uvarint-delimited SubscribeRequests.
// Every byte string decodes to some scenario (at most 400 steps), so the mutator can splice,
// duplicate and reorder the steps of a life.

var (
	lifeCalls = []string{"sync", "connect", "connecterr", "updmeta", "updsize", "stats", "reset", "remove", "add"}
	lifeHolds = []int{0, 0, 1, 2, 5, 20, 100, 0}
)

func encodeLife(ops []LifeOp) []byte {
	var out []byte
	for _, op := range ops {
		h := byte(strings.Index("nrlp", op.Op) & 3)
		if op.Stamp {
			h |= 4
		}
		if op.Cancel {
			h |= 8
		}
		if op.NoAuth {
			h |= 16
		}
		for i, v := range lifeHolds {
			if v == op.Hold {
				h |= byte(i) << 5
				break
			}
		}
		a, b := byte(op.Target), byte(0)
		if op.Op == "r" {
			a = byte(op.Peer)
		}
		for i, c := range lifeCalls {
			if c == op.Call {
				b = byte(i)
			}
		}
		payload := op.Msg
		if op.Op == "r" {
			payload = nil
			for _, r := range op.Reqs {
				payload = binary.AppendUvarint(payload, uint64(len(r)))
				payload = append(payload, r...)
			}
		}
		out = append(out, h, a, b)
		out = binary.AppendUvarint(out, uint64(len(payload)))
		out = append(out, payload...)
	}
	return out
}

func takeChunk(b []byte) (chunk, rest []byte) {
	n, w := binary.Uvarint(b)
	if w <= 0 {
		return nil, nil
	}
	b = b[w:]
	if n > uint64(len(b)) {
		n = uint64(len(b))
	}
	return b[:n], b[n:]
}

func decodeLife(b []byte) []LifeOp {
	var ops []LifeOp
	for len(b) >= 3 && len(ops) < 400 {
		h, a, c := b[0], b[1], b[2]
		var payload []byte
		payload, b = takeChunk(b[3:])
		op := LifeOp{Op: string("nrlp"[h&3]), Target: int(a)}
		switch op.Op {
		case "n":
			op.Stamp, op.Msg = h&4 != 0, payload
		case "r":
			op.Cancel, op.NoAuth, op.Hold, op.Peer, op.Target = h&8 != 0, h&16 != 0, lifeHolds[h>>5], int(a), 0
			for len(payload) > 0 && len(op.Reqs) < 8 {
				var r []byte
				r, payload = takeChunk(payload)
				op.Reqs = append(op.Reqs, r)
			}
		case "l":
			op.Call = lifeCalls[int(c)%len(lifeCalls)]
		case "p":
			op.Peer = int(c)
		}
		ops = append(ops, op)
	}
	return ops
}

func lifeOptsOf(bits uint8) []string {
	var out []string
	for i, o := range lifeOpts {
		if bits&(1<<i) != 0 {
			out = append(out, o)
		}
	}
	return out
}

func FuzzC12Life(f *testing.F) {
	// seeds: generated lives, and the flattened single-message corpora as short lives
	for i := 1; i <= 40; i++ {
		sc := rapid.Custom(genLife).Example(i)
		var bits uint8
		for j, o := range lifeOpts {
			for _, have := range sc.Opts {
				if have == o {
					bits |= 1 << j
				}
			}
		}
		f.Add(encodeLife(sc.Ops), bits, uint8(sc.Targets-2))
	}
	var ops []LifeOp
	for i, n := range sizeSeedNotifications() {
		ops = append(ops, LifeOp{Op: "n", Msg: wire(n)})
		if i%8 == 7 {
			ops = append(ops, LifeOp{Op: "p"}, LifeOp{Op: "l", Call: "updmeta"})
		}
	}
	f.Add(encodeLife(ops), uint8(0xff), uint8(0))
	rec := fuzzRecorder("fuzz-life")
	count := 0
	f.Fuzz(func(t *testing.T, data []byte, opts uint8, targets uint8) {
		sc := &Scenario{Kind: "life", Opts: lifeOptsOf(opts), Targets: 2 + int(targets)%39, Ops: decodeLife(data)}
		if len(sc.Ops) == 0 {
			return
		}
		fuzzRun(t, rec, &count, sc)
	})
}

// TestLifeCodec: what encodeLife writes, decodeLife reads back (the fuzz corpus means what it says).
func TestLifeCodec(t *testing.T) {
	for i := 1; i <= 20; i++ {
		sc := rapid.Custom(genLife).Example(i)
		back := decodeLife(encodeLife(sc.Ops))
		if len(back) != len(sc.Ops) {
			t.Fatalf("example %d: %d steps, decoded %d", i, len(sc.Ops), len(back))
		}
		for j := range back {
			a, b := sc.Ops[j], back[j]
			a.Text = ""
			if a.Op == "r" {
				a.Target = 0
			}
			if a.Op != "l" && a.Op != "p" && a.Op != "n" {
				a.Target = 0
			}
			if a.Op == "p" {
				a.Peer = b.Peer // the probe's peer is not kept
			}
			if fmt.Sprint(a) != fmt.Sprint(b) {
				t.Fatalf("example %d step %d: %+v decoded as %+v", i, j, a, b)
			}
		}
	}
}
