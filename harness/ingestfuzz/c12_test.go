package ingestfuzz

import (
	"encoding/json"
	"flag"
	"fmt"
	"os"
	"testing"

	pb "github.com/openconfig/gnmi/proto/gnmi"
	"google.golang.org/protobuf/proto"
	"pgregory.net/rapid"
	"verif/harness/internal/vstat"
)

func TestMain(m *testing.M) {
	flag.Parse()
	registerImpl()
	os.Exit(m.Run())
}

func text(m proto.Message) string { return fmt.Sprint(m) }

func genIngest(t *rapid.T) *Scenario {
	sc := &Scenario{Kind: "ingest", Stamp: rapid.IntRange(0, 3).Draw(t, "stamp") == 0}
	ts := int64(1_000_000)
	for i := rapid.IntRange(0, 4).Draw(t, "npre"); i > 0; i-- {
		ts += 10
		sc.Pre = append(sc.Pre, wire(genValidNotification(t, ts)))
	}
	sc.Lifecycle = rapid.SliceOfN(rapid.SampledFrom([]string{"sync", "connect", "connecterr", "updmeta", "updsize"}), 0, 3).Draw(t, "lifecycle")
	for i := rapid.IntRange(1, 3).Draw(t, "nmsg"); i > 0; i-- {
		n := genNotification(t)
		sc.Msgs = append(sc.Msgs, wire(n))
		sc.Text = append(sc.Text, text(n))
	}
	return sc
}

func genSubscribe(t *rapid.T) *Scenario {
	sc := &Scenario{Kind: "subscribe"}
	ts := int64(1_000_000)
	for i := rapid.IntRange(0, 6).Draw(t, "npre"); i > 0; i-- {
		ts += 10
		sc.Pre = append(sc.Pre, wire(genValidNotification(t, ts)))
	}
	for i := rapid.IntRange(1, 3).Draw(t, "nreq"); i > 0; i-- {
		r := genSubscribeRequest(t, len(sc.Msgs) == 0)
		sc.Msgs = append(sc.Msgs, wire(r))
		sc.Text = append(sc.Text, text(r))
	}
	return sc
}

func genClient(t *rapid.T) *Scenario {
	sc := &Scenario{Kind: "client"}
	sc.QueryType = rapid.SampledFrom([]string{"once", "poll", "stream"}).Draw(t, "qtype")
	sc.Display = rapid.SampledFrom([]string{"g", "g", "s", "p", "sp"}).Draw(t, "display")
	sc.Timestamp = rapid.SampledFrom([]string{"", "", "on", "raw", "2006"}).Draw(t, "timestamp")
	for i := rapid.IntRange(1, 5).Draw(t, "nresp"); i > 0; i-- {
		r := genSubscribeResponse(t)
		sc.Msgs = append(sc.Msgs, wire(r))
		sc.Text = append(sc.Text, text(r))
	}
	if rapid.IntRange(0, 1).Draw(t, "endsync") == 0 {
		r := &pb.SubscribeResponse{Response: &pb.SubscribeResponse_SyncResponse{SyncResponse: true}}
		sc.Msgs = append(sc.Msgs, wire(r))
		sc.Text = append(sc.Text, text(r))
	}
	return sc
}

func runScenario(t *testing.T, sc *Scenario) (*stats, error) {
	switch sc.Kind {
	case "ingest":
		return runIngest(sc)
	case "subscribe":
		return runSubscribe(t, sc)
	case "client":
		return runClient(sc)
	}
	return &stats{}, fmt.Errorf("unknown scenario kind %q", sc.Kind)
}

func part(t *testing.T, name string, gen func(*rapid.T) *Scenario) {
	if !vstat.Enabled("C12") {
		t.Skip()
	}
	rec := vstat.New("C12", name)
	rec.RunRapid(t, func(rt *rapid.T) {
		sc := gen(rt)
		rec.Current(sc)
		st, err := runScenario(t, sc)
		rec.Case(sc, st.nontrivial(), st.list()...)
		if leakNote != "" {
			rec.NoteOnce("%s", leakNote)
			leakNote = "noted"
		}
		if err != nil {
			rt.Fatalf("%s", rec.Fail(sc, "crash-or-corruption", "%v", err))
		}
	})
}

func TestC12Ingest(t *testing.T)    { part(t, "ingest", genIngest) }
func TestC12Subscribe(t *testing.T) { part(t, "subscribe", genSubscribe) }
func TestC12Client(t *testing.T)    { part(t, "client", genClient) }

// TestReplay re-runs a saved scenario without the library.
func TestReplay(t *testing.T) {
	rf, ok, err := vstat.LoadReplay()
	if !ok {
		t.Skip()
	}
	if err != nil {
		t.Fatal(err)
	}
	rec := vstat.New(rf.Property, "replay")
	defer rec.Flush(true)
	var sc Scenario
	msg := ""
	if err := json.Unmarshal(rf.Scenario, &sc); err != nil {
		msg = "bad scenario: " + err.Error()
	} else if _, err := runScenario(t, &sc); err != nil {
		msg = err.Error()
	}
	if msg != "" {
		rec.AddViolation(json.RawMessage(rf.Scenario), rf.Kind, rf.Class, "%s", msg)
		fmt.Println("REPLAY-FAIL:", msg)
		t.Fail()
		return
	}
	rec.Case(json.RawMessage(rf.Scenario), false, "replayed")
	fmt.Println("REPLAY-OK")
}
