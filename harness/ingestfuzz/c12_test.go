package ingestfuzz

import (
	"encoding/json"
	"flag"
	"fmt"
	"os"
	"strings"
	"syscall"
	"testing"

	pb "github.com/openconfig/gnmi/proto/gnmi"
	"google.golang.org/protobuf/proto"
	"pgregory.net/rapid"
	"verif/harness/internal/vstat"
)

func TestMain(m *testing.M) {
	flag.Parse()
	// Native fuzzing: the engine minimises every input with new coverage for up to a minute by
	// default, which for inputs of some size (a life scenario, a notification with hundreds of
	// entries) leaves no time for fuzzing. Half a second unless the command line says otherwise.
	explicit := false
	flag.Visit(func(f *flag.Flag) { explicit = explicit || f.Name == "test.fuzzminimizetime" })
	if f := flag.Lookup("test.fuzzminimizetime"); f != nil && !explicit {
		f.Value.Set("500ms")
	}
	captureWorkerStderr()
	registerImpl()
	os.Exit(m.Run())
}

// captureWorkerStderr: the fuzz engine starts its workers with no stderr, so the text of a
// runtime fatal error in a worker (the one thing that says why it died) is lost. A worker
// therefore points its own descriptor 2 at a file in the working directory; the driver quotes
// it when a worker death cannot be reproduced from the announced inputs.
func captureWorkerStderr() {
	f := flag.Lookup("test.fuzzworker")
	if f == nil || f.Value.String() != "true" {
		return
	}
	out, err := os.OpenFile(fmt.Sprintf("worker-stderr.%d.txt", os.Getpid()), os.O_CREATE|os.O_WRONLY|os.O_APPEND, 0o644)
	if err != nil {
		return
	}
	syscall.Dup2(int(out.Fd()), 2)
}

func text(m proto.Message) string { return fmt.Sprint(m) }

func rtext(m proto.Message) string { return short(text(m), 600) }

// dropCostly keeps the product of two large dimensions bounded: many messages
// times many entries per message is dropped in favour of many messages.
func dropCostly() {
	if bigDims[dimMsgs] && bigDims[dimEntries] {
		delete(bigDims, dimEntries)
	}
}

func atLeast1(n int) int {
	if n < 1 {
		return 1
	}
	return n
}

func genIngest(t *rapid.T) *Scenario {
	drawSizeClass(t, []string{dimKeys, dimElems, dimEntries, dimLeaflist, dimNest, dimStr, dimMsgs, dimPre})
	dropCostly()
	sc := &Scenario{Kind: "ingest", Stamp: rapid.IntRange(0, 3).Draw(t, "stamp") == 0}
	ts := int64(1_000_000)
	for i := genSize(t, dimPre, "npre", upTo(4), 300); i > 0; i-- {
		ts += 10
		sc.Pre = append(sc.Pre, wire(genValidNotification(t, ts, "dev")))
	}
	sc.Lifecycle = rapid.SliceOfN(rapid.SampledFrom([]string{"sync", "connect", "connecterr", "updmeta", "updsize"}), 0, 3).Draw(t, "lifecycle")
	for i := atLeast1(genSize(t, dimMsgs, "nmsg", []int{1, 2, 3}, 150)); i > 0; i-- {
		n := genNotification(t, allTargets)
		sc.Msgs = append(sc.Msgs, wire(n))
		sc.Text = append(sc.Text, rtext(n))
	}
	return sc
}

func genSubscribe(t *rapid.T) *Scenario {
	drawSizeClass(t, []string{dimKeys, dimElems, dimSubs, dimStr, dimMsgs, dimPre})
	sc := &Scenario{Kind: "subscribe"}
	ts := int64(1_000_000)
	for i := genSize(t, dimPre, "npre", upTo(6), 300); i > 0; i-- {
		ts += 10
		sc.Pre = append(sc.Pre, wire(genValidNotification(t, ts, "dev")))
	}
	for i := atLeast1(genSize(t, dimMsgs, "nreq", []int{1, 2, 3}, 60)); i > 0; i-- {
		r := genSubscribeRequest(t, len(sc.Msgs) == 0, allTargets)
		sc.Msgs = append(sc.Msgs, wire(r))
		sc.Text = append(sc.Text, rtext(r))
	}
	return sc
}

func genClient(t *rapid.T) *Scenario {
	drawSizeClass(t, []string{dimKeys, dimElems, dimEntries, dimLeaflist, dimNest, dimStr, dimMsgs})
	dropCostly()
	sc := &Scenario{Kind: "client"}
	sc.QueryType = rapid.SampledFrom([]string{"once", "poll", "stream"}).Draw(t, "qtype")
	sc.Display = rapid.SampledFrom([]string{"g", "g", "s", "p", "sp"}).Draw(t, "display")
	sc.Timestamp = rapid.SampledFrom([]string{"", "", "on", "raw", "2006"}).Draw(t, "timestamp")
	for i := atLeast1(genSize(t, dimMsgs, "nresp", []int{1, 2, 3, 4, 5}, 400)); i > 0; i-- {
		r := genSubscribeResponse(t)
		sc.Msgs = append(sc.Msgs, wire(r))
		sc.Text = append(sc.Text, rtext(r))
	}
	if rapid.IntRange(0, 1).Draw(t, "endsync") == 0 {
		r := &pb.SubscribeResponse{Response: &pb.SubscribeResponse_SyncResponse{SyncResponse: true}}
		sc.Msgs = append(sc.Msgs, wire(r))
		sc.Text = append(sc.Text, text(r))
	}
	return sc
}

var lifeOpts = []string{"stats", "acl-allow", "acl-deny-odd", "acl-noauth", "timeout-1s", "timeout-1h", "nodup", "hooks"}

// genValidSubscribeRequest draws an ordinary request for an existing target.
func genValidSubscribeRequest(t *rapid.T, targets []string) *pb.SubscribeRequest {
	name := func() string { return rapid.SampledFrom([]string{"a", "b", "c", "*"}).Draw(t, "qname") }
	sl := &pb.SubscriptionList{
		Mode:        pb.SubscriptionList_Mode(rapid.IntRange(0, 2).Draw(t, "vmode")),
		Prefix:      &pb.Path{Target: rapid.SampledFrom(append([]string{"*", targets[0]}, targets...)).Draw(t, "vtarget")},
		UpdatesOnly: rapid.IntRange(0, 4).Draw(t, "vuo") == 0,
	}
	for i := rapid.IntRange(1, 3).Draw(t, "vnsub"); i > 0; i-- {
		p := &pb.Path{}
		for j := rapid.IntRange(1, 3).Draw(t, "vqlen"); j > 0; j-- {
			p.Elem = append(p.Elem, &pb.PathElem{Name: name()})
		}
		sl.Subscription = append(sl.Subscription, &pb.Subscription{Path: p})
	}
	return &pb.SubscribeRequest{Request: &pb.SubscribeRequest_Subscribe{Subscribe: sl}}
}

// genLife draws the life of one (cache, server) pair: see life.go.
func genLife(t *rapid.T) *Scenario {
	bigDims = nil
	sc := &Scenario{Kind: "life"}
	for _, o := range lifeOpts {
		odds := 1
		if o == "stats" {
			odds = 3 // most servers keep statistics
		}
		if rapid.IntRange(0, odds).Draw(t, "opt-"+o) > 0 {
			sc.Opts = append(sc.Opts, o)
		}
	}
	sc.Targets = rapid.SampledFrom([]int{2, 2, 3, 5, 9, 17, 33, 40}).Draw(t, "ntargets")
	targets := lifeTargets(sc.Targets)
	// what the life mostly consists of
	weights := rapid.SampledFrom([][]string{
		{"r", "r", "r", "r", "n", "n", "n", "l", "l", "p"},
		{"r", "r", "r", "r", "r", "r", "r", "r", "n", "l", "p"},
		{"n", "n", "n", "n", "n", "n", "n", "n", "r", "l", "p"},
	}).Draw(t, "profile")
	ts := int64(1_000_000)
	made := 0
	opGen := rapid.Custom(func(t *rapid.T) LifeOp {
		if made++; made > 400 {
			rapid.Bool().Draw(t, "beyond") // a generator has to draw
			return LifeOp{}                // beyond the cap: dropped below
		}
		// sizes: most steps are small, one in sixteen has one large dimension
		bigDims = nil
		if rapid.IntRange(0, 15).Draw(t, "bigstep") == 15 {
			bigDims = map[string]bool{rapid.SampledFrom([]string{dimKeys, dimElems, dimEntries, dimSubs, dimLeaflist, dimNest, dimStr}).Draw(t, "bigdim"): true}
		}
		op := LifeOp{Op: rapid.SampledFrom(weights).Draw(t, "op")}
		switch op.Op {
		case "n":
			var n *pb.Notification
			op.Target = rapid.IntRange(0, len(targets)-1).Draw(t, "ntarget")
			if rapid.IntRange(0, 2).Draw(t, "validn") == 0 {
				ts += 10
				n = genValidNotification(t, ts, targets[op.Target])
			} else {
				n = genNotification(t, targets)
				op.Stamp = rapid.IntRange(0, 3).Draw(t, "stamp") == 0
			}
			op.Msg, op.Text = wire(n), rtext(n)
		case "r":
			var texts []string
			for j := rapid.SampledFrom([]int{1, 1, 1, 2, 3, 0}).Draw(t, "nreq"); j > 0; j-- {
				var r *pb.SubscribeRequest
				if len(op.Reqs) == 0 && rapid.IntRange(0, 3).Draw(t, "validr") == 0 {
					r = genValidSubscribeRequest(t, targets)
				} else {
					r = genSubscribeRequest(t, len(op.Reqs) == 0, targets)
				}
				op.Reqs = append(op.Reqs, wire(r))
				texts = append(texts, rtext(r))
			}
			op.Text = fmt.Sprint(texts)
			op.Hold = rapid.SampledFrom([]int{0, 0, 0, 0, 1, 2, 5, 20, 100}).Draw(t, "hold")
			op.Cancel = rapid.Bool().Draw(t, "cancel")
			op.NoAuth = rapid.IntRange(0, 7).Draw(t, "noauth") == 0
			op.Peer = rapid.IntRange(0, 63).Draw(t, "peer")
		case "l":
			op.Call = rapid.SampledFrom([]string{"sync", "connect", "connecterr", "updmeta", "updsize", "stats", "reset", "remove", "add", "add"}).Draw(t, "call")
			op.Target = rapid.IntRange(0, len(targets)-1).Draw(t, "ltarget")
		case "p":
			op.Target = rapid.IntRange(0, len(targets)-1).Draw(t, "ptarget")
			op.Peer = rapid.IntRange(0, 63).Draw(t, "peer")
		}
		return op
	})
	// 1..400 steps, as nested slices (acts of scenes of steps): the length has a long tail
	// and the shrinker can drop whole acts, scenes and single steps
	for _, act := range rapid.SliceOfN(rapid.SliceOfN(rapid.SliceOfN(opGen, 1, 16), 1, 16), 1, 16).Draw(t, "ops") {
		for _, scene := range act {
			sc.Ops = append(sc.Ops, scene...)
		}
	}
	if len(sc.Ops) > 400 {
		sc.Ops = sc.Ops[:400]
	}
	bigDims = nil
	return sc
}

func runScenario(t *testing.T, sc *Scenario) (st *stats, err error) {
	if sc.Verbose > 0 {
		defer vstat.SetGlogV(sc.Verbose)()
	}
	switch sc.Kind {
	case "ingest":
		return runIngest(sc)
	case "subscribe":
		return runSubscribe(t, sc)
	case "client":
		return runClient(sc)
	case "life":
		return runLife(t, sc)
	}
	return &stats{}, fmt.Errorf("unknown scenario kind %q", sc.Kind)
}

func part(t *testing.T, name string, gen func(*rapid.T) *Scenario) {
	if !vstat.Enabled("C12") {
		t.Skip()
	}
	rec := vstat.New("C12", name)
	rec.RunRapid(t, func(rt *rapid.T) {
		sc := gen(rt)
		rec.Current(sc)
		st, err := runScenario(t, sc)
		rec.Case(sc, st.nontrivial(), st.list()...)
		if leakNote != "" {
			rec.NoteOnce("%s", leakNote)
			leakNote = "noted"
		}
		if err != nil {
			rt.Fatalf("%s", rec.Fail(sc, "crash-or-corruption", "%v", err))
		}
	})
}

func TestC12Ingest(t *testing.T)    { part(t, "ingest", genIngest) }
func TestC12Subscribe(t *testing.T) { part(t, "subscribe", genSubscribe) }
func TestC12Client(t *testing.T)    { part(t, "client", genClient) }
func TestC12Life(t *testing.T)      { part(t, "life", genLife) }

// TestReplay re-runs a saved scenario without the library.
func TestReplay(t *testing.T) {
	rf, ok, err := vstat.LoadReplay()
	if !ok {
		t.Skip()
	}
	if err != nil {
		t.Fatal(err)
	}
	rec := vstat.New(rf.Property, "replay")
	defer rec.Flush(true)
	var sc Scenario
	msg := ""
	if strings.HasPrefix(rf.Part, "storm") {
		msg = replayStorm(rf)
	} else if err := json.Unmarshal(rf.Scenario, &sc); err != nil {
		msg = "bad scenario: " + err.Error()
	} else if _, err := runScenario(t, &sc); err != nil {
		msg = err.Error()
	}
	if msg != "" {
		rec.AddViolation(json.RawMessage(rf.Scenario), rf.Kind, rf.Class, "%s", msg)
		fmt.Println("REPLAY-FAIL:", msg)
		t.Fail()
		return
	}
	rec.Case(json.RawMessage(rf.Scenario), false, "replayed")
	fmt.Println("REPLAY-OK")
}
