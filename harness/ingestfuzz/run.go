package ingestfuzz

import (
	"context"
	"errors"
	"fmt"
	"io"
	"net"
	"runtime/debug"
	"sort"
	"strings"
	"sync"
	"testing"
	"testing/synctest"
	"time"

	"github.com/openconfig/gnmi/cache"
	"github.com/openconfig/gnmi/cli"
	"github.com/openconfig/gnmi/client"
	gclient "github.com/openconfig/gnmi/client/gnmi"
	"github.com/openconfig/gnmi/ctree"
	pb "github.com/openconfig/gnmi/proto/gnmi"
	"github.com/openconfig/gnmi/subscribe"
	"google.golang.org/grpc/metadata"
	"google.golang.org/grpc/peer"
	"google.golang.org/protobuf/proto"
	"verif/harness/internal/gn"
	"verif/harness/internal/vstat"
)

type stats struct {
	labels map[string]bool
	// reached: the message passed the first validation of its entry point
	reached bool
	hostile bool
}

func (s *stats) label(l string) {
	if s.labels == nil {
		s.labels = map[string]bool{}
	}
	s.labels[l] = true
}

func (s *stats) list() []string {
	var out []string
	for l := range s.labels {
		out = append(out, l)
	}
	sort.Strings(out)
	return out
}

func (s *stats) nontrivial() bool { return s.reached && s.hostile }

func trimStack(b []byte) string {
	lines := strings.Split(string(b), "\n")
	var keep []string
	for i := 0; i+1 < len(lines); i++ {
		if strings.Contains(lines[i], "github.com/openconfig/gnmi/") {
			keep = append(keep, strings.TrimSpace(lines[i]), "  "+strings.TrimSpace(lines[i+1]))
		}
		if len(keep) >= 12 {
			break
		}
	}
	return strings.Join(keep, "\n")
}

// hostileFeatures labels what is unusual about a notification.
func hostileFeatures(n *pb.Notification, st *stats) {
	pfx := n.GetPrefix()
	if pfx == nil {
		st.label("nil-prefix")
		st.hostile = true
	}
	full := func(p *pb.Path) []string {
		return append(gn.RefIndex(&pb.Path{Origin: pfx.GetOrigin(), Elem: pfx.GetElem(), Element: pfx.GetElement()}, true), gn.RefIndex(p, false)...)
	}
	check := func(kind string, p *pb.Path) {
		f := full(p)
		switch {
		case len(f) == 0:
			st.label(kind + "-empty-path")
			st.hostile = true
		case f[0] == "meta" && len(f) == 1:
			st.label(kind + "-meta-alone")
			st.hostile = true
		case f[0] == "meta":
			st.label(kind + "-meta-path")
			st.hostile = true
		}
		if len(p.GetElement()) > 0 {
			st.label("element-encoding")
			st.hostile = true
		}
		for _, e := range f {
			if e == "*" {
				st.label(kind + "-glob")
				st.hostile = true
			}
		}
	}
	for _, u := range n.Update {
		check("update", u.Path)
		if u.Val == nil {
			st.label("missing-val")
			st.hostile = true
		} else if u.Val.Value == nil {
			st.label("unset-oneof")
			st.hostile = true
		}
		if u.Value != nil {
			st.label("deprecated-value")
			st.hostile = true
		}
	}
	for _, d := range n.Delete {
		check("delete", d)
	}
	if n.Atomic {
		st.label("atomic")
		if len(pfx.GetElem())+len(pfx.GetElement()) == 0 {
			st.label("atomic-without-prefix-elements")
			st.hostile = true
		}
		if len(n.Delete) > 0 {
			st.label("atomic-with-deletes")
			st.hostile = true
		}
	}
	if n.Timestamp <= 0 || n.Timestamp >= 1<<62 {
		st.label("extreme-timestamp")
		st.hostile = true
	}
	if len(n.Update)+len(n.Delete) == 0 {
		st.label("empty-notification")
	}
}

// dataSnapshot: every stored leaf of every target, deterministically marshalled.
func dataSnapshot(c *cache.Cache, targets []string) map[string]string {
	out := map[string]string{}
	for _, tg := range targets {
		if !c.HasTarget(tg) {
			continue
		}
		c.Query(tg, []string{"*"}, func(p []string, _ *ctree.Leaf, v interface{}) error {
			k := gn.Key(append([]string{tg}, p...))
			if n, ok := v.(*pb.Notification); ok {
				b, _ := proto.MarshalOptions{Deterministic: true, AllowPartial: true}.Marshal(n)
				out[k] = string(b)
			} else {
				out[k] = fmt.Sprintf("%T", v)
			}
			return nil
		})
	}
	return out
}

// addressed reports whether a stored leaf could be the subject of the notification.
func addressed(n *pb.Notification, target string, key []string) bool {
	if len(key) == 0 || key[0] != target {
		return false
	}
	leaf := key[1:]
	pfx := gn.RefIndex(&pb.Path{Origin: n.GetPrefix().GetOrigin(), Elem: n.GetPrefix().GetElem(), Element: n.GetPrefix().GetElement()}, true)
	related := func(p []string) bool {
		return gn.Key(p) == gn.Key(leaf) || gn.IsProperPrefix(p, leaf) || gn.IsProperPrefix(leaf, p)
	}
	if n.Atomic && related(pfx) {
		return true
	}
	for _, u := range n.Update {
		if related(append(append([]string{}, pfx...), gn.RefIndex(u.Path, false)...)) {
			return true
		}
	}
	for _, d := range n.Delete {
		pat := append(append([]string{}, pfx...), gn.RefIndex(d, false)...)
		if gn.Matches(pat, leaf) || gn.Compatible(pat, leaf) {
			return true
		}
	}
	return false
}

var allTargets = []string{"dev", "other"}

// collectorUpdate is the update closure of cmd/gnmi_collector, literally.
func collectorUpdate(c *cache.Cache, target string, v *pb.Notification) error {
	if prefix := v.GetPrefix(); prefix == nil {
		v.Prefix = &pb.Path{Origin: "openconfig", Target: target}
	} else {
		if prefix.Origin == "" {
			prefix.Origin = "openconfig"
		}
		prefix.Target = target
	}
	return c.GnmiUpdate(v)
}

// runIngest is target T1 (and feeds what the cache then holds through the
// response builder and the client receive path).
func runIngest(sc *Scenario) (st *stats, err error) {
	st = &stats{}
	where := "setup"
	defer func() {
		if r := recover(); r != nil {
			err = fmt.Errorf("panic during %s: %v\n%s", where, r, trimStack(debug.Stack()))
		}
	}()
	c := cache.New(allTargets)
	srv, _ := subscribe.NewServer(c)
	c.SetClient(srv.Update)
	for _, b := range sc.Pre {
		n := &pb.Notification{}
		if proto.Unmarshal(b, n) == nil {
			c.GnmiUpdate(n)
		}
	}
	for _, l := range sc.Lifecycle {
		switch l {
		case "sync":
			c.Sync("dev")
		case "connect":
			c.Connect("dev")
		case "connecterr":
			c.ConnectError("dev", errors.New("x"))
		case "updmeta":
			c.UpdateMetadata()
		case "updsize":
			c.UpdateSize()
		}
	}
	for i, b := range sc.Msgs {
		n := &pb.Notification{}
		if uerr := proto.Unmarshal(b, n); uerr != nil {
			st.label("undecodable")
			continue
		}
		hostileFeatures(n, st)
		before := dataSnapshot(c, allTargets)
		clone := proto.Clone(n).(*pb.Notification)
		where = fmt.Sprintf("GnmiUpdate of message %d (%v)", i, clone)
		var gerr error
		if sc.Stamp {
			gerr = collectorUpdate(c, "dev", n)
			clone.Prefix = proto.Clone(n.Prefix).(*pb.Path)
		} else {
			gerr = c.GnmiUpdate(n)
		}
		tgt := clone.GetPrefix().GetTarget()
		if clone.GetPrefix() != nil && c.HasTarget(tgt) && tgt != "*" {
			st.reached = true
		}
		if gerr != nil {
			st.label("rejected")
			after := dataSnapshot(c, allTargets)
			single := len(clone.Update)+len(clone.Delete) <= 1 || clone.Atomic
			for k, v := range before {
				if single || !addressed(clone, tgt, gn.Unkey(k)) {
					if a, ok := after[k]; !ok || a != v {
						return st, fmt.Errorf("message %d was rejected (%v) but stored leaf %q changed or vanished; message: %v", i, gerr, gn.Unkey(k), clone)
					}
				}
			}
			if single {
				for k := range after {
					if _, ok := before[k]; !ok {
						return st, fmt.Errorf("message %d was rejected (%v) but leaf %q appeared; message: %v", i, gerr, gn.Unkey(k), clone)
					}
				}
			}
		} else {
			st.label("accepted")
		}
		where = fmt.Sprintf("UpdateMetadata after message %d (%v)", i, clone)
		c.UpdateMetadata()
		where = fmt.Sprintf("UpdateSize after message %d (%v)", i, clone)
		c.UpdateSize()
	}
	// what the cache holds now goes out through the response builder and in through the client
	where = "walk / MakeSubscribeResponse / client receive of the resulting cache content"
	var resps []*pb.SubscribeResponse
	c.Query("*", []string{"*"}, func(_ []string, _ *ctree.Leaf, v interface{}) error {
		r, merr := srv.MakeSubscribeResponse(v, 1)
		if merr == nil {
			resps = append(resps, r)
		}
		return nil
	})
	cc := client.New()
	q := client.Query{Addrs: []string{"x"}, Target: "dev", Type: client.Stream, Queries: []client.Path{{"*"}}}
	h := cacheHandler(cc)
	q.NotificationHandler = h
	dec := gclient.VerifNewDecoder(q)
	for _, r := range resps {
		b := wire(r)
		rr := &pb.SubscribeResponse{}
		if proto.Unmarshal(b, rr) == nil {
			dec(rr)
		}
	}
	cc.Leaves()
	where = "Reset after the messages"
	c.Reset("dev")
	where = "UpdateMetadata after Reset"
	c.UpdateMetadata()
	where = "Remove"
	c.Remove("dev")
	return st, nil
}

// cacheHandler returns the CacheClient's own notification handler: the client
// hands it to the transport when Subscribe is called; a throw-away transport
// captures it.
func cacheHandler(cc *client.CacheClient) client.NotificationHandler {
	var h client.NotificationHandler
	captureMu.Lock()
	capture = func(q client.Query) { h = q.NotificationHandler }
	captureMsgs = nil
	captureMu.Unlock()
	cc.Subscribe(context.Background(), client.Query{Addrs: []string{"x"}, Target: "dev", Type: client.Once, Queries: []client.Path{{"*"}},
		NotificationHandler: func(client.Notification) error { return nil }}, implName)
	return h
}

// ---- scripted client.Impl -------------------------------------------------------------------

const implName = "c12-script"

var (
	captureMu   sync.Mutex
	capture     func(client.Query)
	captureMsgs []*pb.SubscribeResponse
)

type scriptImpl struct {
	msgs    []*pb.SubscribeResponse
	i       int
	dec     func(proto.Message) error
	pollEnd bool
}

func (s *scriptImpl) Subscribe(_ context.Context, q client.Query) error {
	captureMu.Lock()
	if capture != nil {
		capture(q)
	}
	s.msgs = captureMsgs
	captureMu.Unlock()
	if q.ProtoHandler != nil {
		s.dec = q.ProtoHandler
	} else {
		s.dec = gclient.VerifNewDecoder(q)
	}
	return nil
}

func (s *scriptImpl) Recv() error {
	if s.i >= len(s.msgs) {
		return io.EOF
	}
	m := s.msgs[s.i]
	s.i++
	return s.dec(m)
}

func (s *scriptImpl) Close() error { return nil }
func (s *scriptImpl) Poll() error  { return nil }
func (s *scriptImpl) Peer() string { return "peer" }

func registerImpl() {
	client.ResetRegisteredImpls()
	client.RegisterTest(implName, func(context.Context, client.Destination) (client.Impl, error) { return &scriptImpl{}, nil })
}

// runClient is targets T3 + T4: a response stream goes through the real
// receive path of the gNMI client into the CLI display of every type.
func runClient(sc *Scenario) (st *stats, err error) {
	st = &stats{}
	where := "setup"
	defer func() {
		if r := recover(); r != nil {
			err = fmt.Errorf("panic during %s: %v\n%s", where, r, trimStack(debug.Stack()))
		}
	}()
	var msgs []*pb.SubscribeResponse
	for _, b := range sc.Msgs {
		r := &pb.SubscribeResponse{}
		if proto.Unmarshal(b, r) != nil {
			st.label("undecodable")
			continue
		}
		msgs = append(msgs, r)
		if n := r.GetUpdate(); n != nil {
			hostileFeatures(n, st)
			st.reached = true
		} else {
			st.label(fmt.Sprintf("response-%T", r.Response))
		}
	}
	qt := map[string]client.Type{"once": client.Once, "poll": client.Poll, "stream": client.Stream}[sc.QueryType]
	if qt == client.Unknown {
		qt = client.Once
	}
	var out int
	cfg := &cli.Config{
		Delimiter: "/", Display: func(b []byte) { out += len(b) }, DisplayPrefix: "", DisplayIndent: "  ",
		DisplayType: sc.Display, Timestamp: sc.Timestamp, ClientTypes: []string{implName}, Count: 2,
		DisplaySize: true, DisplayPeer: true, Latency: sc.Timestamp == "raw", PollingInterval: time.Nanosecond,
	}
	q := client.Query{Addrs: []string{"x"}, Target: "dev", Type: qt, Queries: []client.Path{{"*"}}, Timeout: time.Second}
	captureMu.Lock()
	capture = nil
	captureMsgs = msgs
	captureMu.Unlock()
	where = fmt.Sprintf("cli.QueryDisplay(type=%s display=%s timestamp=%q) of %v", sc.QueryType, sc.Display, sc.Timestamp, msgs)
	derr := cli.QueryDisplay(context.Background(), q, cfg)
	if derr != nil {
		st.label("display-error")
	} else {
		st.label("display-ok")
	}
	st.label("display-" + sc.Display)
	return st, nil
}

// ---- T2: the Subscribe handler -----------------------------------------------------------------

type memAddr struct{}

func (memAddr) Network() string { return "mem" }
func (memAddr) String() string  { return "mem:1" }

var _ net.Addr = memAddr{}

type memStream struct {
	ctx    context.Context
	cancel context.CancelFunc
	recvC  chan *pb.SubscribeRequest
	mu     sync.Mutex
	sent   int
}

func (s *memStream) Context() context.Context     { return s.ctx }
func (s *memStream) SetHeader(metadata.MD) error  { return nil }
func (s *memStream) SendHeader(metadata.MD) error { return nil }
func (s *memStream) SetTrailer(metadata.MD)       {}
func (s *memStream) SendMsg(interface{}) error    { return nil }
func (s *memStream) RecvMsg(interface{}) error    { return io.EOF }
func (s *memStream) Send(r *pb.SubscribeResponse) error {
	if s.ctx.Err() != nil {
		return s.ctx.Err()
	}
	// a response must be marshallable to reach the wire
	if _, err := proto.Marshal(r); err != nil {
		return err
	}
	s.mu.Lock()
	s.sent++
	s.mu.Unlock()
	return nil
}
func (s *memStream) Recv() (*pb.SubscribeRequest, error) {
	select {
	case r, ok := <-s.recvC:
		if !ok {
			return nil, io.EOF
		}
		return r, nil
	case <-s.ctx.Done():
		return nil, s.ctx.Err()
	}
}

// leakNote keeps one example of the (unjudged) goroutine leak for the evidence.
var leakNote string

// runSubscribe is target T2, inside a synctest bubble so that every goroutine
// of the handler is known to have finished.
func runSubscribe(t *testing.T, sc *Scenario) (st *stats, err error) {
	st = &stats{}
	defer vstat.Watchdog(20*time.Second, 5*time.Second)()
	defer func() {
		// synctest panics here when goroutines of the handler are left blocked for ever
		// after the RPC ended. That is a leak, not a crash: C12 as stated does not
		// forbid it, so it is only recorded (label + note), never reported.
		if r := recover(); r != nil {
			if strings.Contains(fmt.Sprint(r), "blocked goroutines remain") {
				st.label("handler-goroutines-left-blocked-after-rpc(not-judged)")
				leakNote = fmt.Sprintf("observed, not judged: goroutines left blocked after the RPC ended, e.g. for requests %v", sc.Text)
				return
			}
			err = fmt.Errorf("panic around the Subscribe handler: %v; requests %v", r, sc.Text)
		}
	}()
	synctest.Test(t, func(t *testing.T) {
		where := "setup"
		var stream *memStream
		defer func() {
			if r := recover(); r != nil {
				err = fmt.Errorf("panic during %s: %v\n%s", where, r, trimStack(debug.Stack()))
			}
			if stream != nil {
				stream.cancel()
			}
			synctest.Wait()
		}()
		c := cache.New(allTargets)
		srv, _ := subscribe.NewServer(c, subscribe.WithStats())
		c.SetClient(srv.Update)
		half := len(sc.Pre) / 2
		for _, b := range sc.Pre[:half] {
			n := &pb.Notification{}
			if proto.Unmarshal(b, n) == nil {
				c.GnmiUpdate(n)
			}
		}
		ctx := peer.NewContext(context.Background(), &peer.Peer{Addr: memAddr{}})
		ctx, cancel := context.WithCancel(ctx)
		stream = &memStream{ctx: ctx, cancel: cancel, recvC: make(chan *pb.SubscribeRequest, len(sc.Msgs)+1)}
		for i, b := range sc.Msgs {
			r := &pb.SubscribeRequest{}
			if proto.Unmarshal(b, r) != nil {
				st.label("undecodable")
				continue
			}
			if i == 0 {
				if sl := r.GetSubscribe(); sl != nil && sl.GetPrefix().GetTarget() != "" {
					st.reached = true
					st.label("mode-" + sl.GetMode().String())
					for _, s := range sl.Subscription {
						if s.Path == nil {
							st.label("nil-subscription-path")
							st.hostile = true
						}
						for _, e := range gn.RefIndex(s.Path, false) {
							if e == "*" {
								st.label("glob-subscription")
								st.hostile = true
							}
							if e == "meta" {
								st.label("meta-subscription")
								st.hostile = true
							}
						}
						if len(gn.RefIndex(s.Path, false)) == 0 {
							st.label("root-subscription")
							st.hostile = true
						}
					}
					if len(sl.Subscription) == 0 {
						st.label("no-subscriptions")
						st.hostile = true
					}
				} else {
					st.label("first-request-invalid")
				}
			}
			stream.recvC <- r
		}
		done := false
		var herr error
		where = fmt.Sprintf("Subscribe with requests %v", sc.Text)
		go func() {
			defer func() {
				if r := recover(); r != nil {
					err = fmt.Errorf("panic in the Subscribe handler: %v\n%s", r, trimStack(debug.Stack()))
				}
				done = true
			}()
			herr = srv.Subscribe(stream)
		}()
		synctest.Wait()
		// streamed changes while the subscription is up
		for _, b := range sc.Pre[half:] {
			n := &pb.Notification{}
			if proto.Unmarshal(b, n) == nil {
				c.GnmiUpdate(n)
			}
		}
		c.Reset("dev")
		synctest.Wait()
		close(stream.recvC)
		synctest.Wait()
		c.Remove("dev")
		synctest.Wait()
		stream.cancel()
		synctest.Wait()
		if err == nil && !done {
			err = fmt.Errorf("the Subscribe handler did not return after its stream was cancelled (requests %v)", sc.Text)
		}
		if herr != nil {
			st.label("handler-returned-error")
		} else {
			st.label("handler-returned-nil")
		}
	})
	return st, err
}
