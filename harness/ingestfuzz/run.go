package ingestfuzz

import (
	"context"
	"errors"
	"fmt"
	"io"
	"net"
	"regexp"
	"runtime/debug"
	"sort"
	"strconv"
	"strings"
	"sync"
	"testing"
	"testing/synctest"
	"time"

	"github.com/openconfig/gnmi/cache"
	"github.com/openconfig/gnmi/cli"
	"github.com/openconfig/gnmi/client"
	gclient "github.com/openconfig/gnmi/client/gnmi"
	"github.com/openconfig/gnmi/ctree"
	pb "github.com/openconfig/gnmi/proto/gnmi"
	"github.com/openconfig/gnmi/subscribe"
	"google.golang.org/grpc/metadata"
	"google.golang.org/grpc/peer"
	"google.golang.org/protobuf/proto"
	"verif/harness/internal/gn"
	"verif/harness/internal/vstat"
)

type stats struct {
	labels map[string]bool
	// reached: the message passed the first validation of its entry point
	reached bool
	hostile bool
}

func (s *stats) label(l string) {
	if s.labels == nil {
		s.labels = map[string]bool{}
	}
	s.labels[l] = true
}

func (s *stats) list() []string {
	var out []string
	for l := range s.labels {
		out = append(out, l)
	}
	sort.Strings(out)
	return out
}

func (s *stats) nontrivial() bool { return s.reached && s.hostile }

// size labels the highest of the thresholds that n reaches (none: no label), so
// that the label distribution shows how often a size class is generated.
func (s *stats) size(dim string, n int, thresholds ...int) {
	best := -1
	for _, th := range thresholds {
		if n >= th && th > best {
			best = th
		}
	}
	if best >= 0 {
		s.label(fmt.Sprintf("size:%s>=%d", dim, best))
	}
}

func (s *stats) strSize(str string) { s.size(dimStr, len(str), 256, 4096) }

// pathSizes labels the size classes of one path.
func pathSizes(p *pb.Path, st *stats) {
	if p == nil {
		return
	}
	st.size(dimElems, len(p.Elem)+len(p.Element), 5, 17, 33)
	st.strSize(p.Origin)
	st.strSize(p.Target)
	for _, e := range p.Element {
		st.strSize(e)
	}
	for _, e := range p.Elem {
		st.strSize(e.Name)
		st.size(dimKeys, len(e.Key), 5, 9)
		for k, v := range e.Key {
			st.strSize(k)
			st.strSize(v)
		}
	}
}

// valueSizes labels the size classes of one value.
func valueSizes(v *pb.TypedValue, st *stats) {
	depth := 0
	for ll := v.GetLeaflistVal(); ll != nil; depth++ {
		st.size(dimLeaflist, len(ll.Element), 5, 17, 257)
		var next *pb.ScalarArray
		for _, e := range ll.Element {
			if n := e.GetLeaflistVal(); n != nil {
				next = n
			}
		}
		ll = next
	}
	st.size(dimNest, depth-1, 1, 3, 17)
	st.strSize(v.GetStringVal())
	st.size(dimStr, len(v.GetBytesVal())+len(v.GetJsonVal())+len(v.GetJsonIetfVal())+len(v.GetAsciiVal()), 256, 4096)
}

// stackArgs / stackOff: the parts of a stack trace that differ from run to run
// (argument words, pc offsets, goroutine numbers). They are removed so that the
// same failure has the same message every time (the shrinker relies on that).
var (
	stackArgs = regexp.MustCompile(`\((0x[0-9a-f]+\??|\{|\.\.\.)[^()]*\)$`)
	stackOff  = regexp.MustCompile(` \+0x[0-9a-f]+$`)
	stackGo   = regexp.MustCompile(` in goroutine [0-9]+$`)
)

func trimStack(b []byte) string {
	lines := strings.Split(string(b), "\n")
	var keep []string
	for i := 0; i+1 < len(lines); i++ {
		if strings.Contains(lines[i], "github.com/openconfig/gnmi/") {
			fn := stackGo.ReplaceAllString(strings.TrimSpace(lines[i]), "")
			for stackArgs.MatchString(fn) {
				fn = stackArgs.ReplaceAllString(fn, "")
			}
			keep = append(keep, fn, "  "+stackOff.ReplaceAllString(strings.TrimSpace(lines[i+1]), ""))
		}
		if len(keep) >= 12 {
			break
		}
	}
	return strings.Join(keep, "\n")
}

// hostileFeatures labels what is unusual about a notification.
func hostileFeatures(n *pb.Notification, st *stats) {
	pfx := n.GetPrefix()
	if pfx == nil {
		st.label("nil-prefix")
		st.hostile = true
	}
	full := func(p *pb.Path) []string {
		return append(gn.RefIndex(&pb.Path{Origin: pfx.GetOrigin(), Elem: pfx.GetElem(), Element: pfx.GetElement()}, true), gn.RefIndex(p, false)...)
	}
	check := func(kind string, p *pb.Path) {
		f := full(p)
		switch {
		case len(f) == 0:
			st.label(kind + "-empty-path")
			st.hostile = true
		case f[0] == "meta" && len(f) == 1:
			st.label(kind + "-meta-alone")
			st.hostile = true
		case f[0] == "meta":
			st.label(kind + "-meta-path")
			st.hostile = true
		}
		if len(p.GetElement()) > 0 {
			st.label("element-encoding")
			st.hostile = true
		}
		for _, e := range f {
			if e == "*" {
				st.label(kind + "-glob")
				st.hostile = true
			}
		}
	}
	pathSizes(pfx, st)
	st.size(dimEntries, len(n.Update)+len(n.Delete), 5, 17, 65, 257)
	for _, u := range n.Update {
		check("update", u.Path)
		pathSizes(u.Path, st)
		valueSizes(u.Val, st)
		if u.Val == nil {
			st.label("missing-val")
			st.hostile = true
		} else if u.Val.Value == nil {
			st.label("unset-oneof")
			st.hostile = true
		}
		if u.Value != nil {
			st.label("deprecated-value")
			st.hostile = true
		}
	}
	for _, d := range n.Delete {
		check("delete", d)
		pathSizes(d, st)
	}
	if n.Atomic {
		st.label("atomic")
		if len(pfx.GetElem())+len(pfx.GetElement()) == 0 {
			st.label("atomic-without-prefix-elements")
			st.hostile = true
		}
		if len(n.Delete) > 0 {
			st.label("atomic-with-deletes")
			st.hostile = true
		}
	}
	if n.Timestamp <= 0 || n.Timestamp >= 1<<62 {
		st.label("extreme-timestamp")
		st.hostile = true
	}
	if len(n.Update)+len(n.Delete) == 0 {
		st.label("empty-notification")
	}
}

// leafSnap is one stored leaf: its index path (target first) and its content.
type leafSnap struct {
	path []string
	data string
}

// pathKey is an injective map key of an index path (element strings may contain any byte).
func pathKey(p []string) string {
	var b strings.Builder
	for _, e := range p {
		b.WriteString(strconv.Itoa(len(e)))
		b.WriteByte(':')
		b.WriteString(e)
	}
	return b.String()
}

// dataSnapshot: every stored leaf of every target, deterministically marshalled.
func dataSnapshot(c *cache.Cache, targets []string) map[string]leafSnap {
	out := map[string]leafSnap{}
	for _, tg := range targets {
		if !c.HasTarget(tg) {
			continue
		}
		c.Query(tg, []string{"*"}, func(p []string, _ *ctree.Leaf, v interface{}) error {
			full := append([]string{tg}, p...)
			ls := leafSnap{path: full}
			if n, ok := v.(*pb.Notification); ok {
				b, _ := proto.MarshalOptions{Deterministic: true, AllowPartial: true}.Marshal(n)
				ls.data = string(b)
			} else {
				ls.data = fmt.Sprintf("%T", v)
			}
			out[pathKey(full)] = ls
			return nil
		})
	}
	return out
}

// short truncates a rendering for messages and replay texts.
func short(s string, max int) string {
	if len(s) <= max {
		return s
	}
	return fmt.Sprintf("%s ...[%d bytes in all]", s[:max], len(s))
}

// checkRejected is the oracle for a notification the cache returned an error
// for: every leaf the message does not address is byte-identical afterwards
// (the whole content for single-entry and atomic messages).
func checkRejected(before, after map[string]leafSnap, clone *pb.Notification, tgt string, gerr error, what string) error {
	single := len(clone.Update)+len(clone.Delete) <= 1 || clone.Atomic
	ad := newAddresser(clone, tgt)
	for k, v := range before {
		if single || !ad.addressed(v.path) {
			if a, ok := after[k]; !ok || a.data != v.data {
				return fmt.Errorf("%s was rejected (%v) but stored leaf %q changed or vanished; message: %s", what, gerr, v.path, short(fmt.Sprint(clone), 3000))
			}
		}
	}
	if single {
		for k, a := range after {
			if _, ok := before[k]; !ok {
				return fmt.Errorf("%s was rejected (%v) but leaf %q appeared; message: %s", what, gerr, a.path, short(fmt.Sprint(clone), 3000))
			}
		}
	}
	return nil
}

// addresser decides whether a stored leaf could be the subject of a notification
// (the index paths of the notification are computed once).
type addresser struct {
	target  string
	atomic  bool
	pfx     []string
	updates [][]string
	deletes [][]string
}

func newAddresser(n *pb.Notification, target string) *addresser {
	a := &addresser{target: target, atomic: n.Atomic}
	a.pfx = gn.RefIndex(&pb.Path{Origin: n.GetPrefix().GetOrigin(), Elem: n.GetPrefix().GetElem(), Element: n.GetPrefix().GetElement()}, true)
	for _, u := range n.Update {
		a.updates = append(a.updates, append(append([]string{}, a.pfx...), gn.RefIndex(u.Path, false)...))
	}
	for _, d := range n.Delete {
		a.deletes = append(a.deletes, append(append([]string{}, a.pfx...), gn.RefIndex(d, false)...))
	}
	return a
}

func samePath(a, b []string) bool {
	if len(a) != len(b) {
		return false
	}
	for i := range a {
		if a[i] != b[i] {
			return false
		}
	}
	return true
}

// addressed: key is the index path of a stored leaf, target first.
func (a *addresser) addressed(key []string) bool {
	if len(key) == 0 || key[0] != a.target {
		return false
	}
	leaf := key[1:]
	related := func(p []string) bool {
		return samePath(p, leaf) || gn.IsProperPrefix(p, leaf) || gn.IsProperPrefix(leaf, p)
	}
	if a.atomic && related(a.pfx) {
		return true
	}
	for _, u := range a.updates {
		if related(u) {
			return true
		}
	}
	for _, pat := range a.deletes {
		if gn.Matches(pat, leaf) || gn.Compatible(pat, leaf) {
			return true
		}
	}
	return false
}

var allTargets = []string{"dev", "other"}

// collectorUpdate is the update closure of cmd/gnmi_collector, literally.
func collectorUpdate(c *cache.Cache, target string, v *pb.Notification) error {
	if prefix := v.GetPrefix(); prefix == nil {
		v.Prefix = &pb.Path{Origin: "openconfig", Target: target}
	} else {
		if prefix.Origin == "" {
			prefix.Origin = "openconfig"
		}
		prefix.Target = target
	}
	return c.GnmiUpdate(v)
}

// runIngest is target T1 (and feeds what the cache then holds through the
// response builder and the client receive path).
func runIngest(sc *Scenario) (st *stats, err error) {
	st = &stats{}
	where := func() string { return "setup" }
	defer func() {
		if r := recover(); r != nil {
			err = fmt.Errorf("panic during %s: %v\n%s", where(), r, trimStack(debug.Stack()))
		}
	}()
	c := cache.New(allTargets)
	srv, _ := subscribe.NewServer(c)
	c.SetClient(srv.Update)
	for _, b := range sc.Pre {
		n := &pb.Notification{}
		if proto.Unmarshal(b, n) == nil {
			where = func() string {
				return fmt.Sprintf("GnmiUpdate of the valid notification %s (the state before the hostile messages)", short(fmt.Sprint(n), 2000))
			}
			c.GnmiUpdate(n)
		}
	}
	where = func() string { return "the lifecycle calls" }
	st.size(dimPre, len(sc.Pre), 17, 129)
	st.size(dimMsgs, len(sc.Msgs), 17, 129)
	for _, l := range sc.Lifecycle {
		switch l {
		case "sync":
			c.Sync("dev")
		case "connect":
			c.Connect("dev")
		case "connecterr":
			c.ConnectError("dev", errors.New("x"))
		case "updmeta":
			c.UpdateMetadata()
		case "updsize":
			c.UpdateSize()
		}
	}
	for i, b := range sc.Msgs {
		n := &pb.Notification{}
		if uerr := proto.Unmarshal(b, n); uerr != nil {
			st.label("undecodable")
			continue
		}
		hostileFeatures(n, st)
		before := dataSnapshot(c, allTargets)
		clone := proto.Clone(n).(*pb.Notification)
		phase := "GnmiUpdate of"
		where = func() string { return fmt.Sprintf("%s message %d (%s)", phase, i, short(fmt.Sprint(clone), 3000)) }
		var gerr error
		if sc.Stamp {
			gerr = collectorUpdate(c, "dev", n)
			clone.Prefix = proto.Clone(n.Prefix).(*pb.Path)
		} else {
			gerr = c.GnmiUpdate(n)
		}
		tgt := clone.GetPrefix().GetTarget()
		if clone.GetPrefix() != nil && c.HasTarget(tgt) && tgt != "*" {
			st.reached = true
		}
		if gerr != nil {
			st.label("rejected")
			if cerr := checkRejected(before, dataSnapshot(c, allTargets), clone, tgt, gerr, fmt.Sprintf("message %d", i)); cerr != nil {
				return st, cerr
			}
		} else {
			st.label("accepted")
		}
		phase = "UpdateMetadata after"
		c.UpdateMetadata()
		phase = "UpdateSize after"
		c.UpdateSize()
	}
	// what the cache holds now goes out through the response builder and in through the client
	where = func() string {
		return "walk / MakeSubscribeResponse / client receive of the resulting cache content"
	}
	walkAndDecode(c, srv)
	where = func() string { return "Reset after the messages" }
	c.Reset("dev")
	where = func() string { return "UpdateMetadata after Reset" }
	c.UpdateMetadata()
	where = func() string { return "Remove" }
	c.Remove("dev")
	return st, nil
}

// walkAndDecode sends everything the cache holds through the response builder,
// the wire format and the gNMI client's receive function into a CacheClient.
func walkAndDecode(c *cache.Cache, srv *subscribe.Server) {
	var resps []*pb.SubscribeResponse
	c.Query("*", []string{"*"}, func(_ []string, _ *ctree.Leaf, v interface{}) error {
		r, merr := srv.MakeSubscribeResponse(v, 1)
		if merr == nil {
			resps = append(resps, r)
		}
		return nil
	})
	cc := client.New()
	q := client.Query{Addrs: []string{"x"}, Target: "dev", Type: client.Stream, Queries: []client.Path{{"*"}}}
	h := cacheHandler(cc)
	q.NotificationHandler = h
	dec := gclient.VerifNewDecoder(q)
	for _, r := range resps {
		b := wire(r)
		rr := &pb.SubscribeResponse{}
		if proto.Unmarshal(b, rr) == nil {
			dec(rr)
		}
	}
	cc.Leaves()
}

// cacheHandler returns the CacheClient's own notification handler: the client
// hands it to the transport when Subscribe is called; a throw-away transport
// captures it.
func cacheHandler(cc *client.CacheClient) client.NotificationHandler {
	var h client.NotificationHandler
	captureMu.Lock()
	capture = func(q client.Query) { h = q.NotificationHandler }
	captureMsgs = nil
	captureMu.Unlock()
	cc.Subscribe(context.Background(), client.Query{Addrs: []string{"x"}, Target: "dev", Type: client.Once, Queries: []client.Path{{"*"}},
		NotificationHandler: func(client.Notification) error { return nil }}, implName)
	return h
}

// ---- scripted client.Impl -------------------------------------------------------------------

const implName = "c12-script"

var (
	captureMu   sync.Mutex
	capture     func(client.Query)
	captureMsgs []*pb.SubscribeResponse
)

type scriptImpl struct {
	msgs    []*pb.SubscribeResponse
	i       int
	dec     func(proto.Message) error
	pollEnd bool
}

func (s *scriptImpl) Subscribe(_ context.Context, q client.Query) error {
	captureMu.Lock()
	if capture != nil {
		capture(q)
	}
	s.msgs = captureMsgs
	captureMu.Unlock()
	if q.ProtoHandler != nil {
		s.dec = q.ProtoHandler
	} else {
		s.dec = gclient.VerifNewDecoder(q)
	}
	return nil
}

func (s *scriptImpl) Recv() error {
	if s.i >= len(s.msgs) {
		return io.EOF
	}
	m := s.msgs[s.i]
	s.i++
	return s.dec(m)
}

func (s *scriptImpl) Close() error { return nil }
func (s *scriptImpl) Poll() error  { return nil }
func (s *scriptImpl) Peer() string { return "peer" }

func registerImpl() {
	client.ResetRegisteredImpls()
	client.RegisterTest(implName, func(context.Context, client.Destination) (client.Impl, error) { return &scriptImpl{}, nil })
}

// runClient is targets T3 + T4: a response stream goes through the real
// receive path of the gNMI client into the CLI display of every type.
func runClient(sc *Scenario) (st *stats, err error) {
	st = &stats{}
	where := func() string { return "setup" }
	defer func() {
		if r := recover(); r != nil {
			err = fmt.Errorf("panic during %s: %v\n%s", where(), r, trimStack(debug.Stack()))
		}
	}()
	st.size(dimMsgs, len(sc.Msgs), 17, 129)
	var msgs []*pb.SubscribeResponse
	for _, b := range sc.Msgs {
		r := &pb.SubscribeResponse{}
		if proto.Unmarshal(b, r) != nil {
			st.label("undecodable")
			continue
		}
		msgs = append(msgs, r)
		if n := r.GetUpdate(); n != nil {
			hostileFeatures(n, st)
			st.reached = true
		} else {
			st.label(fmt.Sprintf("response-%T", r.Response))
		}
	}
	qt := map[string]client.Type{"once": client.Once, "poll": client.Poll, "stream": client.Stream}[sc.QueryType]
	if qt == client.Unknown {
		qt = client.Once
	}
	var out int
	cfg := &cli.Config{
		Delimiter: "/", Display: func(b []byte) { out += len(b) }, DisplayPrefix: "", DisplayIndent: "  ",
		DisplayType: sc.Display, Timestamp: sc.Timestamp, ClientTypes: []string{implName}, Count: 2,
		DisplaySize: true, DisplayPeer: true, Latency: sc.Timestamp == "raw", PollingInterval: time.Nanosecond,
	}
	q := client.Query{Addrs: []string{"x"}, Target: "dev", Type: qt, Queries: []client.Path{{"*"}}, Timeout: time.Second}
	captureMu.Lock()
	capture = nil
	captureMsgs = msgs
	captureMu.Unlock()
	where = func() string {
		return fmt.Sprintf("cli.QueryDisplay(type=%s display=%s timestamp=%q) of %s", sc.QueryType, sc.Display, sc.Timestamp, short(fmt.Sprint(msgs), 6000))
	}
	derr := cli.QueryDisplay(context.Background(), q, cfg)
	if derr != nil {
		st.label("display-error")
	} else {
		st.label("display-ok")
	}
	st.label("display-" + sc.Display)
	return st, nil
}

// ---- T2: the Subscribe handler -----------------------------------------------------------------

type memAddr struct{}

func (memAddr) Network() string { return "mem" }
func (memAddr) String() string  { return "mem:1" }

var _ net.Addr = memAddr{}

type memStream struct {
	ctx    context.Context
	cancel context.CancelFunc
	recvC  chan *pb.SubscribeRequest
	mu     sync.Mutex
	sent   int
	// shape of what was sent: updates, sync responses, whether the last one was a sync response
	updates  int
	syncs    int
	lastSync bool
}

func (s *memStream) Context() context.Context     { return s.ctx }
func (s *memStream) SetHeader(metadata.MD) error  { return nil }
func (s *memStream) SendHeader(metadata.MD) error { return nil }
func (s *memStream) SetTrailer(metadata.MD)       {}
func (s *memStream) SendMsg(interface{}) error    { return nil }
func (s *memStream) RecvMsg(interface{}) error    { return io.EOF }
func (s *memStream) Send(r *pb.SubscribeResponse) error {
	if s.ctx.Err() != nil {
		return s.ctx.Err()
	}
	// a response must be marshallable to reach the wire
	if _, err := proto.Marshal(r); err != nil {
		return err
	}
	s.mu.Lock()
	s.sent++
	if _, ok := r.Response.(*pb.SubscribeResponse_SyncResponse); ok {
		s.syncs++
		s.lastSync = true
	} else {
		s.lastSync = false
		if r.GetUpdate() != nil {
			s.updates++
		}
	}
	s.mu.Unlock()
	return nil
}
func (s *memStream) Recv() (*pb.SubscribeRequest, error) {
	select {
	case r, ok := <-s.recvC:
		if !ok {
			return nil, io.EOF
		}
		return r, nil
	case <-s.ctx.Done():
		return nil, s.ctx.Err()
	}
}

func modeLabel(m pb.SubscriptionList_Mode) string {
	if _, ok := pb.SubscriptionList_Mode_name[int32(m)]; ok {
		return "mode-" + m.String()
	}
	return "mode-undeclared"
}

// firstRequestFeatures labels the first request of an RPC.
func firstRequestFeatures(r *pb.SubscribeRequest, st *stats) {
	sl := r.GetSubscribe()
	if sl == nil || sl.GetPrefix().GetTarget() == "" {
		st.label("first-request-invalid")
		return
	}
	st.reached = true
	st.label(modeLabel(sl.GetMode()))
	pathSizes(sl.Prefix, st)
	st.size(dimSubs, len(sl.Subscription), 5, 17, 65)
	for _, s := range sl.Subscription {
		pathSizes(s.Path, st)
		if s.Path == nil {
			st.label("nil-subscription-path")
			st.hostile = true
		}
		idx := gn.RefIndex(s.Path, false)
		for _, e := range idx {
			if e == "*" {
				st.label("glob-subscription")
				st.hostile = true
			}
			if e == "meta" {
				st.label("meta-subscription")
				st.hostile = true
			}
		}
		if len(idx) == 0 {
			st.label("root-subscription")
			st.hostile = true
		}
	}
	if len(sl.Subscription) == 0 {
		st.label("no-subscriptions")
		st.hostile = true
	}
}

// leakNote keeps one example of the (unjudged) goroutine leak for the evidence.
var leakNote string

// runSubscribe is target T2, inside a synctest bubble so that every goroutine
// of the handler is known to have finished.
func runSubscribe(t *testing.T, sc *Scenario) (st *stats, err error) {
	st = &stats{}
	defer vstat.Watchdog(20*time.Second, 5*time.Second)()
	defer func() {
		// synctest panics here when goroutines of the handler are left blocked for ever
		// after the RPC ended. That is a leak, not a crash: C12 as stated does not
		// forbid it, so it is only recorded (label + note), never reported.
		if r := recover(); r != nil {
			if strings.Contains(fmt.Sprint(r), "blocked goroutines remain") {
				st.label("handler-goroutines-left-blocked-after-rpc(not-judged)")
				leakNote = fmt.Sprintf("observed, not judged: goroutines left blocked after the RPC ended, e.g. for requests %v", sc.Text)
				return
			}
			err = fmt.Errorf("panic around the Subscribe handler: %v; requests %v", r, sc.Text)
		}
	}()
	synctest.Test(t, func(t *testing.T) {
		where := "setup"
		var stream *memStream
		defer func() {
			if r := recover(); r != nil {
				err = fmt.Errorf("panic during %s: %v\n%s", where, r, trimStack(debug.Stack()))
			}
			if stream != nil {
				stream.cancel()
			}
			synctest.Wait()
		}()
		c := cache.New(allTargets)
		srv, _ := subscribe.NewServer(c, subscribe.WithStats())
		c.SetClient(srv.Update)
		half := len(sc.Pre) / 2
		st.size(dimPre, len(sc.Pre), 17, 129)
		for _, b := range sc.Pre[:half] {
			n := &pb.Notification{}
			if proto.Unmarshal(b, n) == nil {
				where = fmt.Sprintf("GnmiUpdate of the valid notification %s (the state before the Subscribe RPC)", short(fmt.Sprint(n), 2000))
				c.GnmiUpdate(n)
			}
		}
		where = "setup"
		ctx := peer.NewContext(context.Background(), &peer.Peer{Addr: memAddr{}})
		ctx, cancel := context.WithCancel(ctx)
		stream = &memStream{ctx: ctx, cancel: cancel, recvC: make(chan *pb.SubscribeRequest, len(sc.Msgs)+1)}
		for i, b := range sc.Msgs {
			r := &pb.SubscribeRequest{}
			if proto.Unmarshal(b, r) != nil {
				st.label("undecodable")
				continue
			}
			if i == 0 {
				firstRequestFeatures(r, st)
			}
			stream.recvC <- r
		}
		done := false
		var herr error
		st.size(dimMsgs, len(sc.Msgs), 17, 129)
		where = fmt.Sprintf("Subscribe with requests %v", sc.Text)
		go func() {
			defer func() {
				if r := recover(); r != nil {
					err = fmt.Errorf("panic in the Subscribe handler: %v\n%s", r, trimStack(debug.Stack()))
				}
				done = true
			}()
			herr = srv.Subscribe(stream)
		}()
		synctest.Wait()
		// streamed changes while the subscription is up
		for _, b := range sc.Pre[half:] {
			n := &pb.Notification{}
			if proto.Unmarshal(b, n) == nil {
				where = fmt.Sprintf("GnmiUpdate of the valid notification %s while the subscription is up (requests %v)", short(fmt.Sprint(n), 2000), sc.Text)
				c.GnmiUpdate(n)
			}
		}
		where = fmt.Sprintf("Reset / end of stream / Remove / cancellation after the Subscribe RPC with requests %v", sc.Text)
		c.Reset("dev")
		synctest.Wait()
		close(stream.recvC)
		synctest.Wait()
		c.Remove("dev")
		synctest.Wait()
		stream.cancel()
		synctest.Wait()
		if err == nil && !done {
			err = fmt.Errorf("the Subscribe handler did not return after its stream was cancelled (requests %v)", sc.Text)
		}
		if herr != nil {
			st.label("handler-returned-error")
		} else {
			st.label("handler-returned-nil")
		}
	})
	return st, err
}
