// Package ingestfuzz decides C12: no protobuf-valid message from a remote peer
// makes the cache ingest path, the Subscribe handler, the client receive path
// or the CLI display panic; a rejected notification leaves stored data intact.
// Structured rapid generators biased to hostile shapes are the primary search;
// native coverage-guided fuzz targets on the wire bytes run in the thorough tier.
package ingestfuzz

import (
	"math"

	"github.com/openconfig/gnmi/metadata"
	pb "github.com/openconfig/gnmi/proto/gnmi"
	"google.golang.org/protobuf/proto"
	"pgregory.net/rapid"
)

// Scenario is a case of any of the four targets; messages are kept as wire
// bytes (base64 in JSON) so that exactly what was fed can be replayed.
type Scenario struct {
	// Kind: ingest | subscribe | client
	Kind string `json:"kind"`
	// Pre: valid history applied first (Notification wire bytes, target "dev").
	Pre [][]byte `json:"pre,omitempty"`
	// Msgs: the hostile messages (Notification / SubscribeRequest / SubscribeResponse wire bytes).
	Msgs [][]byte `json:"msgs"`
	// Stamp: apply the collector's update closure (force target, default origin) instead of the raw cache call.
	Stamp bool `json:"stamp,omitempty"`
	// Lifecycle: calls made on the target before the hostile messages (sync connect connecterr updmeta).
	Lifecycle []string `json:"lifecycle,omitempty"`
	// QueryType / Display for the client target.
	QueryType string `json:"query_type,omitempty"`
	Display   string `json:"display,omitempty"`
	Timestamp string `json:"timestamp,omitempty"`
	// Text is a human-readable rendering of Msgs (not used by replay).
	Text []string `json:"text,omitempty"`
}

var metaNames = []string{
	metadata.Sync, metadata.Connected, metadata.ConnectedAddr, metadata.AddCount, metadata.DelCount, metadata.EmptyCount,
	metadata.LeafCount, metadata.UpdateCount, metadata.StaleCount, metadata.FutureCount, metadata.SuppressedCount,
	metadata.Size, metadata.LatestTimestamp, metadata.ConnectError, metadata.ServerName, "latency", "unknownName", "*",
}

func genName(t *rapid.T) string {
	return rapid.SampledFrom([]string{"a", "a", "b", "b", "c", "", "*", "meta", "/", "a/b", "é", "..."}).Draw(t, "name")
}

func genElems(t *rapid.T, max int) []*pb.PathElem {
	n := rapid.IntRange(0, max).Draw(t, "nelem")
	var out []*pb.PathElem
	for i := 0; i < n; i++ {
		e := &pb.PathElem{Name: genName(t)}
		if rapid.IntRange(0, 5).Draw(t, "keyed") == 0 {
			e.Key = map[string]string{}
			for j := rapid.IntRange(1, 2).Draw(t, "nk"); j > 0; j-- {
				e.Key[rapid.SampledFrom([]string{"k", "j", ""}).Draw(t, "key")] = rapid.SampledFrom([]string{"1", "", "*", "meta"}).Draw(t, "kv")
			}
		}
		out = append(out, e)
	}
	return out
}

// genPath draws a path of a hostile shape.
func genPath(t *rapid.T, allowNil bool) *pb.Path {
	switch shape := rapid.IntRange(0, 11).Draw(t, "pathshape"); {
	case shape == 0 && allowNil:
		return nil
	case shape <= 1:
		return &pb.Path{} // root / empty
	case shape == 2:
		return &pb.Path{Elem: []*pb.PathElem{{Name: metadata.Root}}}
	case shape <= 4:
		p := &pb.Path{Elem: []*pb.PathElem{{Name: metadata.Root}, {Name: rapid.SampledFrom(metaNames).Draw(t, "meta")}}}
		if rapid.IntRange(0, 3).Draw(t, "deeper") == 0 {
			p.Elem = append(p.Elem, &pb.PathElem{Name: rapid.SampledFrom([]string{"window", "2s", "avg", "x"}).Draw(t, "m3")})
		}
		return p
	case shape == 5:
		// deprecated element encoding
		n := rapid.IntRange(0, 3).Draw(t, "nelement")
		p := &pb.Path{}
		for i := 0; i < n; i++ {
			p.Element = append(p.Element, rapid.SampledFrom([]string{"a", "b", "meta", "sync", "*", ""}).Draw(t, "element"))
		}
		return p
	case shape == 6:
		// both encodings at once
		return &pb.Path{Elem: genElems(t, 2), Element: []string{"a", "b"}}
	default:
		p := &pb.Path{Elem: genElems(t, 3)}
		if rapid.IntRange(0, 5).Draw(t, "porigin") == 0 {
			p.Origin = rapid.SampledFrom([]string{"o", "meta", "openconfig"}).Draw(t, "pathorigin")
		}
		if rapid.IntRange(0, 9).Draw(t, "ptarget") == 0 {
			p.Target = rapid.SampledFrom([]string{"dev", "other", "*"}).Draw(t, "pathtarget")
		}
		return p
	}
}

// genValue draws a TypedValue over every oneof arm, unset and nil.
func genValue(t *rapid.T) *pb.TypedValue {
	switch rapid.IntRange(0, 16).Draw(t, "arm") {
	case 0:
		return nil
	case 1:
		return &pb.TypedValue{}
	case 2:
		return &pb.TypedValue{Value: &pb.TypedValue_StringVal{StringVal: rapid.SampledFrom([]string{"", "x", "true", "1"}).Draw(t, "s")}}
	case 3:
		return &pb.TypedValue{Value: &pb.TypedValue_IntVal{IntVal: rapid.SampledFrom([]int64{0, 1, -1, math.MaxInt64, math.MinInt64}).Draw(t, "i")}}
	case 4:
		return &pb.TypedValue{Value: &pb.TypedValue_UintVal{UintVal: rapid.SampledFrom([]uint64{0, 1, math.MaxUint64}).Draw(t, "u")}}
	case 5:
		return &pb.TypedValue{Value: &pb.TypedValue_BoolVal{BoolVal: rapid.Bool().Draw(t, "b")}}
	case 6:
		return &pb.TypedValue{Value: &pb.TypedValue_BytesVal{BytesVal: []byte(rapid.SampledFrom([]string{"", "\x00\xff"}).Draw(t, "by"))}}
	case 7:
		return &pb.TypedValue{Value: &pb.TypedValue_FloatVal{FloatVal: rapid.SampledFrom([]float32{0, 1.5, float32(math.NaN())}).Draw(t, "f")}}
	case 8:
		return &pb.TypedValue{Value: &pb.TypedValue_DoubleVal{DoubleVal: rapid.SampledFrom([]float64{0, -0.0, 1.5, math.NaN(), math.Inf(1)}).Draw(t, "d")}}
	case 9:
		if rapid.Bool().Draw(t, "nildec") {
			return &pb.TypedValue{Value: &pb.TypedValue_DecimalVal{DecimalVal: &pb.Decimal64{}}}
		}
		return &pb.TypedValue{Value: &pb.TypedValue_DecimalVal{DecimalVal: &pb.Decimal64{Digits: 12345, Precision: rapid.SampledFrom([]uint32{0, 2, 400}).Draw(t, "prec")}}}
	case 10:
		sa := &pb.ScalarArray{}
		for i := rapid.IntRange(0, 3).Draw(t, "nll"); i > 0; i-- {
			sa.Element = append(sa.Element, &pb.TypedValue{Value: &pb.TypedValue_IntVal{IntVal: int64(i)}})
		}
		if rapid.IntRange(0, 3).Draw(t, "emptyelem") == 0 {
			sa.Element = append(sa.Element, &pb.TypedValue{})
		}
		return &pb.TypedValue{Value: &pb.TypedValue_LeaflistVal{LeaflistVal: sa}}
	case 11:
		return &pb.TypedValue{Value: &pb.TypedValue_JsonVal{JsonVal: []byte(rapid.SampledFrom([]string{`{"a":1}`, `not json`, ``}).Draw(t, "j"))}}
	case 12:
		return &pb.TypedValue{Value: &pb.TypedValue_JsonIetfVal{JsonIetfVal: []byte(rapid.SampledFrom([]string{`[1,2]`, `{`, ``}).Draw(t, "ji"))}}
	case 13:
		return &pb.TypedValue{Value: &pb.TypedValue_AsciiVal{AsciiVal: "ascii"}}
	case 14:
		return &pb.TypedValue{Value: &pb.TypedValue_ProtoBytes{ProtoBytes: []byte{1, 2, 3}}}
	case 15:
		return &pb.TypedValue{Value: &pb.TypedValue_AnyVal{}}
	default:
		return &pb.TypedValue{Value: &pb.TypedValue_LeaflistVal{}}
	}
}

func genTimestamp(t *rapid.T) int64 {
	return rapid.SampledFrom([]int64{0, 1, -1, 100, 1_000_000, 1 << 62, math.MaxInt64, math.MinInt64, 946684800_000000000, 4102444800_000000000}).Draw(t, "ts")
}

func genUpdate(t *rapid.T) *pb.Update {
	u := &pb.Update{Path: genPath(t, true), Val: genValue(t)}
	if rapid.IntRange(0, 7).Draw(t, "deprecatedvalue") == 0 {
		u.Value = &pb.Value{Value: []byte(rapid.SampledFrom([]string{`1`, `{"a":1}`, `x`, ``}).Draw(t, "dv")), Type: pb.Encoding(rapid.IntRange(0, 5).Draw(t, "enc"))}
		if rapid.Bool().Draw(t, "onlydeprecated") {
			u.Val = nil
		}
	}
	if rapid.IntRange(0, 9).Draw(t, "dups") == 0 {
		u.Duplicates = rapid.Uint32().Draw(t, "dup")
	}
	return u
}

// genNotification draws a hostile notification.
func genNotification(t *rapid.T) *pb.Notification {
	n := &pb.Notification{Timestamp: genTimestamp(t)}
	switch rapid.IntRange(0, 9).Draw(t, "prefixshape") {
	case 0:
		n.Prefix = nil
	case 1:
		n.Prefix = &pb.Path{}
	case 2:
		n.Prefix = &pb.Path{Target: "dev"}
	default:
		n.Prefix = genPath(t, false)
		n.Prefix.Target = rapid.SampledFrom([]string{"dev", "dev", "dev", "dev", "", "other", "nosuch", "*"}).Draw(t, "ptarget")
		n.Prefix.Origin = rapid.SampledFrom([]string{"", "", "o", "meta", "openconfig"}).Draw(t, "porigin")
	}
	n.Atomic = rapid.IntRange(0, 4).Draw(t, "atomic") == 0
	for i := rapid.SampledFrom([]int{0, 1, 1, 1, 2, 3}).Draw(t, "nu"); i > 0; i-- {
		n.Update = append(n.Update, genUpdate(t))
	}
	for i := rapid.SampledFrom([]int{0, 0, 0, 1, 1, 2}).Draw(t, "nd"); i > 0; i-- {
		n.Delete = append(n.Delete, genPath(t, false))
	}
	return n
}

// genValidNotification draws a benign notification for the pre-state.
func genValidNotification(t *rapid.T, ts int64) *pb.Notification {
	name := func() string { return rapid.SampledFrom([]string{"a", "b", "c"}).Draw(t, "vname") }
	n := &pb.Notification{Timestamp: ts, Prefix: &pb.Path{Target: "dev"}}
	if rapid.IntRange(0, 3).Draw(t, "vprefix") == 0 {
		n.Prefix.Elem = []*pb.PathElem{{Name: name()}}
	}
	vals := []*pb.TypedValue{
		{Value: &pb.TypedValue_IntVal{IntVal: 1}}, {Value: &pb.TypedValue_StringVal{StringVal: "x"}},
		{Value: &pb.TypedValue_DoubleVal{DoubleVal: 1.5}}, {Value: &pb.TypedValue_BoolVal{BoolVal: true}},
		{Value: &pb.TypedValue_JsonVal{JsonVal: []byte(`{"a":1}`)}},
	}
	if rapid.IntRange(0, 5).Draw(t, "vatomic") == 0 {
		n.Atomic = true
		n.Prefix.Elem = []*pb.PathElem{{Name: name()}, {Name: "at"}}
	}
	for i := rapid.IntRange(1, 2).Draw(t, "vnu"); i > 0; i-- {
		n.Update = append(n.Update, &pb.Update{
			Path: &pb.Path{Elem: []*pb.PathElem{{Name: name()}, {Name: name()}}},
			Val:  rapid.SampledFrom(vals).Draw(t, "vval"),
		})
	}
	return n
}

func wire(m proto.Message) []byte {
	b, err := proto.MarshalOptions{AllowPartial: true}.Marshal(m)
	if err != nil {
		return nil
	}
	return b
}

// genSubscribeRequest draws a hostile SubscribeRequest.
func genSubscribeRequest(t *rapid.T, first bool) *pb.SubscribeRequest {
	shape := rapid.IntRange(0, 19).Draw(t, "reqshape")
	switch {
	case shape == 0:
		return &pb.SubscribeRequest{}
	case shape == 1 || !first && shape < 14:
		return &pb.SubscribeRequest{Request: &pb.SubscribeRequest_Poll{Poll: &pb.Poll{}}}
	case shape == 2:
		return &pb.SubscribeRequest{Request: &pb.SubscribeRequest_Subscribe{}}
	}
	sl := &pb.SubscriptionList{
		Mode:        pb.SubscriptionList_Mode(rapid.SampledFrom([]int32{0, 0, 1, 1, 2, 2, 3, -1}).Draw(t, "mode")),
		UpdatesOnly: rapid.IntRange(0, 4).Draw(t, "uo") == 0,
		Encoding:    pb.Encoding(rapid.IntRange(0, 5).Draw(t, "enc")),
	}
	switch rapid.IntRange(0, 19).Draw(t, "sprefix") {
	case 0:
		sl.Prefix = nil
	case 1:
		sl.Prefix = &pb.Path{}
	default:
		sl.Prefix = genPath(t, false)
		sl.Prefix.Target = rapid.SampledFrom([]string{"dev", "dev", "dev", "*", "*", "*", "other", "nosuch", ""}).Draw(t, "starget")
		sl.Prefix.Origin = rapid.SampledFrom([]string{"", "", "o", "meta"}).Draw(t, "sorigin")
	}
	for i := rapid.SampledFrom([]int{0, 1, 1, 2, 3}).Draw(t, "nsub"); i > 0; i-- {
		s := &pb.Subscription{Path: genPath(t, true), Mode: pb.SubscriptionMode(rapid.IntRange(0, 3).Draw(t, "smode"))}
		if rapid.IntRange(0, 5).Draw(t, "sinterval") == 0 {
			s.SampleInterval = rapid.Uint64().Draw(t, "si")
		}
		sl.Subscription = append(sl.Subscription, s)
	}
	return &pb.SubscribeRequest{Request: &pb.SubscribeRequest_Subscribe{Subscribe: sl}}
}

// genSubscribeResponse draws a hostile SubscribeResponse.
func genSubscribeResponse(t *rapid.T) *pb.SubscribeResponse {
	switch rapid.IntRange(0, 9).Draw(t, "respshape") {
	case 0:
		return &pb.SubscribeResponse{}
	case 1:
		return &pb.SubscribeResponse{Response: &pb.SubscribeResponse_SyncResponse{SyncResponse: rapid.Bool().Draw(t, "sync")}}
	case 2:
		return &pb.SubscribeResponse{Response: &pb.SubscribeResponse_Error{Error: &pb.Error{Code: 5, Message: "x"}}}
	case 3:
		return &pb.SubscribeResponse{Response: &pb.SubscribeResponse_Update{}}
	default:
		n := genNotification(t)
		if n.Prefix != nil && rapid.IntRange(0, 2).Draw(t, "notarget") == 0 {
			n.Prefix.Target = ""
		}
		return &pb.SubscribeResponse{Response: &pb.SubscribeResponse_Update{Update: n}}
	}
}
