// Package ingestfuzz decides C12: no protobuf-valid message from a remote peer
// makes the cache ingest path, the Subscribe handler, the client receive path
// or the CLI display panic; a rejected notification leaves stored data intact.
// Structured rapid generators biased to hostile shapes are the primary search;
// native coverage-guided fuzz targets on the wire bytes run in the thorough tier.
package ingestfuzz

import (
	"fmt"
	"math"
	"strings"

	"github.com/openconfig/gnmi/metadata"
	pb "github.com/openconfig/gnmi/proto/gnmi"
	"google.golang.org/protobuf/proto"
	"pgregory.net/rapid"
)

// Scenario is a case of any of the targets; messages are kept as wire
// bytes (base64 in JSON) so that exactly what was fed can be replayed.
type Scenario struct {
	// Kind: ingest | subscribe | client | life
	Kind string `json:"kind"`
	// Pre: valid history applied first (Notification wire bytes, target "dev").
	Pre [][]byte `json:"pre,omitempty"`
	// Msgs: the hostile messages (Notification / SubscribeRequest / SubscribeResponse wire bytes).
	Msgs [][]byte `json:"msgs"`
	// Stamp: apply the collector's update closure (force target, default origin) instead of the raw cache call.
	Stamp bool `json:"stamp,omitempty"`
	// Lifecycle: calls made on the target before the hostile messages (sync connect connecterr updmeta).
	Lifecycle []string `json:"lifecycle,omitempty"`
	// QueryType / Display for the client target.
	QueryType string `json:"query_type,omitempty"`
	Display   string `json:"display,omitempty"`
	Timestamp string `json:"timestamp,omitempty"`
	// Text is a human-readable rendering of Msgs (not used by replay).
	Text []string `json:"text,omitempty"`

	// Kind "life": one cache and one subscribe.Server live across Ops.
	// Opts: server options (stats acl-allow acl-deny-odd acl-noauth timeout-1s timeout-1h nodup hooks).
	Opts []string `json:"opts,omitempty"`
	// Targets: number of targets the cache is created with (dev, other, t2, t3, ...).
	Targets int      `json:"targets,omitempty"`
	Ops     []LifeOp `json:"ops,omitempty"`

	// Verbose: glog verbosity (-v) of the process while the scenario runs: the diagnostics inside
	// `if log.V(n)` blocks format the very messages a peer sent.
	Verbose int `json:"verbose,omitempty"`
}

// LifeOp is one step in the life of the (cache, server) pair of a "life" scenario.
type LifeOp struct {
	// Op: n (notification) | r (one Subscribe RPC) | l (lifecycle call) | p (valid probe RPC)
	Op string `json:"op"`
	// Msg: Notification wire bytes (n).
	Msg []byte `json:"msg,omitempty"`
	// Stamp: n goes through the collector's update closure for Target.
	Stamp bool `json:"stamp,omitempty"`
	// Reqs: SubscribeRequest wire bytes of the RPC, in order (r).
	Reqs [][]byte `json:"reqs,omitempty"`
	// Hold: the RPC's stream stays open during this many following steps (r).
	Hold int `json:"hold,omitempty"`
	// Cancel: the RPC ends by cancellation of its context rather than by EOF (r).
	Cancel bool `json:"cancel,omitempty"`
	// NoAuth: the RPC's context carries no credentials (matters with acl-noauth) (r).
	NoAuth bool `json:"noauth,omitempty"`
	// Peer: number making up the peer address of the RPC (r, p).
	Peer int `json:"peer,omitempty"`
	// Call: sync connect connecterr updmeta updsize reset remove add stats (l).
	Call string `json:"call,omitempty"`
	// Target: index of the target (l, p, stamped n).
	Target int `json:"target,omitempty"`
	// Text renders the message(s) (not used by replay).
	Text string `json:"text,omitempty"`
}

var metaNames = []string{
	metadata.Sync, metadata.Connected, metadata.ConnectedAddr, metadata.AddCount, metadata.DelCount, metadata.EmptyCount,
	metadata.LeafCount, metadata.UpdateCount, metadata.StaleCount, metadata.FutureCount, metadata.SuppressedCount,
	metadata.Size, metadata.LatestTimestamp, metadata.ConnectError, metadata.ServerName, "latency", "unknownName", "*",
}

// ---- sizes ---------------------------------------------------------------------------------------
//
// Every count and length of a message is a size dimension. Most cases keep all
// of them small (throughput); a modest fraction of the cases makes one or two
// dimensions large, sampled around the usual capacity steps, so that code with
// a fixed-size buffer, a small-size fast path or a growth step is exercised on
// both sides of its threshold.

const (
	dimKeys     = "keys"     // keys of one path element (0-12)
	dimElems    = "elems"    // elements of one path, prefix included (0-40)
	dimEntries  = "entries"  // updates / deletes of one notification (0-300)
	dimSubs     = "subs"     // subscriptions of one list (0-100)
	dimLeaflist = "leaflist" // elements of a leaf-list value (0-300)
	dimNest     = "nest"     // nesting depth of leaf-lists (0-40)
	dimStr      = "strlen"   // length of names, key values, targets, origins, string/bytes/json values (0-5000)
	dimMsgs     = "msgs"     // messages of one case: notifications, polls on one stream, responses (up to 400)
	dimPre      = "pre"      // size of the valid pre-state (up to 300 notifications)
)

var allDims = []string{dimKeys, dimElems, dimEntries, dimSubs, dimLeaflist, dimNest, dimStr, dimMsgs, dimPre}

var capSteps = []int{3, 4, 5, 8, 9, 16, 17, 32, 33, 64, 65, 128, 129, 256, 257}

// bigDims holds the dimensions that are large in the case being generated.
// Generation is single-threaded and every scenario generator sets it first,
// from rapid draws, so cases replay and shrink.
var bigDims map[string]bool

// drawSizeClass decides which dimensions (none for most cases) are large.
func drawSizeClass(t *rapid.T, dims []string) {
	bigDims = nil
	n := rapid.SampledFrom([]int{0, 0, 0, 0, 0, 0, 0, 1, 1, 2}).Draw(t, "sizeclass")
	for ; n > 0; n-- {
		if bigDims == nil {
			bigDims = map[string]bool{}
		}
		bigDims[rapid.SampledFrom(dims).Draw(t, "bigdim")] = true
	}
}

// genLarge draws a size in [0, max]: half of the time next to a capacity step.
func genLarge(t *rapid.T, label string, max int) int {
	if rapid.Bool().Draw(t, label+"-atstep") {
		s := rapid.SampledFrom(capSteps).Draw(t, label+"-step") + rapid.IntRange(-1, 1).Draw(t, label+"-off")
		if s > max {
			s = max
		}
		return s
	}
	return rapid.IntRange(0, max).Draw(t, label+"-large")
}

// genSize draws a count of dimension dim: from small unless the dimension is
// large in this case (then two draws out of three are large).
func genSize(t *rapid.T, dim, label string, small []int, max int) int {
	if bigDims[dim] && rapid.IntRange(0, 2).Draw(t, label+"-big") > 0 {
		return genLarge(t, label, max)
	}
	return rapid.SampledFrom(small).Draw(t, label)
}

func upTo(n int) []int {
	out := make([]int, n+1)
	for i := range out {
		out[i] = i
	}
	return out
}

var longUnits = []string{"a", "ab", "a/b", "é", "*", "[k=v]", "%s", " ", "meta", " "}

// genStr draws a string from the alphabet or, rarely, a numbered one; when strings
// are a large dimension, one draw in four is a long string (a repeated unit, so
// that it is cheap to draw).
func genStr(t *rapid.T, label string, alphabet []string) string {
	if bigDims[dimStr] && rapid.IntRange(0, 3).Draw(t, label+"-long") == 3 {
		unit := rapid.SampledFrom(longUnits).Draw(t, label+"-unit")
		n := genLarge(t, label+"-len", 5000)
		s := strings.Repeat(unit, n/len(unit)+1)[:n]
		return strings.ToValidUTF8(s, "?")
	}
	// one more choice than the alphabet has: a numbered string, so that over a long life
	// (or a large message) many distinct names, key values, origins and targets occur
	if i := rapid.IntRange(0, len(alphabet)).Draw(t, label); i < len(alphabet) {
		return alphabet[i]
	}
	return fmt.Sprintf("x%d", rapid.IntRange(0, 999).Draw(t, label+"-number"))
}

// genEnum draws the number of an open proto3 enum with nvalid declared values:
// mostly declared ones, otherwise one of many distinct undeclared numbers —
// next to the range, negative, far away, arbitrary.
func genEnum(t *rapid.T, label string, nvalid int32) int32 {
	switch rapid.SampledFrom([]int{0, 0, 0, 0, 0, 0, 1, 2, 3, 4}).Draw(t, label+"-class") {
	case 0:
		return rapid.Int32Range(0, nvalid-1).Draw(t, label)
	case 1:
		return nvalid + rapid.Int32Range(0, 60).Draw(t, label+"-above")
	case 2:
		return -1 - rapid.Int32Range(0, 60).Draw(t, label+"-below")
	case 3:
		return rapid.SampledFrom([]int32{math.MaxInt32, math.MinInt32, math.MaxInt32 - 1, 255, 256, 65535, 65536, 1 << 20, -(1 << 20)}).Draw(t, label+"-far")
	default:
		return rapid.Int32().Draw(t, label+"-any")
	}
}

func genName(t *rapid.T) string {
	return genStr(t, "name", []string{"a", "a", "b", "b", "c", "", "*", "meta", "/", "a/b", "é", "..."})
}

func genKeys(t *rapid.T) map[string]string {
	m := map[string]string{}
	n := genSize(t, dimKeys, "nk", []int{1, 1, 2, 2, 3, 0}, 12)
	for j := 0; j < n; j++ {
		// the first keys come from a small alphabet (collisions, the empty key); the others are distinct
		k := fmt.Sprintf("k%d", j)
		if j < 3 || rapid.IntRange(0, 7).Draw(t, "keyalpha") == 0 {
			k = genStr(t, "key", []string{"k", "j", ""})
		}
		m[k] = genStr(t, "kv", []string{"1", "", "*", "meta", "2", "x/y"})
	}
	return m
}

func genElems(t *rapid.T, max int) []*pb.PathElem {
	n := genSize(t, dimElems, "nelem", upTo(max), 40)
	keyedOdds := 5
	if bigDims[dimKeys] {
		keyedOdds = 1
	}
	var out []*pb.PathElem
	for i := 0; i < n; i++ {
		e := &pb.PathElem{Name: genName(t)}
		if rapid.IntRange(0, keyedOdds).Draw(t, "keyed") == 0 {
			e.Key = genKeys(t)
		}
		out = append(out, e)
	}
	return out
}

// genPath draws a path of a hostile shape.
func genPath(t *rapid.T, allowNil bool) *pb.Path {
	switch shape := rapid.IntRange(0, 11).Draw(t, "pathshape"); {
	case shape == 0 && allowNil:
		return nil
	case shape <= 1:
		return &pb.Path{} // root / empty
	case shape == 2:
		return &pb.Path{Elem: []*pb.PathElem{{Name: metadata.Root}}}
	case shape <= 4:
		p := &pb.Path{Elem: []*pb.PathElem{{Name: metadata.Root}, {Name: rapid.SampledFrom(metaNames).Draw(t, "meta")}}}
		if rapid.IntRange(0, 3).Draw(t, "deeper") == 0 {
			p.Elem = append(p.Elem, &pb.PathElem{Name: rapid.SampledFrom([]string{"window", "2s", "avg", "x"}).Draw(t, "m3")})
		}
		if bigDims[dimKeys] && rapid.Bool().Draw(t, "metakeyed") {
			p.Elem[len(p.Elem)-1].Key = genKeys(t)
		}
		return p
	case shape == 5:
		// deprecated element encoding
		n := genSize(t, dimElems, "nelement", upTo(3), 40)
		p := &pb.Path{}
		for i := 0; i < n; i++ {
			p.Element = append(p.Element, genStr(t, "element", []string{"a", "b", "meta", "sync", "*", ""}))
		}
		return p
	case shape == 6:
		// both encodings at once
		return &pb.Path{Elem: genElems(t, 2), Element: []string{"a", "b"}}
	default:
		p := &pb.Path{Elem: genElems(t, 3)}
		if rapid.IntRange(0, 5).Draw(t, "porigin") == 0 {
			p.Origin = genStr(t, "pathorigin", []string{"o", "meta", "openconfig"})
		}
		if rapid.IntRange(0, 9).Draw(t, "ptarget") == 0 {
			p.Target = genStr(t, "pathtarget", []string{"dev", "other", "*"})
		}
		return p
	}
}

// genLeaflist draws a leaf-list value: elements of any arm, nested to some depth.
func genLeaflist(t *rapid.T, depth int) *pb.TypedValue {
	sa := &pb.ScalarArray{}
	n := genSize(t, dimLeaflist, "nll", upTo(3), 300)
	mixed := rapid.IntRange(0, 3).Draw(t, "llmixed") == 0
	for i := n; i > 0; i-- {
		if mixed && depth < 3 {
			sa.Element = append(sa.Element, genValueDepth(t, depth+1))
		} else {
			sa.Element = append(sa.Element, &pb.TypedValue{Value: &pb.TypedValue_IntVal{IntVal: int64(i)}})
		}
	}
	if rapid.IntRange(0, 3).Draw(t, "emptyelem") == 0 {
		sa.Element = append(sa.Element, &pb.TypedValue{})
	}
	tv := &pb.TypedValue{Value: &pb.TypedValue_LeaflistVal{LeaflistVal: sa}}
	if depth == 0 {
		// a chain of leaf-lists inside leaf-lists
		for d := genSize(t, dimNest, "llnest", []int{0, 0, 0, 0, 1, 2}, 40); d > 0; d-- {
			tv = &pb.TypedValue{Value: &pb.TypedValue_LeaflistVal{LeaflistVal: &pb.ScalarArray{Element: []*pb.TypedValue{tv}}}}
		}
	}
	return tv
}

// genValue draws a TypedValue over every oneof arm, unset and nil.
func genValue(t *rapid.T) *pb.TypedValue { return genValueDepth(t, 0) }

func genValueDepth(t *rapid.T, depth int) *pb.TypedValue {
	arm := rapid.IntRange(0, 16).Draw(t, "arm")
	if depth == 0 && (bigDims[dimLeaflist] || bigDims[dimNest]) && rapid.Bool().Draw(t, "preferll") {
		arm = 10
	}
	switch arm {
	case 0:
		if depth > 0 {
			return &pb.TypedValue{} // a list cannot hold nil
		}
		return nil
	case 1:
		return &pb.TypedValue{}
	case 2:
		return &pb.TypedValue{Value: &pb.TypedValue_StringVal{StringVal: genStr(t, "s", []string{"", "x", "true", "1"})}}
	case 3:
		return &pb.TypedValue{Value: &pb.TypedValue_IntVal{IntVal: rapid.SampledFrom([]int64{0, 1, -1, math.MaxInt64, math.MinInt64}).Draw(t, "i")}}
	case 4:
		return &pb.TypedValue{Value: &pb.TypedValue_UintVal{UintVal: rapid.SampledFrom([]uint64{0, 1, math.MaxUint64}).Draw(t, "u")}}
	case 5:
		return &pb.TypedValue{Value: &pb.TypedValue_BoolVal{BoolVal: rapid.Bool().Draw(t, "b")}}
	case 6:
		return &pb.TypedValue{Value: &pb.TypedValue_BytesVal{BytesVal: []byte(genStr(t, "by", []string{"", "\x00\xff"}))}}
	case 7:
		return &pb.TypedValue{Value: &pb.TypedValue_FloatVal{FloatVal: rapid.SampledFrom([]float32{0, 1.5, float32(math.NaN())}).Draw(t, "f")}}
	case 8:
		return &pb.TypedValue{Value: &pb.TypedValue_DoubleVal{DoubleVal: rapid.SampledFrom([]float64{0, -0.0, 1.5, math.NaN(), math.Inf(1)}).Draw(t, "d")}}
	case 9:
		if rapid.Bool().Draw(t, "nildec") {
			return &pb.TypedValue{Value: &pb.TypedValue_DecimalVal{DecimalVal: &pb.Decimal64{}}}
		}
		return &pb.TypedValue{Value: &pb.TypedValue_DecimalVal{DecimalVal: &pb.Decimal64{Digits: 12345, Precision: rapid.SampledFrom([]uint32{0, 2, 400, math.MaxUint32}).Draw(t, "prec")}}}
	case 10:
		return genLeaflist(t, depth)
	case 11:
		return &pb.TypedValue{Value: &pb.TypedValue_JsonVal{JsonVal: []byte(genStr(t, "j", append([]string{`{"a":1}`, `not json`, ``, `[[[[[[[[[[1]]]]]]]]]]`}, jsonFragments...)))}}
	case 12:
		return &pb.TypedValue{Value: &pb.TypedValue_JsonIetfVal{JsonIetfVal: []byte(genStr(t, "ji", append([]string{`[1,2]`, `{`, ``}, jsonFragments...)))}}
	case 13:
		return &pb.TypedValue{Value: &pb.TypedValue_AsciiVal{AsciiVal: genStr(t, "ascii", []string{"ascii"})}}
	case 14:
		return &pb.TypedValue{Value: &pb.TypedValue_ProtoBytes{ProtoBytes: []byte{1, 2, 3}}}
	case 15:
		return &pb.TypedValue{Value: &pb.TypedValue_AnyVal{}}
	default:
		return &pb.TypedValue{Value: &pb.TypedValue_LeaflistVal{}}
	}
}

func genTimestamp(t *rapid.T) int64 {
	return rapid.SampledFrom([]int64{0, 1, -1, 100, 1_000_000, 1 << 62, math.MaxInt64, math.MinInt64, 946684800_000000000, 4102444800_000000000}).Draw(t, "ts")
}

func genUpdate(t *rapid.T) *pb.Update {
	u := &pb.Update{Path: genPath(t, true), Val: genValue(t)}
	if rapid.IntRange(0, 7).Draw(t, "deprecatedvalue") == 0 {
		u.Value = &pb.Value{Value: []byte(genStr(t, "dv", jsonFragments)), Type: pb.Encoding(genEnum(t, "enc", 5))}
		if rapid.Bool().Draw(t, "onlydeprecated") {
			u.Val = nil
		}
	}
	if rapid.IntRange(0, 9).Draw(t, "dups") == 0 {
		u.Duplicates = rapid.Uint32().Draw(t, "dup")
	}
	return u
}

// genNotification draws a hostile notification for one of the targets.
func genNotification(t *rapid.T, targets []string) *pb.Notification {
	n := &pb.Notification{Timestamp: genTimestamp(t)}
	switch rapid.IntRange(0, 9).Draw(t, "prefixshape") {
	case 0:
		n.Prefix = nil
	case 1:
		n.Prefix = &pb.Path{}
	case 2:
		n.Prefix = &pb.Path{Target: targets[0]}
	default:
		n.Prefix = genPath(t, false)
		if rapid.IntRange(0, 7).Draw(t, "ptargetvalid") < 5 {
			n.Prefix.Target = rapid.SampledFrom(targets).Draw(t, "ptarget")
			if rapid.Bool().Draw(t, "ptargetfirst") {
				n.Prefix.Target = targets[0]
			}
		} else {
			n.Prefix.Target = genStr(t, "ptargetodd", []string{"", "nosuch", "*"})
		}
		n.Prefix.Origin = genStr(t, "porigin", []string{"", "", "o", "meta", "openconfig"})
	}
	n.Atomic = rapid.IntRange(0, 4).Draw(t, "atomic") == 0
	for i := genSize(t, dimEntries, "nu", []int{0, 1, 1, 1, 2, 3}, 300); i > 0; i-- {
		n.Update = append(n.Update, genUpdate(t))
	}
	for i := genSize(t, dimEntries, "nd", []int{0, 0, 0, 1, 1, 2}, 300); i > 0; i-- {
		n.Delete = append(n.Delete, genPath(t, false))
	}
	return n
}

// genValidNotification draws a benign notification for the pre-state.
func genValidNotification(t *rapid.T, ts int64, target string) *pb.Notification {
	name := func() string { return rapid.SampledFrom([]string{"a", "b", "c"}).Draw(t, "vname") }
	n := &pb.Notification{Timestamp: ts, Prefix: &pb.Path{Target: target}}
	if rapid.IntRange(0, 3).Draw(t, "vprefix") == 0 {
		n.Prefix.Elem = []*pb.PathElem{{Name: name()}}
	}
	vals := []*pb.TypedValue{
		{Value: &pb.TypedValue_IntVal{IntVal: 1}}, {Value: &pb.TypedValue_StringVal{StringVal: "x"}},
		{Value: &pb.TypedValue_DoubleVal{DoubleVal: 1.5}}, {Value: &pb.TypedValue_BoolVal{BoolVal: true}},
		{Value: &pb.TypedValue_JsonVal{JsonVal: []byte(`{"a":1}`)}},
	}
	if rapid.IntRange(0, 5).Draw(t, "vatomic") == 0 {
		n.Atomic = true
		n.Prefix.Elem = []*pb.PathElem{{Name: name()}, {Name: "at"}}
	}
	for i := rapid.IntRange(1, 2).Draw(t, "vnu"); i > 0; i-- {
		p := &pb.Path{Elem: []*pb.PathElem{{Name: name()}, {Name: name()}}}
		// a wide pre-state: list entries with several keys, deeper paths
		if bigDims[dimPre] || bigDims[dimKeys] || bigDims[dimElems] {
			if rapid.Bool().Draw(t, "vkeyed") {
				p.Elem[0].Key = map[string]string{}
				for j := genSize(t, dimKeys, "vnk", []int{1, 2}, 12); j > 0; j-- {
					p.Elem[0].Key[fmt.Sprintf("k%d", j)] = rapid.SampledFrom([]string{"1", "2", "3", "4", "5", "6", "7"}).Draw(t, "vkv")
				}
			}
			for j := genSize(t, dimElems, "vdeep", []int{0, 0, 1}, 38); j > 0; j-- {
				p.Elem = append(p.Elem, &pb.PathElem{Name: name()})
			}
		}
		n.Update = append(n.Update, &pb.Update{Path: p, Val: rapid.SampledFrom(vals).Draw(t, "vval")})
	}
	return n
}

func wire(m proto.Message) []byte {
	b, err := proto.MarshalOptions{AllowPartial: true}.Marshal(m)
	if err != nil {
		return nil
	}
	return b
}

// genSubscribeRequest draws a hostile SubscribeRequest naming, mostly, one of the targets.
func genSubscribeRequest(t *rapid.T, first bool, targets []string) *pb.SubscribeRequest {
	shape := rapid.IntRange(0, 19).Draw(t, "reqshape")
	switch {
	case shape == 0:
		return &pb.SubscribeRequest{}
	case shape == 1 || !first && shape < 14:
		return &pb.SubscribeRequest{Request: &pb.SubscribeRequest_Poll{Poll: &pb.Poll{}}}
	case shape == 2:
		return &pb.SubscribeRequest{Request: &pb.SubscribeRequest_Subscribe{}}
	}
	sl := &pb.SubscriptionList{
		Mode:        pb.SubscriptionList_Mode(genEnum(t, "mode", 3)),
		UpdatesOnly: rapid.IntRange(0, 4).Draw(t, "uo") == 0,
		Encoding:    pb.Encoding(genEnum(t, "enc", 5)),
	}
	if rapid.IntRange(0, 15).Draw(t, "extras") == 0 {
		sl.AllowAggregation = true
		sl.Qos = &pb.QOSMarking{Marking: rapid.Uint32().Draw(t, "qos")}
		sl.UseModels = []*pb.ModelData{{Name: genStr(t, "model", []string{"", "m"}), Organization: "o", Version: "1"}}
	}
	switch rapid.IntRange(0, 19).Draw(t, "sprefix") {
	case 0:
		sl.Prefix = nil
	case 1:
		sl.Prefix = &pb.Path{}
	default:
		sl.Prefix = genPath(t, false)
		switch rapid.IntRange(0, 8).Draw(t, "stargetclass") {
		case 0, 1, 2:
			sl.Prefix.Target = targets[0]
		case 3, 4:
			sl.Prefix.Target = rapid.SampledFrom(targets).Draw(t, "starget")
		case 5, 6:
			sl.Prefix.Target = "*"
		default:
			sl.Prefix.Target = genStr(t, "stargetodd", []string{"nosuch", ""})
		}
		sl.Prefix.Origin = genStr(t, "sorigin", []string{"", "", "o", "meta"})
	}
	for i := genSize(t, dimSubs, "nsub", []int{0, 1, 1, 2, 3}, 100); i > 0; i-- {
		s := &pb.Subscription{Path: genPath(t, true), Mode: pb.SubscriptionMode(genEnum(t, "smode", 3))}
		if rapid.IntRange(0, 5).Draw(t, "sinterval") == 0 {
			s.SampleInterval = rapid.Uint64().Draw(t, "si")
			s.HeartbeatInterval = rapid.SampledFrom([]uint64{0, 1, math.MaxUint64}).Draw(t, "hb")
			s.SuppressRedundant = rapid.Bool().Draw(t, "sr")
		}
		sl.Subscription = append(sl.Subscription, s)
	}
	return &pb.SubscribeRequest{Request: &pb.SubscribeRequest_Subscribe{Subscribe: sl}}
}

// genSubscribeResponse draws a hostile SubscribeResponse.
func genSubscribeResponse(t *rapid.T) *pb.SubscribeResponse {
	switch rapid.IntRange(0, 9).Draw(t, "respshape") {
	case 0:
		return &pb.SubscribeResponse{}
	case 1:
		return &pb.SubscribeResponse{Response: &pb.SubscribeResponse_SyncResponse{SyncResponse: rapid.Bool().Draw(t, "sync")}}
	case 2:
		return &pb.SubscribeResponse{Response: &pb.SubscribeResponse_Error{Error: &pb.Error{Code: rapid.SampledFrom([]uint32{5, 0, 16, 17, math.MaxUint32}).Draw(t, "code"), Message: genStr(t, "errmsg", []string{"x", ""})}}}
	case 3:
		return &pb.SubscribeResponse{Response: &pb.SubscribeResponse_Update{}}
	default:
		n := genNotification(t, allTargets)
		if n.Prefix != nil && rapid.IntRange(0, 2).Draw(t, "notarget") == 0 {
			n.Prefix.Target = ""
		}
		return &pb.SubscribeResponse{Response: &pb.SubscribeResponse_Update{Update: n}}
	}
}

// jsonFragments: documents for the deprecated Update.value field (decoded as JSON by receivers
// when the type says so): well-formed ones of every kind, and the shortest malformed ones —
// a lone delimiter, an unterminated or empty string, a truncated escape, surrounding blanks.
var jsonFragments = []string{`1`, `{"a":1}`, `x`, ``, `"`, `""`, `"a`, `a"`, `"a"`, ` "a" `, `"\`, `"\"`, `"\u00`, `[`, `]`, `{`, `[1,`, `{}`, `[]`, `null`, `nul`, `true`, `-`, `-0`, `1e999`, ` `, "\n", `"a" "b"`, "\"\x00\""}
