package ingestfuzz

import (
	"context"
	"errors"
	"fmt"
	"runtime/debug"
	"strings"
	"sync/atomic"
	"testing"
	"testing/synctest"
	"time"

	"github.com/openconfig/gnmi/cache"
	"github.com/openconfig/gnmi/ctree"
	pb "github.com/openconfig/gnmi/proto/gnmi"
	"github.com/openconfig/gnmi/subscribe"
	"google.golang.org/grpc/codes"
	"google.golang.org/grpc/peer"
	"google.golang.org/grpc/status"
	"google.golang.org/protobuf/proto"
	"verif/harness/internal/vstat"
)

// The "life" target: ONE cache and ONE subscribe.Server (created with a drawn
// set of the options the package offers) live across a long generated sequence
// of hostile and valid notifications, Subscribe RPCs (some kept open across
// later steps) and lifecycle calls. Whatever a process accumulates over its
// lifetime — statistics per mode / target / client, match registrations,
// metadata, targets that came and went — is therefore in a state that no
// single-message case reaches. Every step is judged by the oracle of its
// single-message target: no panic; a rejected notification leaves the leaves it
// does not address intact; an RPC returns (an error or nil) once its stream
// ended; a ONCE RPC that returns nil sent exactly one sync_response, last;
// reading does not change the cache; and a plain valid ONCE probe is still
// answered correctly whenever it is asked and at the end.

// lifeTargets: the names of the cache's targets.
func lifeTargets(n int) []string {
	out := []string{"dev", "other"}
	for i := 2; i < n; i++ {
		out = append(out, fmt.Sprintf("t%d", i))
	}
	if n < 2 {
		out = out[:2]
	}
	return out
}

type numAddr int

func (numAddr) Network() string  { return "mem" }
func (a numAddr) String() string { return fmt.Sprintf("mem:%d", int(a)) }

type noAuthKey struct{}

// lifeACL is the server ACL of a life scenario.
type lifeACL struct {
	// denyOdd: targets with an odd index (other, t3, t5, ...) are denied.
	denyOdd bool
	// failNoAuth: an RPC whose context is marked noauth gets no RPC ACL.
	failNoAuth bool
	targets    []string
}

func (a *lifeACL) denied(target string) bool {
	if !a.denyOdd {
		return false
	}
	for i, t := range a.targets {
		if t == target {
			return i%2 == 1
		}
	}
	return false
}

func (a *lifeACL) Check(_, target string) bool { return !a.denied(target) }

func (a *lifeACL) NewRPCACL(ctx context.Context) (subscribe.RPCACL, error) {
	if a.failNoAuth && ctx.Value(noAuthKey{}) != nil {
		return nil, errors.New("no credentials")
	}
	return lifeRPCACL{a}, nil
}

type lifeRPCACL struct{ a *lifeACL }

func (r lifeRPCACL) Check(target string) bool { return !r.a.denied(target) }

type lifeRPC struct {
	stream  *memStream
	first   *pb.SubscribeRequest
	done    bool
	herr    error
	perr    error
	closeAt int
	cancel  bool
	step    int
	text    string
}

type life struct {
	c       *cache.Cache
	srv     *subscribe.Server
	acl     *lifeACL
	targets []string
	st      *stats
	open    []*lifeRPC
	// snaps: the content of each target when it was last looked at; dirty: the
	// targets a step has addressed since (only those may differ from snaps).
	snaps map[string]map[string]leafSnap
	dirty map[string]bool
	// what the server's statistics have been asked to track so far
	modes map[string]bool
	peers map[int]bool
	hooks atomic.Int64
}

// current returns the content of one target, looking only if a step addressed it since the last look.
func (l *life) current(target string) map[string]leafSnap {
	if sn, ok := l.snaps[target]; ok && !l.dirty[target] {
		return sn
	}
	sn := dataSnapshot(l.c, []string{target})
	l.snaps[target] = sn
	delete(l.dirty, target)
	return sn
}

func (l *life) mark(target string) { l.dirty[target] = true }

func (l *life) markAll() {
	for _, tg := range l.targets {
		l.dirty[tg] = true
	}
}

// audit looks at the targets (all of them by default) again: a target that no
// step has addressed since the last look must hold exactly what it held then.
func (l *life) audit(what string, targets ...string) error {
	if len(targets) == 0 {
		targets = l.targets
	}
	for _, tg := range targets {
		old, had := l.snaps[tg]
		wasDirty := l.dirty[tg]
		l.dirty[tg] = true
		now := l.current(tg)
		if had && !wasDirty {
			if msg, ok := sameSnapshot(old, now); !ok {
				return fmt.Errorf("%s changed what the cache stores for target %q, which it does not address: %s", what, tg, msg)
			}
		}
	}
	return nil
}

func sameSnapshot(a, b map[string]leafSnap) (string, bool) {
	for k, v := range a {
		if w, ok := b[k]; !ok || w.data != v.data {
			return fmt.Sprintf("leaf %q changed or vanished", v.path), false
		}
	}
	for k, w := range b {
		if _, ok := a[k]; !ok {
			return fmt.Sprintf("leaf %q appeared", w.path), false
		}
	}
	return "", true
}

func (l *life) start(step int, reqs []*pb.SubscribeRequest, peerN int, noauth bool, text string) *lifeRPC {
	ctx := peer.NewContext(context.Background(), &peer.Peer{Addr: numAddr(peerN)})
	if noauth {
		ctx = context.WithValue(ctx, noAuthKey{}, true)
	}
	ctx, cancel := context.WithCancel(ctx)
	r := &lifeRPC{stream: &memStream{ctx: ctx, cancel: cancel, recvC: make(chan *pb.SubscribeRequest, len(reqs)+1)}, step: step, text: text}
	for i, q := range reqs {
		if i == 0 {
			r.first = q
		}
		r.stream.recvC <- q
	}
	go func() {
		defer func() {
			if p := recover(); p != nil {
				r.perr = fmt.Errorf("panic in the Subscribe handler: %v\n%s", p, trimStack(debug.Stack()))
			}
			r.done = true
		}()
		r.herr = l.srv.Subscribe(r.stream)
	}()
	synctest.Wait()
	return r
}

// finish ends the stream of an RPC (EOF, then cancellation) and judges it.
func (l *life) finish(r *lifeRPC) error {
	if !r.cancel {
		close(r.stream.recvC)
		synctest.Wait()
	}
	r.stream.cancel()
	synctest.Wait()
	what := fmt.Sprintf("the RPC of step %d (%s)", r.step, r.text)
	if r.perr != nil {
		return fmt.Errorf("%s: %v", what, r.perr)
	}
	if !r.done {
		return fmt.Errorf("%s: the Subscribe handler did not return after its stream ended and was cancelled", what)
	}
	if r.herr != nil {
		l.st.label("handler-returned-error")
		return nil
	}
	l.st.label("handler-returned-nil")
	if sl := r.first.GetSubscribe(); sl != nil && sl.Mode == pb.SubscriptionList_ONCE {
		r.stream.mu.Lock()
		syncs, last := r.stream.syncs, r.stream.lastSync
		r.stream.mu.Unlock()
		if syncs != 1 || !last {
			return fmt.Errorf("%s: a ONCE subscription ended without error but its response stream is malformed: %d sync responses, sync response last: %v", what, syncs, last)
		}
	}
	return nil
}

// probe runs a plain valid ONCE subscription for everything of one target and
// checks the complete answer.
func (l *life) probe(step int, target string, peerN int) error {
	req := &pb.SubscribeRequest{Request: &pb.SubscribeRequest_Subscribe{Subscribe: &pb.SubscriptionList{
		Mode: pb.SubscriptionList_ONCE, Prefix: &pb.Path{Target: target},
		Subscription: []*pb.Subscription{{Path: &pb.Path{Elem: []*pb.PathElem{{Name: "*"}}}}}}}}
	want := 0
	known := l.c.HasTarget(target)
	if known {
		l.c.Query(target, []string{"*"}, func([]string, *ctree.Leaf, interface{}) error { want++; return nil })
	}
	l.current(target)
	r := l.start(step, []*pb.SubscribeRequest{req}, peerN, false, "probe: "+fmt.Sprint(req))
	if err := l.finish(r); err != nil {
		return err
	}
	what := fmt.Sprintf("step %d: the valid probe request %v", step, req)
	r.stream.mu.Lock()
	updates, syncs, last, sent := r.stream.updates, r.stream.syncs, r.stream.lastSync, r.stream.sent
	r.stream.mu.Unlock()
	switch {
	case !known:
		if status.Code(r.herr) != codes.NotFound || sent != 0 {
			return fmt.Errorf("%s for a target the cache does not have returned %v after %d responses, want NotFound and nothing sent", what, r.herr, sent)
		}
		l.st.label("probe-notfound")
	case l.acl != nil && l.acl.denied(target):
		if status.Code(r.herr) != codes.PermissionDenied || sent != 0 {
			return fmt.Errorf("%s for a target the ACL denies returned %v after %d responses, want PermissionDenied and nothing sent", what, r.herr, sent)
		}
		l.st.label("probe-denied")
	default:
		if r.herr != nil {
			return fmt.Errorf("%s was answered with the error %v", what, r.herr)
		}
		if updates != want || syncs != 1 || !last || sent != want+1 {
			return fmt.Errorf("%s was answered with %d updates and %d sync responses (%d responses, sync last: %v); the target holds %d leaves, want them all followed by one sync response",
				what, updates, syncs, sent, last, want)
		}
		l.st.label("probe-answered")
	}
	// reading must not change what is stored
	return l.audit(what, target)
}

func (l *life) ingest(step int, op *LifeOp) error {
	n := &pb.Notification{}
	if proto.Unmarshal(op.Msg, n) != nil {
		l.st.label("undecodable")
		return nil
	}
	hostileFeatures(n, l.st)
	tgt := n.GetPrefix().GetTarget()
	if op.Stamp {
		tgt = l.targets[op.Target%len(l.targets)]
	}
	// a message for a name that is not one of the cache's targets addresses nothing (the audits see to that)
	named := false
	for _, tg := range l.targets {
		named = named || tg == tgt
	}
	before := map[string]leafSnap{}
	if named {
		before = l.current(tgt)
	}
	clone := proto.Clone(n).(*pb.Notification)
	var gerr error
	if op.Stamp {
		gerr = collectorUpdate(l.c, tgt, n)
		clone.Prefix = proto.Clone(n.Prefix).(*pb.Path)
	} else {
		gerr = l.c.GnmiUpdate(n)
	}
	if named {
		l.mark(tgt)
	}
	if clone.GetPrefix() != nil && l.c.HasTarget(tgt) && tgt != "*" {
		l.st.reached = true
	}
	if gerr != nil {
		l.st.label("rejected")
		if named {
			if cerr := checkRejected(before, l.current(tgt), clone, tgt, gerr, fmt.Sprintf("the notification of step %d", step)); cerr != nil {
				return cerr
			}
		}
	} else {
		l.st.label("accepted")
	}
	// open streams take what was fed to them
	synctest.Wait()
	return nil
}

func (l *life) call(op *LifeOp) {
	tg := l.targets[op.Target%len(l.targets)]
	switch op.Call {
	case "updmeta", "updsize":
		l.markAll()
	case "stats":
	default:
		l.mark(tg)
	}
	switch op.Call {
	case "sync":
		l.c.Sync(tg)
	case "connect":
		l.c.Connect(tg)
	case "connecterr":
		l.c.ConnectError(tg, errors.New("x"))
	case "updmeta":
		l.c.UpdateMetadata()
	case "updsize":
		l.c.UpdateSize()
	case "reset":
		l.c.Reset(tg)
	case "remove":
		l.c.Remove(tg)
	case "add":
		l.c.Add(tg)
	case "stats":
		l.srv.TypeStats()
		l.srv.TargetStats()
		l.srv.ClientStats()
	}
	synctest.Wait()
}

func lifeOptions(sc *Scenario, l *life) []subscribe.Option {
	var opts []subscribe.Option
	for _, o := range sc.Opts {
		switch o {
		case "stats":
			opts = append(opts, subscribe.WithStats())
		case "acl-allow", "acl-deny-odd", "acl-noauth":
			if l.acl == nil {
				l.acl = &lifeACL{targets: l.targets}
			}
			l.acl.denyOdd = l.acl.denyOdd || o == "acl-deny-odd"
			l.acl.failNoAuth = l.acl.failNoAuth || o == "acl-noauth"
		case "timeout-1s":
			opts = append(opts, subscribe.WithTimeout(time.Second))
		case "timeout-1h":
			opts = append(opts, subscribe.WithTimeout(time.Hour))
		case "nodup":
			opts = append(opts, subscribe.WithoutDupReport())
		case "hooks":
			// the package's test override functions; none of them blocks
			opts = append(opts, subscribe.WithFlowControlTest(func() { l.hooks.Add(1) }), subscribe.WithClientStatsTest(func(int64, int64) { l.hooks.Add(1) }),
				subscribe.WithUpdateSubsCountEnterTest(func() { l.hooks.Add(1) }), subscribe.WithUpdateSubsCountExitTest(func() { l.hooks.Add(1) }))
		}
		l.st.label("opt-" + o)
	}
	if l.acl != nil {
		opts = append(opts, subscribe.WithACL(l.acl))
	}
	return opts
}

// runLife is the lifetime target, inside one synctest bubble.
func runLife(t *testing.T, sc *Scenario) (st *stats, err error) {
	st = &stats{}
	defer vstat.Watchdog(20*time.Second, 5*time.Second)()
	defer func() {
		// see runSubscribe: goroutines left blocked for ever are recorded, not judged
		if r := recover(); r != nil {
			if strings.Contains(fmt.Sprint(r), "blocked goroutines remain") {
				st.label("handler-goroutines-left-blocked-after-rpc(not-judged)")
				if leakNote == "" {
					leakNote = "observed, not judged: goroutines left blocked after an RPC of a life scenario ended"
				}
				return
			}
			err = fmt.Errorf("panic around the life scenario: %v", r)
		}
	}()
	synctest.Test(t, func(t *testing.T) {
		where := func() string { return "setup" }
		l := &life{st: st, targets: lifeTargets(sc.Targets), modes: map[string]bool{}, peers: map[int]bool{}, snaps: map[string]map[string]leafSnap{}, dirty: map[string]bool{}}
		defer func() {
			if r := recover(); r != nil {
				err = fmt.Errorf("panic during %s: %v\n%s", where(), r, trimStack(debug.Stack()))
			}
			for _, r := range l.open {
				r.stream.cancel()
			}
			synctest.Wait()
		}()
		l.c = cache.New(l.targets)
		l.srv, _ = subscribe.NewServer(l.c, lifeOptions(sc, l)...)
		l.c.SetClient(l.srv.Update)
		st.size("life-ops", len(sc.Ops), 50, 100, 200, 300)
		st.size("life-targets", len(l.targets), 3, 9, 17, 33)
		maxOpen := 0
		closeDue := func(step int) error {
			keep := l.open[:0]
			for _, r := range l.open {
				if r.closeAt > step {
					keep = append(keep, r)
					continue
				}
				if ferr := l.finish(r); ferr != nil {
					return ferr
				}
			}
			l.open = keep
			return nil
		}
		for i := range sc.Ops {
			op := &sc.Ops[i]
			where = func() string {
				return fmt.Sprintf("step %d of %d: %s %s", i, len(sc.Ops), op.Op+op.Call, short(op.Text, 3000))
			}
			if err = closeDue(i); err != nil {
				return
			}
			switch op.Op {
			case "n":
				err = l.ingest(i, op)
			case "l":
				l.call(op)
			case "p":
				err = l.probe(i, l.targets[op.Target%len(l.targets)], op.Peer)
			case "r":
				var reqs []*pb.SubscribeRequest
				for _, b := range op.Reqs {
					q := &pb.SubscribeRequest{}
					if proto.Unmarshal(b, q) != nil {
						st.label("undecodable")
						continue
					}
					reqs = append(reqs, q)
				}
				if len(reqs) > 0 {
					firstRequestFeatures(reqs[0], st)
					if sl := reqs[0].GetSubscribe(); sl != nil && l.c.HasTarget(sl.GetPrefix().GetTarget()) {
						l.modes[strings.ToLower(sl.GetMode().String())] = true
					}
				}
				l.peers[op.Peer] = true
				// reading must not change what is stored: the targets the request names are looked at before and after
				var reads []string
				if len(reqs) > 0 {
					if tg := reqs[0].GetSubscribe().GetPrefix().GetTarget(); tg == "*" {
						reads = l.targets
					} else if l.c.HasTarget(tg) {
						reads = []string{tg}
					}
				}
				for _, tg := range reads {
					l.current(tg)
				}
				r := l.start(i, reqs, op.Peer, op.NoAuth, short(op.Text, 1500))
				r.cancel = op.Cancel
				r.closeAt = i + 1 + op.Hold
				if len(reads) > 0 && r.perr == nil {
					if err = l.audit(fmt.Sprintf("the RPC of step %d (%s)", i, r.text), reads...); err != nil {
						l.open = append(l.open, r)
						return
					}
				}
				if op.Hold == 0 {
					err = l.finish(r)
				} else {
					st.label("stream-held-open")
					l.open = append(l.open, r)
					if len(l.open) > maxOpen {
						maxOpen = len(l.open)
					}
				}
			}
			if err != nil {
				return
			}
		}
		where = func() string { return "the end of the life scenario: closing the streams still open" }
		if err = closeDue(len(sc.Ops) + 1<<30); err != nil {
			return
		}
		where = func() string { return "the audit at the end of the life scenario" }
		if err = l.audit("a step of the life scenario"); err != nil {
			return
		}
		st.size("life-modes", len(l.modes), 4, 8, 16, 32)
		st.size("life-peers", len(l.peers), 8, 32)
		st.size("life-open-streams", maxOpen, 2, 5, 17, 33)
		// the server and the cache still work: a fresh value for the first target, asked for by a valid request
		where = func() string { return "the final valid update and probe" }
		if !l.c.HasTarget(l.targets[0]) {
			l.c.Add(l.targets[0])
			l.mark(l.targets[0])
		}
		// (not judged if the life itself stored something at or under the path used for it)
		taken := false
		for _, ls := range l.current(l.targets[0]) {
			for _, e := range ls.path[1:] {
				taken = taken || e == "final"
			}
		}
		if taken {
			st.label("final-update-path-taken(not-judged)")
		} else {
			l.mark(l.targets[0])
			final := &pb.Notification{Timestamp: 1 << 40, Prefix: &pb.Path{Target: l.targets[0]},
				Update: []*pb.Update{{Path: &pb.Path{Elem: []*pb.PathElem{{Name: "final"}, {Name: "probe"}}}, Val: &pb.TypedValue{Value: &pb.TypedValue_IntVal{IntVal: 42}}}}}
			if gerr := l.c.GnmiUpdate(final); gerr != nil {
				err = fmt.Errorf("after the life scenario the cache rejects a plain valid update %v: %v", final, gerr)
				return
			}
			found := false
			for _, ls := range l.current(l.targets[0]) {
				if samePath(ls.path, []string{l.targets[0], "final", "probe"}) {
					found = true
				}
			}
			if !found {
				err = fmt.Errorf("after the life scenario a plain valid update %v was accepted but is not stored", final)
				return
			}
		}
		for ti, tg := range l.targets {
			if ti < 2 || ti == len(l.targets)-1 {
				if err = l.probe(len(sc.Ops), tg, 0); err != nil {
					return
				}
			}
		}
		where = func() string {
			return "walk / MakeSubscribeResponse / client receive of the resulting cache content"
		}
		walkAndDecode(l.c, l.srv)
		where = func() string {
			return "statistics, UpdateMetadata, UpdateSize, Reset and Remove of every target at the end"
		}
		l.srv.TypeStats()
		l.srv.TargetStats()
		l.srv.ClientStats()
		l.c.UpdateMetadata()
		l.c.UpdateSize()
		for _, tg := range l.targets {
			l.c.Reset(tg)
		}
		l.c.UpdateMetadata()
		for _, tg := range l.targets {
			l.c.Remove(tg)
		}
		synctest.Wait()
	})
	return st, err
}
