package ingestfuzz

import (
	"context"
	"encoding/json"
	"fmt"
	"runtime/debug"
	"sort"
	"sync"
	"sync/atomic"
	"testing"

	"github.com/openconfig/gnmi/cache"
	"github.com/openconfig/gnmi/ctree"
	pb "github.com/openconfig/gnmi/proto/gnmi"
	"github.com/openconfig/gnmi/subscribe"
	"google.golang.org/grpc/peer"
	"pgregory.net/rapid"
	"verif/harness/internal/vstat"
)

// Part "storm": the same request served many times at once on the real scheduler.
// The per-message parts run one RPC at a time inside a bubble; the handler of a Subscribe
// RPC however is several goroutines (receiver, walker, sender) that end together when a
// request fails, is cancelled or completes. A panic that needs two of them to meet
// (close of a closed channel, send on a closed channel, a map written from two sides)
// shows only when the RPC is repeated thousands of times with real parallelism. The
// oracle is the property's: no panic (a panic on a goroutine of the handler ends the
// process: the driver turns the crash into a violation with this scenario as replay),
// every RPC returns, and the cache is unchanged by reads.

type StormScenario struct {
	Mode      string `json:"mode"`       // once | poll
	Target    string `json:"target"`     // a known target, an unknown one, or *
	Origins   string `json:"origins"`    // none | prefix | path | both (both: the walk fails) | path+elems (fails)
	Paths     int    `json:"paths"`      // 0-3 subscription paths
	Polls     int    `json:"polls"`      // poll triggers before the client half-closes
	CancelAt  int    `json:"cancel_at"`  // 0: never; k: the caller cancels after k responses
	Workers   int    `json:"workers"`    // goroutines issuing the RPC concurrently
	PerWorker int    `json:"per_worker"` // RPCs per goroutine
}

func genStorm(t *rapid.T) *StormScenario {
	return &StormScenario{
		Mode:      rapid.SampledFrom([]string{"once", "once", "poll"}).Draw(t, "mode"),
		Target:    rapid.SampledFrom([]string{"dev", "dev", "*", "nosuch"}).Draw(t, "target"),
		Origins:   rapid.SampledFrom([]string{"none", "prefix", "path", "both", "both", "path+elems"}).Draw(t, "origins"),
		Paths:     rapid.IntRange(0, 3).Draw(t, "paths"),
		Polls:     rapid.IntRange(0, 2).Draw(t, "polls"),
		CancelAt:  rapid.SampledFrom([]int{0, 0, 1, 2}).Draw(t, "cancel-at"),
		Workers:   rapid.SampledFrom([]int{2, 4, 8, 16}).Draw(t, "workers"),
		PerWorker: rapid.SampledFrom([]int{50, 100, 200}).Draw(t, "per-worker"),
	}
}

func (sc *StormScenario) request() *pb.SubscribeRequest {
	sl := &pb.SubscriptionList{Prefix: &pb.Path{Target: sc.Target}}
	if sc.Mode == "poll" {
		sl.Mode = pb.SubscriptionList_POLL
	} else {
		sl.Mode = pb.SubscriptionList_ONCE
	}
	if sc.Origins == "prefix" || sc.Origins == "both" {
		sl.Prefix.Origin = "o"
	}
	if sc.Origins == "path+elems" {
		sl.Prefix.Elem = []*pb.PathElem{{Name: "a"}}
	}
	for i := 0; i < sc.Paths; i++ {
		p := &pb.Path{Elem: []*pb.PathElem{{Name: []string{"a", "b", "*"}[i%3]}}}
		if sc.Origins == "path" || sc.Origins == "both" || sc.Origins == "path+elems" {
			p.Origin = "o"
		}
		sl.Subscription = append(sl.Subscription, &pb.Subscription{Path: p})
	}
	return &pb.SubscribeRequest{Request: &pb.SubscribeRequest_Subscribe{Subscribe: sl}}
}

// cancelStream cancels its context after k responses.
type cancelStream struct {
	*memStream
	after int
}

func (s *cancelStream) Send(r *pb.SubscribeResponse) error {
	err := s.memStream.Send(r)
	s.mu.Lock()
	n := s.sent
	s.mu.Unlock()
	if s.after > 0 && n >= s.after {
		s.cancel()
	}
	return err
}

func runStorm(sc *StormScenario) (rpcs int64, err error) {
	c := cache.New([]string{"dev", "dev2"})
	for i, tgt := range []string{"dev", "dev", "dev2"} {
		c.GnmiUpdate(&pb.Notification{Timestamp: int64(10 + i), Prefix: &pb.Path{Target: tgt, Origin: []string{"", "o", ""}[i]},
			Update: []*pb.Update{{Path: &pb.Path{Elem: []*pb.PathElem{{Name: "a"}, {Name: fmt.Sprintf("l%d", i)}}}, Val: &pb.TypedValue{Value: &pb.TypedValue_IntVal{IntVal: int64(i)}}}}})
	}
	before := snapshotCache(c)
	srv, serr := subscribe.NewServer(c, subscribe.WithStats())
	if serr != nil {
		return 0, serr
	}
	c.SetClient(srv.Update)
	req := sc.request()
	var wg sync.WaitGroup
	var firstPanic atomic.Value
	var done atomic.Int64
	for w := 0; w < sc.Workers; w++ {
		wg.Add(1)
		go func() {
			defer wg.Done()
			defer func() {
				if r := recover(); r != nil {
					firstPanic.CompareAndSwap(nil, fmt.Sprintf("%v\n%s", r, trimStack(debug.Stack())))
				}
			}()
			for i := 0; i < sc.PerWorker; i++ {
				ctx := peer.NewContext(context.Background(), &peer.Peer{Addr: memAddr{}})
				ctx, cancel := context.WithCancel(ctx)
				ms := &memStream{ctx: ctx, cancel: cancel, recvC: make(chan *pb.SubscribeRequest, 4)}
				ms.recvC <- req
				for p := 0; p < sc.Polls && sc.Mode == "poll"; p++ {
					ms.recvC <- &pb.SubscribeRequest{Request: &pb.SubscribeRequest_Poll{Poll: &pb.Poll{}}}
				}
				close(ms.recvC) // the client half-closes
				srv.Subscribe(&cancelStream{ms, sc.CancelAt})
				cancel()
				done.Add(1)
			}
		}()
	}
	wg.Wait()
	if p := firstPanic.Load(); p != nil {
		return done.Load(), fmt.Errorf("panic in the Subscribe handler while the request %v was served by %d goroutines at once: %v", req, sc.Workers, p)
	}
	if after := snapshotCache(c); after != before {
		return done.Load(), fmt.Errorf("serving %v changed the cache: before %s after %s", req, before, after)
	}
	return done.Load(), nil
}

func snapshotCache(c *cache.Cache) string {
	var out []string
	for _, tgt := range []string{"dev", "dev2"} {
		c.Query(tgt, []string{"*"}, func(p []string, _ *ctree.Leaf, v interface{}) error {
			if len(p) > 0 && p[0] == "meta" {
				return nil
			}
			if n, ok := v.(*pb.Notification); ok {
				out = append(out, fmt.Sprintf("%s/%v=%v@%d", tgt, p, n.GetUpdate()[0].GetVal(), n.GetTimestamp()))
			}
			return nil
		})
	}
	sort.Strings(out)
	return fmt.Sprint(out)
}

func TestC12Storm(t *testing.T) {
	if !vstat.Enabled("C12") {
		t.Skip()
	}
	rec := vstat.New("C12", "storm")
	rec.RunRapid(t, func(rt *rapid.T) {
		sc := genStorm(rt)
		rec.Current(sc)
		n, err := runStorm(sc)
		failing := sc.Origins == "both" || sc.Origins == "path+elems" || sc.Target == "nosuch"
		labels := []string{"mode-" + sc.Mode, fmt.Sprintf("workers=%d", sc.Workers)}
		if failing {
			labels = append(labels, "request-that-the-handler-rejects-or-whose-walk-fails")
		}
		if sc.CancelAt > 0 {
			labels = append(labels, "caller-cancels-mid-answer")
		}
		rec.Case(sc, failing || sc.CancelAt > 0, labels...)
		_ = n
		if err != nil {
			rt.Fatalf("%s", rec.Fail(sc, "panic", "%v", err))
		}
	})
}

func replayStorm(rf *vstat.ReplayFile) string {
	var sc StormScenario
	if err := json.Unmarshal(rf.Scenario, &sc); err != nil {
		return "bad scenario: " + err.Error()
	}
	if sc.Workers < 1 || sc.PerWorker < 1 {
		return "bad scenario"
	}
	// the schedule cannot be replayed: repeat the workload
	for i := 0; i < 40; i++ {
		if _, err := runStorm(&sc); err != nil {
			return err.Error()
		}
	}
	return ""
}
