package managerprop

// The "overlap" part of C13: API calls that overlap each other and the
// manager's own timers.
//
// The random part (scenario.go / run.go) issues every Add / Remove / Reconnect
// from one goroutine and only at quiescent points of virtual time, so two calls
// never overlap and a call never races the manager's internal activity that is
// due at the same instant. This part removes both restrictions:
//
//   - every call runs on its own goroutine (or inline on the scenario goroutine
//     when that cannot block) and the next step may be taken while earlier
//     calls are still in progress: a target's teardown can be "held" - its
//     Recv / dial does not return after cancellation, or its Reset / Update /
//     ConnectError callback does not return, until a later step releases it;
//   - a step may be "unsettled": the harness does not wait for quiescence
//     between reaching the step's instant (or starting the previous call) and
//     acting, so the call races whatever the manager does at that instant;
//   - the instant of a step can be aimed (plus / minus an offset) at the next
//     receive-timeout expiry, message arrival, dial completion or predicted
//     retry of a target, computed from what the doubles know at run time.
//
// The oracle (overlap_monitor.go) is a per-name monitor that stays sound under
// every interleaving: the Add/Remove results must be linearizable over the
// one-bit state "managed", a callback or new activity for a name is legal only
// if some linearization has the name managed or a Remove of it still running,
// and the session discipline (Connect / Update / Sync / Reset, one live stream
// per name) is checked on the name's events across incarnations.

import (
	"fmt"
	"time"

	"pgregory.net/rapid"
)

// OTarget is one configured target of an overlap scenario.
type OTarget struct {
	Addr     int       `json:"addr"`
	Meta     string    `json:"meta,omitempty"`  // meta["receive_timeout"]; "" = key absent
	Creds    bool      `json:"creds,omitempty"` // target carries a username + password id: the manager asks the CredentialsClient on every attempt
	Attempts []Attempt `json:"attempts,omitempty"`
	Errs     string    `json:"errs,omitempty"` // error values (errKinds) of the attempts made once the script is exhausted
	// Hold names the point at which this target's goroutine is parked until a
	// release step (or the final clean-up) lets it go; the first HoldN
	// occurrences park.
	//   recv    Recv, once its context has ended, does not return
	//   dial    the dial, once its context has ended, does not return
	//   reset   the Reset callback does not return
	//   update  the Update callback does not return
	//   errcb   the ConnectError callback does not return
	Hold  string `json:"hold,omitempty"`
	HoldN int    `json:"hold_n,omitempty"`
}

// OStep is one action of the scenario goroutine.
type OStep struct {
	// When. Aim == "": AfterMs of virtual time after the previous step. Otherwise the
	// instant is OffsetMs away from the next event of kind Aim of target AimTarget
	// as known to the doubles when the step begins (timeout: expiry of the receive
	// timeout of the outstanding Recv; msg: instant the outstanding Recv hands over
	// its next message or terminal error; dial: instant the outstanding dial
	// answers; retry: predicted expiry of the backoff after the last failure);
	// AfterMs is the fallback when there is no such event or it is already past.
	// Virtual time cannot advance while a goroutine waits for the manager's mutex:
	// the step is then taken at the current instant.
	AfterMs   int    `json:"after_ms"`
	Aim       string `json:"aim,omitempty"`
	AimTarget int    `json:"aim_target,omitempty"`
	OffsetMs  int    `json:"offset_ms,omitempty"`
	// Unsettled: do not wait for quiescence before acting (after the sleep, or -
	// without a sleep - after the previous step's action).
	Unsettled bool `json:"unsettled,omitempty"`
	// What: remove | add | reconnect | release | remove-unknown | reconnect-unknown
	Kind   string `json:"kind"`
	Target int    `json:"target"`
}

// OScenario is one case of the overlap part.
type OScenario struct {
	BaseMs        int       `json:"base_ms"`
	MaxMs         int       `json:"max_ms"`
	RecvTimeoutMs int       `json:"recv_timeout_ms,omitempty"`
	NoErrCB       bool      `json:"no_err_cb,omitempty"`
	Targets       []OTarget `json:"targets"`
	Steps         []OStep   `json:"steps,omitempty"`
	TailMs        int       `json:"tail_ms,omitempty"`
}

func (sc *OScenario) retryBound() time.Duration { return ms(sc.MaxMs) }

func (sc *OScenario) effectiveTimeout(i int) time.Duration {
	return effectiveTimeout(&Scenario{RecvTimeoutMs: sc.RecvTimeoutMs}, &Target{Meta: sc.Targets[i].Meta})
}

func (sc *OScenario) validate() error {
	if sc.BaseMs < 1 || sc.MaxMs < sc.BaseMs || sc.MaxMs > 600000 {
		return fmt.Errorf("retry delays out of range: base %d max %d", sc.BaseMs, sc.MaxMs)
	}
	if len(sc.Targets) < 1 || len(sc.Targets) > 3 {
		return fmt.Errorf("want 1-3 targets, have %d", len(sc.Targets))
	}
	if sc.RecvTimeoutMs < 0 || sc.TailMs < 0 || sc.TailMs > 3600000 {
		return fmt.Errorf("negative or excessive duration")
	}
	for i, tg := range sc.Targets {
		if tg.Addr < 0 || tg.Addr >= nAddrs {
			return fmt.Errorf("target %d: address index %d", i, tg.Addr)
		}
		switch tg.Hold {
		case "", "recv", "dial", "reset", "update", "errcb":
		default:
			return fmt.Errorf("target %d: hold %q", i, tg.Hold)
		}
		if tg.HoldN < 0 || tg.HoldN > 16 {
			return fmt.Errorf("target %d: hold_n %d", i, tg.HoldN)
		}
		if len(tg.Attempts) > 64 || scriptLen(tg.Attempts) > maxScriptLen {
			return fmt.Errorf("target %d: too many attempts", i)
		}
		if !validErrKind(tg.Errs) {
			return fmt.Errorf("target %d: error kind %q", i, tg.Errs)
		}
		for j, a := range tg.Attempts {
			switch a.Dial {
			case "ok", "refused", "hang":
			default:
				return fmt.Errorf("target %d attempt %d: dial %q", i, j, a.Dial)
			}
			switch a.Open {
			case "", "open-fail", "send-fail":
			default:
				return fmt.Errorf("target %d attempt %d: open %q", i, j, a.Open)
			}
			switch a.End {
			case "error", "eof", "silence":
			default:
				return fmt.Errorf("target %d attempt %d: end %q", i, j, a.End)
			}
			if a.DialDelayMs < 0 || a.EndDelayMs < 0 || len(a.Msgs) > 64 {
				return fmt.Errorf("target %d attempt %d: bad delay / too many messages", i, j)
			}
			if !validErrKind(a.Errs) || a.Repeat < 0 || a.Repeat > maxScriptLen {
				return fmt.Errorf("target %d attempt %d: error kind %q / repeat %d", i, j, a.Errs, a.Repeat)
			}
			for k, m := range a.Msgs {
				switch m.Kind {
				case "update", "sync", "error", "nil":
				default:
					return fmt.Errorf("target %d attempt %d msg %d: kind %q", i, j, k, m.Kind)
				}
				if m.DelayMs < 0 || m.CostMs != 0 {
					return fmt.Errorf("target %d attempt %d msg %d: negative delay or a callback cost (slow callbacks are holds in this part)", i, j, k)
				}
			}
		}
	}
	if len(sc.Steps) > 64 {
		return fmt.Errorf("too many steps")
	}
	for i, s := range sc.Steps {
		switch s.Kind {
		case "remove", "add", "reconnect", "release", "remove-unknown", "reconnect-unknown":
		default:
			return fmt.Errorf("step %d: kind %q", i, s.Kind)
		}
		switch s.Aim {
		case "", "timeout", "msg", "dial", "retry":
		default:
			return fmt.Errorf("step %d: aim %q", i, s.Aim)
		}
		if s.Target < 0 || s.Target >= len(sc.Targets) || s.AimTarget < 0 || s.AimTarget >= len(sc.Targets) {
			return fmt.Errorf("step %d: target %d / aim target %d", i, s.Target, s.AimTarget)
		}
		if s.AfterMs < 0 || s.AfterMs > 3600000 || s.OffsetMs < -3600000 || s.OffsetMs > 3600000 {
			return fmt.Errorf("step %d: after %d offset %d", i, s.AfterMs, s.OffsetMs)
		}
	}
	return nil
}

// ---------------------------------------------------------------------------
// generator
// ---------------------------------------------------------------------------

var (
	oProfiles   = []delayProfile{{1000, 60000}, {1000, 3000}, {200, 600}, {500, 1500}, {1000, 1000}, {2000, 10000}}
	oRecvTOs    = []int{0, 0, 0, 1000, 2000, 5000}
	oMetas      = []string{"", "", "300ms", "1s", "1s", "1500ms", "4s", "0s"}
	oHolds      = []string{"", "", "recv", "recv", "recv", "reset", "reset", "update", "dial", "errcb"}
	oMsgDelays  = []int{0, 0, 0, 0, 10, 200, 1000, 2500}
	oEndDelays  = []int{0, 0, 10, 500, 1000, 2500}
	oDialDelays = []int{0, 0, 0, 0, 10, 500}
	oMsgKinds   = []string{"update", "update", "update", "sync", "sync", "error", "nil"}
	oEndKinds   = []string{"error", "eof", "silence", "silence", "silence", "silence"}
	oDialKinds  = []string{"ok", "ok", "ok", "ok", "ok", "ok", "ok", "ok", "refused", "hang"}
	oOpenKinds  = []string{"", "", "", "", "", "", "", "", "", "", "", "", "open-fail", "send-fail"}
	oStepKinds  = []string{"remove", "remove", "remove", "remove", "add", "add", "add", "reconnect", "reconnect", "release", "release", "release", "remove-unknown", "reconnect-unknown"}
	oGaps       = []int{0, 0, 0, 0, 1, 10, 100, 500, 1000, 1500, 3000, 10000}
	oAims       = []string{"", "", "", "timeout", "timeout", "timeout", "msg", "dial", "retry", "retry"}
	oOffsets    = []int{0, 0, 0, 0, 0, 0, -1, 1, -10, 10}
	oTails      = []int{0, 0, 5, 11, 25}
	// steps of the "timer race" flavour
	oRaceKinds   = []string{"remove", "remove", "remove", "remove", "reconnect", "add"}
	oRaceAims    = []string{"timeout", "timeout", "timeout", "timeout", "timeout", "retry", "retry", "msg", "dial"}
	oRaceOffsets = []int{0, 0, 0, 0, 0, 0, -1, 1}
)

func genOAttempt(t *rapid.T) Attempt {
	a := Attempt{Dial: rapid.SampledFrom(oDialKinds).Draw(t, "dial")}
	a.Errs = rapid.SampledFrom(errKindsGen).Draw(t, "errs")
	if a.Dial != "hang" {
		a.DialDelayMs = rapid.SampledFrom(oDialDelays).Draw(t, "dial-delay")
	}
	a.End = "error"
	if a.Dial != "ok" {
		return a
	}
	a.Open = rapid.SampledFrom(oOpenKinds).Draw(t, "open")
	if a.Open != "" {
		return a
	}
	a.Msgs = rapid.SliceOfN(rapid.Custom(func(t *rapid.T) Msg {
		return Msg{Kind: rapid.SampledFrom(oMsgKinds).Draw(t, "kind"), DelayMs: rapid.SampledFrom(oMsgDelays).Draw(t, "delay")}
	}), 0, 4).Draw(t, "msgs")
	a.End = rapid.SampledFrom(oEndKinds).Draw(t, "end")
	if a.End != "silence" {
		a.EndDelayMs = rapid.SampledFrom(oEndDelays).Draw(t, "end-delay")
	}
	return a
}

func genOverlap(t *rapid.T) *OScenario {
	sc := &OScenario{}
	p := rapid.SampledFrom(oProfiles).Draw(t, "delays")
	sc.BaseMs, sc.MaxMs = p.base, p.max
	sc.RecvTimeoutMs = rapid.SampledFrom(oRecvTOs).Draw(t, "recv-timeout")
	sc.NoErrCB = rapid.IntRange(0, 9).Draw(t, "no-err-cb") == 9
	n := rapid.IntRange(1, 3).Draw(t, "targets")
	for i := 0; i < n; i++ {
		tg := OTarget{}
		tg.Addr = rapid.IntRange(0, n-1).Draw(t, "addr")
		tg.Meta = rapid.SampledFrom(oMetas).Draw(t, "meta")
		tg.Creds = rapid.IntRange(0, 3).Draw(t, "creds") == 3
		tg.Attempts = rapid.SliceOfN(rapid.Custom(genOAttempt), 0, 4).Draw(t, "attempts")
		tg.Errs = rapid.SampledFrom(errKindsGen).Draw(t, "errs")
		tg.Hold = rapid.SampledFrom(oHolds).Draw(t, "hold")
		if tg.Hold != "" {
			tg.HoldN = rapid.IntRange(1, 3).Draw(t, "hold-n")
		}
		sc.Targets = append(sc.Targets, tg)
	}
	prev := 0
	sc.Steps = rapid.SliceOfN(rapid.Custom(func(t *rapid.T) OStep {
		s := OStep{}
		// stay on the previous step's target more often than not: overlapping calls
		// on ONE name are the interesting ones
		if rapid.IntRange(0, 9).Draw(t, "same-target") < 6 {
			s.Target = prev % n
		} else {
			s.Target = rapid.IntRange(0, n-1).Draw(t, "target")
		}
		prev = s.Target
		s.AfterMs = rapid.SampledFrom(oGaps).Draw(t, "after")
		if rapid.IntRange(0, 9).Draw(t, "timer-race") < 4 {
			// a call racing one of the manager's own timers for the same target
			s.Kind = rapid.SampledFrom(oRaceKinds).Draw(t, "kind")
			s.Aim = rapid.SampledFrom(oRaceAims).Draw(t, "aim")
			s.AimTarget = s.Target
			s.OffsetMs = rapid.SampledFrom(oRaceOffsets).Draw(t, "offset")
			s.Unsettled = rapid.IntRange(0, 9).Draw(t, "unsettled") < 9
			return s
		}
		s.Kind = rapid.SampledFrom(oStepKinds).Draw(t, "kind")
		s.Aim = rapid.SampledFrom(oAims).Draw(t, "aim")
		if s.Aim != "" {
			if rapid.IntRange(0, 3).Draw(t, "aim-own") < 3 {
				s.AimTarget = s.Target
			} else {
				s.AimTarget = rapid.IntRange(0, n-1).Draw(t, "aim-target")
			}
			s.OffsetMs = rapid.SampledFrom(oOffsets).Draw(t, "offset")
		}
		s.Unsettled = rapid.IntRange(0, 9).Draw(t, "unsettled") < 6
		return s
	}), 1, 8).Draw(t, "steps")
	sc.TailMs = rapid.SampledFrom(oTails).Draw(t, "tail") * sc.MaxMs / 10
	return sc
}
