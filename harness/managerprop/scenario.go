// Package managerprop decides property C13 (target manager: strict per-target
// session discipline; silence after Remove).
//
// A scenario is plain data: retry parameters, 1-3 targets each with a script
// of connection attempts (outcome, timing, and the shape of the error values
// the doubles report: plain, wrapped, or carrying a gRPC status as a real
// transport does), and a list of external events (Remove, Reconnect, Add) at
// generated virtual instants. The long part (long_scenario.go) generates the
// same data for targets that fail for hours and for retry delays of up to 2 h. It is executed against the real
// manager.Manager inside a testing/synctest bubble with an in-memory
// ConnectionManager and an in-memory Subscribe stream (installed through the
// verif-tagged hook manager.VerifSetSubscribeClient); everything the manager
// does to its collaborators and every callback it makes is appended to one
// totally ordered trace, which judge() (monitor.go) then checks clause by
// clause against the property statement.
package managerprop

import (
	"fmt"
	"time"

	"pgregory.net/rapid"
)

// Msg is one scripted SubscribeResponse.
type Msg struct {
	Kind    string `json:"kind"`               // update | sync | error | nil
	DelayMs int    `json:"delay_ms,omitempty"` // silence on the stream before Recv hands the message over
	CostMs  int    `json:"cost_ms,omitempty"`  // virtual time the Update callback takes (slow consumer); update only
}

// Attempt is the scripted outcome of one connection attempt (one call of
// ConnectionManager.Connection and, if that succeeds, one stream).
type Attempt struct {
	Dial        string `json:"dial"`                    // ok | refused | hang (blocks until its context ends)
	DialDelayMs int    `json:"dial_delay_ms,omitempty"` // time the dial takes before it answers (ok/refused)
	Open        string `json:"open,omitempty"`          // "" | open-fail (stream constructor fails) | send-fail (Send of the request fails)
	Msgs        []Msg  `json:"msgs,omitempty"`
	End         string `json:"end"`                    // error | eof | silence (Recv blocks until its context ends)
	EndDelayMs  int    `json:"end_delay_ms,omitempty"` // silence before the terminal error / EOF
	// Errs is the shape of the error VALUES the attempt's dial, stream constructor,
	// Send and Recv return when they are cancelled or scripted to fail (errKinds,
	// shapeErr in run.go): plain Go errors, errors carrying a gRPC status the way a
	// real transport reports them, and wrapped ones.
	Errs string `json:"errs,omitempty"`
	// Repeat: the attempt is scripted Repeat more times in a row (long failing
	// streaks stay short data and shrink to a number).
	Repeat int `json:"repeat,omitempty"`
}

// errKinds are the values of Attempt.Errs / Target.Errs.
//
//	""              plain Go errors: ctx.Err() on cancellation, errors.New for scripted failures
//	wrapped         the same, wrapped with %w
//	grpc            what a real gRPC client returns: a cancelled or expired context as status Canceled /
//	                DeadlineExceeded ("rpc error: code = Canceled desc = context canceled"), a scripted
//	                failure as status Unavailable
//	grpc-wrapped    the same, wrapped with %w (status.Code sees through the wrapping)
//	grpc-canceled   every failure, scripted ones too, carries status Canceled (a proxy relaying a cancellation)
//	grpc-deadline   every failure carries status DeadlineExceeded
//	grpc-unimplemented, grpc-denied, grpc-unauthenticated, grpc-notfound, grpc-invalid
//	                every failure carries a status a client might take for permanent (the device
//	                does not serve Subscribe yet, refuses the credentials, ...): a managed target is
//	                retried all the same, for as long as it is managed
//
// A clean end of stream is always the bare io.EOF, as with gRPC.
var errKinds = []string{"", "wrapped", "grpc", "grpc-wrapped", "grpc-canceled", "grpc-deadline", "grpc-unimplemented", "grpc-denied", "grpc-unauthenticated", "grpc-notfound", "grpc-invalid"}

func validErrKind(k string) bool {
	for _, e := range errKinds {
		if e == k {
			return true
		}
	}
	return false
}

// maxScriptLen bounds the attempts a script covers once repeats are expanded
// (identities of update notifications encode the attempt number below 1000).
const maxScriptLen = 900

// scriptLen is the number of attempts the script covers (repeats expanded).
func scriptLen(atts []Attempt) int {
	n := 0
	for i := range atts {
		n += 1 + atts[i].Repeat
	}
	return n
}

// scriptAt is the scripted outcome of attempt number n (repeats expanded).
func scriptAt(atts []Attempt, n int) (Attempt, bool) {
	if n < 0 {
		return Attempt{}, false
	}
	for i := range atts {
		if n <= atts[i].Repeat {
			return atts[i], true
		}
		n -= 1 + atts[i].Repeat
	}
	return Attempt{}, false
}

// Target is one configured target.
type Target struct {
	Addr     int       `json:"addr"`           // index of its (single) address; equal indices share an address
	Meta     string    `json:"meta,omitempty"` // value of meta["receive_timeout"]; "" = key absent
	Attempts []Attempt `json:"attempts,omitempty"`
	Errs     string    `json:"errs,omitempty"` // error values (errKinds) of the attempts made once the script is exhausted
	// Late (part real only): the target is not added at the start; its first "add"
	// event adds it (an Add landing while another target's dial to the shared
	// address is pending).
	Late bool `json:"late,omitempty"`
	// The rest of the target's configuration (config.go lists what the manager does
	// with each field of *tpb.Target).
	Hops       int        `json:"hops,omitempty"`        // further hops behind the next hop of the first address line
	More       []AddrLine `json:"more,omitempty"`        // further address lines (part real: possibly other next hops)
	Dialer     int        `json:"dialer,omitempty"`      // 0 = default dialer, k = k-th named dialer, -1 = a name no dialer is registered under
	Cred       string     `json:"cred,omitempty"`        // credKinds
	CredSteps  []string   `json:"cred_steps,omitempty"`  // outcomes of the credentials lookups (Cred == "id"): ok | fail | empty; ok afterwards
	MetaKeys   []string   `json:"meta_keys,omitempty"`   // further keys of Target.meta (metaKeyPool)
	SameAs     int        `json:"same_as,omitempty"`     // 1 + index of an earlier target whose *tpb.Target OBJECT this target is added with
	FreshProto bool       `json:"fresh_proto,omitempty"` // every Add gets a copy of the object instead of the object again
}

// Event is one external call made by the harness goroutine.
//
//	remove            Remove(target)      (refused iff the target is not managed at that moment)
//	reconnect         Reconnect(target)
//	add               Add(target)         (refused iff the target is managed at that moment; otherwise a re-add)
//	remove-unknown    Remove("ghost")     (a name that is never added)
//	reconnect-unknown Reconnect("ghost")
type Event struct {
	AfterMs int    `json:"after_ms"` // virtual time since the previous event (since the initial Adds for the first)
	Kind    string `json:"kind"`
	Target  int    `json:"target"`
}

// Scenario is one case.
type Scenario struct {
	BaseMs        int      `json:"base_ms"`                   // manager.RetryBaseDelay
	MaxMs         int      `json:"max_ms"`                    // manager.RetryMaxDelay
	RandPct       int      `json:"rand_pct,omitempty"`        // manager.RetryRandomization * 100
	Seed          int64    `json:"seed,omitempty"`            // seed of the global math/rand source (jitter), used iff RandPct != 0
	RecvTimeoutMs int      `json:"recv_timeout_ms,omitempty"` // Config.ReceiveTimeout
	DialTimeoutMs int      `json:"dial_timeout_ms,omitempty"` // Config.Timeout
	NoErrCB       bool     `json:"no_err_cb,omitempty"`       // leave Config.ConnectError and Config.MonitorError nil (the collector leaves MonitorError nil)
	TmplPrefix    bool     `json:"tmpl_prefix,omitempty"`     // the shared request template already carries a prefix (with a foreign target)
	Targets       []Target `json:"targets"`
	Events        []Event  `json:"events,omitempty"`
	TailMs        int      `json:"tail_ms,omitempty"` // virtual time between the last event and the final Removes
	// Real (part real, real_scenario.go): the manager runs over the real
	// connection.Manager whose dial functions follow Dials[address index] (the
	// k-th dial to an address behaves as the k-th step; ok at once afterwards).
	Real  bool         `json:"real,omitempty"`
	Dials [][]DialStep `json:"dials,omitempty"`
	// NamedDials[k-1][address index]: the script of the k-th NAMED dialer (part
	// real; len = number of named dialers registered with the connection manager).
	NamedDials [][][]DialStep `json:"named_dials,omitempty"`
	// NoCredClient: Config.Credentials stays nil (targets with a password id then fail every attempt).
	NoCredClient bool `json:"no_cred_client,omitempty"`
}

const ghost = "ghost"

// maxDelayMs bounds every configured or generated duration of a scenario
// (virtual time is free; the bound only keeps the arithmetic far from overflow).
const maxDelayMs = 24 * 3600 * 1000

func tname(i int) string { return fmt.Sprintf("t%d", i) }

func ms(n int) time.Duration { return time.Duration(n) * time.Millisecond }

// validate bounds a (replayed) scenario; generated ones satisfy it by construction.
func (sc *Scenario) validate() error {
	if sc.BaseMs < 1 || sc.MaxMs < sc.BaseMs || sc.MaxMs > maxDelayMs {
		return fmt.Errorf("retry delays out of range: base %d max %d", sc.BaseMs, sc.MaxMs)
	}
	if sc.RandPct < 0 || sc.RandPct > 90 {
		return fmt.Errorf("randomization out of range: %d", sc.RandPct)
	}
	if len(sc.Targets) < 1 || len(sc.Targets) > 3 {
		return fmt.Errorf("want 1-3 targets, have %d", len(sc.Targets))
	}
	if sc.RecvTimeoutMs < 0 || sc.DialTimeoutMs < 0 || sc.TailMs < 0 || sc.TailMs > 7*maxDelayMs {
		return fmt.Errorf("negative or excessive duration")
	}
	for i, tg := range sc.Targets {
		if tg.Addr < 0 || tg.Addr >= nAddrs {
			return fmt.Errorf("target %d: address index %d", i, tg.Addr)
		}
		if len(tg.Attempts) > 64 {
			return fmt.Errorf("target %d: too many attempts", i)
		}
		if !validErrKind(tg.Errs) {
			return fmt.Errorf("target %d: error kind %q", i, tg.Errs)
		}
		for j, a := range tg.Attempts {
			switch a.Dial {
			case "ok", "refused", "hang":
			default:
				return fmt.Errorf("target %d attempt %d: dial %q", i, j, a.Dial)
			}
			switch a.Open {
			case "", "open-fail", "send-fail":
			default:
				return fmt.Errorf("target %d attempt %d: open %q", i, j, a.Open)
			}
			switch a.End {
			case "error", "eof", "silence":
			default:
				return fmt.Errorf("target %d attempt %d: end %q", i, j, a.End)
			}
			if a.DialDelayMs < 0 || a.EndDelayMs < 0 || len(a.Msgs) > 64 {
				return fmt.Errorf("target %d attempt %d: bad delay / too many messages", i, j)
			}
			if !validErrKind(a.Errs) {
				return fmt.Errorf("target %d attempt %d: error kind %q", i, j, a.Errs)
			}
			if a.Repeat < 0 || a.Repeat > maxScriptLen {
				return fmt.Errorf("target %d attempt %d: repeat %d", i, j, a.Repeat)
			}
			for k, m := range a.Msgs {
				switch m.Kind {
				case "update", "sync", "error", "nil":
				default:
					return fmt.Errorf("target %d attempt %d msg %d: kind %q", i, j, k, m.Kind)
				}
				if m.DelayMs < 0 || m.CostMs < 0 {
					return fmt.Errorf("target %d attempt %d msg %d: negative duration", i, j, k)
				}
			}
		}
		if scriptLen(tg.Attempts) > maxScriptLen {
			return fmt.Errorf("target %d: the script covers %d attempts (> %d)", i, scriptLen(tg.Attempts), maxScriptLen)
		}
	}
	if verr := sc.validateConfig(); verr != nil {
		return verr
	}
	if verr := sc.validateReal(); verr != nil {
		return verr
	}
	if sc.anyRecvTimeout() && sc.anySlowCallback() {
		// Remove holds the manager-wide mutex while it waits for the target's
		// goroutine. If that goroutine is inside a slow Update callback and the
		// receive-timeout goroutine of any target meanwhile calls Reconnect, the
		// latter waits on the mutex; synctest does not treat a mutex wait as
		// durable, so virtual time could not advance and the case would hang for
		// real (in production it merely waits). The two features are therefore
		// never combined.
		return fmt.Errorf("slow Update callbacks cannot be combined with receive timeouts under virtual time")
	}
	if len(sc.Events) > 64 {
		return fmt.Errorf("too many events")
	}
	for i, e := range sc.Events {
		switch e.Kind {
		case "remove", "reconnect", "add", "remove-unknown", "reconnect-unknown":
		default:
			return fmt.Errorf("event %d: kind %q", i, e.Kind)
		}
		if e.Target < 0 || e.Target >= len(sc.Targets) || e.AfterMs < 0 || e.AfterMs > maxDelayMs {
			return fmt.Errorf("event %d: target %d after %d", i, e.Target, e.AfterMs)
		}
	}
	return nil
}

func (sc *Scenario) anyRecvTimeout() bool {
	if sc.RecvTimeoutMs > 0 {
		return true
	}
	for i := range sc.Targets {
		if d, err := time.ParseDuration(sc.Targets[i].Meta); err == nil && d > 0 {
			return true
		}
	}
	return false
}

func (sc *Scenario) anySlowCallback() bool {
	for i := range sc.Targets {
		for _, a := range sc.Targets[i].Attempts {
			for _, m := range a.Msgs {
				if m.CostMs > 0 {
					return true
				}
			}
		}
	}
	return false
}

// ---------------------------------------------------------------------------
// generators
//
// Durations are drawn from residue classes that keep timers which would race
// inside the code under test apart, so that a case is deterministic:
//   message / terminal / dial delays and callback costs   = 0 mod 10 ms
//   receive timeouts (global and per-target meta)          = 3 mod 10 ms
//   dial timeout                                           = 1 mod 10 ms
// (the oracle does not rely on this: every clause holds for either order of
// two timers that fire at the same instant). External events may fall on any
// millisecond: the harness sleeps, waits for quiescence and only then acts, so
// everything due at that instant has happened before the event.
// ---------------------------------------------------------------------------

type delayProfile struct{ base, max int }

var delayProfiles = []delayProfile{
	{1000, 60000}, {1000, 60000}, {1000, 60000}, // production values
	{1000, 3000}, {500, 1500}, {100, 1000}, {2000, 10000}, {1000, 1000},
	{1200000, 7200000}, {3600000, 3600000}, // an operator's slow retry: 20 min growing to 2 h; a constant hour
}

var (
	msgDelays   = []int{0, 0, 0, 0, 0, 10, 200, 1000, 2500, 7000}
	endDelays   = []int{0, 0, 0, 10, 500, 1000, 2500, 8000, 130000}
	dialDelays  = []int{0, 0, 0, 0, 10, 500, 3000}
	costs       = []int{0, 0, 0, 0, 0, 0, 500, 2000, 5000}
	recvTOs     = []int{0, 0, 0, 1003, 2003, 5003, 30003}
	dialTOs     = []int{0, 0, 0, 2001, 10001}
	metas       = []string{"", "", "", "", "1503ms", "4003ms", "bogus", "0s"}
	eventGaps   = []int{0, 1, 7, 50, 333, 999, 1000, 1001, 1500, 2400, 3003, 5000, 9000, 20000, 61000, 125000}
	eventKinds  = []string{"remove", "remove", "remove", "reconnect", "reconnect", "reconnect", "reconnect", "add", "add", "remove-unknown", "reconnect-unknown"}
	dialKinds   = []string{"ok", "ok", "ok", "ok", "ok", "ok", "ok", "refused", "refused", "hang"}
	openKinds   = []string{"", "", "", "", "", "", "", "", "", "", "", "open-fail", "send-fail"}
	msgKinds    = []string{"update", "update", "update", "update", "update", "sync", "sync", "error", "nil"}
	endKinds    = []string{"error", "error", "error", "eof", "eof", "silence", "silence", "silence"}
	randPcts    = []int{0, 0, 0, 0, 0, 0, 0, 0, 50, 20}
	tailFactors = []int{0, 0, 1, 5, 11, 11, 25, 25, 35} // tenths of the retry bound
	// error values: plain ones as often as the shapes a gRPC transport produces
	errKindsGen = []string{"", "", "", "", "wrapped", "grpc", "grpc", "grpc", "grpc-wrapped", "grpc-canceled", "grpc-deadline", "grpc-unimplemented", "grpc-denied", "grpc-unauthenticated", "grpc-notfound", "grpc-invalid"}
)

func genMsg(t *rapid.T) Msg {
	m := Msg{Kind: rapid.SampledFrom(msgKinds).Draw(t, "kind")}
	m.DelayMs = rapid.SampledFrom(msgDelays).Draw(t, "delay")
	if m.Kind == "update" {
		m.CostMs = rapid.SampledFrom(costs).Draw(t, "cost")
	}
	return m
}

func genAttempt(t *rapid.T) Attempt {
	a := Attempt{Dial: rapid.SampledFrom(dialKinds).Draw(t, "dial")}
	a.Errs = rapid.SampledFrom(errKindsGen).Draw(t, "errs")
	if a.Dial != "hang" {
		a.DialDelayMs = rapid.SampledFrom(dialDelays).Draw(t, "dial-delay")
	}
	a.End = "error"
	if a.Dial != "ok" {
		return a
	}
	a.Open = rapid.SampledFrom(openKinds).Draw(t, "open")
	if a.Open != "" {
		return a
	}
	a.Msgs = rapid.SliceOfN(rapid.Custom(genMsg), 0, 5).Draw(t, "msgs")
	a.End = rapid.SampledFrom(endKinds).Draw(t, "end")
	if a.End != "silence" {
		a.EndDelayMs = rapid.SampledFrom(endDelays).Draw(t, "end-delay")
	}
	return a
}

func genScenario(t *rapid.T) *Scenario {
	sc := &Scenario{}
	p := rapid.SampledFrom(delayProfiles).Draw(t, "delays")
	sc.BaseMs, sc.MaxMs = p.base, p.max
	sc.RandPct = rapid.SampledFrom(randPcts).Draw(t, "rand")
	if sc.RandPct != 0 {
		sc.Seed = rapid.Int64Range(1, 1<<30).Draw(t, "seed")
	}
	sc.RecvTimeoutMs = rapid.SampledFrom(recvTOs).Draw(t, "recv-timeout")
	sc.DialTimeoutMs = rapid.SampledFrom(dialTOs).Draw(t, "dial-timeout")
	sc.NoErrCB = rapid.IntRange(0, 5).Draw(t, "no-err-cb") == 5
	sc.TmplPrefix = rapid.Bool().Draw(t, "tmpl-prefix")
	n := rapid.IntRange(1, 3).Draw(t, "targets")
	for i := 0; i < n; i++ {
		tg := Target{}
		tg.Addr = rapid.IntRange(0, n-1).Draw(t, "addr")
		tg.Meta = rapid.SampledFrom(metas).Draw(t, "meta")
		tg.Attempts = rapid.SliceOfN(rapid.Custom(genAttempt), 0, 6).Draw(t, "attempts")
		tg.Errs = rapid.SampledFrom(errKindsGen).Draw(t, "errs")
		// the configuration dimension (config.go); the ConnectionManager double does
		// not dial, the dialer name is only checked to arrive
		if !genSameAs(t, sc, &tg, i) {
			tg.Dialer = rapid.SampledFrom([]int{0, 0, 0, 1, 2, unregisteredDialer}).Draw(t, "dialer")
			genConfig(t, sc, &tg, i, false)
		}
		sc.Targets = append(sc.Targets, tg)
	}
	sc.NoCredClient = rapid.IntRange(0, 19).Draw(t, "no-cred-client") == 0
	sc.Events = rapid.SliceOfN(rapid.Custom(func(t *rapid.T) Event {
		return Event{
			AfterMs: rapid.SampledFrom(eventGaps).Draw(t, "after"),
			Kind:    rapid.SampledFrom(eventKinds).Draw(t, "kind"),
			Target:  rapid.IntRange(0, n-1).Draw(t, "target"),
		}
	}), 0, 7).Draw(t, "events")
	if sc.anyRecvTimeout() {
		// see validate: slow callbacks only in scenarios without receive timeouts
		for i := range sc.Targets {
			for j := range sc.Targets[i].Attempts {
				for k := range sc.Targets[i].Attempts[j].Msgs {
					sc.Targets[i].Attempts[j].Msgs[k].CostMs = 0
				}
			}
		}
	}
	bound := sc.MaxMs * (100 + sc.RandPct) / 100
	sc.TailMs = rapid.SampledFrom(tailFactors).Draw(t, "tail") * bound / 10
	return sc
}
