//go:debug randseednop=0

package managerprop

import (
	"encoding/json"
	"flag"
	"fmt"
	"os"
	"testing"

	"pgregory.net/rapid"
	"verif/harness/internal/vstat"
)

func TestMain(m *testing.M) {
	flag.Parse()
	// The manager logs every attempt through glog. Keep that out of stderr and
	// out of /tmp unless the driver chose a place.
	tmp := ""
	if f := flag.Lookup("log_dir"); f != nil && f.Value.String() == "" {
		if d, err := os.MkdirTemp("", "managerprop-glog-"); err == nil {
			tmp = d
			flag.Set("log_dir", d)
			flag.Set("stderrthreshold", "FATAL")
		}
	}
	// The manager logs an ERROR line per failed attempt; glog would flush and
	// fsync the files on each of them.
	if f := flag.Lookup("logbuflevel"); f != nil {
		flag.Set("logbuflevel", "3")
	}
	// rand.Seed must keep seeding the global source (jittered cases): belt and
	// braces next to the go:debug directive above.
	if v := os.Getenv("GODEBUG"); v == "" {
		os.Setenv("GODEBUG", "randseednop=0")
	} else {
		os.Setenv("GODEBUG", v+",randseednop=0")
	}
	code := m.Run()
	if tmp != "" {
		os.RemoveAll(tmp)
	}
	os.Exit(code)
}

// classPredicates are the class predicates of open findings (known_findings.json,
// status "open", property C13) this engine knows how to exclude from the random
// search: class name -> "the scenario belongs to the class". There is none at
// the moment; the machinery is generic so that listing a finding needs no new
// plumbing.
var classPredicates = map[string]func(*Scenario) bool{}

// excludedClass returns the open-finding class sc belongs to, if any.
func excludedClass(sc *Scenario, open map[string]vstat.Finding) string {
	for class := range open {
		if p := classPredicates[class]; p != nil && p(sc) {
			return class
		}
	}
	return ""
}

// probeKnown runs the recorded input of every open finding first and reports
// the ones that still fail.
func probeKnown(t *testing.T, rec *vstat.Recorder, open map[string]vstat.Finding) {
	for class, f := range open {
		if classPredicates[class] == nil {
			rec.Note("open finding %s (class %q) has no class predicate in managerprop: nothing is excluded for it", f.ID, class)
		}
		if len(f.Input) == 0 {
			continue
		}
		var sc Scenario
		if err := json.Unmarshal(f.Input, &sc); err != nil || len(sc.Targets) == 0 {
			// the input may be a whole replay file
			var rf vstat.ReplayFile
			if json.Unmarshal(f.Input, &rf) != nil || json.Unmarshal(rf.Scenario, &sc) != nil || len(sc.Targets) == 0 {
				rec.Note("open finding %s: recorded input is not a managerprop scenario", f.ID)
				continue
			}
		}
		if _, err := runScenario(t, &sc); err != nil {
			line := fmt.Sprintf("KNOWN-FINDING: property=C13 %s", f.What)
			rec.KnownFinding(line)
			fmt.Println(line)
		} else {
			rec.Note("open finding %s no longer reproduces on its recorded input", f.ID)
		}
	}
}

// TestC13Random: generated scenarios, each in its own synctest bubble.
func TestC13Random(t *testing.T) {
	if !vstat.Enabled("C13") {
		t.Skip()
	}
	rec := vstat.New("C13", "random")
	open := vstat.OpenClasses("C13")
	probeKnown(t, rec, open)
	rec.RunRapid(t, func(rt *rapid.T) {
		sc := genScenario(rt)
		if class := excludedClass(sc, open); class != "" {
			rec.Excluded(class)
			return
		}
		rec.Current(sc)
		st, err := runScenario(t, sc)
		rec.Case(sc, st.nontrivial(), st.labelList()...)
		if err != nil {
			rt.Fatalf("%s", rec.Fail(sc, classOf(err), "%v", err))
		}
	})
}

// TestReplay re-runs a saved scenario without the library.
func TestReplay(t *testing.T) {
	rf, ok, err := vstat.LoadReplay()
	if !ok {
		t.Skip()
	}
	if err != nil {
		t.Fatal(err)
	}
	rec := vstat.New(rf.Property, "replay")
	defer rec.Flush(true)
	msg := replayOne(t, rf)
	if msg != "" {
		rec.AddViolation(json.RawMessage(rf.Scenario), rf.Kind, rf.Class, "%s", msg)
		fmt.Println("REPLAY-FAIL:", msg)
		t.Fail()
		return
	}
	rec.Case(json.RawMessage(rf.Scenario), false, "replayed")
	fmt.Println("REPLAY-OK")
}

func replayOne(t *testing.T, rf *vstat.ReplayFile) string {
	if rf.Part == "overlap" {
		return replayOverlap(t, rf.Scenario)
	}
	var sc Scenario
	if err := json.Unmarshal(rf.Scenario, &sc); err != nil {
		return "bad scenario: " + err.Error()
	}
	if _, err := runScenario(t, &sc); err != nil {
		return err.Error()
	}
	return ""
}
