package managerprop

// The target configuration as a generated dimension: every field of
// *tpb.Target (proto/target) that the manager reads or passes on.
//
// What manager/manager.go and manager/meta.go do with a *tpb.Target:
//
//	addresses    Add refuses an empty list. createConn takes the FIRST element of
//	             every address line ("next;hop;hop", separator manager.AddrSeparator)
//	             as a next hop, de-duplicates them and asks the ConnectionManager for
//	             each in turn (map order) until one Connection call succeeds: one
//	             attempt may make several Connection calls. gRPCMeta puts the rest of
//	             the first chain into the outgoing metadata key "address" and the rest
//	             of every chain into "addresses".
//	dialer       handed unchanged to ConnectionManager.Connection(ctx, nextHop, dialer);
//	             connection.Manager picks the dial function registered under that name
//	             (connection.NewManagerCustom; "" = connection.DEFAULT) and fails the
//	             attempt with "no such dialer" when there is none.
//	credentials  username + password: outgoing metadata "username"/"password";
//	             username + password_id: Config.Credentials.Lookup(ctx, id) at the start
//	             of EVERY attempt - a failing lookup, a nil Config.Credentials, or a
//	             username with neither fail the attempt before anything is dialled.
//	meta         "receive_timeout" (parsable duration) overrides Config.ReceiveTimeout for
//	             the target - the only key manager.go interprets; every key is copied
//	             into the outgoing metadata unless gRPCMeta generated that key itself
//	             ("target", "username", "password", "address", "addresses").
//	request      not read by the manager (the caller resolves it into the
//	             SubscribeRequest it hands to Add).
//
// The object itself is kept by reference (target.t) and read again on every
// attempt; callers re-use one object for a later Add of the same name and may
// hand one object to Adds of different names.

import (
	"context"
	"errors"
	"fmt"
	"strings"

	"google.golang.org/protobuf/proto"
	"pgregory.net/rapid"

	"github.com/openconfig/gnmi/connection"
	tpb "github.com/openconfig/gnmi/proto/target"
)

// AddrLine is one further entry of Target.addresses.
type AddrLine struct {
	Addr int `json:"addr"`           // index of the next hop (first element of the line)
	Hops int `json:"hops,omitempty"` // number of further hops behind it
}

// Dialer indices: 0 = Target.dialer left empty (connection.DEFAULT), k > 0 = the
// k-th named dialer, unregisteredDialer = a name no dial function is registered under.
const (
	unregisteredDialer = -1
	maxNamedDialers    = 2
)

var namedDialers = [maxNamedDialers]string{"oob", "tunnel"}

func dialerName(k int) string {
	switch {
	case k == 0:
		return connection.DEFAULT
	case k > 0 && k <= maxNamedDialers:
		return namedDialers[k-1]
	}
	return "nosuch"
}

func dialerIndex(name string) (int, bool) {
	if name == connection.DEFAULT {
		return 0, true
	}
	for i, n := range namedDialers {
		if n == name {
			return i + 1, true
		}
	}
	return unregisteredDialer, name == dialerName(unregisteredDialer)
}

func dialerClass(k int) string {
	switch {
	case k == 0:
		return "default"
	case k > 0:
		return "named"
	}
	return "unregistered"
}

// Credentials kinds (Target.Cred).
//
//	""        no credentials
//	inline    username + password
//	id        username + password_id: Config.Credentials.Lookup at the start of every attempt, outcomes
//	          scripted by Target.CredSteps (ok | fail | empty = an empty password; ok once exhausted)
//	broken    username without password or password_id: every attempt fails before anything is dialled
var credKinds = []string{"", "inline", "id", "broken"}

// metaKeyPool are the further keys of Target.meta a scenario may set (besides
// receive_timeout, which is Target.Meta): keys the manager merely passes on,
// keys colliding with the ones it generates itself, and an upper-case one
// (metadata keys are lower-cased when set).
var metaKeyPool = []string{"region", "vendor-x", "Rack", "target", "username", "password", "address", "addresses"}

func metaKeyCollides(k string) bool {
	switch k {
	case "target", "username", "password", "address", "addresses":
		return true
	}
	return false
}

func validMetaKey(k string) bool {
	for _, p := range metaKeyPool {
		if p == k {
			return true
		}
	}
	return false
}

func addrLine(addr, hops int) string {
	s := addrOf(addr)
	for h := 1; h <= hops; h++ {
		s += fmt.Sprintf(";hop%d.addr%d:9339", h, addr)
	}
	return s
}

// nextHops are the distinct address indices the target's lines start with, in order of first appearance.
func (tg *Target) nextHops() []int {
	out := []int{tg.Addr}
	for _, l := range tg.More {
		dup := false
		for _, a := range out {
			dup = dup || a == l.Addr
		}
		if !dup {
			out = append(out, l.Addr)
		}
	}
	return out
}

func (tg *Target) names(addr int) bool {
	for _, a := range tg.nextHops() {
		if a == addr {
			return true
		}
	}
	return false
}

// credVisible: every attempt of the target begins with an event the harness
// sees (the credentials lookup or the Connection call). It does not when the
// credentials are unusable: such an attempt fails inside the manager.
func (sc *Scenario) credVisible(tg *Target) bool {
	switch tg.Cred {
	case "broken":
		return false
	case "id":
		return !sc.NoCredClient
	}
	return true
}

// buildProto is the *tpb.Target the target is added with.
func buildProto(name string, tg *Target) *tpb.Target {
	p := &tpb.Target{Addresses: []string{addrLine(tg.Addr, tg.Hops)}}
	for _, l := range tg.More {
		p.Addresses = append(p.Addresses, addrLine(l.Addr, l.Hops))
	}
	if tg.Dialer != 0 {
		p.Dialer = dialerName(tg.Dialer)
	}
	switch tg.Cred {
	case "inline":
		p.Credentials = &tpb.Credentials{Username: "user-" + name, Password: "secret-" + name}
	case "id":
		// the password id is the target's name, which is how a lookup is attributed
		p.Credentials = &tpb.Credentials{Username: "user-" + name, PasswordId: name}
	case "broken":
		p.Credentials = &tpb.Credentials{Username: "user-" + name}
	}
	if tg.Meta != "" || len(tg.MetaKeys) > 0 {
		p.Meta = map[string]string{}
		if tg.Meta != "" {
			p.Meta["receive_timeout"] = tg.Meta
		}
		for _, k := range tg.MetaKeys {
			p.Meta[k] = "meta-" + strings.ToLower(k) + "-of-" + name
		}
	}
	return p
}

// buildProtos: one object per target, except that a target with SameAs set is
// added with the very object of the earlier target it names.
func (sc *Scenario) buildProtos() []*tpb.Target {
	protos := make([]*tpb.Target, len(sc.Targets))
	for i := range sc.Targets {
		if j := sc.Targets[i].SameAs - 1; j >= 0 && j < i {
			protos[i] = protos[j]
			continue
		}
		protos[i] = buildProto(tname(i), &sc.Targets[i])
	}
	return protos
}

// protoForAdd is what one Add call hands over: the target's object again, or - FreshProto - a copy of it.
func (sc *Scenario) protoForAdd(protos []*tpb.Target, i int) *tpb.Target {
	if sc.Targets[i].FreshProto {
		return proto.Clone(protos[i]).(*tpb.Target)
	}
	return protos[i]
}

// sameConfig: the fields that end up in the *tpb.Target are equal.
func sameConfig(a, b *Target) bool {
	if a.Addr != b.Addr || a.Hops != b.Hops || a.Dialer != b.Dialer || a.Cred != b.Cred || a.Meta != b.Meta ||
		len(a.More) != len(b.More) || len(a.MetaKeys) != len(b.MetaKeys) {
		return false
	}
	for i := range a.More {
		if a.More[i] != b.More[i] {
			return false
		}
	}
	for i := range a.MetaKeys {
		if a.MetaKeys[i] != b.MetaKeys[i] {
			return false
		}
	}
	return true
}

// validateConfig bounds the configuration fields of a (replayed) scenario.
func (sc *Scenario) validateConfig() error {
	for i := range sc.Targets {
		tg := &sc.Targets[i]
		if tg.Hops < 0 || tg.Hops > 3 || len(tg.More) > 3 {
			return fmt.Errorf("target %d: %d hops / %d further address lines", i, tg.Hops, len(tg.More))
		}
		for _, l := range tg.More {
			if l.Addr < 0 || l.Addr >= nAddrs || l.Hops < 0 || l.Hops > 3 {
				return fmt.Errorf("target %d: address line %+v", i, l)
			}
			if !sc.Real && l.Addr != tg.Addr {
				// createConn tries next hops in map order; with the ConnectionManager double the
				// script belongs to the target, not to the address, and the trace would not be reproducible
				return fmt.Errorf("target %d: several next hops exist in the real part only", i)
			}
		}
		if tg.Dialer < unregisteredDialer || tg.Dialer > maxNamedDialers {
			return fmt.Errorf("target %d: dialer %d", i, tg.Dialer)
		}
		if sc.Real && tg.Dialer > len(sc.NamedDials) {
			return fmt.Errorf("target %d: dialer %d, but %d named dialers are registered", i, tg.Dialer, len(sc.NamedDials))
		}
		okCred := false
		for _, k := range credKinds {
			okCred = okCred || k == tg.Cred
		}
		if !okCred || len(tg.CredSteps) > 16 || (tg.Cred != "id" && len(tg.CredSteps) > 0) {
			return fmt.Errorf("target %d: credentials %q with %d lookup steps", i, tg.Cred, len(tg.CredSteps))
		}
		for _, s := range tg.CredSteps {
			switch s {
			case "ok", "fail", "empty":
			default:
				return fmt.Errorf("target %d: lookup step %q", i, s)
			}
		}
		if len(tg.MetaKeys) > 4 {
			return fmt.Errorf("target %d: too many meta keys", i)
		}
		for j, k := range tg.MetaKeys {
			if !validMetaKey(k) {
				return fmt.Errorf("target %d: meta key %q", i, k)
			}
			for _, k2 := range tg.MetaKeys[:j] {
				if strings.EqualFold(k, k2) {
					return fmt.Errorf("target %d: meta key %q twice", i, k)
				}
			}
		}
		if tg.SameAs != 0 {
			j := tg.SameAs - 1
			if j < 0 || j >= i {
				return fmt.Errorf("target %d: shares the object of target %d", i, j)
			}
			if !sameConfig(tg, &sc.Targets[j]) {
				return fmt.Errorf("target %d: shares the object of target %d but is configured differently", i, j)
			}
			if tg.Cred == "id" {
				// a lookup is attributed by its password id, which would be the other target's
				return fmt.Errorf("target %d: a shared object cannot carry a password id", i)
			}
		}
	}
	return nil
}

var errLookup = errors.New("scripted: credentials store unavailable")

// scriptedCreds is the manager.CredentialsClient of the random and real parts.
// The k-th lookup of a target follows Target.CredSteps[k]; it answers at once.
type scriptedCreds struct{ w *world }

func (c scriptedCreds) Lookup(ctx context.Context, key string) (string, error) {
	w := c.w
	w.mu.Lock()
	tg := w.tg[key]
	if tg == nil {
		w.mu.Unlock()
		w.flagHarness("credentials lookup for a password id no target carries: %q", key)
		return "", errLookup
	}
	k := tg.lookups
	tg.lookups++
	step := "ok"
	if k < len(tg.spec.CredSteps) {
		step = tg.spec.CredSteps[k]
	}
	errs := tg.spec.Errs
	w.mu.Unlock()
	switch step {
	case "fail":
		err := shapeErr(errs, errLookup)
		w.rec(key, kCred, k, 0, err, step)
		return "", err
	case "empty":
		w.rec(key, kCred, k, 0, nil, step)
		return "", nil
	}
	w.rec(key, kCred, k, 0, nil, step)
	return "secret-" + key, nil
}

// ---------------------------------------------------------------------------
// generators of the configuration fields
// ---------------------------------------------------------------------------

var (
	hopCounts    = []int{0, 0, 0, 0, 0, 1, 2}
	credKindsGen = []string{"", "", "", "", "", "", "inline", "inline", "id", "id", "id", "broken"}
	credStepsGen = []string{"ok", "fail", "fail", "empty"}
)

// genConfig draws the configuration fields of target i (everything but the
// address index, the dialer and the scripts). otherHops: further address lines
// may start with another next hop (real part only).
func genConfig(t *rapid.T, sc *Scenario, tg *Target, i int, otherHops bool) {
	tg.Hops = rapid.SampledFrom(hopCounts).Draw(t, "hops")
	if rapid.IntRange(0, 9).Draw(t, "more-addresses") >= 7 {
		n := rapid.IntRange(1, 2).Draw(t, "lines")
		for j := 0; j < n; j++ {
			l := AddrLine{Addr: tg.Addr, Hops: rapid.SampledFrom(hopCounts).Draw(t, "line-hops")}
			if otherHops && rapid.IntRange(0, 9).Draw(t, "other-next-hop") >= 5 {
				l.Addr = rapid.IntRange(0, nAddrs-1).Draw(t, "line-addr")
			}
			tg.More = append(tg.More, l)
		}
	}
	tg.Cred = rapid.SampledFrom(credKindsGen).Draw(t, "cred")
	if tg.Cred == "id" {
		tg.CredSteps = rapid.SliceOfN(rapid.SampledFrom(credStepsGen), 0, 4).Draw(t, "cred-steps")
	}
	if rapid.IntRange(0, 9).Draw(t, "meta-keys") >= 7 {
		tg.MetaKeys = rapid.SliceOfNDistinct(rapid.SampledFrom(metaKeyPool), 1, 3, strings.ToLower).Draw(t, "keys")
	}
	tg.FreshProto = rapid.IntRange(0, 9).Draw(t, "fresh-proto") >= 8
}

// genSameAs: with some probability target i (> 0) is added with the object of an
// earlier target, whose configuration it then has by construction.
func genSameAs(t *rapid.T, sc *Scenario, tg *Target, i int) bool {
	if i == 0 || rapid.IntRange(0, 9).Draw(t, "same-object") < 8 {
		return false
	}
	j := rapid.IntRange(0, i-1).Draw(t, "same-as")
	o := &sc.Targets[j]
	if o.Cred == "id" {
		return false
	}
	tg.Addr, tg.Hops, tg.Dialer, tg.Cred, tg.Meta = o.Addr, o.Hops, o.Dialer, o.Cred, o.Meta
	tg.More = append([]AddrLine(nil), o.More...)
	tg.MetaKeys = append([]string(nil), o.MetaKeys...)
	tg.SameAs = j + 1
	return true
}

// configLabels: the distribution of the configuration dimension.
func configLabels(sc *Scenario, st *stats) {
	dialers := map[int]map[int]bool{} // address -> dialers of the targets naming it
	for i := range sc.Targets {
		tg := &sc.Targets[i]
		st.label("dialer=" + dialerClass(tg.Dialer))
		hops := tg.nextHops()
		switch {
		case len(hops) > 1:
			st.label("addresses=several-next-hops")
		case len(tg.More) > 0:
			st.label("addresses=several-lines-one-next-hop")
		}
		if tg.Hops > 0 {
			st.label("address-chain")
		}
		for _, a := range hops {
			if dialers[a] == nil {
				dialers[a] = map[int]bool{}
			}
			dialers[a][tg.Dialer] = true
		}
		if tg.Cred != "" {
			st.label("cred=" + tg.Cred)
			if tg.Cred == "id" && sc.NoCredClient {
				st.label("cred=id-without-credentials-client")
			}
		}
		if len(tg.MetaKeys) > 0 {
			st.label("meta-keys")
			for _, k := range tg.MetaKeys {
				if metaKeyCollides(k) {
					st.label("meta-key-collides-with-generated")
				}
			}
		}
		if tg.SameAs != 0 {
			st.label("config-object-shared-by-two-names")
		}
		if tg.FreshProto {
			st.label("config-object-fresh-per-add")
		}
	}
	for _, ds := range dialers {
		if len(ds) > 1 {
			st.label("dialers-mixed-on-one-address")
		}
	}
}
