package managerprop

import (
	"context"
	"errors"
	"fmt"
	"io"
	"math/rand"
	"sync"
	"testing"
	"testing/synctest"
	"time"

	"google.golang.org/grpc"
	"google.golang.org/grpc/codes"
	"google.golang.org/grpc/credentials/insecure"
	"google.golang.org/grpc/metadata"
	"google.golang.org/grpc/status"
	"google.golang.org/protobuf/proto"

	"github.com/openconfig/gnmi/manager"
	gpb "github.com/openconfig/gnmi/proto/gnmi"
)

// Ev is one entry of the totally ordered trace.
type Ev struct {
	I    int           `json:"i"`
	At   time.Duration `json:"at"` // virtual time since the initial Adds
	Tgt  string        `json:"tgt"`
	Kind string        `json:"kind"`
	N    int           `json:"n"`              // attempt number of the target (dial / stream events), else -1
	ID   int64         `json:"id,omitempty"`   // identity of an update notification
	Err  string        `json:"err,omitempty"`  // error text; "" = success
	Info string        `json:"info,omitempty"` // kind-specific detail
	Call int           `json:"call,omitempty"` // overlap part: identity of the external call (pairs call and return events)
}

func (e Ev) String() string {
	s := fmt.Sprintf("#%d +%v %s %s", e.I, e.At, e.Tgt, e.Kind)
	if e.N >= 0 {
		s += fmt.Sprintf(" n=%d", e.N)
	}
	if e.ID != 0 {
		s += fmt.Sprintf(" id=%d", e.ID)
	}
	if e.Call != 0 {
		s += fmt.Sprintf(" call=%d", e.Call)
	}
	if e.Info != "" {
		s += " [" + e.Info + "]"
	}
	if e.Err != "" {
		s += " err=" + e.Err
	}
	return s
}

// Trace event kinds.
const (
	// callbacks made by the manager
	kConnect      = "cb-connect"
	kSync         = "cb-sync"
	kUpdate       = "cb-update"
	kUpdateDone   = "cb-update-done" // the (slow) Update callback returns
	kReset        = "cb-reset"
	kConnectError = "cb-connecterror"
	kMonitorError = "cb-monitorerror"
	// what the manager does to its collaborators
	kDialStart  = "dial-start"
	kDialResult = "dial-result"
	kRelease    = "conn-release"
	kOpen       = "stream-open"
	kSend       = "send"
	kRecvCall   = "recv-call"
	kRecvRet    = "recv-return"
	// what the harness does to the manager
	kAddCall       = "add-call"
	kAddRet        = "add-ret"
	kRemoveCall    = "remove-call"
	kRemoveRet     = "remove-ret"
	kReconnectCall = "reconnect-call"
	kReconnectRet  = "reconnect-ret"
	kSettled       = "settled" // quiescence reached after an external call
	kEnd           = "end"     // end of the silence window
)

const nAddrs = 3

// conns are dummy idle connections (never used: the stream constructor is
// replaced). They are created once per process, outside any bubble, so that
// gRPC's helper goroutines do not belong to a case.
var (
	connsOnce sync.Once
	conns     [nAddrs]*grpc.ClientConn
	connsErr  error
)

func dummyConns() error {
	connsOnce.Do(func() {
		for i := range conns {
			c, err := grpc.NewClient(fmt.Sprintf("passthrough:///addr%d", i), grpc.WithTransportCredentials(insecure.NewCredentials()))
			if err != nil {
				connsErr = err
				return
			}
			conns[i] = c
		}
	})
	return connsErr
}

func addrOf(i int) string { return fmt.Sprintf("addr%d:9339", i) }

var (
	errRefused = errors.New("scripted: connection refused")
	errOpen    = errors.New("scripted: cannot open stream")
	errStream  = errors.New("scripted: stream broken")
)

// shapeErr gives a failure of a double the shape the attempt's error kind
// (errKinds in scenario.go) asks for. err is the plain Go error: ctx.Err() of a
// cancelled or expired context, or one of the scripted errors above. The bare
// io.EOF stays what it is (gRPC reports the end of a stream that way).
func shapeErr(kind string, err error) error {
	if err == nil || err == io.EOF {
		return err
	}
	asGRPC := func() error {
		if errors.Is(err, context.Canceled) || errors.Is(err, context.DeadlineExceeded) {
			return status.FromContextError(err).Err()
		}
		return status.Error(codes.Unavailable, err.Error())
	}
	switch kind {
	case "wrapped":
		return fmt.Errorf("transport: %w", err)
	case "grpc":
		return asGRPC()
	case "grpc-wrapped":
		return fmt.Errorf("transport: %w", asGRPC())
	case "grpc-canceled":
		return status.Error(codes.Canceled, err.Error())
	case "grpc-deadline":
		return status.Error(codes.DeadlineExceeded, err.Error())
	case "grpc-unimplemented":
		return status.Error(codes.Unimplemented, err.Error())
	case "grpc-denied":
		return status.Error(codes.PermissionDenied, err.Error())
	case "grpc-unauthenticated":
		return status.Error(codes.Unauthenticated, err.Error())
	case "grpc-notfound":
		return fmt.Errorf("transport: %w", status.Error(codes.NotFound, err.Error()))
	case "grpc-invalid":
		return status.Error(codes.InvalidArgument, err.Error())
	}
	return err
}

type tgRun struct {
	name string
	idx  int
	spec *Target
	next int         // number of attempts started so far
	cur  *attemptRun // attempt in progress (attempts of one target are sequential)
	// lookups is the number of credentials lookups made for the target so far (scriptedCreds)
	lookups int
}

type attemptRun struct {
	n    int
	att  Attempt
	conn *grpc.ClientConn // part real: the connection the real connection.Manager handed out for this attempt
}

type world struct {
	sc         *Scenario
	mu         sync.Mutex
	trace      []Ev
	t0         time.Time
	tg         map[string]*tgRun
	cost       map[int64]time.Duration
	refs       [nAddrs]int
	harnessErr string
	ov         *overlap   // non-nil in the overlap part only (holds, aims, call identities); see overlap_run.go
	real       *realWorld // non-nil in the real part only (real connection.Manager, scripted dial functions); see real_run.go
}

func (w *world) rec(tgt, kind string, n int, id int64, err error, info string) {
	w.recCall(tgt, kind, n, id, err, info, 0)
}

func (w *world) recCall(tgt, kind string, n int, id int64, err error, info string, call int) {
	w.mu.Lock()
	e := Ev{I: len(w.trace), At: time.Since(w.t0), Tgt: tgt, Kind: kind, N: n, ID: id, Info: info, Call: call}
	if err != nil {
		e.Err = err.Error()
		if e.Err == "" {
			e.Err = "error"
		}
	}
	w.trace = append(w.trace, e)
	if w.ov != nil {
		w.ov.observe(&e)
	}
	w.mu.Unlock()
}

func (w *world) flagHarness(format string, a ...any) {
	w.mu.Lock()
	if w.harnessErr == "" {
		w.harnessErr = fmt.Sprintf(format, a...)
	}
	w.mu.Unlock()
}

// sleepCtx waits d of virtual time or until ctx ends, like a blocking gRPC
// call would.
func sleepCtx(ctx context.Context, d time.Duration) error {
	if err := ctx.Err(); err != nil {
		return err
	}
	if d <= 0 {
		return nil
	}
	tm := time.NewTimer(d)
	defer tm.Stop()
	select {
	case <-ctx.Done():
		return ctx.Err()
	case <-tm.C:
		return nil
	}
}

// targetOf reads the target name the manager put into the outgoing metadata
// (manager.Target), which is how a connection manager or proxy tells targets
// sharing an address apart.
func targetOf(ctx context.Context) string {
	md, _ := metadata.FromOutgoingContext(ctx)
	if v := md.Get(manager.Target); len(v) == 1 {
		return v[0]
	}
	return ""
}

// defaultAttempt is what a target does once its script is exhausted: it is
// healthy again (one update, then an idle stream).
var defaultAttempt = Attempt{Dial: "ok", Msgs: []Msg{{Kind: "update"}}, End: "silence"}

// Connection implements manager.ConnectionManager.
func (w *world) Connection(ctx context.Context, addr, dialer string) (*grpc.ClientConn, func(), error) {
	name := targetOf(ctx)
	w.mu.Lock()
	tg := w.tg[name]
	if tg == nil {
		w.mu.Unlock()
		w.flagHarness("dial to %q without an attributable target (metadata target %q)", addr, name)
		return nil, func() {}, errRefused
	}
	ar := &attemptRun{n: tg.next, att: defaultAttempt}
	if a, ok := scriptAt(tg.spec.Attempts, ar.n); ok {
		ar.att = a
	} else {
		ar.att.Errs = tg.spec.Errs
	}
	shape := func(err error) error { return shapeErr(ar.att.Errs, err) }
	tg.next++
	tg.cur = ar
	w.mu.Unlock()
	if addr != addrOf(tg.spec.Addr) {
		w.flagHarness("target %s dialled %q, configured %q", name, addr, addrOf(tg.spec.Addr))
	}
	if dialer != dialerName(tg.spec.Dialer) {
		w.flagHarness("target %s: Connection asked for dialer %q, configured %q", name, dialer, dialerName(tg.spec.Dialer))
	}
	if w.ov != nil {
		w.ov.noteDial(name, ar.att)
	}
	w.rec(name, kDialStart, ar.n, 0, nil, addr)
	switch ar.att.Dial {
	case "hang":
		<-ctx.Done()
		if w.ov != nil {
			w.ov.park(name, "dial", ar.n)
		}
		err := shape(ctx.Err())
		w.rec(name, kDialResult, ar.n, 0, err, "hang")
		return nil, func() {}, err
	case "refused":
		if err := sleepCtx(ctx, ms(ar.att.DialDelayMs)); err != nil {
			if w.ov != nil {
				w.ov.park(name, "dial", ar.n)
			}
			err = shape(err)
			w.rec(name, kDialResult, ar.n, 0, err, "ctx")
			return nil, func() {}, err
		}
		err := shape(errRefused)
		w.rec(name, kDialResult, ar.n, 0, err, "refused")
		return nil, func() {}, err
	}
	if err := sleepCtx(ctx, ms(ar.att.DialDelayMs)); err != nil {
		if w.ov != nil {
			w.ov.park(name, "dial", ar.n)
		}
		err = shape(err)
		w.rec(name, kDialResult, ar.n, 0, err, "ctx")
		return nil, func() {}, err
	}
	w.mu.Lock()
	w.refs[tg.spec.Addr]++
	w.mu.Unlock()
	w.rec(name, kDialResult, ar.n, 0, nil, "")
	var once sync.Once
	done := func() {
		once.Do(func() {
			w.mu.Lock()
			w.refs[tg.spec.Addr]--
			w.mu.Unlock()
			w.rec(name, kRelease, ar.n, 0, nil, "")
		})
	}
	return conns[tg.spec.Addr], done, nil
}

// subscribeClient replaces the function that opens the Subscribe stream.
func (w *world) subscribeClient(ctx context.Context, conn *grpc.ClientConn) (gpb.GNMI_SubscribeClient, error) {
	name := targetOf(ctx)
	w.mu.Lock()
	tg := w.tg[name]
	var ar *attemptRun
	if tg != nil {
		ar = tg.cur
	}
	w.mu.Unlock()
	if tg == nil || ar == nil {
		w.flagHarness("stream opened without an attributable dial (metadata target %q)", name)
		return nil, errOpen
	}
	if w.real != nil {
		w.mu.Lock()
		handed := ar.conn
		w.mu.Unlock()
		if conn == nil || conn != handed {
			w.flagHarness("target %s: stream opened on a connection that is not the one Connection returned for this attempt", name)
		}
	} else if conn != conns[tg.spec.Addr] {
		w.flagHarness("target %s: stream opened on a connection that is not the one handed out for its address", name)
	}
	if err := ctx.Err(); err != nil {
		err = shapeErr(ar.att.Errs, err)
		w.rec(name, kOpen, ar.n, 0, err, "ctx")
		return nil, err
	}
	if ar.att.Open == "open-fail" {
		err := shapeErr(ar.att.Errs, errOpen)
		w.rec(name, kOpen, ar.n, 0, err, "")
		return nil, err
	}
	w.rec(name, kOpen, ar.n, 0, nil, "")
	return &stream{w: w, tg: tg, ar: ar, ctx: ctx}, nil
}

// stream is the scripted gpb.GNMI_SubscribeClient. Recv hands over the
// scripted messages, then the scripted terminal outcome; whatever it is doing,
// it returns promptly once its context ends (as gRPC does) - with ctx.Err() or
// with what a gRPC transport makes of it (Attempt.Errs, shapeErr).
type stream struct {
	w   *world
	tg  *tgRun
	ar  *attemptRun
	ctx context.Context
	pos int
	fin error
}

func updateID(tgIdx, n, pos int) int64 {
	return int64(tgIdx+1)*1000000 + int64(n)*1000 + int64(pos) + 1
}

func (s *stream) Send(req *gpb.SubscribeRequest) error {
	info := "prefix-target=" + req.GetSubscribe().GetPrefix().GetTarget()
	// Everything but the prefix target must be the template.
	cl := proto.Clone(req).(*gpb.SubscribeRequest)
	if p := cl.GetSubscribe().GetPrefix(); p != nil {
		p.Target = ""
	}
	want := requestTemplate(s.w.sc.TmplPrefix)
	if p := want.GetSubscribe().GetPrefix(); p != nil {
		p.Target = ""
	} else if want.GetSubscribe() != nil {
		want.GetSubscribe().Prefix = &gpb.Path{}
	}
	if !proto.Equal(cl, want) {
		info += " body-differs-from-template"
	}
	if err := s.ctx.Err(); err != nil {
		err = shapeErr(s.ar.att.Errs, err)
		s.w.rec(s.tg.name, kSend, s.ar.n, 0, err, info)
		return err
	}
	if s.ar.att.Open == "send-fail" {
		s.w.rec(s.tg.name, kSend, s.ar.n, 0, io.EOF, info)
		return io.EOF
	}
	s.w.rec(s.tg.name, kSend, s.ar.n, 0, nil, info)
	return nil
}

func (s *stream) Recv() (*gpb.SubscribeResponse, error) {
	name := s.tg.name
	s.w.rec(name, kRecvCall, s.ar.n, 0, nil, "")
	if s.fin != nil {
		s.w.rec(name, kRecvRet, s.ar.n, 0, s.fin, "again")
		return nil, s.fin
	}
	fail := func(err error, why string) (*gpb.SubscribeResponse, error) {
		err = shapeErr(s.ar.att.Errs, err)
		if why == "ctx" && s.w.ov != nil {
			// overlap part: the instant the stream learnt of the cancellation is an
			// event of its own, because the return may be held back
			s.w.rec(name, kRecvCancel, s.ar.n, 0, err, "")
			s.w.ov.park(name, "recv", s.ar.n)
		}
		s.fin = err
		s.w.rec(name, kRecvRet, s.ar.n, 0, err, why)
		return nil, err
	}
	if s.w.ov != nil {
		s.w.ov.noteRecv(s)
	}
	if s.pos < len(s.ar.att.Msgs) {
		m := s.ar.att.Msgs[s.pos]
		if err := sleepCtx(s.ctx, ms(m.DelayMs)); err != nil {
			return fail(err, "ctx")
		}
		pos := s.pos
		s.pos++
		resp := &gpb.SubscribeResponse{}
		var id int64
		switch m.Kind {
		case "update":
			id = updateID(s.tg.idx, s.ar.n, pos)
			resp.Response = &gpb.SubscribeResponse_Update{Update: &gpb.Notification{
				Timestamp: id,
				Update:    []*gpb.Update{{Path: &gpb.Path{Elem: []*gpb.PathElem{{Name: "x"}}}, Val: &gpb.TypedValue{Value: &gpb.TypedValue_IntVal{IntVal: id}}}},
			}}
		case "sync":
			resp.Response = &gpb.SubscribeResponse_SyncResponse{SyncResponse: true}
		case "error":
			resp.Response = &gpb.SubscribeResponse_Error{Error: &gpb.Error{Code: 13, Message: "scripted error response"}}
		case "nil":
			// a response without any of the oneof arms
		}
		s.w.rec(name, kRecvRet, s.ar.n, id, nil, m.Kind)
		return resp, nil
	}
	switch s.ar.att.End {
	case "silence":
		<-s.ctx.Done()
		return fail(s.ctx.Err(), "ctx")
	case "eof":
		if err := sleepCtx(s.ctx, ms(s.ar.att.EndDelayMs)); err != nil {
			return fail(err, "ctx")
		}
		return fail(io.EOF, "eof")
	default:
		if err := sleepCtx(s.ctx, ms(s.ar.att.EndDelayMs)); err != nil {
			return fail(err, "ctx")
		}
		return fail(errStream, "error")
	}
}

func (s *stream) Header() (metadata.MD, error) { return nil, nil }
func (s *stream) Trailer() metadata.MD         { return nil }
func (s *stream) CloseSend() error             { return nil }
func (s *stream) Context() context.Context     { return s.ctx }
func (s *stream) SendMsg(m any) error          { return errors.New("scripted stream: SendMsg not supported") }
func (s *stream) RecvMsg(m any) error          { return errors.New("scripted stream: RecvMsg not supported") }

// requestTemplate is the SubscribeRequest every target is added with. The
// harness hands the SAME object to every Add (as the collector does for
// targets naming the same request), so a manager that customised it in place
// would leak one target's name into another's request.
func requestTemplate(withPrefix bool) *gpb.SubscribeRequest {
	sl := &gpb.SubscriptionList{
		Subscription: []*gpb.Subscription{{Path: &gpb.Path{Elem: []*gpb.PathElem{{Name: "interfaces"}}}}},
		Mode:         gpb.SubscriptionList_STREAM,
	}
	if withPrefix {
		sl.Prefix = &gpb.Path{Origin: "openconfig", Target: "template-target"}
	}
	return &gpb.SubscribeRequest{Request: &gpb.SubscribeRequest_Subscribe{Subscribe: sl}}
}

// failure is an oracle verdict.
type failure struct {
	class string
	msg   string
}

func (f *failure) Error() string { return f.class + ": " + f.msg }

func failf(class, format string, a ...any) *failure {
	return &failure{class: class, msg: fmt.Sprintf(format, a...)}
}

func classOf(err error) string {
	var f *failure
	if errors.As(err, &f) {
		return f.class
	}
	return "oracle"
}

// retryBound is RetryMaxDelay*(1+RetryRandomization).
func (sc *Scenario) retryBound() time.Duration {
	return time.Duration(float64(ms(sc.MaxMs)) * (1 + float64(sc.RandPct)/100))
}

// runScenario executes sc inside its own synctest bubble and judges the trace.
func runScenario(t *testing.T, sc *Scenario) (st *stats, err error) {
	st, _, err = runScenarioTrace(t, sc)
	return st, err
}

func runScenarioTrace(t *testing.T, sc *Scenario) (st *stats, trace []Ev, err error) {
	st = &stats{}
	if verr := sc.validate(); verr != nil {
		return st, nil, failf("harness-error", "invalid scenario: %v", verr)
	}
	if cerr := dummyConns(); cerr != nil {
		return st, nil, failf("harness-error", "grpc.NewClient: %v", cerr)
	}
	oldBase, oldMax, oldRand := manager.RetryBaseDelay, manager.RetryMaxDelay, manager.RetryRandomization
	manager.RetryBaseDelay, manager.RetryMaxDelay, manager.RetryRandomization = ms(sc.BaseMs), ms(sc.MaxMs), float64(sc.RandPct)/100
	defer func() {
		manager.RetryBaseDelay, manager.RetryMaxDelay, manager.RetryRandomization = oldBase, oldMax, oldRand
	}()
	if sc.RandPct != 0 {
		rand.Seed(sc.Seed) //nolint:staticcheck // jitter of the backoff library comes from the global source (GODEBUG randseednop=0, see TestMain)
	}
	w := &world{sc: sc, tg: map[string]*tgRun{}, cost: map[int64]time.Duration{}}
	restore := manager.VerifSetSubscribeClient(w.subscribeClient)
	defer restore()
	if sc.Real {
		return runReal(t, w)
	}

	var runErr error
	defer func() {
		// synctest panics here (outside the bubble) when the bubble's root
		// goroutine is done or stuck and other goroutines stay blocked forever.
		if r := recover(); r != nil {
			err = failf("deadlock", "goroutines of the case never finish (%v); trace tail:\n%s", r, w.tail("", 14))
			if runErr != nil {
				err = failf("deadlock", "%v; additionally goroutines of the case never finish (%v)", runErr, r)
			}
		}
	}()
	synctest.Test(t, func(*testing.T) {
		defer func() {
			if r := recover(); r != nil {
				runErr = failf("panic", "panic on the scenario goroutine: %v", r)
			}
		}()
		runErr = w.execute()
	})
	if runErr != nil {
		return st, w.trace, runErr
	}
	if w.harnessErr != "" {
		return st, w.trace, failf("harness-error", "%s", w.harnessErr)
	}
	st, err = judge(sc, w.trace)
	return st, w.trace, err
}

func (w *world) tail(tgt string, n int) string {
	w.mu.Lock()
	defer w.mu.Unlock()
	return renderTail(w.trace, len(w.trace)-1, tgt, n)
}

func renderTail(trace []Ev, upto int, tgt string, n int) string {
	var lines []string
	for i := upto; i >= 0 && len(lines) < n; i-- {
		if tgt == "" || trace[i].Tgt == tgt {
			lines = append(lines, "  "+trace[i].String())
		}
	}
	out := ""
	for i := len(lines) - 1; i >= 0; i-- {
		out += lines[i] + "\n"
	}
	return out
}

// execute runs inside the bubble, on its root goroutine.
func (w *world) execute() (err error) {
	sc := w.sc
	cfg := manager.Config{
		ConnectionManager: w,
		Timeout:           ms(sc.DialTimeoutMs),
		ReceiveTimeout:    ms(sc.RecvTimeoutMs),
		Connect:           func(name string) { w.rec(name, kConnect, -1, 0, nil, "") },
		Sync:              func(name string) { w.rec(name, kSync, -1, 0, nil, "") },
		Reset:             func(name string) { w.rec(name, kReset, -1, 0, nil, "") },
		Update: func(name string, n *gpb.Notification) {
			id := n.GetTimestamp()
			w.rec(name, kUpdate, -1, id, nil, "")
			if c := w.cost[id]; c > 0 {
				time.Sleep(c)
				w.rec(name, kUpdateDone, -1, id, nil, "")
			}
		},
	}
	if !sc.NoErrCB {
		cfg.ConnectError = func(name string, err error) { w.rec(name, kConnectError, -1, 0, err, "") }
		cfg.MonitorError = func(name string, err error) { w.rec(name, kMonitorError, -1, 0, err, "") }
	}
	if !sc.NoCredClient {
		cfg.Credentials = scriptedCreds{w}
	}
	m, nerr := manager.NewManager(cfg)
	if nerr != nil {
		return failf("harness-error", "NewManager: %v", nerr)
	}
	tmpl := requestTemplate(sc.TmplPrefix)
	pristine := proto.Clone(tmpl)
	protos := sc.buildProtos()
	for i := range sc.Targets {
		spec := &sc.Targets[i]
		w.tg[tname(i)] = &tgRun{name: tname(i), idx: i, spec: spec}
		for n, total := 0, scriptLen(spec.Attempts); n < total; n++ {
			a, _ := scriptAt(spec.Attempts, n)
			for pos, msg := range a.Msgs {
				if msg.Kind == "update" && msg.CostMs > 0 {
					w.cost[updateID(i, n, pos)] = ms(msg.CostMs)
				}
			}
		}
	}
	managed := map[string]bool{}
	w.t0 = time.Now()

	add := func(i int) {
		name := tname(i)
		info := "fresh"
		if managed[name] {
			info = "duplicate"
		}
		w.rec(name, kAddCall, -1, 0, nil, info)
		aerr := m.Add(name, sc.protoForAdd(protos, i), tmpl)
		w.rec(name, kAddRet, -1, 0, aerr, info)
		if aerr == nil {
			managed[name] = true // (for a duplicate this is a violation the judge reports)
		}
		synctest.Wait()
		w.rec(name, kSettled, -1, 0, nil, kAddCall+" "+info)
	}
	remove := func(name, how string) {
		info := how
		if !managed[name] {
			info = "unknown"
		}
		w.rec(name, kRemoveCall, -1, 0, nil, info)
		rerr := m.Remove(name)
		w.rec(name, kRemoveRet, -1, 0, rerr, info)
		if rerr == nil {
			delete(managed, name)
		}
		synctest.Wait()
		w.rec(name, kSettled, -1, 0, nil, kRemoveCall+" "+info)
	}
	reconnect := func(name string) {
		info := "managed"
		if !managed[name] {
			info = "unknown"
		}
		w.rec(name, kReconnectCall, -1, 0, nil, info)
		rerr := m.Reconnect(name)
		w.rec(name, kReconnectRet, -1, 0, rerr, info)
		synctest.Wait()
		w.rec(name, kSettled, -1, 0, nil, kReconnectCall+" "+info)
	}

	defer func() {
		// Whatever happened, no goroutine of the manager may outlive the case.
		if r := recover(); r != nil {
			err = failf("panic", "panic on the scenario goroutine: %v", r)
			for i := range sc.Targets {
				func() {
					defer func() { recover() }()
					m.Remove(tname(i))
				}()
			}
		}
	}()

	for i := range sc.Targets {
		add(i)
	}
	for _, e := range sc.Events {
		time.Sleep(ms(e.AfterMs))
		synctest.Wait()
		switch e.Kind {
		case "remove":
			remove(tname(e.Target), "event")
		case "reconnect":
			reconnect(tname(e.Target))
		case "add":
			add(e.Target)
		case "remove-unknown":
			remove(ghost, "event")
		case "reconnect-unknown":
			reconnect(ghost)
		}
	}
	time.Sleep(ms(sc.TailMs))
	synctest.Wait()
	for i := range sc.Targets {
		if managed[tname(i)] {
			remove(tname(i), "final")
		}
	}
	// The silence window: 10 x the largest possible retry delay after the last
	// Remove returned (earlier Removes are observed for longer).
	time.Sleep(10 * sc.retryBound())
	synctest.Wait()
	w.rec("", kEnd, -1, 0, nil, "")
	if !proto.Equal(tmpl, pristine) {
		return failf("request-template-modified", "the SubscribeRequest handed to Add was modified in place: now %v", tmpl)
	}
	return nil
}
