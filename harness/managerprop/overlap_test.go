package managerprop

import (
	"encoding/json"
	"testing"
	"time"

	"pgregory.net/rapid"
	"verif/harness/internal/vstat"
)

// TestC13Overlap: generated scenarios of overlapping and unsettled calls
// (overlap_scenario.go), each in its own synctest bubble.
func TestC13Overlap(t *testing.T) {
	if !vstat.Enabled("C13") {
		t.Skip()
	}
	rec := vstat.New("C13", "overlap")
	rec.RunRapid(t, func(rt *rapid.T) {
		sc := genOverlap(rt)
		rec.Current(sc)
		st, _, err := runOverlap(t, sc)
		rec.Case(sc, st.overlapHits > 0, st.labelList()...)
		if err != nil {
			rt.Fatalf("%s", rec.Fail(sc, classOf(err), "%v", err))
		}
	})
}

func replayOverlap(t *testing.T, raw json.RawMessage) string {
	var sc OScenario
	if err := json.Unmarshal(raw, &sc); err != nil {
		return "bad scenario: " + err.Error()
	}
	// The verdict of an unsettled step depends on the scheduler: give a replay a
	// few chances to meet the interleaving again.
	for i := 0; i < 20; i++ {
		if _, _, err := runOverlap(t, &sc); err != nil {
			return err.Error()
		}
	}
	return ""
}

// TestSelfJudgeOverlap: the overlap monitor on hand-made traces (run by hand).
func TestSelfJudgeOverlap(t *testing.T) {
	sc := &OScenario{BaseMs: 1000, MaxMs: 3000, Targets: []OTarget{{Addr: 0, Meta: "2s"}}}
	s := time.Second
	ev := func(kind string, at time.Duration, mod ...func(*Ev)) Ev {
		e := Ev{Tgt: "t0", Kind: kind, N: -1, At: at}
		for _, m := range mod {
			m(&e)
		}
		return e
	}
	n := func(n int) func(*Ev) { return func(e *Ev) { e.N = n } }
	call := func(id int) func(*Ev) { return func(e *Ev) { e.Call = id } }
	errf := func(x string) func(*Ev) { return func(e *Ev) { e.Err = x } }
	info := func(x string) func(*Ev) { return func(e *Ev) { e.Info = x } }
	id := func(x int64) func(*Ev) { return func(e *Ev) { e.ID = x } }
	session := func(k int, at time.Duration) []Ev {
		return []Ev{
			ev(kDialStart, at, n(k)), ev(kDialResult, at, n(k)), ev(kOpen, at, n(k)), ev(kSend, at, n(k), info("prefix-target=t0")),
			ev(kRecvCall, at, n(k)), ev(kRecvRet, at, n(k), info("sync")), ev(kConnect, at), ev(kSync, at), ev(kRecvCall, at, n(k)),
		}
	}
	teardown := func(k int, at time.Duration) []Ev {
		return []Ev{ev(kRecvCancel, at, n(k), errf("context canceled")), ev(kRecvRet, at, n(k), info("ctx"), errf("context canceled")), ev(kReset, at), ev(kRelease, at, n(k)),
			ev(kConnectError, at, errf("x")), ev(kMonitorError, at, errf("x"))}
	}
	cat := func(parts ...[]Ev) []Ev {
		var out []Ev
		for _, p := range parts {
			out = append(out, p...)
		}
		for i := range out {
			out[i].I = i
		}
		return out
	}
	end := []Ev{{Tgt: "", Kind: kEnd, N: -1, At: 100 * s}}
	add := func(c int, at time.Duration, e string) []Ev {
		return []Ev{ev(kAddCall, at, call(c)), ev(kAddRet, at, call(c), errf(e))}
	}
	cases := []struct {
		name  string
		trace []Ev
		class string
	}{
		{"sequential add, session, remove", cat(add(1, 0, ""), session(0, 0), []Ev{ev(kRemoveCall, s, call(2))}, teardown(0, s), []Ev{ev(kRemoveRet, s, call(2))}, end), ""},
		{"add blocked behind a slow remove, then a second session", cat(add(1, 0, ""), session(0, 0), []Ev{ev(kRemoveCall, s, call(2)), ev(kRecvCancel, s, n(0), errf("c")), ev(kPark, s, n(0), info("recv")), ev(kAddCall, s, call(3)), ev(kUnpark, s, n(0), info("recv"))},
			teardown(0, s)[1:], []Ev{ev(kRemoveRet, s, call(2)), ev(kAddRet, s, call(3))}, session(1, s), []Ev{ev(kRemoveCall, 2*s, call(4))}, teardown(1, 2*s), []Ev{ev(kRemoveRet, 2*s, call(4))}, end), ""},
		{"second session before the first is reset (Remove lets go of the lock early)", cat(add(1, 0, ""), session(0, 0), []Ev{ev(kRemoveCall, s, call(2)), ev(kRecvCancel, s, n(0), errf("c")), ev(kPark, s, n(0), info("recv")), ev(kAddCall, s, call(3)), ev(kAddRet, s, call(3))},
			session(1, s), end), "sessions-overlap"},
		{"callback after remove returned", cat(add(1, 0, ""), session(0, 0), []Ev{ev(kRemoveCall, s, call(2))}, teardown(0, s), []Ev{ev(kRemoveRet, s, call(2)), ev(kMonitorError, s, errf("late"))}, end), "callback-after-remove"},
		{"callback after remove returned, but an overlapping add may have taken effect", cat(add(1, 0, ""), session(0, 0), []Ev{ev(kRemoveCall, s, call(2)), ev(kAddCall, s, call(3))}, teardown(0, s), []Ev{ev(kRemoveRet, s, call(2)), ev(kMonitorError, s, errf("x")), ev(kAddRet, s, call(3)),
			ev(kRemoveCall, 2*s, call(4)), ev(kRemoveRet, 2*s, call(4))}, end), ""},
		{"that add was refused: the callback was illegal after all", cat(add(1, 0, ""), session(0, 0), []Ev{ev(kRemoveCall, s, call(2)), ev(kAddCall, s, call(3))}, teardown(0, s), []Ev{ev(kRemoveRet, s, call(2)), ev(kMonitorError, s, errf("x")), ev(kAddRet, s, call(3), errf("dup"))}, end), "add-failed"},
		{"duplicate add accepted", cat(add(1, 0, ""), add(2, 0, ""), end), "duplicate-add-accepted"},
		{"add refused without reason", cat(add(1, 0, "no"), end), "add-failed"},
		{"unknown remove accepted", cat([]Ev{ev(kRemoveCall, 0, call(1)), ev(kRemoveRet, 0, call(1))}, end), "unknown-remove-accepted"},
		{"two overlapping removes, both accepted", cat(add(1, 0, ""), []Ev{ev(kRemoveCall, s, call(2)), ev(kRemoveCall, s, call(3)), ev(kRemoveRet, s, call(2)), ev(kRemoveRet, s, call(3))}, end), "unknown-remove-accepted"},
		{"two overlapping removes, one refused", cat(add(1, 0, ""), []Ev{ev(kRemoveCall, s, call(2)), ev(kRemoveCall, s, call(3)), ev(kRemoveRet, s, call(3), errf("no")), ev(kRemoveRet, s, call(2))}, end), ""},
		{"remove returns before the session is over", cat(add(1, 0, ""), session(0, 0), []Ev{ev(kRemoveCall, s, call(2)), ev(kRemoveRet, s, call(2))}, teardown(0, s), end), "remove-returned-early"},
		{"error callback inside a session", cat(add(1, 0, ""), session(0, 0), []Ev{ev(kMonitorError, s, errf("x")), ev(kRemoveCall, s, call(2))}, teardown(0, s), []Ev{ev(kRemoveRet, s, call(2))}, end), "error-callback-inside-session"},
		{"callback for a name never added", cat([]Ev{ev(kReset, 0)}, end), "callback-for-unknown-target"},
		{"recv left waiting beyond the timeout", cat(add(1, 0, ""), session(0, 0), []Ev{ev(kRemoveCall, 3*s, call(2))}, teardown(0, 3*s), []Ev{ev(kRemoveRet, 3*s, call(2))}, end), "recv-timeout-not-enforced"},
		{"no retry", cat(add(1, 0, ""), []Ev{ev(kDialStart, 0, n(0)), ev(kDialResult, 0, n(0), errf("refused")), ev(kRemoveCall, 4*s, call(2)), ev(kRemoveRet, 4*s, call(2))}, end), "no-retry"},
		{"retry at once", cat(add(1, 0, ""), []Ev{ev(kDialStart, 0, n(0)), ev(kDialResult, 0, n(0), errf("refused")), ev(kDialStart, 0, n(1)), ev(kDialResult, 0, n(1), errf("refused")), ev(kRemoveCall, s, call(2)), ev(kRemoveRet, s, call(2))}, end), "retry-without-backoff"},
		{"update delivered out of order", cat(add(1, 0, ""), session(0, 0), []Ev{ev(kRecvRet, s, n(0), info("update"), id(7)), ev(kUpdate, s, id(8))}, end), "delivery-not-in-stream-order"},
		{"reconnect ignored", cat(add(1, 0, ""), session(0, 0), []Ev{ev(kReconnectCall, s, call(2)), ev(kReconnectRet, s, call(2)), ev(kRemoveCall, 2*s, call(3))}, teardown(0, 2*s), []Ev{ev(kRemoveRet, 2*s, call(3))}, end), "reconnect-ignored"},
	}
	for _, c := range cases {
		_, err := judgeOverlap(sc, c.trace)
		got := ""
		if err != nil {
			got = classOf(err)
		}
		if got != c.class {
			t.Errorf("%s: class %q, want %q (%v)", c.name, got, c.class, err)
		}
	}
}
