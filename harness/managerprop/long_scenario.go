package managerprop

// The "long" part of C13: targets that keep failing for a long (virtual) time,
// and retry delays configured anywhere between milliseconds and hours.
//
// The random part (scenario.go) gives a target at most six scripted attempts
// and looks at it for a few minutes, the way a test would; a collector runs for
// weeks and a target that is down stays down for hours. "Failed sessions are
// retried with backoff for as long as the target is managed" is a statement
// about exactly that regime, and virtual time makes it free: a case of this
// part lets its targets fail dozens to hundreds of times in a row - refused
// and timed-out dials, streams that cannot be opened, streams that break or
// end after a few messages, sessions that fall silent and are ended by the
// receive timeout - over 20 minutes to several hours, interrupted by the odd
// Reconnect / Remove / re-Add, under retry delays from 20 ms to 2 h with and
// without jitter. Scenario, execution and oracle are those of the random part
// (Scenario, runScenario, judge): every retry of the run, the late ones
// included, must start within [RetryBaseDelay*(1-RetryRandomization),
// RetryMaxDelay*(1+RetryRandomization)] of the failure, every ended stream gets
// its Reset, nothing happens after Remove.
//
// What bounds a case is the number of attempts (each costs real time), not the
// virtual duration: at most longBudget scripted attempts per scenario.

import (
	"pgregory.net/rapid"
)

// longBudget is the largest number of scripted attempts of one long scenario.
const longBudget = 160

var (
	longProfiles = []delayProfile{
		{1000, 60000}, {1000, 60000}, {1000, 60000}, {1000, 60000}, // production values: 15 min are ~25 failures in a row
		{2000, 10000}, {5000, 30000}, {1000, 20000}, {500, 120000}, {10000, 10000}, {30000, 30000},
		{60000, 600000}, {30000, 1800000}, {600000, 3600000}, {900000, 900000}, {1200000, 7200000}, {3600000, 3600000},
		{20, 100}, {50, 2000}, {100, 1000},
	}
	longRandPcts     = []int{0, 0, 0, 0, 20, 50}
	longRepeats      = []int{0, 0, 0, 1, 2, 4, 8, 15, 25, 40, 60, 100}
	longDialDelays   = []int{0, 0, 0, 0, 10, 500, 3000, 20000}
	longMsgDelays    = []int{0, 0, 0, 10, 1000}
	longEndDelays    = []int{0, 0, 0, 10, 1000, 8000, 30000, 100000, 300000, 1500000}
	longRecvTOs      = []int{0, 0, 0, 1003, 5003, 30003, 600003}
	longDialTOs      = []int{0, 0, 2001, 10001, 60001}
	longMetas        = []string{"", "", "", "", "4003ms", "90003ms", "0s"}
	longEventGaps    = []int{0, 1000, 61000, 300000, 900000, 1800000, 3600000, 7200000}
	longEventKinds   = []string{"reconnect", "reconnect", "reconnect", "remove", "add", "add"}
	longTailMinutes  = []int{0, 5, 20, 20, 45, 45, 90, 150, 240}
	longTailFactors  = []int{0, 0, 11, 35, 80} // tenths of the retry bound, on top of the minutes
	longAttemptKinds = []string{
		"refused", "refused", "refused", "refused", "refused", "refused", "refused", "refused",
		"open-fail", "send-fail", "hang",
		"stream", "stream", "stream", "stream", "stream", "stream", "silence",
	}
)

// genLongAttempt draws one scripted outcome (without its repeat count). The
// outcomes are those of the random part, weighted towards attempts that fail
// fast; "hang" and "silence" end through the dial timeout / the receive
// timeout where one is configured and otherwise last until an external event.
func genLongAttempt(t *rapid.T) Attempt {
	a := Attempt{Dial: "ok", End: "error"}
	a.Errs = rapid.SampledFrom(errKindsGen).Draw(t, "errs")
	kind := rapid.SampledFrom(longAttemptKinds).Draw(t, "attempt")
	switch kind {
	case "refused":
		a.Dial = "refused"
		a.DialDelayMs = rapid.SampledFrom(longDialDelays).Draw(t, "dial-delay")
		return a
	case "hang":
		a.Dial = "hang"
		return a
	case "open-fail", "send-fail":
		a.Open = kind
		return a
	}
	a.Msgs = rapid.SliceOfN(rapid.Custom(func(t *rapid.T) Msg {
		return Msg{Kind: rapid.SampledFrom(msgKinds).Draw(t, "kind"), DelayMs: rapid.SampledFrom(longMsgDelays).Draw(t, "delay")}
	}), 0, 2).Draw(t, "msgs")
	if kind == "silence" {
		a.End = "silence"
		return a
	}
	a.End = rapid.SampledFrom([]string{"error", "error", "eof"}).Draw(t, "end")
	a.EndDelayMs = rapid.SampledFrom(longEndDelays).Draw(t, "end-delay")
	return a
}

func genLongScenario(t *rapid.T) *Scenario {
	sc := &Scenario{}
	p := rapid.SampledFrom(longProfiles).Draw(t, "delays")
	sc.BaseMs, sc.MaxMs = p.base, p.max
	sc.RandPct = rapid.SampledFrom(longRandPcts).Draw(t, "rand")
	if sc.RandPct != 0 {
		sc.Seed = rapid.Int64Range(1, 1<<30).Draw(t, "seed")
	}
	sc.RecvTimeoutMs = rapid.SampledFrom(longRecvTOs).Draw(t, "recv-timeout")
	sc.DialTimeoutMs = rapid.SampledFrom(longDialTOs).Draw(t, "dial-timeout")
	sc.NoErrCB = rapid.IntRange(0, 5).Draw(t, "no-err-cb") == 5
	sc.TmplPrefix = rapid.Bool().Draw(t, "tmpl-prefix")
	n := 1
	if rapid.IntRange(0, 9).Draw(t, "targets") >= 7 {
		n = 2
	}
	budget := longBudget
	for i := 0; i < n; i++ {
		tg := Target{}
		tg.Addr = rapid.IntRange(0, n-1).Draw(t, "addr")
		tg.Meta = rapid.SampledFrom(longMetas).Draw(t, "meta")
		tg.Errs = rapid.SampledFrom(errKindsGen).Draw(t, "errs")
		segs := rapid.IntRange(1, 6).Draw(t, "segments")
		for j := 0; j < segs && budget > 0; j++ {
			a := genLongAttempt(t)
			budget--
			r := rapid.SampledFrom(longRepeats).Draw(t, "repeat")
			if r > budget {
				r = budget
			}
			a.Repeat = r
			budget -= r
			tg.Attempts = append(tg.Attempts, a)
		}
		sc.Targets = append(sc.Targets, tg)
	}
	sc.Events = rapid.SliceOfN(rapid.Custom(func(t *rapid.T) Event {
		return Event{
			AfterMs: rapid.SampledFrom(longEventGaps).Draw(t, "after"),
			Kind:    rapid.SampledFrom(longEventKinds).Draw(t, "kind"),
			Target:  rapid.IntRange(0, n-1).Draw(t, "target"),
		}
	}), 0, 3).Draw(t, "events")
	bound := sc.MaxMs * (100 + sc.RandPct) / 100
	sc.TailMs = rapid.SampledFrom(longTailMinutes).Draw(t, "tail-minutes")*60000 + rapid.SampledFrom(longTailFactors).Draw(t, "tail")*bound/10
	return sc
}
