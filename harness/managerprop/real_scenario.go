package managerprop

// The "real" part of C13: the target manager over the REAL connection.Manager
// (github.com/openconfig/gnmi/connection) instead of a ConnectionManager double.
//
// The other parts hand the manager a double whose Connection call itself
// honours the context it is given. What the collector runs is manager.Manager
// over connection.Manager over a dial function (grpc.DialContext with
// grpc.WithBlock, the tunnel dialer, a custom Dial): there the dial is started
// by whichever target asks for an address first, runs on that caller's context
// (cancellation AND the deadline manager.createConn derives from
// Config.Timeout), and every other target naming the address waits for the
// shared result. Whether a dial that outlives the dial timeout ends up as a
// failed session that is retried, and whether Remove of a target whose dial is
// pending returns, is decided by that composition - which this part generates:
//
//   - per ADDRESS a script of dial-function behaviours, one per dial the
//     connection manager makes to it (DialStep): answer at once (ok / refused),
//     block until the context the dial function was given ends and then fail with
//     that context's error (the shape of grpc.WithBlock against a dead address),
//     block for a scripted virtual duration (shorter or longer than the dial
//     timeout) and then succeed or fail unless the context ends first, or hand
//     back a connection although the context has already ended (a dial function
//     whose success raced the cancellation);
//   - Config.Timeout 0 / small / large; 1-3 targets on shared or distinct
//     addresses, some of them added late (an Add landing while another target's
//     dial to the shared address is pending);
//   - per target the usual script of stream outcomes (the Subscribe stream stays
//     the in-memory double installed through manager.VerifSetSubscribeClient);
//   - Remove / Reconnect / Add at generated virtual instants: while a dial is
//     pending (as its starter or as a waiter), in backoff, while a stream is up.
//
//   - the target CONFIGURATION (config.go): Target.dialer naming the default
//     dialer, one of up to two named dialers registered through
//     connection.NewManagerCustom, or a name that is not registered - each
//     registered dialer is a dial function of its own with its own script per
//     address (Scenario.NamedDials), so the dial functions' record says which
//     dialer was asked to dial what, how often and with which outcome; one or
//     several address lines with hop chains behind them, starting with one next
//     hop or with several (createConn then makes several Connection calls per
//     attempt, in map order); credentials inline / by password id with scripted
//     lookup outcomes / unusable; further meta keys, also ones the manager
//     generates itself, and receive_timeout values that set no timeout; the same
//     *tpb.Target object handed to every Add of a name or a copy per Add, and one
//     object shared by two names.
//
// Oracle: judge() of the random part on the callback trace (Connection calls of
// the manager are recorded by a pass-through wrapper around the real
// connection.Manager) plus the two clauses of real_run.go: no Connection call
// of the manager stays outstanding longer than Config.Timeout (so a dial that
// outlives it is a failed attempt, which judge() then wants retried within the
// backoff bound), and every Remove returns; and checkFreshDials: "failed sessions
// are retried" is judged on the dial functions' own record - an error answer of
// the connection manager must be the failure of a dial function call that ended
// while the manager's Connection call was outstanding, not the remembered
// failure of an earlier one (a ConnectError report without a new dial is not a
// retry). Together with judge() - every failure of a managed target is followed
// by a new Connection call within the backoff bound, a fresh Add by a first one -
// this is what makes a target connect once its scripted dials succeed, also
// after Remove + Add.
//
// Several next hops make a case depend on Go's map iteration order (which hop
// is asked first); the oracle does not: the hops of one attempt are recognised
// by judge() as Connection calls to distinct next hops at the instant the
// previous one failed, with no error callback in between.
//
// Not generated (see validateReal): receive timeouts and slow Update callbacks
// (other parts cover them; a Remove that legitimately waits for a shared dial
// holds the manager's mutex meanwhile, see scenario.go), and - with
// Config.Timeout == 0 - a dial that blocks until its context ends on an address
// that several targets share: connection.Manager.Connection documents that
// a caller waits for a pending attempt unconditionally, so a Remove of a WAITING
// target returns only when the starter's dial ends, which without a dial
// timeout is never.

import (
	"fmt"

	"pgregory.net/rapid"
)

// DialStep is the scripted behaviour of one call of the dial function.
//
//	ok            returns a fresh idle connection at once
//	refused       fails at once
//	hang          blocks until the context it was given ends (deadline or cancellation), then fails with ctx.Err()
//	slow-ok       blocks Ms; then returns a connection - unless the context ends first, then fails with ctx.Err()
//	slow-refused  blocks Ms; then fails - unless the context ends first, then fails with ctx.Err()
//	late-ok       blocks until the context ends (or Ms elapse, if Ms > 0) and then returns a connection all the same
type DialStep struct {
	Kind string `json:"kind"`
	Ms   int    `json:"ms,omitempty"`
	Errs string `json:"errs,omitempty"` // shape of the error value (errKinds)
}

// blocksUntilCtx: the step ends only when its context does.
func (d DialStep) blocksUntilCtx() bool {
	return d.Kind == "hang" || (d.Kind == "late-ok" && d.Ms == 0)
}

// sharedAddr: more than one target names the address as a next hop (whatever
// their dialers: connection.Manager shares a connection per address).
func (sc *Scenario) sharedAddr(addr int) bool {
	n := 0
	for i := range sc.Targets {
		if sc.Targets[i].names(addr) {
			n++
		}
	}
	return n > 1
}

// dialScript is the script of dialer di (0 = default, k = k-th named) for address ai.
func (sc *Scenario) dialScript(di, ai int) []DialStep {
	by := sc.Dials
	if di > 0 {
		if di > len(sc.NamedDials) {
			return nil
		}
		by = sc.NamedDials[di-1]
	}
	if ai < 0 || ai >= len(by) {
		return nil
	}
	return by[ai]
}

// dialStepAt is the k-th step of that script (ok at once when it is exhausted).
func (sc *Scenario) dialStepAt(di, ai, k int) DialStep {
	if steps := sc.dialScript(di, ai); k >= 0 && k < len(steps) {
		return steps[k]
	}
	return defaultDialStep
}

// maxFiniteDialMs is the longest scripted duration of a dial step that ends by itself.
func (sc *Scenario) maxFiniteDialMs() int {
	m := 0
	for di := 0; di <= len(sc.NamedDials); di++ {
		for ai := 0; ai < nAddrs; ai++ {
			for _, d := range sc.dialScript(di, ai) {
				if !d.blocksUntilCtx() && d.Ms > m {
					m = d.Ms
				}
			}
		}
	}
	return m
}

// validateReal bounds the fields of the real part (and refuses them elsewhere).
func (sc *Scenario) validateReal() error {
	if !sc.Real {
		if len(sc.Dials) != 0 || len(sc.NamedDials) != 0 {
			return fmt.Errorf("dial scripts without real=true")
		}
		for i := range sc.Targets {
			if sc.Targets[i].Late {
				return fmt.Errorf("target %d: late targets exist in the real part only", i)
			}
		}
		return nil
	}
	if len(sc.Dials) > nAddrs {
		return fmt.Errorf("dial scripts for %d addresses (> %d)", len(sc.Dials), nAddrs)
	}
	if len(sc.NamedDials) > maxNamedDialers {
		return fmt.Errorf("%d named dialers (> %d)", len(sc.NamedDials), maxNamedDialers)
	}
	for k := range sc.NamedDials {
		if len(sc.NamedDials[k]) > nAddrs {
			return fmt.Errorf("named dialer %d: dial scripts for %d addresses (> %d)", k+1, len(sc.NamedDials[k]), nAddrs)
		}
	}
	if sc.anyRecvTimeout() || sc.anySlowCallback() {
		return fmt.Errorf("real part: receive timeouts and slow Update callbacks are not combined with the real connection manager")
	}
	for i := range sc.Targets {
		// (a receive_timeout meta value that sets no timeout - unparsable, "0s" - is fine:
		// anyRecvTimeout above)
		for j, a := range sc.Targets[i].Attempts {
			if a.Dial != "ok" || a.DialDelayMs != 0 {
				return fmt.Errorf("real part: target %d attempt %d scripts a dial (%q, %d ms); dials are scripted per address", i, j, a.Dial, a.DialDelayMs)
			}
		}
	}
	for di := 0; di <= len(sc.NamedDials); di++ {
		for ai := 0; ai < nAddrs; ai++ {
			steps := sc.dialScript(di, ai)
			if len(steps) > 64 {
				return fmt.Errorf("dialer %d address %d: too many dial steps", di, ai)
			}
			for k, d := range steps {
				switch d.Kind {
				case "ok", "refused", "hang":
					if d.Ms != 0 {
						return fmt.Errorf("dialer %d address %d dial %d: %s takes no duration", di, ai, k, d.Kind)
					}
				case "slow-ok", "slow-refused":
					if d.Ms <= 0 {
						return fmt.Errorf("dialer %d address %d dial %d: %s needs a duration", di, ai, k, d.Kind)
					}
				case "late-ok":
				default:
					return fmt.Errorf("dialer %d address %d dial %d: kind %q", di, ai, k, d.Kind)
				}
				if d.Ms < 0 || d.Ms > maxDelayMs || !validErrKind(d.Errs) {
					return fmt.Errorf("dialer %d address %d dial %d: duration %d / error kind %q", di, ai, k, d.Ms, d.Errs)
				}
				if sc.DialTimeoutMs == 0 && d.blocksUntilCtx() && sc.sharedAddr(ai) {
					// see the package comment above: a waiter's Remove would never return,
					// which is what connection.Manager.Connection documents
					return fmt.Errorf("dialer %d address %d dial %d: a dial that blocks until its context ends, on a shared address, without a dial timeout", di, ai, k)
				}
			}
		}
	}
	return nil
}

var (
	realProfiles = []delayProfile{
		{1000, 60000}, {1000, 60000}, {1000, 60000}, // production values
		{1000, 3000}, {500, 1500}, {100, 1000}, {2000, 10000}, {1000, 1000},
	}
	realDialTOs    = []int{0, 0, 301, 301, 2001, 2001, 10001, 60001} // none / small / large
	realDialKinds  = []string{"ok", "ok", "refused", "hang", "hang", "hang", "slow-ok", "slow-ok", "slow-refused", "slow-refused", "late-ok", "late-ok"}
	realDialMs     = []int{10, 200, 500, 1500, 3000, 20000, 100000}
	realLateMs     = []int{0, 0, 0, 500, 3000, 20000}
	realEventGaps  = []int{0, 1, 7, 50, 150, 333, 999, 1000, 1001, 1500, 2400, 3003, 5000, 9000, 20000, 61000}
	realEventKinds = []string{"remove", "remove", "remove", "reconnect", "reconnect", "reconnect", "add", "add", "add", "remove-unknown"}
	realMsgDelays  = []int{0, 0, 0, 10, 200, 1000, 2500}
	// the configuration dimension: how many named dialers are registered, which class of
	// dialer a target names, receive_timeout meta values that set no timeout
	realNamedCounts   = []int{0, 1, 1, 2, 2}
	realDialerClasses = []string{"default", "default", "default", "default", "named", "named", "named", "named", "named", "unregistered"}
	realMetas         = []string{"", "", "", "", "", "bogus", "0s"}
	realEndDelays     = []int{0, 0, 10, 500, 1000, 2500, 8000}
)

func genDialStep(t *rapid.T) DialStep {
	d := DialStep{Kind: rapid.SampledFrom(realDialKinds).Draw(t, "kind")}
	d.Errs = rapid.SampledFrom(errKindsGen).Draw(t, "errs")
	switch d.Kind {
	case "slow-ok", "slow-refused":
		d.Ms = rapid.SampledFrom(realDialMs).Draw(t, "ms")
	case "late-ok":
		d.Ms = rapid.SampledFrom(realLateMs).Draw(t, "ms")
	}
	return d
}

// genRealAttempt: the stream half of an attempt (the dial half is scripted per address).
func genRealAttempt(t *rapid.T) Attempt {
	a := Attempt{Dial: "ok", End: "error"}
	a.Errs = rapid.SampledFrom(errKindsGen).Draw(t, "errs")
	a.Open = rapid.SampledFrom(openKinds).Draw(t, "open")
	if a.Open != "" {
		return a
	}
	a.Msgs = rapid.SliceOfN(rapid.Custom(func(t *rapid.T) Msg {
		return Msg{Kind: rapid.SampledFrom(msgKinds).Draw(t, "kind"), DelayMs: rapid.SampledFrom(realMsgDelays).Draw(t, "delay")}
	}), 0, 3).Draw(t, "msgs")
	a.End = rapid.SampledFrom(endKinds).Draw(t, "end")
	if a.End != "silence" {
		a.EndDelayMs = rapid.SampledFrom(realEndDelays).Draw(t, "end-delay")
	}
	return a
}

func genRealScenario(t *rapid.T) *Scenario {
	sc := &Scenario{Real: true}
	p := rapid.SampledFrom(realProfiles).Draw(t, "delays")
	sc.BaseMs, sc.MaxMs = p.base, p.max
	sc.RandPct = rapid.SampledFrom(randPcts).Draw(t, "rand")
	if sc.RandPct != 0 {
		sc.Seed = rapid.Int64Range(1, 1<<30).Draw(t, "seed")
	}
	sc.DialTimeoutMs = rapid.SampledFrom(realDialTOs).Draw(t, "dial-timeout")
	sc.NoErrCB = rapid.IntRange(0, 5).Draw(t, "no-err-cb") == 5
	sc.TmplPrefix = rapid.Bool().Draw(t, "tmpl-prefix")
	n := rapid.IntRange(1, 3).Draw(t, "targets")
	share := rapid.SampledFrom([]string{"all", "all", "none", "any"}).Draw(t, "share")
	// the dialers registered with the connection manager besides the default one,
	// and which of them (or a name that is not registered) each target names
	nNamed := rapid.SampledFrom(realNamedCounts).Draw(t, "named-dialers")
	for i := 0; i < n; i++ {
		tg := Target{}
		switch share {
		case "all":
			tg.Addr = 0
		case "none":
			tg.Addr = i
		default:
			tg.Addr = rapid.IntRange(0, n-1).Draw(t, "addr")
		}
		tg.Late = i > 0 && rapid.IntRange(0, 3).Draw(t, "late") == 0
		tg.Attempts = rapid.SliceOfN(rapid.Custom(genRealAttempt), 0, 4).Draw(t, "attempts")
		tg.Errs = rapid.SampledFrom(errKindsGen).Draw(t, "errs")
		if !genSameAs(t, sc, &tg, i) {
			switch c := rapid.SampledFrom(realDialerClasses).Draw(t, "dialer"); {
			case c == "named" && nNamed > 0:
				tg.Dialer = rapid.IntRange(1, nNamed).Draw(t, "named")
			case c == "unregistered":
				tg.Dialer = unregisteredDialer
			}
			tg.Meta = rapid.SampledFrom(realMetas).Draw(t, "meta")
			genConfig(t, sc, &tg, i, true)
		}
		sc.Targets = append(sc.Targets, tg)
	}
	sc.NoCredClient = rapid.IntRange(0, 19).Draw(t, "no-cred-client") == 0
	sc.Dials = make([][]DialStep, nAddrs)
	sc.NamedDials = make([][][]DialStep, nNamed)
	for k := range sc.NamedDials {
		sc.NamedDials[k] = make([][]DialStep, nAddrs)
	}
	// a script per (dialer, address) some target can make the connection manager dial
	for di := 0; di <= nNamed; di++ {
		for ai := 0; ai < nAddrs; ai++ {
			used := false
			for i := range sc.Targets {
				used = used || (sc.Targets[i].Dialer == di && sc.Targets[i].names(ai))
			}
			if !used {
				continue
			}
			minSteps := 0
			if sc.sharedAddr(ai) {
				minSteps = 1
			}
			steps := rapid.SliceOfN(rapid.Custom(genDialStep), minSteps, 6).Draw(t, "dials")
			if sc.DialTimeoutMs == 0 && sc.sharedAddr(ai) {
				// see validateReal: without a dial timeout a dial on a shared address must end by itself
				for k := range steps {
					d := &steps[k]
					switch {
					case d.Kind == "hang":
						d.Kind, d.Ms = "slow-refused", realDialMs[(k+ai)%len(realDialMs)]
					case d.blocksUntilCtx():
						d.Ms = realDialMs[(k+ai)%len(realDialMs)]
					}
				}
			}
			if di == 0 {
				sc.Dials[ai] = steps
			} else {
				sc.NamedDials[di-1][ai] = steps
			}
		}
	}
	sc.Events = rapid.SliceOfN(rapid.Custom(func(t *rapid.T) Event {
		return Event{
			AfterMs: rapid.SampledFrom(realEventGaps).Draw(t, "after"),
			Kind:    rapid.SampledFrom(realEventKinds).Draw(t, "kind"),
			Target:  rapid.IntRange(0, n-1).Draw(t, "target"),
		}
	}), 0, 7).Draw(t, "events")
	// the first event that names a late target adds it
	lateSeen := map[int]bool{}
	for i := range sc.Events {
		e := &sc.Events[i]
		if sc.Targets[e.Target].Late && !lateSeen[e.Target] && e.Kind != "remove-unknown" {
			lateSeen[e.Target] = true
			e.Kind = "add"
		}
	}
	bound := sc.MaxMs * (100 + sc.RandPct) / 100
	sc.TailMs = rapid.SampledFrom(tailFactors).Draw(t, "tail") * bound / 10
	return sc
}
