package managerprop

// The "real" part of C13: the target manager over the REAL connection.Manager
// (github.com/openconfig/gnmi/connection) instead of a ConnectionManager double.
//
// The other parts hand the manager a double whose Connection call itself
// honours the context it is given. What the collector runs is manager.Manager
// over connection.Manager over a dial function (grpc.DialContext with
// grpc.WithBlock, the tunnel dialer, a custom Dial): there the dial is started
// by whichever target asks for an address first, runs on that caller's context
// (cancellation AND the deadline manager.createConn derives from
// Config.Timeout), and every other target naming the address waits for the
// shared result. Whether a dial that outlives the dial timeout ends up as a
// failed session that is retried, and whether Remove of a target whose dial is
// pending returns, is decided by that composition - which this part generates:
//
//   - per ADDRESS a script of dial-function behaviours, one per dial the
//     connection manager makes to it (DialStep): answer at once (ok / refused),
//     block until the context the dial function was given ends and then fail with
//     that context's error (the shape of grpc.WithBlock against a dead address),
//     block for a scripted virtual duration (shorter or longer than the dial
//     timeout) and then succeed or fail unless the context ends first, or hand
//     back a connection although the context has already ended (a dial function
//     whose success raced the cancellation);
//   - Config.Timeout 0 / small / large; 1-3 targets on shared or distinct
//     addresses, some of them added late (an Add landing while another target's
//     dial to the shared address is pending);
//   - per target the usual script of stream outcomes (the Subscribe stream stays
//     the in-memory double installed through manager.VerifSetSubscribeClient);
//   - Remove / Reconnect / Add at generated virtual instants: while a dial is
//     pending (as its starter or as a waiter), in backoff, while a stream is up.
//
// Oracle: judge() of the random part on the callback trace (Connection calls of
// the manager are recorded by a pass-through wrapper around the real
// connection.Manager) plus the two clauses of real_run.go: no Connection call
// of the manager stays outstanding longer than Config.Timeout (so a dial that
// outlives it is a failed attempt, which judge() then wants retried within the
// backoff bound), and every Remove returns.
//
// Not generated (see validateReal): receive timeouts and slow Update callbacks
// (other parts cover them; a Remove that legitimately waits for a shared dial
// holds the manager's mutex meanwhile, see scenario.go), and - with
// Config.Timeout == 0 - a dial that blocks until its context ends on an address
// that several targets share: connection.Manager.Connection documents that
// a caller waits for a pending attempt unconditionally, so a Remove of a WAITING
// target returns only when the starter's dial ends, which without a dial
// timeout is never.

import (
	"fmt"

	"pgregory.net/rapid"
)

// DialStep is the scripted behaviour of one call of the dial function.
//
//	ok            returns a fresh idle connection at once
//	refused       fails at once
//	hang          blocks until the context it was given ends (deadline or cancellation), then fails with ctx.Err()
//	slow-ok       blocks Ms; then returns a connection - unless the context ends first, then fails with ctx.Err()
//	slow-refused  blocks Ms; then fails - unless the context ends first, then fails with ctx.Err()
//	late-ok       blocks until the context ends (or Ms elapse, if Ms > 0) and then returns a connection all the same
type DialStep struct {
	Kind string `json:"kind"`
	Ms   int    `json:"ms,omitempty"`
	Errs string `json:"errs,omitempty"` // shape of the error value (errKinds)
}

// blocksUntilCtx: the step ends only when its context does.
func (d DialStep) blocksUntilCtx() bool {
	return d.Kind == "hang" || (d.Kind == "late-ok" && d.Ms == 0)
}

func (sc *Scenario) sharedAddr(addr int) bool {
	n := 0
	for i := range sc.Targets {
		if sc.Targets[i].Addr == addr {
			n++
		}
	}
	return n > 1
}

// maxFiniteDialMs is the longest scripted duration of a dial step that ends by itself.
func (sc *Scenario) maxFiniteDialMs() int {
	m := 0
	for _, steps := range sc.Dials {
		for _, d := range steps {
			if !d.blocksUntilCtx() && d.Ms > m {
				m = d.Ms
			}
		}
	}
	return m
}

// validateReal bounds the fields of the real part (and refuses them elsewhere).
func (sc *Scenario) validateReal() error {
	if !sc.Real {
		if len(sc.Dials) != 0 {
			return fmt.Errorf("dial scripts without real=true")
		}
		for i := range sc.Targets {
			if sc.Targets[i].Late {
				return fmt.Errorf("target %d: late targets exist in the real part only", i)
			}
		}
		return nil
	}
	if len(sc.Dials) > nAddrs {
		return fmt.Errorf("dial scripts for %d addresses (> %d)", len(sc.Dials), nAddrs)
	}
	if sc.anyRecvTimeout() || sc.anySlowCallback() {
		return fmt.Errorf("real part: receive timeouts and slow Update callbacks are not combined with the real connection manager")
	}
	for i := range sc.Targets {
		if sc.Targets[i].Meta != "" {
			return fmt.Errorf("real part: target %d carries a receive_timeout meta value", i)
		}
		for j, a := range sc.Targets[i].Attempts {
			if a.Dial != "ok" || a.DialDelayMs != 0 {
				return fmt.Errorf("real part: target %d attempt %d scripts a dial (%q, %d ms); dials are scripted per address", i, j, a.Dial, a.DialDelayMs)
			}
		}
	}
	for ai, steps := range sc.Dials {
		if len(steps) > 64 {
			return fmt.Errorf("address %d: too many dial steps", ai)
		}
		for k, d := range steps {
			switch d.Kind {
			case "ok", "refused", "hang":
				if d.Ms != 0 {
					return fmt.Errorf("address %d dial %d: %s takes no duration", ai, k, d.Kind)
				}
			case "slow-ok", "slow-refused":
				if d.Ms <= 0 {
					return fmt.Errorf("address %d dial %d: %s needs a duration", ai, k, d.Kind)
				}
			case "late-ok":
			default:
				return fmt.Errorf("address %d dial %d: kind %q", ai, k, d.Kind)
			}
			if d.Ms < 0 || d.Ms > maxDelayMs || !validErrKind(d.Errs) {
				return fmt.Errorf("address %d dial %d: duration %d / error kind %q", ai, k, d.Ms, d.Errs)
			}
			if sc.DialTimeoutMs == 0 && d.blocksUntilCtx() && sc.sharedAddr(ai) {
				// see the package comment above: a waiter's Remove would never return,
				// which is what connection.Manager.Connection documents
				return fmt.Errorf("address %d dial %d: a dial that blocks until its context ends, on a shared address, without a dial timeout", ai, k)
			}
		}
	}
	return nil
}

var (
	realProfiles = []delayProfile{
		{1000, 60000}, {1000, 60000}, {1000, 60000}, // production values
		{1000, 3000}, {500, 1500}, {100, 1000}, {2000, 10000}, {1000, 1000},
	}
	realDialTOs    = []int{0, 0, 301, 301, 2001, 2001, 10001, 60001} // none / small / large
	realDialKinds  = []string{"ok", "ok", "refused", "hang", "hang", "hang", "slow-ok", "slow-ok", "slow-refused", "slow-refused", "late-ok", "late-ok"}
	realDialMs     = []int{10, 200, 500, 1500, 3000, 20000, 100000}
	realLateMs     = []int{0, 0, 0, 500, 3000, 20000}
	realEventGaps  = []int{0, 1, 7, 50, 150, 333, 999, 1000, 1001, 1500, 2400, 3003, 5000, 9000, 20000, 61000}
	realEventKinds = []string{"remove", "remove", "remove", "reconnect", "reconnect", "reconnect", "add", "add", "add", "remove-unknown"}
	realMsgDelays  = []int{0, 0, 0, 10, 200, 1000, 2500}
	realEndDelays  = []int{0, 0, 10, 500, 1000, 2500, 8000}
)

func genDialStep(t *rapid.T) DialStep {
	d := DialStep{Kind: rapid.SampledFrom(realDialKinds).Draw(t, "kind")}
	d.Errs = rapid.SampledFrom(errKindsGen).Draw(t, "errs")
	switch d.Kind {
	case "slow-ok", "slow-refused":
		d.Ms = rapid.SampledFrom(realDialMs).Draw(t, "ms")
	case "late-ok":
		d.Ms = rapid.SampledFrom(realLateMs).Draw(t, "ms")
	}
	return d
}

// genRealAttempt: the stream half of an attempt (the dial half is scripted per address).
func genRealAttempt(t *rapid.T) Attempt {
	a := Attempt{Dial: "ok", End: "error"}
	a.Errs = rapid.SampledFrom(errKindsGen).Draw(t, "errs")
	a.Open = rapid.SampledFrom(openKinds).Draw(t, "open")
	if a.Open != "" {
		return a
	}
	a.Msgs = rapid.SliceOfN(rapid.Custom(func(t *rapid.T) Msg {
		return Msg{Kind: rapid.SampledFrom(msgKinds).Draw(t, "kind"), DelayMs: rapid.SampledFrom(realMsgDelays).Draw(t, "delay")}
	}), 0, 3).Draw(t, "msgs")
	a.End = rapid.SampledFrom(endKinds).Draw(t, "end")
	if a.End != "silence" {
		a.EndDelayMs = rapid.SampledFrom(realEndDelays).Draw(t, "end-delay")
	}
	return a
}

func genRealScenario(t *rapid.T) *Scenario {
	sc := &Scenario{Real: true}
	p := rapid.SampledFrom(realProfiles).Draw(t, "delays")
	sc.BaseMs, sc.MaxMs = p.base, p.max
	sc.RandPct = rapid.SampledFrom(randPcts).Draw(t, "rand")
	if sc.RandPct != 0 {
		sc.Seed = rapid.Int64Range(1, 1<<30).Draw(t, "seed")
	}
	sc.DialTimeoutMs = rapid.SampledFrom(realDialTOs).Draw(t, "dial-timeout")
	sc.NoErrCB = rapid.IntRange(0, 5).Draw(t, "no-err-cb") == 5
	sc.TmplPrefix = rapid.Bool().Draw(t, "tmpl-prefix")
	n := rapid.IntRange(1, 3).Draw(t, "targets")
	share := rapid.SampledFrom([]string{"all", "all", "none", "any"}).Draw(t, "share")
	for i := 0; i < n; i++ {
		tg := Target{}
		switch share {
		case "all":
			tg.Addr = 0
		case "none":
			tg.Addr = i
		default:
			tg.Addr = rapid.IntRange(0, n-1).Draw(t, "addr")
		}
		tg.Late = i > 0 && rapid.IntRange(0, 3).Draw(t, "late") == 0
		tg.Attempts = rapid.SliceOfN(rapid.Custom(genRealAttempt), 0, 4).Draw(t, "attempts")
		tg.Errs = rapid.SampledFrom(errKindsGen).Draw(t, "errs")
		sc.Targets = append(sc.Targets, tg)
	}
	sc.Dials = make([][]DialStep, n)
	for ai := 0; ai < n; ai++ {
		used := false
		for i := range sc.Targets {
			used = used || sc.Targets[i].Addr == ai
		}
		if !used {
			continue
		}
		minSteps := 0
		if sc.sharedAddr(ai) {
			minSteps = 1
		}
		sc.Dials[ai] = rapid.SliceOfN(rapid.Custom(genDialStep), minSteps, 6).Draw(t, "dials")
		if sc.DialTimeoutMs == 0 && sc.sharedAddr(ai) {
			// see validateReal: without a dial timeout a dial on a shared address must end by itself
			for k := range sc.Dials[ai] {
				d := &sc.Dials[ai][k]
				switch {
				case d.Kind == "hang":
					d.Kind, d.Ms = "slow-refused", realDialMs[(k+ai)%len(realDialMs)]
				case d.blocksUntilCtx():
					d.Ms = realDialMs[(k+ai)%len(realDialMs)]
				}
			}
		}
	}
	sc.Events = rapid.SliceOfN(rapid.Custom(func(t *rapid.T) Event {
		return Event{
			AfterMs: rapid.SampledFrom(realEventGaps).Draw(t, "after"),
			Kind:    rapid.SampledFrom(realEventKinds).Draw(t, "kind"),
			Target:  rapid.IntRange(0, n-1).Draw(t, "target"),
		}
	}), 0, 7).Draw(t, "events")
	// the first event that names a late target adds it
	lateSeen := map[int]bool{}
	for i := range sc.Events {
		e := &sc.Events[i]
		if sc.Targets[e.Target].Late && !lateSeen[e.Target] && e.Kind != "remove-unknown" {
			lateSeen[e.Target] = true
			e.Kind = "add"
		}
	}
	bound := sc.MaxMs * (100 + sc.RandPct) / 100
	sc.TailMs = rapid.SampledFrom(tailFactors).Draw(t, "tail") * bound / 10
	return sc
}
