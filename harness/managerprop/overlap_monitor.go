package managerprop

import (
	"fmt"
	"sort"
	"strings"
	"time"
)

// ---------------------------------------------------------------------------
// linearizability of Add / Remove results over the one-bit state "managed"
//
// With calls overlapping, whether a name is managed at a point of the trace is
// not known, only constrained: every Add / Remove takes effect at some point
// between its call and its return event, Add succeeds iff the name is not
// managed, Remove succeeds iff it is. linState keeps every configuration
// (managed?, which of the pending calls have taken effect and how) that is
// consistent with the results seen so far; it is exact for this tiny model.
// ---------------------------------------------------------------------------

type linState struct {
	ids   []int  // pending Add / Remove calls
	kinds []byte // 'A' / 'R'
	// configuration: byte 0 = 'M' (managed) / 'U'; byte 1+k = status of pending call k:
	// '0' not yet effective, '1' took effect and succeeded, '2' took effect and was refused
	cfgs map[string]bool
}

func newLinState() *linState { return &linState{cfgs: map[string]bool{"U": true}} }

func (l *linState) closure() {
	work := make([]string, 0, len(l.cfgs))
	for c := range l.cfgs {
		work = append(work, c)
	}
	for len(work) > 0 {
		c := work[len(work)-1]
		work = work[:len(work)-1]
		for k := range l.ids {
			if c[1+k] != '0' {
				continue
			}
			b := []byte(c)
			switch {
			case l.kinds[k] == 'A' && c[0] == 'U':
				b[0], b[1+k] = 'M', '1'
			case l.kinds[k] == 'A':
				b[1+k] = '2'
			case c[0] == 'M':
				b[0], b[1+k] = 'U', '1'
			default:
				b[1+k] = '2'
			}
			if n := string(b); !l.cfgs[n] {
				l.cfgs[n] = true
				work = append(work, n)
			}
		}
	}
}

func (l *linState) call(id int, kind byte) {
	l.ids = append(l.ids, id)
	l.kinds = append(l.kinds, kind)
	next := make(map[string]bool, 2*len(l.cfgs))
	for c := range l.cfgs {
		next[c+"0"] = true
	}
	l.cfgs = next
	l.closure()
}

// ret applies the result of call id; false = no configuration is consistent with it.
func (l *linState) ret(id int, ok bool) bool {
	k := -1
	for j, x := range l.ids {
		if x == id {
			k = j
		}
	}
	if k < 0 {
		return true
	}
	want := byte('2')
	if ok {
		want = '1'
	}
	next := map[string]bool{}
	for c := range l.cfgs {
		if c[1+k] == want {
			next[c[:1+k]+c[2+k:]] = true
		}
	}
	l.ids = append(l.ids[:k:k], l.ids[k+1:]...)
	l.kinds = append(l.kinds[:k:k], l.kinds[k+1:]...)
	if len(next) == 0 {
		// keep going from "anything" so that one verdict is reported, not a cascade
		l.cfgs = map[string]bool{"U" + strings.Repeat("0", len(l.ids)): true, "M" + strings.Repeat("0", len(l.ids)): true}
		l.closure()
		return false
	}
	l.cfgs = next
	return true
}

// live: the name is managed, or a Remove of it has taken effect and has not
// returned yet (its teardown is in progress).
func (l *linState) live(c string) bool {
	if c[0] == 'M' {
		return true
	}
	for k := range l.ids {
		if l.kinds[k] == 'R' && c[1+k] == '1' {
			return true
		}
	}
	return false
}

// observeLive prunes the configurations in which the name is not live; false =
// there is none in which it is.
func (l *linState) observeLive() bool {
	next := map[string]bool{}
	for c := range l.cfgs {
		if l.live(c) {
			next[c] = true
		}
	}
	if len(next) == 0 {
		return false
	}
	l.cfgs = next
	return true
}

func (l *linState) possiblyLive() bool {
	for c := range l.cfgs {
		if l.live(c) {
			return true
		}
	}
	return false
}

func (l *linState) describe() string {
	var cs []string
	for c := range l.cfgs {
		cs = append(cs, c)
	}
	sort.Strings(cs)
	var p []string
	for k, id := range l.ids {
		p = append(p, fmt.Sprintf("%c#%d", l.kinds[k], id))
	}
	return fmt.Sprintf("pending calls %v, consistent configurations %v", p, cs)
}

// ---------------------------------------------------------------------------

// ostate is the per-name monitor of the overlap part. Unlike tstate it is never
// reset at an Add: with the unchanged manager the streams of one name are
// strictly sequential even across incarnations (Remove returns, and frees the
// manager's mutex for the next Add, only after the old goroutine has finished).
type ostate struct {
	name    string
	timeout time.Duration
	lin     *linState
	addSeen bool // an Add of the name has been called at some point

	cur       *sstate
	streams   map[int]*sstate
	lastEnded *sstate
	sess      *sstate
	owed      int
	allowance int

	dialing      bool
	recvCallAt   *time.Duration
	recvStream   *sstate
	recvCanceled bool
	parked       int

	lastAct     time.Duration // last activity of the manager for this name (not external calls)
	failPending bool          // a failure is waiting for its retry
	// untracedAt: instant of a Reconnect that was called while a retry may have
	// been starting (failure pending, >= RetryBaseDelay since its last trace, nothing
	// of a new attempt seen yet). The retry loop takes a fresh context only at the top
	// of an attempt; a Reconnect that lands between that point and the dial makes the
	// attempt fail before it has called any collaborator - with nil error callbacks it
	// leaves no trace at all - and the backoff starts again from that instant. The
	// retry bounds are therefore measured from the later of the two.
	untracedAt      *time.Duration
	addSinceFail    bool
	removesInFlight int
	callsInFlight   map[int]string // call id -> kind (all kinds, this name)
	lastCallAt      *time.Duration // instant of the latest external call for this name
	lastCallInfo    string
}

type reconnClaim struct {
	name string
	s    *sstate
	at   time.Duration
	idx  int
}

// retryBase is the instant the upper retry bound is measured from.
func (t *ostate) retryBase() time.Duration {
	if t.untracedAt != nil && *t.untracedAt > t.lastAct {
		return *t.untracedAt
	}
	return t.lastAct
}

func (t *ostate) quiet() bool {
	return t.sess == nil && t.owed == 0 && !t.dialing && t.recvCallAt == nil && t.parked == 0
}

// judgeOverlap checks the trace of an overlap scenario.
func judgeOverlap(sc *OScenario, trace []Ev) (*stats, error) {
	st := &stats{}
	bound := sc.retryBound()
	minDelay := ms(sc.BaseMs)
	ts := map[string]*ostate{}
	for i := range sc.Targets {
		ts[tname(i)] = &ostate{name: tname(i), timeout: sc.effectiveTimeout(i), lin: newLinState(), callsInFlight: map[int]string{}}
		if sc.Targets[i].Hold != "" {
			st.label("hold-" + sc.Targets[i].Hold)
		}
		if sc.Targets[i].Creds {
			st.label("credentials")
		}
	}
	ts[ghost] = &ostate{name: ghost, lin: newLinState(), callsInFlight: map[int]string{}}
	st.label(fmt.Sprintf("targets=%d", len(sc.Targets)))
	if sc.NoErrCB {
		st.label("error-callbacks-nil")
	}

	fail := func(i int, t *ostate, class, format string, a ...any) (*stats, error) {
		name := ""
		if t != nil {
			name = t.name
		}
		return st, failf(class, "target %s at %s: %s\ntrace of the target up to there:\n%s", name, trace[i], fmt.Sprintf(format, a...), renderTail(trace, i, name, 18))
	}
	var claims []reconnClaim
	reconnAsked := map[int]*reconnClaim{} // call id -> claim made at the call, confirmed at a successful return
	inFlightAll := 0

	for i, e := range trace {
		if e.Kind == kEnd {
			for _, name := range sortedONames(ts) {
				t := ts[name]
				if t.owed > 0 {
					return fail(i, t, "reset-missing", "%d stream(s) whose Recv failed were never followed by a Reset", t.owed)
				}
				if t.sess != nil {
					return fail(i, t, "reset-missing", "the session of stream n=%d was never ended by a Reset", t.sess.n)
				}
				for c := range t.lin.cfgs {
					if c[0] == 'M' && len(t.lin.cfgs) == 1 {
						return fail(i, t, "harness-error", "target still managed at the end of the case")
					}
				}
				if len(t.callsInFlight) > 0 {
					return fail(i, t, "harness-error", "calls still in flight at the end of the case: %v", t.callsInFlight)
				}
			}
			for _, c := range claims {
				if c.s.endAt == nil || *c.s.endAt > c.at {
					return fail(c.idx, ts[c.name], "reconnect-ignored", "Reconnect returned nil while the Recv of stream n=%d was blocked, yet the stream was not cancelled at that instant", c.s.n)
				}
			}
			continue
		}
		t := ts[e.Tgt]
		if t == nil {
			return st, failf("harness-error", "event for unknown target: %s", e)
		}
		isCB := strings.HasPrefix(e.Kind, "cb-")
		isStart := e.Kind == kDialStart || e.Kind == kOpen || e.Kind == kSend || e.Kind == kRecvCall || e.Kind == kCred
		// Clause: once Remove returns no further callback for that target is made (nor
		// does the manager start anything new for it), and a name that was never added
		// never sees one. Under overlapping calls: there must be a linearization of the
		// Adds and Removes seen so far in which the name is managed, or a Remove of it
		// is still running, at this point.
		if isCB || isStart {
			if !t.lin.observeLive() {
				what := "callback"
				class := "callback-after-remove"
				if isStart {
					what, class = "new activity of the manager", "activity-after-remove"
				}
				if !t.addSeen {
					return fail(i, t, "callback-for-unknown-target", "%s for a name no Add was ever called for", what)
				}
				return fail(i, t, class, "%s although every Add of the name that can have taken effect has been undone by a Remove that has returned (%s)", what, t.lin.describe())
			}
		}
		switch e.Kind {
		case kAddCall, kRemoveCall, kReconnectCall:
			if inFlightAll > 0 {
				st.label("call-overlaps-call-in-flight")
				st.overlapHits++
				for _, k := range t.callsInFlight {
					st.label(fmt.Sprintf("same-name:%s-during-%s", strings.TrimSuffix(e.Kind, "-call"), k))
				}
			}
			if strings.HasPrefix(e.Info, "inline") {
				st.label("call-inline")
			} else {
				st.label("call-async")
			}
			inFlightAll++
			t.callsInFlight[e.Call] = strings.TrimSuffix(e.Kind, "-call")
			at := e.At
			t.lastCallAt, t.lastCallInfo = &at, e.Kind
			// where does the call land?
			if t.recvCallAt != nil && !t.recvCanceled && t.timeout > 0 {
				switch d := e.At - *t.recvCallAt; {
				case d == t.timeout:
					st.label(strings.TrimSuffix(e.Kind, "-call") + "-at-own-timeout-instant")
					st.overlapHits++
				case d == t.timeout-time.Millisecond:
					st.label("call-1ms-before-own-timeout")
				}
			}
			for _, o := range ts {
				if o != t && o.recvCallAt != nil && !o.recvCanceled && o.timeout > 0 && e.At-*o.recvCallAt == o.timeout {
					st.label("call-at-another-targets-timeout-instant")
				}
			}
			if t.failPending && t.parked == 0 && e.At-t.lastAct == 0 && e.At > 0 {
				st.label("call-at-own-failure-instant")
			}
			switch e.Kind {
			case kAddCall:
				t.addSeen = true
				t.lin.call(e.Call, 'A')
				if t.failPending {
					t.addSinceFail = true
				}
			case kRemoveCall:
				// Clause: failed sessions are retried for as long as the target is managed.
				if t.failPending && t.parked == 0 && t.removesInFlight == 0 && e.At-t.retryBase() > bound+slack {
					return fail(i, t, "no-retry", "the failure whose last trace is at +%v was not followed by a new attempt although no Remove was called for %v (> RetryMaxDelay = %v)", t.retryBase(), e.At-t.retryBase(), bound)
				}
				t.failPending = false
				t.untracedAt = nil
				t.removesInFlight++
				t.lin.call(e.Call, 'R')
				switch {
				case t.parked > 0:
					st.label("remove-while-parked")
				case t.recvCallAt != nil && t.sess != nil:
					st.label("remove-mid-session")
				case t.recvCallAt != nil:
					st.label("remove-pre-connect")
				case t.dialing:
					st.label("remove-during-dial")
				}
			case kReconnectCall:
				if t.recvCallAt != nil && !t.recvCanceled && t.recvStream != nil {
					reconnAsked[e.Call] = &reconnClaim{name: t.name, s: t.recvStream, at: e.At, idx: i}
				}
				if t.failPending && !t.dialing && t.recvCallAt == nil && e.At-t.retryBase()+slack >= minDelay {
					// see ostate.untracedAt
					at := e.At
					t.untracedAt = &at
					st.label("reconnect-where-a-retry-may-be-starting")
				}
			}
		case kAddRet, kRemoveRet, kReconnectRet:
			inFlightAll--
			delete(t.callsInFlight, e.Call)
			ok := e.Err == ""
			switch e.Kind {
			case kAddRet:
				if !t.lin.ret(e.Call, ok) {
					if ok {
						return fail(i, t, "duplicate-add-accepted", "Add returned nil although the name is managed under every order of the overlapping calls")
					}
					return fail(i, t, "add-failed", "Add was refused (%s) although the name is not managed under any order of the overlapping calls", e.Err)
				}
				if ok {
					st.label("add-accepted")
				} else {
					st.label("add-refused")
				}
			case kRemoveRet:
				t.removesInFlight--
				if !t.lin.ret(e.Call, ok) {
					if ok {
						return fail(i, t, "unknown-remove-accepted", "Remove returned nil although the name is not managed under any order of the overlapping calls")
					}
					return fail(i, t, "remove-failed", "Remove was refused (%s) although the name is managed under every order of the overlapping calls", e.Err)
				}
				if ok {
					st.label("remove-accepted")
					// Clause: Remove does not return until the subscription is completed.
					if !t.lin.possiblyLive() && !t.quiet() {
						return fail(i, t, "remove-returned-early", "Remove returned although the target's session has not wound down (open session %v, ended streams without Reset %d, dial in progress %v, Recv outstanding %v, parked goroutines %d) and no other Add can have taken effect",
							t.sess != nil, t.owed, t.dialing, t.recvCallAt != nil, t.parked)
					}
				} else {
					st.label("remove-refused")
				}
			case kReconnectRet:
				if c := reconnAsked[e.Call]; c != nil && ok {
					claims = append(claims, *c)
					st.label("reconnect-while-recv-blocked")
				}
				delete(reconnAsked, e.Call)
				if !ok {
					st.label("reconnect-refused")
				}
			}
		case kSettled, kHoldRelease:
		case kPark:
			t.parked++
			t.lastAct = e.At
		case kUnpark:
			t.parked--
			t.lastAct = e.At
		case kCred:
			st.label("cred-lookup")
		case kDialStart:
			// Clause (one live session per name): a new attempt begins only when the
			// previous stream of the name has ended and its Reset has been delivered.
			if (t.cur != nil && !t.cur.ended && !t.cur.sendFail) || t.owed > 0 || t.sess != nil || t.dialing {
				return fail(i, t, "sessions-overlap", "a new connection attempt starts while the previous one of the same name is not over (stream n=%d ended %v, ended streams without Reset %d, open session %v, dial in progress %v)",
					curN(t.cur), t.cur != nil && t.cur.ended, t.owed, t.sess != nil, t.dialing)
			}
			t.dialing = true
			if t.failPending {
				if late := e.At - t.retryBase(); late > bound+slack {
					return fail(i, t, "retry-too-late", "next attempt starts %v after the last trace of the failed one (+%v); the bound is RetryMaxDelay = %v", late, t.retryBase(), bound)
				}
				gap := e.At - t.lastAct
				if !t.addSinceFail && gap+slack < minDelay {
					return fail(i, t, "retry-without-backoff", "next attempt starts %v after the last trace of the failed one (+%v); the smallest backoff interval is RetryBaseDelay = %v", gap, t.lastAct, minDelay)
				}
				st.label("retry")
				if t.lastCallAt != nil && *t.lastCallAt == e.At {
					st.label("call-at-own-retry-instant")
					st.overlapHits++
				}
			}
			t.failPending = false
			t.untracedAt = nil
			t.lastAct = e.At
		case kDialResult:
			t.dialing = false
			t.lastAct = e.At
			if e.Err != "" {
				t.failed()
				st.label("dial-failed")
			}
		case kRelease:
			t.lastAct = e.At
		case kOpen:
			t.lastAct = e.At
			if e.Err != "" {
				t.failed()
				st.label("open-failed")
				break
			}
			t.cur = &sstate{n: e.N}
			if t.streams == nil {
				t.streams = map[int]*sstate{}
			}
			t.streams[e.N] = t.cur
			t.allowance = 0
		case kSend:
			t.lastAct = e.At
			if want := "prefix-target=" + t.name; !strings.HasPrefix(e.Info, want) || strings.Contains(e.Info, "body-differs") {
				return fail(i, t, "request-not-customised", "the subscription request sent on the stream is not the template customised with the target's name in its prefix: %s", e.Info)
			}
			if e.Err != "" {
				t.failed()
				if t.cur != nil {
					t.cur.sendFail = true
				}
				t.allowance = 1
				st.label("send-failed")
			}
		case kRecvCall:
			at := e.At
			t.recvCallAt, t.recvCanceled, t.recvStream = &at, false, t.streams[e.N]
			t.lastAct = e.At
		case kRecvCancel:
			// Clause (receive timeout): silence beyond the timeout ends the session.
			if t.recvCallAt != nil && t.timeout > 0 {
				if d := e.At - *t.recvCallAt; d > t.timeout {
					return fail(i, t, "recv-timeout-not-enforced", "Recv was left waiting for %v although the target's receive timeout is %v", d, t.timeout)
				} else if d == t.timeout {
					st.label("recv-timeout-fired")
				}
			}
			t.recvCanceled = true
			t.lastAct = e.At
			if s := t.streams[e.N]; s != nil && s.endAt == nil {
				at := e.At
				s.endAt = &at
			}
		case kRecvRet:
			s := t.streams[e.N]
			if s == nil {
				s = &sstate{n: e.N}
			}
			if t.recvCallAt != nil && t.timeout > 0 && !t.recvCanceled {
				if d := e.At - *t.recvCallAt; d > t.timeout {
					return fail(i, t, "recv-timeout-not-enforced", "Recv was left waiting for %v although the target's receive timeout is %v", d, t.timeout)
				}
			}
			t.recvCallAt, t.recvCanceled, t.recvStream = nil, false, nil
			t.lastAct = e.At
			if e.Err == "" {
				s.msgs++
				switch e.Info {
				case "update":
					s.want = append(s.want, fmt.Sprintf("U%d", e.ID))
				case "sync":
					s.want = append(s.want, "S")
				}
				// The Recv a Reconnect found blocked handed over a message after all (the
				// call raced its arrival): the stream learns of the cancellation at its
				// next Recv, which a parked callback can delay. No claim.
				keep := claims[:0]
				for _, c := range claims {
					if c.s != s {
						keep = append(keep, c)
					}
				}
				claims = keep
				for id, c := range reconnAsked {
					if c.s == s {
						delete(reconnAsked, id)
					}
				}
				break
			}
			if s.ended {
				break
			}
			s.ended = true
			if s.endAt == nil {
				at := e.At
				s.endAt = &at
			}
			t.lastEnded = s
			t.owed++
			t.failed()
			if s.msgs > 0 {
				st.failAfterData++
			}
			switch e.Info {
			case "eof":
				st.label("eof")
			case "error":
				st.label("stream-error")
			case "ctx":
				st.label("stream-cancelled")
				st.label("stream-cancelled:" + errShape(e.Err))
			}
		case kConnect:
			if t.cur == nil || t.cur.msgs == 0 {
				return fail(i, t, "connect-before-first-message", "Connect reported although the current stream has not delivered a message yet")
			}
			if t.cur.connected {
				return fail(i, t, "connect-twice", "second Connect for the same stream")
			}
			if t.owed > 0 {
				return fail(i, t, "reset-missing", "Connect reported while %d ended stream(s) have not been followed by a Reset", t.owed)
			}
			if t.sess != nil {
				return fail(i, t, "connect-without-reset", "Connect reported while the session of stream n=%d has not been ended by a Reset", t.sess.n)
			}
			t.cur.connected = true
			t.sess = t.cur
			t.lastAct = e.At
			st.label("connect")
		case kUpdate, kSync:
			tok := "S"
			if e.Kind == kUpdate {
				tok = fmt.Sprintf("U%d", e.ID)
			}
			if t.sess == nil {
				return fail(i, t, "delivery-outside-session", "%s delivered outside a session (no Connect since the last Reset)", tok)
			}
			if t.sess.got >= len(t.sess.want) {
				return fail(i, t, "delivery-not-in-stream-order", "%s delivered, but the stream of the session has handed over no further update/sync (received so far: %v)", tok, t.sess.want)
			}
			if w := t.sess.want[t.sess.got]; w != tok {
				return fail(i, t, "delivery-not-in-stream-order", "%s delivered where the stream's order demands %s (received so far: %v)", tok, w, t.sess.want)
			}
			t.sess.got++
			t.lastAct = e.At
		case kReset:
			if s := t.lastEnded; s != nil && s.got != len(s.want) {
				return fail(i, t, "delivery-missing", "Reset reported although %d of the %d update/sync messages the stream handed over were not delivered (%v)", len(s.want)-s.got, len(s.want), s.want)
			}
			if t.sess != nil && !t.sess.ended {
				return fail(i, t, "reset-without-ended-stream", "Reset reported while the session's stream has not ended")
			}
			t.sess = nil
			switch {
			case t.owed > 0:
				t.owed--
			case t.allowance > 0:
				t.allowance--
			default:
				return fail(i, t, "reset-without-ended-stream", "Reset reported, but every ended stream of the name has had its Reset already")
			}
			t.lastAct = e.At
			st.label("reset")
		case kConnectError, kMonitorError:
			// Clause: the callbacks of a name form ( ConnectError | MonitorError | Reset |
			// Connect (Update|Sync)* Reset )*: an error is reported between sessions.
			if t.sess != nil {
				return fail(i, t, "error-callback-inside-session", "%s reported while the session of stream n=%d is open (Connect reported, no Reset yet)", e.Kind, t.sess.n)
			}
			t.lastAct = e.At
			st.label(e.Kind[3:] + "-callback")
		}
	}
	if len(trace) == 0 || trace[len(trace)-1].Kind != kEnd {
		return st, failf("harness-error", "trace does not end with the end marker")
	}
	return st, nil
}

// failed notes a failure of the current attempt: a retry is owed unless a
// Remove of the name is in progress (the failure may be its doing).
func (t *ostate) failed() {
	if t.removesInFlight == 0 {
		if !t.failPending {
			t.addSinceFail = false
		}
		t.failPending = true
	}
}

func curN(s *sstate) int {
	if s == nil {
		return -1
	}
	return s.n
}

func sortedONames(m map[string]*ostate) []string {
	out := make([]string, 0, len(m))
	for k := range m {
		out = append(out, k)
	}
	sort.Strings(out)
	return out
}
