package managerprop

import (
	"encoding/json"
	"strings"
	"testing"
	"time"

	"pgregory.net/rapid"
)

// Self-checks of the machinery (run by hand; the driver only runs TestC13Random / TestReplay).

// TestSelfDeterminism: a scenario is a pure function of its data - two runs
// give the same per-target traces (the interleaving of different targets at
// one virtual instant is not fixed and not relied upon).
func TestSelfDeterminism(t *testing.T) {
	perTarget := func(tr []Ev) map[string][]string {
		out := map[string][]string{}
		for _, e := range tr {
			switch e.Kind {
			case kAddRet, kReconnectRet, kRemoveRet, kSettled:
				// recorded by the harness goroutine while the manager's goroutine is
				// already reacting to the call: their position is not fixed
				continue
			}
			e.I = 0
			out[e.Tgt] = append(out[e.Tgt], e.String())
		}
		return out
	}
	rapid.Check(t, func(rt *rapid.T) {
		sc := genScenario(rt)
		_, a, err := runScenarioTrace(t, sc)
		if err != nil {
			rt.Fatalf("%v", err)
		}
		_, b, err := runScenarioTrace(t, sc)
		if err != nil {
			rt.Fatalf("%v", err)
		}
		pa, pb := perTarget(a), perTarget(b)
		if sc.RandPct != 0 && len(sc.Targets) > 1 {
			return // jitter: targets draw from one global source in scheduler order
		}
		ja, _ := json.Marshal(pa)
		jb, _ := json.Marshal(pb)
		if string(ja) != string(jb) {
			rt.Fatalf("two runs of one scenario differ:\n%s\n---\n%s", ja, jb)
		}
	})
}

// TestSelfJudge: the judge on hand-made traces, one per clause.
func TestSelfJudge(t *testing.T) {
	sc := &Scenario{BaseMs: 1000, MaxMs: 3000, RecvTimeoutMs: 2003, Targets: []Target{{Addr: 0, Attempts: []Attempt{{Dial: "ok", Msgs: []Msg{{Kind: "update"}, {Kind: "sync"}}, End: "error"}}}}}
	s := time.Second
	good := []Ev{
		{Tgt: "t0", Kind: kAddCall, N: -1, Info: "fresh"},
		{Tgt: "t0", Kind: kAddRet, N: -1, Info: "fresh"},
		{Tgt: "t0", Kind: kDialStart, N: 0},
		{Tgt: "t0", Kind: kDialResult, N: 0},
		{Tgt: "t0", Kind: kOpen, N: 0},
		{Tgt: "t0", Kind: kSend, N: 0, Info: "prefix-target=t0"},
		{Tgt: "t0", Kind: kRecvCall, N: 0},
		{Tgt: "t0", Kind: kRecvRet, N: 0, ID: 1000001, Info: "update"},
		{Tgt: "t0", Kind: kConnect, N: -1},
		{Tgt: "t0", Kind: kUpdate, N: -1, ID: 1000001},
		{Tgt: "t0", Kind: kRecvCall, N: 0},
		{Tgt: "t0", Kind: kRecvRet, N: 0, Info: "sync"},
		{Tgt: "t0", Kind: kSync, N: -1},
		{Tgt: "t0", Kind: kRecvCall, N: 0},
		{Tgt: "t0", Kind: kRecvRet, N: 0, Info: "error", Err: "x"},
		{Tgt: "t0", Kind: kReset, N: -1},
		{Tgt: "t0", Kind: kRelease, N: 0},
		{Tgt: "t0", Kind: kConnectError, N: -1, Err: "x"},
		{Tgt: "t0", Kind: kMonitorError, N: -1, Err: "x"},
		{Tgt: "t0", Kind: kDialStart, N: 1, At: 1 * s},
		{Tgt: "t0", Kind: kDialResult, N: 1, At: 1 * s, Err: "refused", Info: "refused"},
		{Tgt: "t0", Kind: kRemoveCall, N: -1, At: 2 * s, Info: "final"},
		{Tgt: "t0", Kind: kRemoveRet, N: -1, At: 2 * s, Info: "final"},
		{Tgt: "t0", Kind: kSettled, N: -1, At: 2 * s, Info: kRemoveCall + " final"},
		{Tgt: "", Kind: kEnd, N: -1, At: 32 * s},
	}
	renumber := func(tr []Ev) []Ev {
		out := append([]Ev{}, tr...)
		for i := range out {
			out[i].I = i
		}
		return out
	}
	if _, err := judge(sc, renumber(good)); err != nil {
		t.Fatalf("good trace rejected: %v", err)
	}
	del := func(tr []Ev, i int) []Ev { return append(append([]Ev{}, tr[:i]...), tr[i+1:]...) }
	ins := func(tr []Ev, i int, e Ev) []Ev {
		return append(append(append([]Ev{}, tr[:i]...), e), tr[i:]...)
	}
	swap := func(tr []Ev, i, j int) []Ev {
		out := append([]Ev{}, tr...)
		out[i], out[j] = out[j], out[i]
		return out
	}
	shift := func(tr []Ev, from int, d time.Duration) []Ev {
		out := append([]Ev{}, tr...)
		for i := from; i < len(out); i++ {
			out[i].At += d
		}
		return out
	}
	bad := []struct {
		name  string
		trace []Ev
		class string
	}{
		{"connect before first message", swap(good, 7, 8), "connect-before-first-message"},
		{"update before connect", swap(good, 8, 9), "delivery-outside-session"},
		{"sync before update", swap(swap(good, 9, 12), 10, 11), "delivery-not-in-stream-order"},
		{"no reset", del(good, 15), "reset-missing"},
		{"reset twice", ins(good, 15, good[15]), "reset-without-ended-stream"},
		{"reset mid-session", ins(good, 10, good[15]), "reset-without-ended-stream"},
		{"update dropped", del(good, 9), "delivery-not-in-stream-order"},
		{"sync dropped", del(good, 12), "delivery-missing"},
		{"sync after reset", ins(del(good, 12), 15, good[12]), "delivery-missing"},
		{"sync after reset (late only)", ins(good, 16, good[12]), "delivery-outside-session"},
		{"second connect", ins(good, 10, good[8]), "connect-twice"},
		{"callback after remove", ins(good, 24, Ev{Tgt: "t0", Kind: kMonitorError, N: -1, At: 3 * s}), "callback-after-remove"},
		{"callback for unknown name", ins(good, 5, Ev{Tgt: ghost, Kind: kReset, N: -1}), "callback-for-unknown-target"},
		{"retry too late", shift(good, 19, 3*s), "retry-too-late"},
		{"retry at once", shift(good, 19, -1*s), "retry-without-backoff"},
		{"no retry", shift(del(del(good, 19), 19), 19, 4*s), "no-retry"},
		{"recv waits beyond timeout", shift(good, 11, 3*s), "recv-timeout-not-enforced"},
		{"request not customised", func() []Ev { o := renumber(good); o[5].Info = "prefix-target=template-target"; return o }(), "request-not-customised"},
	}
	for _, b := range bad {
		_, err := judge(sc, renumber(b.trace))
		if err == nil {
			t.Errorf("%s: accepted", b.name)
			continue
		}
		if c := classOf(err); c != b.class {
			t.Errorf("%s: class %s, want %s (%v)", b.name, c, b.class, strings.SplitN(err.Error(), "\n", 2)[0])
		}
	}
}

// TestSelfDialBound: the dial-timeout clause of the real part on hand-made traces.
func TestSelfDialBound(t *testing.T) {
	sc := &Scenario{Real: true, BaseMs: 1000, MaxMs: 3000, DialTimeoutMs: 2001, Targets: []Target{{Addr: 0}}, Dials: [][]DialStep{{{Kind: "hang"}}}}
	s := time.Second
	good := []Ev{
		{Tgt: "t0", Kind: kDialStart, N: 0},
		{Tgt: "t0", Kind: kDialResult, N: 0, At: 2001 * time.Millisecond, Err: "context deadline exceeded"},
		{Tgt: "t0", Kind: kDialStart, N: 1, At: 3001 * time.Millisecond},
		{Tgt: "", Kind: kEnd, N: -1, At: 4 * s},
	}
	if err := checkDialBound(sc, good, nil); err != nil {
		t.Fatalf("good trace refused: %v", err)
	}
	late := []Ev{
		{Tgt: "t0", Kind: kDialStart, N: 0},
		{Tgt: "t0", Kind: kDialResult, N: 0, At: 3 * s, Err: "context canceled"},
		{Tgt: "", Kind: kEnd, N: -1, At: 4 * s},
	}
	if err := checkDialBound(sc, late, nil); err == nil || classOf(err) != "dial-timeout-not-enforced" {
		t.Fatalf("late answer accepted: %v", err)
	}
	never := []Ev{
		{Tgt: "t0", Kind: kDialStart, N: 0},
		{Tgt: "", Kind: kEnd, N: -1, At: 4 * s},
	}
	if err := checkDialBound(sc, never, nil); err == nil || classOf(err) != "dial-timeout-not-enforced" {
		t.Fatalf("unanswered attempt accepted: %v", err)
	}
	sc0 := *sc
	sc0.DialTimeoutMs = 0
	if err := checkDialBound(&sc0, never, nil); err != nil {
		t.Fatalf("without a dial timeout nothing is demanded: %v", err)
	}
	// validateReal: what the part never generates
	bad := &Scenario{Real: true, BaseMs: 1000, MaxMs: 3000, Targets: []Target{{Addr: 0}, {Addr: 0}}, Dials: [][]DialStep{{{Kind: "hang"}}}}
	if err := bad.validate(); err == nil {
		t.Fatalf("hang on a shared address without a dial timeout accepted")
	}
	bad.DialTimeoutMs = 301
	if err := bad.validate(); err != nil {
		t.Fatalf("hang on a shared address with a dial timeout refused: %v", err)
	}
}

// TestSelfFreshDials: the clause "a retry is a new call of the dial function" of
// the real part on hand-made traces.
func TestSelfFreshDials(t *testing.T) {
	sc := &Scenario{Real: true, BaseMs: 1000, MaxMs: 3000, Targets: []Target{{Addr: 0, Dialer: 1}, {Addr: 0, Dialer: unregisteredDialer}},
		NamedDials: [][][]DialStep{{{{Kind: "refused"}}}}}
	s := time.Second
	trace := []Ev{
		{Tgt: "t0", Kind: kDialStart, N: 0, Info: addrOf(0)},
		{Tgt: "t0", Kind: kDialResult, N: 0, Err: "refused", Info: "real"},
		{Tgt: "t0", Kind: kDialStart, N: 1, At: 1 * s, Info: addrOf(0)},
		{Tgt: "t0", Kind: kDialResult, N: 1, At: 1 * s, Err: "refused", Info: "real"},
		{Tgt: "", Kind: kEnd, N: -1, At: 4 * s},
	}
	first := DialEv{Dialer: 1, Addr: 0, K: 0, Kind: "refused", By: "t0", Ended: true, Outcome: "refused"}
	second := DialEv{Dialer: 1, Addr: 0, K: 1, Kind: "refused", By: "t0", Start: 1 * s, End: 1 * s, Ended: true, Outcome: "refused"}
	if err := checkFreshDials(sc, trace, []DialEv{first, second}); err != nil {
		t.Fatalf("two attempts, two dials refused: %v", err)
	}
	if err := checkFreshDials(sc, trace, []DialEv{first}); err == nil || classOf(err) != "retry-without-dial" {
		t.Fatalf("a second answer without a second dial accepted: %v", err)
	}
	// a dial that SUCCEEDED while the call was outstanding does not explain an error answer
	okDial := second
	okDial.Outcome = "ok"
	if err := checkFreshDials(sc, trace, []DialEv{first, okDial}); err == nil {
		t.Fatalf("an error answer next to a successful dial accepted")
	}
	// a dial to another address does not count
	other := second
	other.Addr = 1
	if err := checkFreshDials(sc, trace, []DialEv{first, other}); err == nil {
		t.Fatalf("a dial to another address accepted as the retry")
	}
	// the context of the call had ended / the dialer is not registered: no dial function needed
	ctxDone := append([]Ev{}, trace...)
	ctxDone[3].Info = "real ctx-done"
	if err := checkFreshDials(sc, ctxDone, []DialEv{first}); err != nil {
		t.Fatalf("answer for an ended context refused: %v", err)
	}
	noDialer := append([]Ev{}, trace...)
	noDialer[3].Err = "no such dialer: nosuch"
	if err := checkFreshDials(sc, noDialer, []DialEv{first}); err != nil {
		t.Fatalf("no-such-dialer answer on an address an unregistered dialer is configured for refused: %v", err)
	}
	sc1 := *sc
	sc1.Targets = sc.Targets[:1]
	if err := checkFreshDials(&sc1, noDialer, []DialEv{first}); err == nil {
		t.Fatalf("no-such-dialer answer accepted although every configured dialer is registered")
	}
}

// TestSelfJudgeConfig: the judge's clauses of the configuration dimension
// (credentials lookups begin attempts, next hops of one attempt, Add starts an attempt).
func TestSelfJudgeConfig(t *testing.T) {
	s := time.Second
	renumber := func(tr []Ev) []Ev {
		out := append([]Ev{}, tr...)
		for i := range out {
			out[i].I = i
		}
		return out
	}
	add := []Ev{{Tgt: "t0", Kind: kAddCall, N: -1, Info: "fresh"}, {Tgt: "t0", Kind: kAddRet, N: -1, Info: "fresh"}}
	end := func(at time.Duration) []Ev {
		return []Ev{
			{Tgt: "t0", Kind: kRemoveCall, N: -1, At: at, Info: "final"},
			{Tgt: "t0", Kind: kRemoveRet, N: -1, At: at, Info: "final"},
			{Tgt: "t0", Kind: kSettled, N: -1, At: at, Info: kRemoveCall + " final"},
			{Tgt: "", Kind: kEnd, N: -1, At: at + 30*s},
		}
	}
	cat := func(parts ...[]Ev) []Ev {
		var out []Ev
		for _, p := range parts {
			out = append(out, p...)
		}
		return renumber(out)
	}
	check := func(name string, sc *Scenario, tr []Ev, class string) {
		t.Helper()
		_, err := judge(sc, tr)
		switch {
		case class == "" && err != nil:
			t.Errorf("%s: refused: %v", name, err)
		case class != "" && err == nil:
			t.Errorf("%s: accepted", name)
		case class != "" && classOf(err) != class:
			t.Errorf("%s: class %s, want %s", name, classOf(err), class)
		}
	}
	// credentials lookups
	cred := &Scenario{BaseMs: 1000, MaxMs: 3000, Targets: []Target{{Addr: 0, Cred: "id", CredSteps: []string{"fail"}}}}
	lookup := func(at time.Duration, n int, err string) Ev {
		return Ev{Tgt: "t0", Kind: kCred, N: n, At: at, Err: err}
	}
	dial := func(at time.Duration, n int, addr, err string) []Ev {
		return []Ev{{Tgt: "t0", Kind: kDialStart, N: n, At: at, Info: addr}, {Tgt: "t0", Kind: kDialResult, N: n, At: at, Err: err, Info: "real"}}
	}
	check("lookup fails, retried after 1 s", cred, cat(add, []Ev{lookup(0, 0, "x"), lookup(1*s, 1, "")}, dial(1*s, 0, addrOf(0), "refused"), end(2*s)), "")
	check("lookup fails, retried at once", cred, cat(add, []Ev{lookup(0, 0, "x"), lookup(0, 1, "")}, dial(0, 0, addrOf(0), "refused"), end(1*s)), "retry-without-backoff")
	check("lookup fails, never retried", cred, cat(add, []Ev{lookup(0, 0, "x")}, end(10*s)), "no-retry")
	check("dial right after its lookup is no retry", cred, cat(add, []Ev{lookup(0, 0, "")}, dial(0, 0, addrOf(0), "refused"), []Ev{lookup(1*s, 1, "")}, dial(1*s, 1, addrOf(0), "refused"), end(2*s)), "")
	// next hops
	hops := &Scenario{Real: true, BaseMs: 1000, MaxMs: 3000, Targets: []Target{{Addr: 0, More: []AddrLine{{Addr: 1}}}}}
	check("second next hop at the instant the first failed", hops, cat(add, dial(0, 0, addrOf(1), "refused"), dial(0, 1, addrOf(0), "refused"), end(1*s)), "")
	check("the same next hop again at once", hops, cat(add, dial(0, 0, addrOf(1), "refused"), dial(0, 1, addrOf(1), "refused"), end(1*s)), "retry-without-backoff")
	check("third call at once", hops, cat(add, dial(0, 0, addrOf(1), "refused"), dial(0, 1, addrOf(0), "refused"), dial(0, 2, addrOf(1), "refused"), end(1*s)), "retry-without-backoff")
	one := &Scenario{Real: true, BaseMs: 1000, MaxMs: 3000, Targets: []Target{{Addr: 0, More: []AddrLine{{Addr: 0, Hops: 1}}}}}
	check("one next hop: a second call at once is a retry", one, cat(add, dial(0, 0, addrOf(0), "refused"), dial(0, 1, addrOf(1), "refused"), end(1*s)), "retry-without-backoff")
	// Add starts an attempt
	plain := &Scenario{BaseMs: 1000, MaxMs: 3000, Targets: []Target{{Addr: 0}}}
	check("added, never attempted", plain, cat(add, end(10*s)), "no-attempt-after-add")
	check("added and removed soon", plain, cat(add, end(2*s)), "")
	broken := &Scenario{BaseMs: 1000, MaxMs: 3000, Targets: []Target{{Addr: 0, Cred: "broken"}}}
	check("unusable credentials: attempts are invisible", broken, cat(add, end(10*s)), "")
}

// TestSelfRealRoundTrip: a generated scenario of the real part survives the
// replay file (JSON) and runs to the same verdict.
func TestSelfRealRoundTrip(t *testing.T) {
	rapid.Check(t, func(rt *rapid.T) {
		sc := genRealScenario(rt)
		raw, err := json.Marshal(sc)
		if err != nil {
			rt.Fatalf("%v", err)
		}
		var back Scenario
		if err := json.Unmarshal(raw, &back); err != nil {
			rt.Fatalf("%v", err)
		}
		if err := back.validate(); err != nil {
			rt.Fatalf("replayed scenario invalid: %v\n%s", err, raw)
		}
		again, _ := json.Marshal(&back)
		if string(again) != string(raw) {
			rt.Fatalf("scenario changed in the round trip:\n%s\n%s", raw, again)
		}
		if _, err := runScenario(t, &back); err != nil {
			rt.Fatalf("%v", err)
		}
	})
}
