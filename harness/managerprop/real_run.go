package managerprop

// Execution and the additional clauses of the real part (see real_scenario.go).

import (
	"context"
	"errors"
	"fmt"
	"strings"
	"sync"
	"testing"
	"testing/synctest"
	"time"

	"google.golang.org/grpc"
	"google.golang.org/grpc/connectivity"
	"google.golang.org/grpc/credentials/insecure"
	"google.golang.org/protobuf/proto"

	"github.com/openconfig/gnmi/connection"
	"github.com/openconfig/gnmi/manager"
	gpb "github.com/openconfig/gnmi/proto/gnmi"
	"verif/harness/internal/vstat"
)

// DialEv is one call of the scripted dial function.
type DialEv struct {
	Dialer   int           `json:"dialer,omitempty"` // 0 = the default dialer's function, k = the k-th named dialer's
	Addr     int           `json:"addr"`
	K        int           `json:"k"`    // number of the dial this dialer made to this address
	Kind     string        `json:"kind"` // DialStep.Kind ("ok" once the script is exhausted)
	By       string        `json:"by"`   // target named by the metadata of the context the dial runs on (labels only)
	Start    time.Duration `json:"start"`
	End      time.Duration `json:"end"`
	Ended    bool          `json:"ended"`
	Outcome  string        `json:"outcome"`  // ok | refused | ctx-deadline | ctx-cancel | late-ok-deadline | late-ok-cancel | late-ok-timer | abort
	Deadline bool          `json:"deadline"` // the context carried a deadline
}

func (d DialEv) String() string {
	end := "still pending"
	if d.Ended {
		end = fmt.Sprintf("ended +%v %s", d.End, d.Outcome)
	}
	return fmt.Sprintf("dial #%d of dialer %q to %s (%s) started +%v by %s, %s", d.K, dialerName(d.Dialer), addrOf(d.Addr), d.Kind, d.Start, d.By, end)
}

type realWorld struct {
	cm      *connection.Manager
	next    [maxNamedDialers + 1][nAddrs]int // dials made so far, per dial function and address
	abort   chan struct{}                    // closed by the clean-up: every pending and later dial fails at once
	created []*grpc.ClientConn
	dials   []*DialEv
}

func addrIndex(addr string) int {
	for i := 0; i < nAddrs; i++ {
		if addr == addrOf(i) {
			return i
		}
	}
	return -1
}

var defaultDialStep = DialStep{Kind: "ok"}

// dialFnFor is the connection.Dial registered under dialer di (0 = connection.DEFAULT).
func (w *world) dialFnFor(di int) connection.Dial {
	return func(ctx context.Context, addr string, opts ...grpc.DialOption) (*grpc.ClientConn, error) {
		return w.dialFn(di, ctx, addr, opts...)
	}
}

// dialFn is what the dial functions the real connection manager is built with
// do: the k-th call of dialer di for an address follows the k-th step of that
// dialer's script for the address. Whatever it is scripted to do, it returns as
// soon as the context it was given ends (as grpc.DialContext with grpc.WithBlock does).
func (w *world) dialFn(di int, ctx context.Context, addr string, opts ...grpc.DialOption) (*grpc.ClientConn, error) {
	rw := w.real
	ai := addrIndex(addr)
	if ai < 0 {
		w.flagHarness("dial to an address no target is configured with: %q", addr)
		return nil, errRefused
	}
	_, hasDL := ctx.Deadline()
	w.mu.Lock()
	k := rw.next[di][ai]
	rw.next[di][ai]++
	step := w.sc.dialStepAt(di, ai, k)
	ev := &DialEv{Dialer: di, Addr: ai, K: k, Kind: step.Kind, By: targetOf(ctx), Start: time.Since(w.t0), Deadline: hasDL}
	rw.dials = append(rw.dials, ev)
	w.mu.Unlock()

	finish := func(outcome string) {
		w.mu.Lock()
		ev.End, ev.Ended, ev.Outcome = time.Since(w.t0), true, outcome
		w.mu.Unlock()
	}
	succeed := func(outcome string) (*grpc.ClientConn, error) {
		// an idle client: no network, no timers until somebody uses it (nobody does:
		// the stream constructor is the harness's)
		cc, err := grpc.NewClient(fmt.Sprintf("passthrough:///addr%d", ai), opts...)
		if err != nil {
			w.flagHarness("grpc.NewClient: %v", err)
			finish("refused")
			return nil, err
		}
		w.mu.Lock()
		rw.created = append(rw.created, cc)
		w.mu.Unlock()
		finish(outcome)
		return cc, nil
	}
	ctxEnd := func() string {
		if ctx.Err() == context.DeadlineExceeded {
			return "deadline"
		}
		return "cancel"
	}
	// wait blocks d (for ever if d <= 0) or until the context ends; "" = the time elapsed.
	wait := func(d time.Duration) string {
		var tc <-chan time.Time
		if d > 0 {
			tm := time.NewTimer(d)
			defer tm.Stop()
			tc = tm.C
		}
		select {
		case <-rw.abort:
			return "abort"
		case <-ctx.Done():
			return ctxEnd()
		case <-tc:
			return ""
		}
	}
	select {
	case <-rw.abort:
		finish("abort")
		return nil, errRefused
	default:
	}
	switch step.Kind {
	case "ok":
		return succeed("ok")
	case "refused":
		finish("refused")
		return nil, shapeErr(step.Errs, errRefused)
	case "late-ok":
		switch how := wait(ms(step.Ms)); how {
		case "abort":
			finish("abort")
			return nil, errRefused
		case "":
			return succeed("late-ok-timer")
		default:
			return succeed("late-ok-" + how)
		}
	}
	// hang, slow-ok, slow-refused
	d := ms(step.Ms)
	if step.Kind == "hang" {
		d = 0
	}
	switch how := wait(d); how {
	case "abort":
		finish("abort")
		return nil, errRefused
	case "":
		if step.Kind == "slow-ok" {
			return succeed("ok")
		}
		finish("refused")
		return nil, shapeErr(step.Errs, errRefused)
	default:
		finish("ctx-" + how)
		return nil, shapeErr(step.Errs, ctx.Err())
	}
}

// realCM is the manager.ConnectionManager handed to the manager: the real
// connection.Manager with every call and return recorded (dial-start /
// dial-result of the trace are the manager's Connection call and its return).
type realCM struct{ w *world }

func (r realCM) Connection(ctx context.Context, addr, dialer string) (*grpc.ClientConn, func(), error) {
	w := r.w
	name := targetOf(ctx)
	w.mu.Lock()
	tg := w.tg[name]
	if tg == nil {
		w.mu.Unlock()
		w.flagHarness("Connection(%q) without an attributable target (metadata target %q)", addr, name)
		return nil, func() {}, errRefused
	}
	ar := &attemptRun{n: tg.next, att: defaultAttempt}
	if a, ok := scriptAt(tg.spec.Attempts, ar.n); ok {
		ar.att = a
	} else {
		ar.att.Errs = tg.spec.Errs
	}
	tg.next++
	tg.cur = ar
	w.mu.Unlock()
	ai := addrIndex(addr)
	if ai < 0 || !tg.spec.names(ai) {
		w.flagHarness("target %s asked for %q, which is not the next hop of any of its address lines", name, addr)
		return nil, func() {}, errRefused
	}
	if dialer != dialerName(tg.spec.Dialer) {
		w.flagHarness("target %s: Connection asked for dialer %q, configured %q", name, dialer, dialerName(tg.spec.Dialer))
	}
	w.rec(name, kDialStart, ar.n, 0, nil, addr)
	conn, done, err := w.real.cm.Connection(ctx, addr, dialer)
	if err != nil {
		info := "real"
		if ctx.Err() != nil {
			// the context of the call has ended (Remove, Reconnect, dial deadline)
			info = "real ctx-done"
		}
		w.rec(name, kDialResult, ar.n, 0, err, info)
		return conn, done, err
	}
	w.mu.Lock()
	ar.conn = conn
	w.refs[ai]++
	w.mu.Unlock()
	w.rec(name, kDialResult, ar.n, 0, nil, "real")
	var once sync.Once
	return conn, func() {
		once.Do(func() {
			w.mu.Lock()
			w.refs[ai]--
			w.mu.Unlock()
			w.rec(name, kRelease, ar.n, 0, nil, "")
		})
		done()
	}, nil
}

// dialBound is how long a Connection call of the manager may stay outstanding:
// Config.Timeout where one is configured (manager.Config: "the optional
// duration to wait for a gRPC dial"), otherwise the longest scripted dial that
// ends by itself (dials that last until their context ends are generated on
// unshared addresses only in that case, where they end with their only user).
func (sc *Scenario) dialBound() time.Duration {
	if sc.DialTimeoutMs > 0 {
		return ms(sc.DialTimeoutMs)
	}
	return ms(sc.maxFiniteDialMs())
}

// removeBound: a Remove that has not returned after this much virtual time is
// taken to never return. The statement presupposes that Remove returns and
// gives no latency; what the code waits for is the target's goroutine, which
// (callbacks and the stream honouring cancellation at once) is held up only
// inside connection.Manager.Connection by a dial another target started - for
// at most dialBound - or, in a manager that lets it run out, by the current
// backoff interval. Both are granted.
func (sc *Scenario) removeBound() time.Duration {
	return sc.dialBound() + sc.retryBound() + slack
}

func runReal(t *testing.T, w *world) (st *stats, trace []Ev, err error) {
	sc := w.sc
	w.real = &realWorld{}
	st = &stats{}
	var runErr error
	finished := false
	func() {
		defer func() {
			// synctest panics here (outside the bubble) when goroutines of the case stay
			// blocked for ever although every dial was released and every target removed.
			if r := recover(); r != nil {
				if runErr != nil {
					msg := runErr.Error()
					var f *failure
					if errors.As(runErr, &f) {
						msg = f.msg
					}
					runErr = failf(classOf(runErr), "%s\nadditionally goroutines of the case never finish (%v)", msg, r)
				} else {
					runErr = failf("deadlock", "goroutines of the case never finish (%v); trace tail:\n%s%s", r, w.tail("", 14), w.dialTail())
				}
			}
		}()
		// A goroutine waiting for the manager's mutex while its holder waits for a
		// dial is not "durably" blocked: neither synctest.Wait nor the virtual clock
		// would move. Structural verdict (vstat.Watchdog), not a timeout.
		defer vstat.Watchdog(30*time.Second, 5*time.Second)()
		synctest.Test(t, func(*testing.T) {
			defer func() {
				if r := recover(); r != nil {
					runErr = failf("panic", "panic on the scenario goroutine: %v", r)
				}
			}()
			runErr = w.executeReal()
			finished = runErr == nil
		})
	}()
	w.mu.Lock()
	trace = w.trace
	dials := make([]DialEv, len(w.real.dials))
	for i, d := range w.real.dials {
		dials[i] = *d
	}
	w.mu.Unlock()
	var jerr error
	if finished {
		st, jerr = judge(sc, trace)
	}
	realLabels(sc, trace, dials, st)
	derr := checkDialBound(sc, trace, dials)
	if derr == nil {
		derr = checkFreshDials(sc, trace, dials)
	}
	if derr != nil {
		if runErr != nil {
			msg := derr.Error()
			var f *failure
			if errors.As(derr, &f) {
				msg = f.msg
			}
			return st, trace, failf(classOf(derr), "%s\nlater in the same case: %v", msg, runErr)
		}
		return st, trace, derr
	}
	if runErr != nil {
		return st, trace, runErr
	}
	if w.harnessErr != "" {
		return st, trace, failf("harness-error", "%s", w.harnessErr)
	}
	return st, trace, jerr
}

func (w *world) dialTail() string {
	w.mu.Lock()
	defer w.mu.Unlock()
	out := "dial function calls:\n"
	for _, d := range w.real.dials {
		out += "  " + d.String() + "\n"
	}
	return out
}

func renderDials(dials []DialEv) string {
	out := "dial function calls:\n"
	for _, d := range dials {
		out += "  " + d.String() + "\n"
	}
	return out
}

// checkDialBound. Clause: a dial that outlives the dial timeout is a failed
// attempt. The manager asks for a connection (dial-start) and must have its
// answer (dial-result) no later than Config.Timeout afterwards - whether it
// started the dial itself or waits for one another target started, which is
// then older - so that judge() sees a failure and demands the retry. Every
// scripted dial function returns the moment its context ends.
func checkDialBound(sc *Scenario, trace []Ev, dials []DialEv) error {
	if sc.DialTimeoutMs <= 0 || len(trace) == 0 {
		return nil
	}
	limit := ms(sc.DialTimeoutMs) + slack
	endAt := trace[len(trace)-1].At
	type key struct {
		tgt string
		n   int
	}
	open := map[key]int{}
	var order []key
	for i, e := range trace {
		switch e.Kind {
		case kDialStart:
			k := key{e.Tgt, e.N}
			open[k] = i
			order = append(order, k)
		case kDialResult:
			k := key{e.Tgt, e.N}
			j, ok := open[k]
			if !ok {
				continue
			}
			delete(open, k)
			if d := e.At - trace[j].At; d > limit {
				return failf("dial-timeout-not-enforced", "target %s: the connection attempt n=%d begun at +%v got its answer only %v later (%s); Config.Timeout is %v\ntrace of the target up to there:\n%s%s",
					e.Tgt, e.N, trace[j].At, d, e, ms(sc.DialTimeoutMs), renderTail(trace, i, e.Tgt, 12), renderDials(dials))
			}
		}
	}
	for _, k := range order {
		j, ok := open[k]
		if !ok {
			continue
		}
		if d := endAt - trace[j].At; d > limit {
			return failf("dial-timeout-not-enforced", "target %s: the connection attempt n=%d begun at +%v is still unanswered %v later, at the end of the trace (no failure reported, nothing retried); Config.Timeout is %v\ntrace of the target:\n%s%s",
				k.tgt, k.n, trace[j].At, d, ms(sc.DialTimeoutMs), renderTail(trace, len(trace)-1, k.tgt, 12), renderDials(dials))
		}
	}
	return nil
}

// realLabels: the distribution of the new dimensions and the non-trivial rule.
func realLabels(sc *Scenario, trace []Ev, dials []DialEv, st *stats) {
	st.label("real-connection-manager")
	switch {
	case sc.DialTimeoutMs == 0:
		st.label("dial-timeout=none")
	case sc.DialTimeoutMs < 1000:
		st.label("dial-timeout=small")
	case sc.DialTimeoutMs <= 2001:
		st.label("dial-timeout=medium")
	default:
		st.label("dial-timeout=large")
	}
	// the dial functions' own record: which dialer's function was called, and
	// whether a failed dial of a dialer to an address was followed by another one
	type da struct{ dialer, addr int }
	failedBefore := map[da]bool{}
	for _, d := range dials {
		st.label("dialfn-of-dialer:" + dialerClass(d.Dialer))
		k := da{d.Dialer, d.Addr}
		if failedBefore[k] {
			st.label("redial-after-failed-dial:" + dialerClass(d.Dialer))
			if d.Dialer > 0 {
				st.realNamedRedials++
			}
		}
		if d.Ended && !dialSucceeded(d.Outcome) && d.Outcome != "abort" {
			failedBefore[k] = true
			st.label("dial-failed:" + dialerClass(d.Dialer))
		}
	}
	for _, d := range dials {
		if !d.Ended {
			st.label("dialfn:" + d.Kind + ":never-ended")
			st.realBlockedDials++
			continue
		}
		st.label("dialfn:" + d.Kind + ":" + d.Outcome)
		if d.End > d.Start {
			st.realBlockedDials++
			st.label("dialfn-blocked")
		}
		switch d.Outcome {
		case "ctx-deadline", "late-ok-deadline":
			st.realDeadlineEnds++
			st.label("dialfn-ended-by-dial-deadline")
		case "ctx-cancel", "late-ok-cancel":
			st.label("dialfn-ended-by-cancellation")
		}
		if d.Kind == "slow-ok" || d.Kind == "slow-refused" {
			if sc.DialTimeoutMs > 0 && sc.dialStepAt(d.Dialer, d.Addr, d.K).Ms > sc.DialTimeoutMs {
				st.label("dialfn-scripted-longer-than-dial-timeout")
			} else if sc.DialTimeoutMs > 0 {
				st.label("dialfn-scripted-shorter-than-dial-timeout")
			}
		}
	}
	// pendingDial: the dial function call in progress at instant at (nil if none) to
	// the address tgt has asked for last - before its first call: to any of its next hops
	callAddr := map[string]int{}
	pendingDial := func(tgt string, at time.Duration) *DialEv {
		hops := sc.Targets[idxOf(tgt)].nextHops()
		if ai, ok := callAddr[tgt]; ok {
			hops = []int{ai}
		}
		for i := range dials {
			d := &dials[i]
			for _, ai := range hops {
				if d.Addr == ai && d.Start <= at && (!d.Ended || d.End > at) {
					return d
				}
			}
		}
		return nil
	}
	outstanding := map[string]bool{} // a Connection call of the target is outstanding
	removeAt := map[string]time.Duration{}
	for _, e := range trace {
		if e.Tgt == ghost || e.Tgt == "" {
			continue
		}
		role := func() string {
			if d := pendingDial(e.Tgt, e.At); d != nil && d.By != e.Tgt {
				return "waiter"
			}
			return "starter"
		}
		switch e.Kind {
		case kDialStart:
			outstanding[e.Tgt] = true
			callAddr[e.Tgt] = addrIndex(e.Info)
			if d := pendingDial(e.Tgt, e.At); d != nil && d.By != e.Tgt {
				st.label("joined-a-pending-shared-dial")
				if d.Start < e.At {
					st.label("joined-a-shared-dial-begun-earlier")
				}
				if d.Dialer != sc.Targets[idxOf(e.Tgt)].Dialer {
					st.label("joined-a-dial-of-another-dialer")
				}
			}
		case kDialResult:
			outstanding[e.Tgt] = false
			if strings.Contains(e.Err, "no such dialer") {
				st.label("no-such-dialer-reported")
			}
		case kAddRet:
			if e.Info != "duplicate" {
				delete(callAddr, e.Tgt)
			}
		case kRemoveCall:
			removeAt[e.Tgt] = e.At
			if e.Info == "event" && outstanding[e.Tgt] {
				st.realOpDuringDial++
				st.label("remove-while-dial-pending:" + role())
			}
		case kRemoveRet:
			if e.Info == "unknown" {
				break
			}
			if e.At > removeAt[e.Tgt] {
				st.label("remove-waited-in-virtual-time")
			} else {
				st.label("remove-returned-at-once")
			}
		case kReconnectCall:
			if e.Info == "managed" && outstanding[e.Tgt] {
				st.realOpDuringDial++
				st.label("reconnect-while-dial-pending:" + role())
			}
		case kAddCall:
			if outstanding[e.Tgt] {
				st.realOpDuringDial++
				st.label("duplicate-add-while-dial-pending")
			} else if e.Info != "duplicate" {
				if d := pendingDial(e.Tgt, e.At); d != nil && d.Start < e.At {
					st.realOpDuringDial++
					st.label("add-while-shared-dial-pending")
				}
			}
		}
	}
	if st.realNontrivial() {
		st.label("real-nontrivial")
	}
}

func (s *stats) realNontrivial() bool {
	return s != nil && (s.realBlockedDials > 0 && (s.realDeadlineEnds > 0 || s.realOpDuringDial > 0) || s.realNamedRedials > 0)
}

func dialSucceeded(outcome string) bool {
	return outcome == "ok" || strings.HasPrefix(outcome, "late-ok")
}

// checkFreshDials. Clause: failed sessions are RETRIED - judged on the dial
// functions' own record. A Connection call of the manager that is answered with
// an error reports the failure of an attempt to reach the address; that attempt
// is a call of a dial function to the address which ended, unsuccessfully, while
// the Connection call was outstanding (the caller started it, or joined the one
// in progress). An error handed out when no dial function call to the address
// ended between the call and its answer is the failure of an EARLIER attempt:
// nothing was retried, whatever the number of ConnectError reports. Two answers
// need no dial function: the context of the call had already ended (Remove,
// Reconnect, dial deadline), and "no such dialer" for an address that a target
// configured with a dialer name that is not registered names.
func checkFreshDials(sc *Scenario, trace []Ev, dials []DialEv) error {
	type key struct {
		tgt string
		n   int
	}
	open := map[key]int{}
	for i, e := range trace {
		switch e.Kind {
		case kDialStart:
			open[key{e.Tgt, e.N}] = i
		case kDialResult:
			k := key{e.Tgt, e.N}
			j, ok := open[k]
			if !ok {
				continue
			}
			delete(open, k)
			if e.Err == "" || !strings.HasPrefix(e.Info, "real") || strings.Contains(e.Info, "ctx-done") {
				continue
			}
			ai := addrIndex(trace[j].Info)
			if strings.Contains(e.Err, "no such dialer") {
				unregistered := false
				for t := range sc.Targets {
					unregistered = unregistered || (sc.Targets[t].Dialer == unregisteredDialer && sc.Targets[t].names(ai))
				}
				if unregistered {
					continue
				}
			}
			called, answered := trace[j].At, e.At
			fresh, calls := false, 0
			var last *DialEv
			for d := range dials {
				dv := &dials[d]
				if dv.Addr != ai {
					continue
				}
				calls++
				if !dv.Ended {
					continue
				}
				if last == nil || dv.End > last.End {
					last = dv
				}
				if !dialSucceeded(dv.Outcome) && dv.End >= called && dv.End <= answered {
					fresh = true
				}
			}
			if fresh {
				continue
			}
			lastTxt := "no dial function was ever called for the address"
			if last != nil {
				lastTxt = "the last one to end is " + last.String()
			}
			return failf("retry-without-dial", "target %s (dialer %q): the connection attempt n=%d begun at +%v was answered at +%v with the error %q, but no call of a dial function to %s ended in failure between those instants (%d call(s) to the address in the whole case; %s): what is reported is not the failure of a new attempt - the target is not retried\ntrace of the target up to there:\n%s%s",
				e.Tgt, dialerName(sc.Targets[idxOf(e.Tgt)].Dialer), e.N, called, answered, e.Err, trace[j].Info, calls, lastTxt, renderTail(trace, i, e.Tgt, 12), renderDials(dials))
		}
	}
	return nil
}

// executeReal runs inside the bubble, on its root goroutine.
func (w *world) executeReal() (err error) {
	sc := w.sc
	rw := w.real
	rw.abort = make(chan struct{})
	// the default dialer and the named ones; dialerName(unregisteredDialer) is never registered
	dialFns := map[string]connection.Dial{connection.DEFAULT: w.dialFnFor(0)}
	for k := 1; k <= len(sc.NamedDials); k++ {
		dialFns[dialerName(k)] = w.dialFnFor(k)
	}
	cm, cerr := connection.NewManagerCustom(dialFns, grpc.WithTransportCredentials(insecure.NewCredentials()))
	if cerr != nil {
		return failf("harness-error", "connection.NewManagerCustom: %v", cerr)
	}
	rw.cm = cm
	cfg := manager.Config{
		ConnectionManager: realCM{w},
		Timeout:           ms(sc.DialTimeoutMs),
		Connect:           func(name string) { w.rec(name, kConnect, -1, 0, nil, "") },
		Sync:              func(name string) { w.rec(name, kSync, -1, 0, nil, "") },
		Reset:             func(name string) { w.rec(name, kReset, -1, 0, nil, "") },
		Update:            func(name string, n *gpb.Notification) { w.rec(name, kUpdate, -1, n.GetTimestamp(), nil, "") },
	}
	if !sc.NoErrCB {
		cfg.ConnectError = func(name string, err error) { w.rec(name, kConnectError, -1, 0, err, "") }
		cfg.MonitorError = func(name string, err error) { w.rec(name, kMonitorError, -1, 0, err, "") }
	}
	if !sc.NoCredClient {
		cfg.Credentials = scriptedCreds{w}
	}
	m, nerr := manager.NewManager(cfg)
	if nerr != nil {
		return failf("harness-error", "NewManager: %v", nerr)
	}
	tmpl := requestTemplate(sc.TmplPrefix)
	pristine := proto.Clone(tmpl)
	protos := sc.buildProtos()
	for i := range sc.Targets {
		spec := &sc.Targets[i]
		w.tg[tname(i)] = &tgRun{name: tname(i), idx: i, spec: spec}
	}
	managed := map[string]bool{}
	w.t0 = time.Now()

	aborted := false
	abort := func() {
		if !aborted {
			aborted = true
			close(rw.abort)
		}
	}
	add := func(i int) {
		name := tname(i)
		info := "fresh"
		if managed[name] {
			info = "duplicate"
		}
		w.rec(name, kAddCall, -1, 0, nil, info)
		aerr := m.Add(name, sc.protoForAdd(protos, i), tmpl)
		w.rec(name, kAddRet, -1, 0, aerr, info)
		if aerr == nil {
			managed[name] = true
		}
		synctest.Wait()
		w.rec(name, kSettled, -1, 0, nil, kAddCall+" "+info)
	}
	// remove calls Remove on a goroutine of its own and gives it removeBound of
	// virtual time: the call may have to wait for a dial another target started.
	remove := func(name, how string) *failure {
		info := how
		if !managed[name] {
			info = "unknown"
		}
		called := time.Since(w.t0)
		w.rec(name, kRemoveCall, -1, 0, nil, info)
		ch := make(chan error, 1)
		go func() {
			rerr := m.Remove(name)
			w.rec(name, kRemoveRet, -1, 0, rerr, info)
			ch <- rerr
		}()
		synctest.Wait()
		var rerr error
		select {
		case rerr = <-ch:
		default:
			tm := time.NewTimer(sc.removeBound())
			select {
			case rerr = <-ch:
				tm.Stop()
			case <-tm.C:
				synctest.Wait()
				select {
				case rerr = <-ch:
				default:
					f := failf("remove-never-returns", "Remove(%s) called at +%v has not returned %v of virtual time later (dial timeout %v, largest retry delay %v): the target cannot be removed, and Remove holds the manager's mutex meanwhile\ntrace of the target:\n%s%s",
						name, called, sc.removeBound(), ms(sc.DialTimeoutMs), sc.retryBound(), w.tail(name, 12), w.dialTail())
					// let the case wind down: every pending and later dial fails now
					abort()
					synctest.Wait()
					select {
					case <-ch:
						delete(managed, name)
					default:
					}
					return f
				}
			}
		}
		if rerr == nil {
			delete(managed, name)
		}
		synctest.Wait()
		w.rec(name, kSettled, -1, 0, nil, kRemoveCall+" "+info)
		return nil
	}
	reconnect := func(name string) {
		info := "managed"
		if !managed[name] {
			info = "unknown"
		}
		w.rec(name, kReconnectCall, -1, 0, nil, info)
		rerr := m.Reconnect(name)
		w.rec(name, kReconnectRet, -1, 0, rerr, info)
		synctest.Wait()
		w.rec(name, kSettled, -1, 0, nil, kReconnectCall+" "+info)
	}
	// cleanup: whatever happened, no goroutine of the manager or of a connection
	// may outlive the case.
	cleanup := func() {
		abort()
		for i := range sc.Targets {
			name := tname(i)
			if !managed[name] {
				continue
			}
			done := make(chan struct{})
			go func() {
				defer close(done)
				defer func() { recover() }()
				m.Remove(name)
			}()
			synctest.Wait()
			select {
			case <-done:
			default: // stuck for good: synctest reports the blocked goroutines when the bubble ends
			}
		}
		synctest.Wait()
		w.mu.Lock()
		created := append([]*grpc.ClientConn(nil), rw.created...)
		w.mu.Unlock()
		for _, cc := range created {
			if cc.GetState() != connectivity.Shutdown {
				cc.Close()
			}
		}
		synctest.Wait()
	}
	defer func() {
		if r := recover(); r != nil {
			err = failf("panic", "panic on the scenario goroutine: %v", r)
		}
		if err != nil {
			func() {
				defer func() { recover() }()
				cleanup()
			}()
		}
	}()

	for i := range sc.Targets {
		if !sc.Targets[i].Late {
			add(i)
		}
	}
	for _, e := range sc.Events {
		time.Sleep(ms(e.AfterMs))
		synctest.Wait()
		switch e.Kind {
		case "remove":
			if f := remove(tname(e.Target), "event"); f != nil {
				return f
			}
		case "reconnect":
			reconnect(tname(e.Target))
		case "add":
			add(e.Target)
		case "remove-unknown":
			if f := remove(ghost, "event"); f != nil {
				return f
			}
		case "reconnect-unknown":
			reconnect(ghost)
		}
	}
	time.Sleep(ms(sc.TailMs))
	synctest.Wait()
	for i := range sc.Targets {
		if managed[tname(i)] {
			if f := remove(tname(i), "final"); f != nil {
				return f
			}
		}
	}
	time.Sleep(10 * sc.retryBound())
	synctest.Wait()
	w.rec("", kEnd, -1, 0, nil, "")
	// Dial functions still pending (an implementation may detach the dial from its
	// callers; whether it leaks is not C13's subject) are released and connections
	// the manager did not release are closed (who closes what is C16's subject):
	// their goroutines must not outlive the bubble.
	cleanup()
	if !proto.Equal(tmpl, pristine) {
		return failf("request-template-modified", "the SubscribeRequest handed to Add was modified in place: now %v", tmpl)
	}
	return nil
}
