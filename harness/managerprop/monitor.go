package managerprop

import (
	"fmt"
	"sort"
	"strings"
	"time"
)

// stats is what judge learnt about a case (labels, non-triviality).
type stats struct {
	labels map[string]bool
	// non-trivial rule of C13: >=1 stream failing after >=1 message AND a Remove
	// or Reconnect (a scenario event, not the harness's final clean-up) landing
	// mid-session or mid-backoff.
	failAfterData int
	opMidSession  int
	opMidBackoff  int
	// non-trivial rule of the overlap part: an external call started while another
	// was in flight, or landed on the instant of a receive-timeout expiry or retry
	// of its own target.
	overlapHits int
	// non-trivial rule of the long part: a retry that was judged against the backoff
	// bounds after the target had been failing (no attempt longer than
	// 2*RetryMaxDelay) for at least longStreak, or under a configured
	// RetryBaseDelay of at least longStreak.
	lateRetries int
	// non-trivial rule of the real part (real_run.go): a dial function that did not
	// answer at once AND (a dial ended by the manager's dial deadline OR a generated
	// Remove / Reconnect / Add landing while a Connection call of its target is
	// outstanding).
	realBlockedDials int
	realDeadlineEnds int
	realOpDuringDial int
	// ... OR a dial function of a NAMED dialer was called again for an address after
	// a call of it for that address had failed (the configuration dimension)
	realNamedRedials int
}

// longStreak is what the long part calls a long time (labels and its
// non-triviality rule only; no verdict depends on it).
const longStreak = 16 * time.Minute

// errShape names the shape of a recorded error text (labels only).
func errShape(text string) string {
	const mark = "rpc error: code = "
	code := func(rest string) string {
		if k := strings.IndexByte(rest, ' '); k >= 0 {
			return rest[:k]
		}
		return rest
	}
	switch k := strings.Index(text, mark); {
	case text == "EOF":
		return "eof"
	case k == 0:
		return "status-" + code(text[len(mark):])
	case k > 0:
		return "wrapped-status-" + code(text[k+len(mark):])
	case strings.HasPrefix(text, "transport: "):
		return "wrapped-plain"
	}
	return "plain"
}

func (s *stats) label(l string) {
	if s.labels == nil {
		s.labels = map[string]bool{}
	}
	s.labels[l] = true
}

func (s *stats) nontrivial() bool {
	return s != nil && s.failAfterData > 0 && (s.opMidSession > 0 || s.opMidBackoff > 0)
}

func (s *stats) labelList() []string {
	if s == nil {
		return nil
	}
	out := make([]string, 0, len(s.labels))
	for l := range s.labels {
		out = append(out, l)
	}
	sort.Strings(out)
	return out
}

// sstate is what the monitor knows about one stream.
type sstate struct {
	n         int
	msgs      int      // messages Recv handed over
	want      []string // update/sync messages handed over, in order ("U<id>" / "S")
	got       int      // how many of them were delivered through callbacks
	connected bool     // Connect reported for this stream
	ended     bool     // Recv returned an error
	sendFail  bool
	endAt     *time.Duration // overlap part: instant the stream learnt of its end (cancellation seen, or Recv failed)
}

// tstate is the per-target monitor.
type tstate struct {
	name      string
	everAdded bool
	managed   bool // between a successful Add and the call of the Remove that ends it
	removed   bool // a Remove has returned and no Add was called since

	cur         *sstate // most recently opened stream of this incarnation
	streams     map[int]*sstate
	lastEnded   *sstate // stream whose Recv failed most recently
	sess        *sstate // stream of the open session (Connect seen, Reset not yet)
	owed        int     // ended streams still waiting for their Reset
	endedStream int     // streams whose Recv failed (this incarnation)
	resets      int
	allowance   int // Resets tolerated (not demanded) for a stream whose Send failed

	pendingFail *time.Duration // time of the last failure not yet followed by a new attempt
	dialing     bool
	inCallback  bool
	recvCallAt  *time.Duration
	timeout     time.Duration // effective receive timeout of this target (0 = none)

	attempts int
	sessions int
	prevGap  time.Duration // previous failure-to-retry gap of this incarnation

	// labels of the long part: the current failing streak (no attempt of it lasted
	// longer than 2*RetryMaxDelay, the manager's rule for starting the backoff afresh)
	attemptAt     *time.Duration // start of the attempt in progress / that failed last
	streakStart   time.Duration  // Add, or the end of the last attempt longer than 2*RetryMaxDelay
	streakRetries int

	// the configuration dimension
	addedAt     *time.Duration  // instant of the Add that began this incarnation, until its first attempt is seen
	credOK      bool            // the attempt in progress began with a successful credentials lookup
	failedDial  bool            // the pending failure is a Connection call that returned an error
	cbSinceFail bool            // an error callback followed the pending failure (the attempt is over)
	tried       map[string]bool // next hops asked for in the attempt in progress
}

const slack = time.Millisecond // float rounding of the jittered backoff interval (it may exceed its upper end by 1ns)

// effectiveTimeout: a parsable meta value wins (even one that disables the
// timeout), anything else falls back to Config.ReceiveTimeout.
func effectiveTimeout(sc *Scenario, tg *Target) time.Duration {
	if tg.Meta != "" {
		if d, err := time.ParseDuration(tg.Meta); err == nil {
			if d < 0 {
				d = 0
			}
			return d
		}
	}
	return ms(sc.RecvTimeoutMs)
}

// judge checks the trace clause by clause against the statement of C13.
func judge(sc *Scenario, trace []Ev) (*stats, error) {
	st := &stats{}
	bound := sc.retryBound()
	minDelay := time.Duration(float64(ms(sc.BaseMs)) * (1 - float64(sc.RandPct)/100))
	ts := map[string]*tstate{}
	for i := range sc.Targets {
		ts[tname(i)] = &tstate{name: tname(i), timeout: effectiveTimeout(sc, &sc.Targets[i])}
	}
	ts[ghost] = &tstate{name: ghost}

	// scenario-level labels
	st.label(fmt.Sprintf("targets=%d", len(sc.Targets)))
	if sc.BaseMs == 1000 && sc.MaxMs == 60000 {
		st.label("production-delays")
	} else {
		st.label("generated-delays")
	}
	if sc.RandPct != 0 {
		st.label("jitter")
	}
	switch {
	case ms(sc.BaseMs) >= longStreak:
		st.label("base-delay>=16min")
	case ms(sc.MaxMs) >= longStreak:
		st.label("max-delay>=16min")
	case sc.MaxMs <= 1000 && sc.BaseMs < 1000:
		st.label("max-delay<=1s")
	}
	if sc.RecvTimeoutMs > 0 {
		st.label("global-recv-timeout")
	}
	if sc.DialTimeoutMs > 0 {
		st.label("dial-timeout-configured")
	}
	if sc.NoErrCB {
		st.label("error-callbacks-nil")
	}
	configLabels(sc, st)
	seen := map[int]bool{}
	for i := range sc.Targets {
		for _, a := range sc.Targets[i].nextHops() {
			if seen[a] {
				st.label("shared-address")
			}
		}
		for _, a := range sc.Targets[i].nextHops() {
			seen[a] = true
		}
		switch m := sc.Targets[i].Meta; {
		case m == "":
		case m == "0s":
			st.label("per-target-timeout-meta-disables")
		case m == "bogus":
			st.label("per-target-timeout-meta-unparsable")
		default:
			st.label("per-target-timeout-meta")
		}
	}

	var opStart int // index of the last external call
	fail := func(i int, t *tstate, class, format string, a ...any) (*stats, error) {
		name := ""
		if t != nil {
			name = t.name
		}
		return st, failf(class, "target %s at %s: %s\ntrace of the target up to there:\n%s", name, trace[i], fmt.Sprintf(format, a...), renderTail(trace, i, name, 16))
	}
	phase := func(t *tstate) string {
		switch {
		case t.inCallback:
			return "mid-callback"
		case t.recvCallAt != nil && t.sess != nil:
			return "mid-session"
		case t.recvCallAt != nil:
			return "pre-connect"
		case t.dialing:
			return "during-dial"
		case t.pendingFail != nil:
			return "mid-backoff"
		}
		return "other"
	}

	// attemptStart: e begins a new attempt of t (its credentials lookup, or its
	// first Connection call). Clause: failed sessions are retried with backoff.
	attemptStart := func(i int, e Ev, t *tstate) (*stats, error) {
		t.addedAt = nil
		t.tried = map[string]bool{}
		t.credOK = false
		if t.managed && t.pendingFail != nil {
			gap := e.At - *t.pendingFail
			if gap > bound+slack {
				return fail(i, t, "retry-too-late", "next attempt starts %v after the failure at +%v; the bound is RetryMaxDelay*(1+RetryRandomization) = %v", gap, *t.pendingFail, bound)
			}
			if gap+slack < minDelay {
				return fail(i, t, "retry-without-backoff", "next attempt starts %v after the failure at +%v; the smallest backoff interval is RetryBaseDelay*(1-RetryRandomization) = %v", gap, *t.pendingFail, minDelay)
			}
			if gap+slack >= ms(sc.MaxMs) && sc.MaxMs > sc.BaseMs {
				st.label("backoff-reached-max")
			}
			if sc.RandPct == 0 && t.prevGap > 0 && gap < t.prevGap {
				st.label("backoff-restarted-after-long-session")
			}
			t.prevGap = gap
			st.label("retry")
			if e.Kind == kCred {
				st.label("retry-begins-with-credentials-lookup")
			}
			// how long (and over how many retries) the target has been failing without
			// an attempt long enough to start the backoff afresh
			if t.attemptAt != nil && *t.pendingFail-*t.attemptAt > 2*ms(sc.MaxMs) {
				t.streakStart, t.streakRetries = *t.pendingFail, 0
			}
			t.streakRetries++
			age := e.At - t.streakStart
			switch {
			case age >= 4*longStreak:
				st.label("retry-judged-after-failing>=64min")
				fallthrough
			case age >= longStreak:
				st.label("retry-judged-after-failing>=16min")
			}
			switch {
			case t.streakRetries >= 100:
				st.label("retry-judged-after>=100-failures-in-a-row")
				fallthrough
			case t.streakRetries >= 25:
				st.label("retry-judged-after>=25-failures-in-a-row")
			}
			if age >= longStreak || minDelay >= longStreak {
				st.lateRetries++
			}
		}
		t.pendingFail = nil
		at := e.At
		t.attemptAt = &at
		return nil, nil
	}

	for i, e := range trace {
		if e.Kind == kEnd {
			for _, name := range sortedNames(ts) {
				t := ts[name]
				if t.owed > 0 {
					return fail(i, t, "reset-missing", "%d stream(s) whose Recv failed were never followed by a Reset", t.owed)
				}
				if t.managed {
					return fail(i, t, "harness-error", "target still managed at the end of the case")
				}
			}
			continue
		}
		t := ts[e.Tgt]
		if t == nil {
			return st, failf("harness-error", "event for unknown target: %s", e)
		}
		// Clause: once Remove returns no further callback for that target is ever made
		// (and a name that was never added never sees one).
		if strings.HasPrefix(e.Kind, "cb-") && e.Kind != kUpdateDone {
			if t.removed {
				return fail(i, t, "callback-after-remove", "callback after Remove returned")
			}
			if !t.everAdded {
				return fail(i, t, "callback-for-unknown-target", "callback for a name that was never added")
			}
		}
		switch e.Kind {
		case kAddCall:
			opStart = i
			if e.Info != "duplicate" {
				if t.everAdded {
					st.label("re-add")
				}
				// A fresh incarnation starts with the call, not with its return: the
				// goroutine Add starts may act before the harness has recorded the return.
				*t = tstate{name: t.name, everAdded: true, managed: true, timeout: t.timeout, attempts: t.attempts, sessions: t.sessions, streakStart: e.At}
				at := e.At
				t.addedAt = &at
			}
		case kAddRet:
			if e.Info == "duplicate" {
				if e.Err == "" {
					return fail(i, t, "duplicate-add-accepted", "Add of a target that is already managed returned nil")
				}
				st.label("duplicate-add-refused")
				break
			}
			if e.Err != "" {
				return fail(i, t, "add-failed", "Add of a target that is not managed failed: %s", e.Err)
			}
		case kRemoveCall:
			opStart = i
			if e.Info == "unknown" {
				break
			}
			ph := phase(t)
			if e.Info == "event" {
				st.label("remove-" + ph)
				switch ph {
				case "mid-session", "mid-callback":
					st.opMidSession++
				case "mid-backoff":
					st.opMidBackoff++
				}
			} else {
				st.label("final-remove-" + ph)
			}
			// Clause: failed sessions are retried for as long as the target is managed.
			if t.pendingFail != nil && e.At-*t.pendingFail > bound+slack {
				return fail(i, t, "no-retry", "the failure at +%v was not followed by a new attempt although the target stayed managed for %v (> RetryMaxDelay*(1+RetryRandomization) = %v)", *t.pendingFail, e.At-*t.pendingFail, bound)
			}
			// Clause: Add starts the subscription (and Remove + Add starts afresh). Judged
			// where every attempt begins with something the harness sees.
			if t.addedAt != nil && e.At-*t.addedAt > bound+slack && sc.credVisible(&sc.Targets[idxOf(e.Tgt)]) {
				return fail(i, t, "no-attempt-after-add", "the target was added at +%v and stayed managed for %v, yet no connection attempt was ever started for it", *t.addedAt, e.At-*t.addedAt)
			}
			t.managed = false
			t.pendingFail = nil
			t.addedAt = nil
		case kRemoveRet:
			if e.Info == "unknown" {
				if e.Err == "" {
					return fail(i, t, "unknown-remove-accepted", "Remove of a target that is not managed returned nil")
				}
				st.label("unknown-remove-refused")
				break
			}
			if e.Err != "" {
				return fail(i, t, "remove-failed", "Remove of a managed target failed: %s", e.Err)
			}
			t.removed = true
		case kReconnectCall:
			opStart = i
			if e.Info == "unknown" {
				st.label("unknown-reconnect")
				break
			}
			ph := phase(t)
			st.label("forced-reconnect-" + ph)
			switch ph {
			case "mid-session", "mid-callback":
				st.opMidSession++
			case "mid-backoff":
				st.opMidBackoff++
			}
		case kReconnectRet:
			if e.Info == "unknown" && e.Err != "" {
				st.label("unknown-reconnect-refused")
			}
		case kSettled:
			// Clause: a refused call changes nothing. The system was quiescent before
			// the call and is quiescent again: nothing but the call may be in between.
			// (Reconnect of an unknown name is not judged: the statement is silent about it.)
			refused := e.Info == kAddCall+" duplicate" || e.Info == kRemoveCall+" unknown"
			if refused {
				for j := opStart + 1; j < i; j++ {
					switch trace[j].Kind {
					case kAddRet, kRemoveRet, kReconnectRet:
					default:
						return fail(j, ts[trace[j].Tgt], "refused-call-had-effect", "a call that must be refused (%s) was followed, at the same instant, by activity of the manager", e.Info)
					}
				}
			}
			// Clause: a forced Reconnect ends the current stream.
			if e.Info == kReconnectCall+" managed" && trace[opStart].Kind == kReconnectCall {
				if blockedAt(trace, opStart, e.Tgt) {
					ended := false
					for j := opStart + 1; j < i; j++ {
						if trace[j].Tgt == e.Tgt && trace[j].Kind == kRecvRet && trace[j].Err != "" {
							ended = true
						}
					}
					if !ended {
						return fail(i, t, "reconnect-ignored", "Reconnect was called while the stream's Recv was blocked, yet the stream did not end")
					}
				}
			}
		case kCred:
			// the credentials lookup is the first thing an attempt does
			if r, err := attemptStart(i, e, t); err != nil {
				return r, err
			}
			if e.Err != "" {
				st.label("cred-lookup-failed")
				t.failedDial = false
				if t.managed {
					at := e.At
					t.pendingFail = &at
				}
				break
			}
			t.credOK = true
			if e.Info == "empty" {
				st.label("cred-lookup-empty-password")
			} else {
				st.label("cred-lookup-ok")
			}
		case kDialStart:
			t.attempts++
			t.dialing = true
			switch {
			case t.credOK:
				// the attempt began with its credentials lookup
				t.credOK = false
				t.tried = map[string]bool{}
			case t.pendingFail != nil && t.failedDial && !t.cbSinceFail && e.At == *t.pendingFail && len(t.tried) > 0 && !t.tried[e.Info] &&
				len(sc.Targets[idxOf(e.Tgt)].nextHops()) > 1:
				// the same attempt goes on to the target's next next hop: the previous hop's
				// Connection call failed at this very instant, no error was reported in
				// between, and this hop has not been asked for in this attempt
				st.label("next-hop-tried-after-failed-hop")
				t.pendingFail = nil
			default:
				if r, err := attemptStart(i, e, t); err != nil {
					return r, err
				}
			}
			if t.tried == nil {
				t.tried = map[string]bool{}
			}
			t.tried[e.Info] = true
			if e.N >= scriptLen(sc.Targets[idxOf(e.Tgt)].Attempts) {
				st.label("script-exhausted")
			}
		case kDialResult:
			t.dialing = false
			if e.Err != "" {
				at := e.At
				if t.managed {
					t.pendingFail = &at
				}
				t.failedDial, t.cbSinceFail = true, false
				switch e.Info {
				case "refused":
					st.label("dial-refused")
				case "hang":
					st.label("dial-hang-ended")
				}
				if strings.Contains(e.Err, "context deadline exceeded") {
					st.label("dial-timeout-fired")
				}
				if e.Info == "hang" || e.Info == "ctx" {
					st.label("dial-cancelled:" + errShape(e.Err))
				}
			}
		case kRelease:
			st.label("conn-released")
		case kOpen:
			t.failedDial = false
			if e.Err != "" {
				at := e.At
				if t.managed {
					t.pendingFail = &at
				}
				st.label("open-failed")
				break
			}
			t.cur = &sstate{n: e.N}
			if t.streams == nil {
				t.streams = map[int]*sstate{}
			}
			t.streams[e.N] = t.cur
			t.allowance = 0
		case kSend:
			if want := "prefix-target=" + t.name; !strings.HasPrefix(e.Info, want) || strings.Contains(e.Info, "body-differs") {
				return fail(i, t, "request-not-customised", "the subscription request sent on the stream is not the template customised with the target's name in its prefix: %s", e.Info)
			}
			if e.Err != "" {
				at := e.At
				if t.managed {
					t.pendingFail = &at
				}
				if t.cur != nil {
					t.cur.sendFail = true
				}
				// The statement speaks of Reset after an ended stream; whether a stream
				// that never carried the subscription counts is left open: tolerate 0 or 1.
				t.allowance = 1
				st.label("send-failed")
			}
		case kRecvCall:
			at := e.At
			t.recvCallAt = &at
		case kRecvRet:
			s := t.streams[e.N]
			if s == nil {
				// a stream of an earlier incarnation still being read (only a manager
				// that lets a removed target's goroutine linger gets here)
				s = &sstate{n: e.N}
			}
			// Clause (receive timeout): silence beyond the timeout ends the session.
			if t.recvCallAt != nil && t.timeout > 0 {
				if d := e.At - *t.recvCallAt; d > t.timeout {
					return fail(i, t, "recv-timeout-not-enforced", "Recv was left waiting for %v although the target's receive timeout is %v", d, t.timeout)
				} else if d == t.timeout && e.Info == "ctx" {
					st.label("recv-timeout-fired")
				}
			}
			t.recvCallAt = nil
			if e.Err == "" {
				s.msgs++
				switch e.Info {
				case "update":
					s.want = append(s.want, fmt.Sprintf("U%d", e.ID))
				case "sync":
					s.want = append(s.want, "S")
				case "error":
					st.label("error-response")
				case "nil":
					st.label("nil-response")
				}
				break
			}
			if s.ended {
				break // a second Recv on a dead stream: nothing new ended
			}
			s.ended = true
			t.lastEnded = s
			t.owed++
			t.endedStream++
			if t.managed {
				at := e.At
				t.pendingFail = &at
			}
			after := "-before-data"
			if s.msgs > 0 {
				after = "-after-data"
				if trace[opStart].Kind != kRemoveCall || trace[opStart].Info != "final" {
					st.failAfterData++
				}
			}
			switch e.Info {
			case "eof":
				st.label("eof")
				st.label("eof" + after)
			case "error":
				st.label("stream-error" + after)
				st.label("stream-error:" + errShape(e.Err))
			case "ctx":
				st.label("stream-cancelled" + after)
				// the error VALUE the cancelled stream reported (a real gRPC stream reports
				// status Canceled, not context.Canceled)
				st.label("stream-cancelled:" + errShape(e.Err))
				if s.connected {
					st.label("session-cancelled:" + errShape(e.Err))
				}
			}
		case kConnect:
			// Clause: Connect is reported only after the first message of a new stream...
			if t.cur == nil || t.cur.msgs == 0 {
				return fail(i, t, "connect-before-first-message", "Connect reported although the current stream has not delivered a message yet")
			}
			if t.cur.connected {
				return fail(i, t, "connect-twice", "second Connect for the same stream")
			}
			// ...and every ended stream is followed by exactly one Reset before any later Connect.
			if t.owed > 0 {
				return fail(i, t, "reset-missing", "Connect reported while %d ended stream(s) have not been followed by a Reset", t.owed)
			}
			if t.sess != nil {
				return fail(i, t, "connect-without-reset", "Connect reported while the session of stream n=%d has not been ended by a Reset", t.sess.n)
			}
			t.cur.connected = true
			t.sess = t.cur
			t.sessions++
			if t.sessions >= 3 {
				st.label("sessions>=3")
			}
			st.label("connect")
		case kUpdate, kSync:
			// Clause: updates and syncs are delivered in stream order and only between
			// a Connect and the Reset that ends that session.
			tok := "S"
			if e.Kind == kUpdate {
				tok = fmt.Sprintf("U%d", e.ID)
				t.inCallback = true
			}
			if t.sess == nil {
				return fail(i, t, "delivery-outside-session", "%s delivered outside a session (no Connect since the last Reset)", tok)
			}
			if t.sess.got >= len(t.sess.want) {
				return fail(i, t, "delivery-not-in-stream-order", "%s delivered, but the stream of the session has handed over no further update/sync (received so far: %v)", tok, t.sess.want)
			}
			if w := t.sess.want[t.sess.got]; w != tok {
				return fail(i, t, "delivery-not-in-stream-order", "%s delivered where the stream's order demands %s (received so far: %v)", tok, w, t.sess.want)
			}
			t.sess.got++
			if e.Kind == kUpdate {
				// the callback is instantaneous unless a cost was scripted, in which case
				// cb-update-done follows
				if cost := costOf(sc, e.ID); cost == 0 {
					t.inCallback = false
				} else {
					st.label("slow-update-callback")
				}
				st.label("update-delivered")
			} else {
				st.label("sync-delivered")
			}
		case kUpdateDone:
			t.inCallback = false
		case kReset:
			t.resets++
			// everything the ended stream handed over must have been delivered by now
			if s := t.lastEnded; s != nil && s.got != len(s.want) {
				return fail(i, t, "delivery-missing", "Reset reported although %d of the %d update/sync messages the stream handed over were not delivered (%v)", len(s.want)-s.got, len(s.want), s.want)
			}
			if t.sess != nil && !t.sess.ended {
				return fail(i, t, "reset-without-ended-stream", "Reset reported while the session's stream has not ended")
			}
			t.sess = nil
			switch {
			case t.owed > 0:
				t.owed--
			case t.allowance > 0:
				t.allowance--
				st.label("reset-after-send-failure")
			default:
				return fail(i, t, "reset-without-ended-stream", "Reset number %d of this incarnation, but only %d stream(s) have ended: every ended stream is followed by exactly one Reset", t.resets, t.endedStream)
			}
			st.label("reset")
		case kConnectError:
			t.cbSinceFail = true
			st.label("connect-error-callback")
		case kMonitorError:
			t.cbSinceFail = true
			st.label("monitor-error-callback")
		}
	}
	if len(trace) == 0 || trace[len(trace)-1].Kind != kEnd {
		return st, failf("harness-error", "trace does not end with the end marker")
	}
	return st, nil
}

// blockedAt reports whether, at trace index i, target tgt had a Recv call
// outstanding (called, not returned).
func blockedAt(trace []Ev, i int, tgt string) bool {
	for j := i - 1; j >= 0; j-- {
		if trace[j].Tgt != tgt {
			continue
		}
		switch trace[j].Kind {
		case kRecvCall:
			return true
		case kRecvRet, kDialStart, kAddRet, kRemoveRet:
			return false
		}
	}
	return false
}

func idxOf(name string) int {
	var i int
	fmt.Sscanf(name, "t%d", &i)
	return i
}

func costOf(sc *Scenario, id int64) int {
	ti := int(id/1000000) - 1
	n := int(id % 1000000 / 1000)
	pos := int(id%1000) - 1
	if ti < 0 || ti >= len(sc.Targets) {
		return 0
	}
	a, ok := scriptAt(sc.Targets[ti].Attempts, n)
	if !ok || pos < 0 || pos >= len(a.Msgs) {
		return 0
	}
	return a.Msgs[pos].CostMs
}

func sortedNames(m map[string]*tstate) []string {
	out := make([]string, 0, len(m))
	for k := range m {
		out = append(out, k)
	}
	sort.Strings(out)
	return out
}
