package managerprop

import (
	"testing"

	"pgregory.net/rapid"
	"verif/harness/internal/vstat"
)

// TestC13Real: the manager over the real connection.Manager with scripted dial
// functions (real_scenario.go, real_run.go), each case in its own synctest
// bubble. Non-trivial: a dial function that did not answer at once AND (a dial
// ended by the manager's dial deadline OR a generated Remove / Reconnect / Add
// landing while a Connection call of its target - or, for an Add, a dial to its
// address - is outstanding), OR a dial function of a named dialer was called again
// for an address after a call of it for that address had failed (the target
// configuration as a dimension, config.go). TestReplay needs no routing: the
// scenario says real=true.
func TestC13Real(t *testing.T) {
	if !vstat.Enabled("C13") {
		t.Skip()
	}
	rec := vstat.New("C13", "real")
	rec.RunRapid(t, func(rt *rapid.T) {
		sc := genRealScenario(rt)
		rec.Current(sc)
		st, err := runScenario(t, sc)
		rec.Case(sc, st.realNontrivial(), st.labelList()...)
		if err != nil {
			rt.Fatalf("%s", rec.Fail(sc, classOf(err), "%v", err))
		}
	})
}
