package managerprop

import (
	"bytes"
	"context"
	"fmt"
	"os"
	"runtime"
	"sort"
	"sync/atomic"
	"syscall"
	"testing"
	"testing/synctest"
	"time"

	"google.golang.org/protobuf/proto"

	"github.com/openconfig/gnmi/manager"
	gpb "github.com/openconfig/gnmi/proto/gnmi"
	tpb "github.com/openconfig/gnmi/proto/target"
	"verif/harness/internal/vstat"
)

// Trace event kinds of the overlap part (in addition to those of run.go).
const (
	kRecvCancel  = "recv-cancelled" // the stream's Recv saw its context end (its return may be held back)
	kPark        = "park"           // a goroutine of the target is parked at its hold point
	kUnpark      = "unpark"
	kHoldRelease = "hold-release" // the scenario goroutine releases whatever is parked for the target
	kCred        = "cred-lookup"  // the manager asks the CredentialsClient for the target's password
)

// recvInfo is what the doubles know about a target's outstanding Recv call.
type recvInfo struct {
	callAt time.Time
	wakeAt time.Time // instant Recv returns by itself; zero = never (silence)
}

// boReplica predicts the manager's backoff for one name (aiming only; never judged).
type boReplica struct {
	cur          time.Duration
	attemptStart time.Time
	failed       bool      // the current attempt has failed
	lastAct      time.Time // last activity of the failed attempt
	delay        time.Duration
}

// overlap is the run-time state of the overlap part. Everything except the
// atomic counter is guarded by world.mu.
type overlap struct {
	w  *world
	sc *OScenario

	holdAt   map[string]string
	holdLeft map[string]int
	parked   map[string][]chan struct{}
	timeout  map[string]time.Duration
	recv     map[string]*recvInfo
	dial     map[string]time.Time // outstanding dial -> instant it answers (zero time = it hangs)
	dialing  map[string]bool
	bo       map[string]*boReplica
	labels   map[string]bool

	replan   chan struct{} // poked by Recv calls of targets with a receive timeout
	inflight atomic.Int32  // external calls started and not yet returned
	calls    int
	selfID   []byte // goroutine id of the scenario goroutine
	buf      []byte
	dumps    int
	// goroutines outside the bubble that scan has learnt to ignore (see scan)
	seenUntagged map[string]int
	ignore       map[string]bool
}

func (o *overlap) label(l string) { // world.mu NOT held
	o.w.mu.Lock()
	o.labels[l] = true
	o.w.mu.Unlock()
}

// observe runs inside world.rec, with world.mu held.
func (o *overlap) observe(e *Ev) {
	now := o.w.t0.Add(e.At)
	b := o.bo[e.Tgt]
	if b == nil {
		return
	}
	fail := func() {
		if !b.failed {
			b.failed = true
			if now.Sub(b.attemptStart) > 2*ms(o.sc.MaxMs) {
				b.cur = ms(o.sc.BaseMs)
			}
			b.delay = b.cur
			if float64(b.cur) >= float64(ms(o.sc.MaxMs))/1.5 {
				b.cur = ms(o.sc.MaxMs)
			} else {
				b.cur = time.Duration(float64(b.cur) * 1.5)
			}
		}
		b.lastAct = now
	}
	switch e.Kind {
	case kAddRet:
		if e.Err == "" {
			b.cur = ms(o.sc.BaseMs)
			b.failed = false
		}
	case kCred:
		if !b.failed {
			b.attemptStart = now
		}
	case kDialStart:
		b.attemptStart = now
		b.failed = false
		o.dialing[e.Tgt] = true
	case kDialResult:
		o.dialing[e.Tgt] = false
		delete(o.dial, e.Tgt)
		if e.Err != "" {
			fail()
		}
	case kOpen, kSend:
		if e.Err != "" {
			fail()
		}
	case kRecvCancel:
		delete(o.recv, e.Tgt)
	case kRecvRet:
		delete(o.recv, e.Tgt)
		if e.Err != "" {
			fail()
		}
	case kReset, kRelease, kConnectError, kMonitorError, kUnpark:
		if b.failed {
			b.lastAct = now
		}
	}
}

func (o *overlap) noteDial(name string, a Attempt) {
	o.w.mu.Lock()
	if a.Dial == "hang" {
		o.dial[name] = time.Time{}
	} else {
		o.dial[name] = time.Now().Add(ms(a.DialDelayMs))
	}
	o.w.mu.Unlock()
}

// noteRecv is called by a stream at the start of a Recv call that will block or
// hand over a scripted item.
func (o *overlap) noteRecv(s *stream) {
	now := time.Now()
	ri := &recvInfo{callAt: now}
	switch {
	case s.pos < len(s.ar.att.Msgs):
		ri.wakeAt = now.Add(ms(s.ar.att.Msgs[s.pos].DelayMs))
	case s.ar.att.End != "silence":
		ri.wakeAt = now.Add(ms(s.ar.att.EndDelayMs))
	}
	o.w.mu.Lock()
	o.recv[s.tg.name] = ri
	to := o.timeout[s.tg.name]
	o.w.mu.Unlock()
	if to > 0 {
		// A new receive-timeout deadline exists: a scenario goroutine that sleeps
		// while calls are in flight must know (see sleepPlanned).
		select {
		case o.replan <- struct{}{}:
		default:
		}
	}
}

// park blocks the calling goroutine (one of the manager's, inside a double or a
// callback) at hold point where until the scenario goroutine releases the target.
func (o *overlap) park(name, where string, n int) {
	o.w.mu.Lock()
	if o.holdAt[name] != where || o.holdLeft[name] <= 0 {
		o.w.mu.Unlock()
		return
	}
	o.holdLeft[name]--
	ch := make(chan struct{})
	o.parked[name] = append(o.parked[name], ch)
	o.labels["parked-"+where] = true
	o.w.mu.Unlock()
	o.w.rec(name, kPark, n, 0, nil, where)
	<-ch
	o.w.rec(name, kUnpark, n, 0, nil, where)
}

func (o *overlap) release(name, why string) int {
	o.w.mu.Lock()
	chs := o.parked[name]
	delete(o.parked, name)
	o.w.mu.Unlock()
	o.w.rec(name, kHoldRelease, -1, 0, nil, fmt.Sprintf("%s parked=%d", why, len(chs)))
	for _, ch := range chs {
		close(ch)
	}
	return len(chs)
}

func (o *overlap) parkedNames() []string {
	o.w.mu.Lock()
	defer o.w.mu.Unlock()
	var out []string
	for n, chs := range o.parked {
		if len(chs) > 0 {
			out = append(out, n)
		}
	}
	sort.Strings(out)
	return out
}

// ---------------------------------------------------------------------------
// quiescence with calls in flight
//
// synctest.Wait returns only when every other goroutine of the bubble is
// durably blocked, and a goroutine waiting for a sync.Mutex is not: with a
// Remove in progress (it holds the manager's mutex while it waits for the
// target's goroutine) and a second call queued behind it, Wait would never
// return and virtual time cannot advance. While calls are in flight the
// scenario goroutine therefore establishes quiescence structurally: it takes a
// goroutine dump (which stops the world, so the picture is consistent) and is
// done when every other goroutine of the bubble is blocked - durably, or in
// (*Manager).Add/Remove/Reconnect waiting for the manager's mutex. Nothing can
// change such a state but the scenario goroutine itself (virtual time does not
// advance while it runs). No wall-clock time is involved.
// ---------------------------------------------------------------------------

var durableStates = map[string]bool{
	"chan receive (nil chan)": true, "chan send (nil chan)": true, "select (no cases)": true, "sleep": true, "sleep (durable)": true,
	"sync.Cond.Wait": true, "sync.WaitGroup.Wait (durable)": true, "coroutine": true, "synctest.Run": true, "synctest.Run (durable)": true,
	"synctest.Wait": true, "synctest.Wait (durable)": true, "chan receive (durable)": true, "chan send (durable)": true, "select (durable)": true,
}

var lockStates = map[string]bool{"sync.Mutex.Lock": true, "sync.RWMutex.RLock": true, "sync.RWMutex.Lock": true}

var (
	bGoroutine = []byte("goroutine ")
	bBubble    = []byte("synctest bubble")
	bManagerMu = []byte("github.com/openconfig/gnmi/manager.(*Manager).")
)

func goroutineID() []byte {
	var b [64]byte
	n := runtime.Stack(b[:], false)
	f := bytes.Fields(b[:n])
	if len(f) < 2 {
		return nil
	}
	return append([]byte{}, f[1]...)
}

// lockCaller reports whether the innermost frame outside the sync / runtime
// packages is a method of manager.Manager: the goroutine waits for the
// manager's own mutex (not for glog's or the trace's somewhere below a manager
// frame; those are handed over by goroutines that run by themselves).
func lockCaller(frames []byte) bool {
	for _, ln := range bytes.Split(frames, []byte("\n")) {
		if len(ln) == 0 || ln[0] == '\t' {
			continue
		}
		if bytes.HasPrefix(ln, []byte("sync.")) || bytes.HasPrefix(ln, []byte("internal/sync.")) || bytes.HasPrefix(ln, []byte("runtime.")) || bytes.HasPrefix(ln, []byte("internal/runtime")) {
			continue
		}
		return bytes.HasPrefix(ln, bManagerMu)
	}
	return false
}

// outsideBlocked are the states in which goroutines that do not belong to the
// bubble (the test's own, glog's flush daemon, gRPC's serializers of the dummy
// connections, the watchdog) sit; see scan.
var outsideBlocked = map[string]bool{
	"chan receive": true, "chan send": true, "select": true, "select (no cases)": true, "IO wait": true, "sleep": true,
	"sync.Cond.Wait": true, "sync.WaitGroup.Wait": true, "finalizer wait": true, "chan receive (nil chan)": true, "chan send (nil chan)": true,
	"sync.Mutex.Lock": true, "sync.RWMutex.RLock": true, "sync.RWMutex.Lock": true,
}

// knownOutside identifies goroutines that cannot belong to a bubble by where
// they were started (a bubble's goroutines are started by the scenario
// goroutine, the manager, context or time).
var knownOutside = [][]byte{
	[]byte("created by github.com/golang/glog."), []byte("created by google.golang.org/grpc"), []byte("created by os/signal."),
	[]byte("created by verif/harness/internal/vstat.Watchdog"), []byte("created by testing.(*T).Run"), []byte("created by testing.(*M)."),
	[]byte("created by runtime."), []byte("\nmain.main()"),
}

// scan reports how many other goroutines of the bubble are not blocked
// (active) and how many wait for the manager's mutex (locked).
//
// A goroutine of the bubble is listed WITHOUT its "synctest bubble" tag while
// the runtime has it start or assist a garbage collection (runtime.gcStart and
// gcAssistAlloc detach the goroutine from its bubble for the duration). Such a
// goroutine is never blocked in user code, so every untagged goroutine that is
// not in one of the waits outside goroutines sit in counts as active, unless
// its stack shows it to be one of the known outside goroutines.
func (o *overlap) scan() (active, locked int) {
	for {
		n := runtime.Stack(o.buf, true)
		if n < len(o.buf) {
			o.buf = o.buf[:n]
			break
		}
		o.buf = make([]byte, 2*len(o.buf))
	}
	o.dumps++
	dump := o.buf
	o.buf = o.buf[:cap(o.buf)]
	sep := []byte("\n\n")
	untagged := false
	for len(dump) > 0 {
		g := dump
		if k := bytes.Index(dump, sep); k >= 0 {
			g, dump = dump[:k], dump[k+2:]
		} else {
			dump = nil
		}
		if !bytes.HasPrefix(g, bGoroutine) {
			continue
		}
		nl := bytes.IndexByte(g, '\n')
		if nl < 0 {
			nl = len(g)
		}
		hdr := g[:nl]
		rest := hdr[len(bGoroutine):]
		sp := bytes.IndexByte(rest, ' ')
		lb, rb := bytes.IndexByte(rest, '['), bytes.LastIndexByte(rest, ']')
		if sp < 0 || lb < 0 || rb < lb {
			active++
			continue
		}
		if bytes.Equal(rest[:sp], o.selfID) {
			continue
		}
		state := rest[lb+1 : rb]
		if c := bytes.IndexByte(state, ','); c >= 0 {
			state = state[:c]
		}
		if !bytes.Contains(hdr, bBubble) {
			if outsideBlocked[string(state)] {
				continue
			}
			known := false
			for _, k := range knownOutside {
				if bytes.Contains(g, k) {
					known = true
				}
			}
			if known || o.ignore[string(rest[:sp])] {
				continue
			}
			// safety valve: a goroutine seen untagged and not blocked in this many
			// consecutive looks is not one of ours in the middle of a GC assist
			id := string(rest[:sp])
			o.seenUntagged[id]++
			if o.seenUntagged[id] > 20000 {
				o.ignore[id] = true
				continue
			}
			untagged = true
			active++
			continue
		}
		switch st := string(state); {
		case durableStates[st]:
		case lockStates[st] && lockCaller(g[nl:]):
			locked++
		default:
			// running, runnable, syscall, a transient runtime wait, or a lock that is
			// not the manager's (glog's, the trace's): it will move on by itself
			active++
		}
	}
	if !untagged && len(o.seenUntagged) > 0 {
		clear(o.seenUntagged)
	}
	return active, locked
}

// settle waits until nothing in the bubble can move without the scenario
// goroutine. frozen reports that a goroutine waits for the manager's mutex, so
// virtual time cannot advance.
func (o *overlap) settle() (frozen bool) {
	for {
		if o.inflight.Load() == 0 {
			// no Add/Remove/Reconnect in progress: nobody holds the manager's mutex
			// for longer than a few instructions
			synctest.Wait()
			return false
		}
		active, locked := o.scan()
		if active == 0 {
			if locked == 0 {
				synctest.Wait()
				return false
			}
			return true
		}
		runtime.Gosched()
	}
}

// nextDeadline is the earliest receive-timeout expiry of an outstanding Recv
// that lies strictly after now.
func (o *overlap) nextDeadline(now time.Time) (time.Time, bool) {
	o.w.mu.Lock()
	defer o.w.mu.Unlock()
	var best time.Time
	for name, ri := range o.recv {
		to := o.timeout[name]
		if to <= 0 {
			continue
		}
		d := ri.callAt.Add(to)
		if d.After(now) && (best.IsZero() || d.Before(best)) {
			best = d
		}
	}
	return best, !best.IsZero()
}

// sleepPlanned advances virtual time by d. The caller has settled. While calls
// are in flight the manager's mutex may be held for good (a Remove whose target
// is parked): a receive-timeout goroutine that fires then waits for the mutex
// and freezes the clock, so the scenario goroutine must be awake at every such
// expiry - it sleeps from one expiry to the next (new ones are announced on
// o.replan) and gives up sleeping as soon as the bubble is frozen.
func (o *overlap) sleepPlanned(d time.Duration, frozen bool) (stillFrozen bool) {
	if d <= 0 {
		return frozen
	}
	if frozen {
		o.label("sleep-skipped:clock-frozen-by-lock-wait")
		return true
	}
	target := time.Now().Add(d)
	for {
		now := time.Now()
		if !now.Before(target) {
			return false
		}
		if o.inflight.Load() == 0 {
			time.Sleep(target.Sub(now))
			return false
		}
		until, final := target, true
		if dl, ok := o.nextDeadline(now); ok && dl.Before(target) {
			until, final = dl, false
		}
		select {
		case <-o.replan:
		default:
		}
		tm := time.NewTimer(until.Sub(now))
		select {
		case <-tm.C:
			if final {
				return false
			}
			// a receive timeout expires now: see whether its goroutine got stuck
			if o.settle() {
				o.label("sleep-cut-short:timeout-goroutine-waits-for-lock")
				return true
			}
		case <-o.replan:
			tm.Stop()
			o.settle() // the goroutine that poked us runs on until it blocks; then plan again
		}
	}
}

// ---------------------------------------------------------------------------

// realNow is the wall clock in nanoseconds (time.Now is virtual inside a bubble).
func realNow() int64 {
	var tv syscall.Timeval
	syscall.Gettimeofday(&tv)
	return tv.Sec*1e9 + int64(tv.Usec)*1e3
}

type credClient struct{ w *world }

func (c credClient) Lookup(ctx context.Context, key string) (string, error) {
	c.w.rec(key, kCred, -1, 0, nil, "")
	return "secret-" + key, nil
}

// runOverlap executes sc inside its own synctest bubble and judges the trace.
func runOverlap(t *testing.T, sc *OScenario) (st *stats, trace []Ev, err error) {
	st = &stats{}
	if verr := sc.validate(); verr != nil {
		return st, nil, failf("harness-error", "invalid scenario: %v", verr)
	}
	if cerr := dummyConns(); cerr != nil {
		return st, nil, failf("harness-error", "grpc.NewClient: %v", cerr)
	}
	oldBase, oldMax, oldRand := manager.RetryBaseDelay, manager.RetryMaxDelay, manager.RetryRandomization
	manager.RetryBaseDelay, manager.RetryMaxDelay, manager.RetryRandomization = ms(sc.BaseMs), ms(sc.MaxMs), 0
	defer func() {
		manager.RetryBaseDelay, manager.RetryMaxDelay, manager.RetryRandomization = oldBase, oldMax, oldRand
	}()
	w := &world{sc: &Scenario{}, tg: map[string]*tgRun{}, cost: map[int64]time.Duration{}}
	o := &overlap{w: w, sc: sc,
		holdAt: map[string]string{}, holdLeft: map[string]int{}, parked: map[string][]chan struct{}{}, timeout: map[string]time.Duration{},
		recv: map[string]*recvInfo{}, dial: map[string]time.Time{}, dialing: map[string]bool{}, bo: map[string]*boReplica{}, labels: map[string]bool{},
		buf: make([]byte, 1<<18), seenUntagged: map[string]int{}, ignore: map[string]bool{}}
	w.ov = o
	restore := manager.VerifSetSubscribeClient(w.subscribeClient)
	defer restore()
	// A goroutine of the code under test stuck on a lock for good would hang the
	// bubble (see vstat.Watchdog: structural verdict, not a timeout).
	defer vstat.Watchdog(30*time.Second, 5*time.Second)()

	var runErr error
	defer func() {
		if r := recover(); r != nil {
			err = failf("deadlock", "goroutines of the case never finish (%v); trace tail:\n%s", r, w.tail("", 14))
			if runErr != nil {
				err = failf("deadlock", "%v; additionally goroutines of the case never finish (%v)", runErr, r)
			}
		}
	}()
	synctest.Test(t, func(*testing.T) {
		defer func() {
			if r := recover(); r != nil {
				runErr = failf("panic", "panic on the scenario goroutine: %v", r)
			}
		}()
		runErr = o.execute()
	})
	if runErr != nil {
		return st, w.trace, runErr
	}
	if w.harnessErr != "" {
		return st, w.trace, failf("harness-error", "%s", w.harnessErr)
	}
	st, err = judgeOverlap(sc, w.trace)
	for l := range o.labels {
		st.label(l)
	}
	return st, w.trace, err
}

// execute runs inside the bubble, on its root goroutine.
func (o *overlap) execute() (err error) {
	w, sc := o.w, o.sc
	o.selfID = goroutineID()
	o.replan = make(chan struct{}, 1)
	park := func(name, where string) { o.park(name, where, -1) }
	cfg := manager.Config{
		ConnectionManager: w,
		Credentials:       credClient{w},
		ReceiveTimeout:    ms(sc.RecvTimeoutMs),
		Connect:           func(name string) { w.rec(name, kConnect, -1, 0, nil, "") },
		Sync:              func(name string) { w.rec(name, kSync, -1, 0, nil, "") },
		Reset: func(name string) {
			w.rec(name, kReset, -1, 0, nil, "")
			park(name, "reset")
		},
		Update: func(name string, n *gpb.Notification) {
			w.rec(name, kUpdate, -1, n.GetTimestamp(), nil, "")
			park(name, "update")
		},
	}
	if !sc.NoErrCB {
		cfg.ConnectError = func(name string, err error) {
			w.rec(name, kConnectError, -1, 0, err, "")
			park(name, "errcb")
		}
		cfg.MonitorError = func(name string, err error) { w.rec(name, kMonitorError, -1, 0, err, "") }
	}
	m, nerr := manager.NewManager(cfg)
	if nerr != nil {
		return failf("harness-error", "NewManager: %v", nerr)
	}
	tmpl := requestTemplate(false)
	pristine := proto.Clone(tmpl)
	protos := make([]*tpb.Target, len(sc.Targets))
	for i := range sc.Targets {
		spec := &sc.Targets[i]
		name := tname(i)
		w.tg[name] = &tgRun{name: name, idx: i, spec: &Target{Addr: spec.Addr, Meta: spec.Meta, Attempts: spec.Attempts, Errs: spec.Errs}}
		protos[i] = &tpb.Target{Addresses: []string{addrOf(spec.Addr)}}
		if spec.Meta != "" {
			protos[i].Meta = map[string]string{"receive_timeout": spec.Meta}
		}
		if spec.Creds {
			// the password id is the target's name, which is how the lookup is attributed
			protos[i].Credentials = &tpb.Credentials{Username: "user", PasswordId: name}
		}
		o.holdAt[name], o.holdLeft[name] = spec.Hold, spec.HoldN
		o.timeout[name] = sc.effectiveTimeout(i)
		o.bo[name] = &boReplica{cur: ms(sc.BaseMs)}
	}
	w.t0 = time.Now()

	// call starts one external call. inline calls run on this goroutine (only
	// when the call cannot wait for anything but the manager itself).
	call := func(kind, name string, inline bool, fn func() error) {
		o.calls++
		id := o.calls
		info := "async"
		if inline {
			info = "inline"
		}
		if n := o.inflight.Load(); n > 0 {
			info += fmt.Sprintf(" overlaps=%d", n)
		}
		o.inflight.Add(1)
		run := func() {
			cerr := fn()
			w.recCall(name, kind+"-ret", -1, 0, cerr, info, id)
			o.inflight.Add(-1)
		}
		w.recCall(name, kind+"-call", -1, 0, nil, info, id)
		if inline {
			run()
		} else {
			go run()
		}
	}
	// canInline: nothing the call may have to wait for is, or can become, parked,
	// and no other call is in progress (whose lock it would wait for while this
	// goroutine is the only one able to release it).
	canInline := func(kind, name string) bool {
		if o.inflight.Load() != 0 {
			return false
		}
		if kind != "remove" {
			return true
		}
		w.mu.Lock()
		defer w.mu.Unlock()
		return o.holdLeft[name] <= 0 && len(o.parked[name]) == 0
	}
	fatal := func(format string, a ...any) {
		// Goroutines wait for a mutex that nobody will ever release: the bubble can
		// neither be waited for nor left. Same exit as vstat.Watchdog, after the same
		// confirmation: the picture stays as it is for 5 s of real time (the bubble's
		// clock is virtual, hence the system call).
		w.mu.Lock()
		events := len(w.trace)
		w.mu.Unlock()
		calls := o.inflight.Load()
		for start := realNow(); realNow()-start < 5e9; {
			w.mu.Lock()
			moved := len(w.trace) != events
			w.mu.Unlock()
			if moved || o.inflight.Load() != calls || len(o.parkedNames()) > 0 {
				return
			}
			if active, locked := o.scan(); active != 0 || locked == 0 {
				return
			}
			runtime.Gosched()
		}
		fmt.Printf("fatal error: verif managerprop/overlap: %s\n\n%s\ntrace tail:\n%s\n", fmt.Sprintf(format, a...), vstat.BubbleDump(), w.tail("", 30))
		os.Exit(3)
	}
	// drain lets every call in flight finish: it releases whatever is parked until
	// nothing is in flight any more.
	drain := func(why string) error {
		budget := 4 * sc.retryBound()
		for {
			frozen := o.settle()
			if o.inflight.Load() == 0 {
				return nil
			}
			if names := o.parkedNames(); len(names) > 0 {
				for _, n := range names {
					o.release(n, why)
				}
				continue
			}
			if frozen {
				fatal("%s: %d call(s) never return: goroutines wait for the manager's mutex, nothing is parked and nothing else can run", why, o.inflight.Load())
				continue // the picture changed after all
			}
			if budget <= 0 {
				return failf("call-never-returns", "%s: %d external call(s) have not returned although nothing holds their target back and %v of virtual time have passed; trace tail:\n%s", why, o.inflight.Load(), 4*sc.retryBound(), w.tail("", 14))
			}
			// everything is durably blocked, a call is in flight and nothing is parked:
			// the call waits for virtual time (never with the unchanged manager)
			o.sleepPlanned(sc.retryBound()/4, false)
			budget -= sc.retryBound() / 4
		}
	}

	defer func() {
		if r := recover(); r != nil {
			err = failf("panic", "panic on the scenario goroutine: %v", r)
		}
	}()

	for i := range sc.Targets {
		call("add", tname(i), true, func() error { return m.Add(tname(i), protos[i], tmpl) })
	}
	frozen := o.settle()
	for _, s := range sc.Steps {
		d, aimed := o.waitFor(s)
		if aimed {
			o.label("aimed:" + s.Aim)
		} else if s.Aim != "" {
			o.label("aim-fallback:" + s.Aim)
		}
		if d > 0 {
			frozen = o.settle()
			frozen = o.sleepPlanned(d, frozen)
		}
		if !s.Unsettled {
			frozen = o.settle()
		}
		name := tname(s.Target)
		switch s.Kind {
		case "release":
			o.release(name, "step")
			continue
		case "remove-unknown", "reconnect-unknown":
			name = ghost
		}
		kind := s.Kind
		switch kind {
		case "remove-unknown":
			kind = "remove"
		case "reconnect-unknown":
			kind = "reconnect"
		}
		inline := s.Unsettled && canInline(kind, name)
		switch kind {
		case "remove":
			call("remove", name, inline, func() error { return m.Remove(name) })
		case "add":
			idx := s.Target
			call("add", name, inline, func() error { return m.Add(name, protos[idx], tmpl) })
		case "reconnect":
			call("reconnect", name, inline, func() error { return m.Reconnect(name) })
		}
	}
	frozen = o.settle()
	if sc.TailMs > 0 {
		o.sleepPlanned(ms(sc.TailMs), frozen)
	}
	if derr := drain("end-of-steps"); derr != nil {
		return derr
	}
	// Remove whatever may still be managed (a Remove of an unmanaged name is
	// refused, which the monitor expects).
	for i := range sc.Targets {
		name := tname(i)
		w.rec(name, kSettled, -1, 0, nil, "final")
		call("remove", name, false, func() error { return m.Remove(name) })
		if derr := drain("final-remove"); derr != nil {
			return derr
		}
	}
	// nothing may be left parked (a goroutine that outlived its target's Remove)
	if names := o.parkedNames(); len(names) > 0 {
		for _, n := range names {
			o.release(n, "leftover")
		}
		synctest.Wait()
	}
	time.Sleep(10 * sc.retryBound())
	synctest.Wait()
	w.rec("", kEnd, -1, 0, nil, "")
	if !proto.Equal(tmpl, pristine) {
		return failf("request-template-modified", "the SubscribeRequest handed to Add was modified in place: now %v", tmpl)
	}
	return nil
}

// waitFor computes how long the scenario goroutine sleeps before step s.
func (o *overlap) waitFor(s OStep) (d time.Duration, aimed bool) {
	if s.Aim == "" {
		return ms(s.AfterMs), false
	}
	now := time.Now()
	name := tname(s.AimTarget)
	var at time.Time
	o.w.mu.Lock()
	switch s.Aim {
	case "timeout":
		if ri, to := o.recv[name], o.timeout[name]; ri != nil && to > 0 {
			if dl := ri.callAt.Add(to); ri.wakeAt.IsZero() || ri.wakeAt.After(dl) {
				at = dl
			}
		}
	case "msg":
		if ri := o.recv[name]; ri != nil {
			at = ri.wakeAt
		}
	case "dial":
		if o.dialing[name] {
			at = o.dial[name]
		}
	case "retry":
		if b := o.bo[name]; b != nil && b.failed && !o.dialing[name] {
			at = b.lastAct.Add(b.delay)
		}
	}
	o.w.mu.Unlock()
	if at.IsZero() {
		return ms(s.AfterMs), false
	}
	at = at.Add(ms(s.OffsetMs))
	if at.Before(now) {
		return ms(s.AfterMs), false
	}
	return at.Sub(now), true
}
