package managerprop

import (
	"testing"

	"pgregory.net/rapid"
	"verif/harness/internal/vstat"
)

// TestC13Long: generated scenarios of long failing streaks and of small to very
// large retry delays (long_scenario.go), each in its own synctest bubble; run
// and judged like the random part. Non-trivial: at least one retry was judged
// against the backoff bounds after the target had been failing for >= 16 virtual
// minutes without an attempt longer than 2*RetryMaxDelay, or under a configured
// RetryBaseDelay >= 16 minutes.
func TestC13Long(t *testing.T) {
	if !vstat.Enabled("C13") {
		t.Skip()
	}
	rec := vstat.New("C13", "long")
	rec.RunRapid(t, func(rt *rapid.T) {
		sc := genLongScenario(rt)
		rec.Current(sc)
		st, err := runScenario(t, sc)
		rec.Case(sc, st.lateRetries > 0, st.labelList()...)
		if err != nil {
			rt.Fatalf("%s", rec.Fail(sc, classOf(err), "%v", err))
		}
	})
}
