package targetprop

import (
	"testing"

	"pgregory.net/rapid"
	"verif/harness/internal/vstat"
)

// Generators of part "edges" --------------------------------------------------

var (
	// Request keys and target names of complete configurations. All of them are
	// valid keys / names; the empty target name and the unset request name come
	// in through edits only.
	edgeReqKeyPool = []string{"subA", "subA", "subA", "subB", "subB", "subB", "subC", "subC", "", "", " ", "subA ", "SUBA", " subB"}
	edgeTgtPool    = []string{"dev1", "dev1", "dev2", "dev2", "dev3", "dev3", "dev4", "dev5", " ", "dev1 ", "DEV1", " dev2"}

	edgeKindWeights = []kindWeight{
		{"e-req-key", 5}, {"e-tgt-noreq", 6}, {"e-tgt-reqvar", 5}, {"e-reqkey-var", 3}, {"e-tgt-name", 5},
		{"e-tgt-value", 4}, {"e-addr", 4}, {"e-cred", 2}, {"e-body", 2}, {"e-body-full", 6},
		{"req-rename", 1}, {"req-add", 1}, {"req-del", 2}, {"tgt-add", 4}, {"tgt-remove", 4}, {"tgt-repoint", 3},
		{"tgt-addr", 2}, {"tgt-cred", 1}, {"tgt-meta", 1}, {"tgt-dialer", 1},
		{"inv-empty-name", 1}, {"inv-nil-target", 1}, {"inv-no-address", 1}, {"inv-missing-request", 2}, {"inv-dangling-request", 1},
	}
	edgeKinds = expandKinds(edgeKindWeights)
)

// genEdgeBody: mostly one of the two complete requests.
func genEdgeBody(t *rapid.T) int {
	// (the draw favours both ends of its range: the complete ones sit there)
	return []int{bodyFullA, bodyNil, bodyEmpty, 2, 0, 1, bodyPoll, bodyNoSubs, bodyFullB}[choose(t, "ebody", 48, 1, 1, 1, 1, 1, 1, 1, 32)]
}

func genEdgeCred(t *rapid.T) int {
	return rapid.SampledFrom([]int{0, 0, 0, 0, 1, 2, credEmpty, credUserOnly, credPassOnly, credIDOnly}).Draw(t, "cred")
}

// genEdgeSpec draws a complete VALID configuration whose keys, names, address
// lists and credentials include the harmless edge values (revision left 0).
func genEdgeSpec(t *rapid.T) *ConfigSpec {
	c := emptySpec()
	c.Instance = rapid.SampledFrom([]int{0, 0, 1, 2}).Draw(t, "instance")
	c.CfgMeta = rapid.SampledFrom([]int{0, 0, 0, 1, 2}).Draw(t, "cfgmeta")
	shape := choose(t, "specshape", 16, 2, 1)
	if shape == 2 {
		return c
	}
	reqs := rapid.SliceOfNDistinct(rapid.SampledFrom(edgeReqKeyPool), 1, 4, rapid.ID[string]).Draw(t, "reqs")
	var nameable []string
	for _, r := range reqs {
		c.Requests[r] = genEdgeBody(t)
		if r != "" {
			nameable = append(nameable, r)
		}
	}
	if shape == 1 {
		return c
	}
	if len(nameable) == 0 {
		c.Requests["subA"] = genEdgeBody(t)
		nameable = []string{"subA"}
	}
	tgts := rapid.SliceOfNDistinct(rapid.SampledFrom(edgeTgtPool), 1, 4, rapid.ID[string]).Draw(t, "tgts")
	for _, n := range tgts {
		ts := TargetSpec{
			Addr:   rapid.IntRange(1, len(addrPool)-1).Draw(t, "addr"),
			Req:    rapid.SampledFrom(nameable).Draw(t, "req"),
			Cred:   genEdgeCred(t),
			Meta:   rapid.SampledFrom([]int{0, 0, 0, 1, 2}).Draw(t, "meta"),
			Dialer: rapid.SampledFrom([]int{0, 0, 0, 1}).Draw(t, "dialer"),
		}
		ts.AddrX = []int{0, addrXDup, addrXDupApart}[choose(t, "addrx", 8, 1, 1)]
		c.Targets[n] = ts
	}
	return c
}

func genEdgeEdit(t *rapid.T) Edit {
	return Edit{
		Kind: rapid.SampledFrom(edgeKinds).Draw(t, "kind"),
		Pick: rapid.IntRange(0, 4).Draw(t, "pick"),
		Name: rapid.IntRange(0, 4).Draw(t, "name"),
		Body: genEdgeBody(t),
		Addr: rapid.IntRange(0, 7).Draw(t, "addr"),
		Req:  rapid.IntRange(0, 3).Draw(t, "req"),
		Cred: genEdgeCred(t),
		Meta: rapid.SampledFrom([]int{0, 0, 0, 1, 2}).Draw(t, "meta"),
		Dial: rapid.SampledFrom([]int{0, 0, 0, 1}).Draw(t, "dial"),
		Var:  rapid.IntRange(0, 7).Draw(t, "var"),
		Pair: rapid.Bool().Draw(t, "pair"),
	}
}

func genEdgeRepr(t *rapid.T) int {
	return []int{0, reprText, reprEmptyMaps, reprText | reprEmptyMaps, reprNilInner}[choose(t, "repr", 6, 2, 2, 1, 1)]
}

func genEdgeEdits(t *rapid.T, max int) []Edit {
	es := rapid.SliceOfN(rapid.Custom(genEdgeEdit), 0, max).Draw(t, "edits")
	if len(es) == 0 {
		return nil
	}
	return es
}

func genEdgeLoad(t *rapid.T) Load {
	var ld Load
	// 0: edits of the current configuration, 1: a complete configuration (plus edits), 2: Load(nil)
	switch choose(t, "shape", 30, 14, 1) {
	case 1:
		ld.Full = genEdgeSpec(t)
	case 2:
		ld.NilConfig = true
		return ld
	}
	ld.Edits = genEdgeEdits(t, 3)
	ld.Repr = genEdgeRepr(t)
	if choose(t, "revmode", 9, 1) == 1 {
		ld.RevAbs = true
		ld.Rev = rapid.SampledFrom(absRevs).Draw(t, "rev")
	} else {
		ld.Rev = rapid.SampledFrom(relRevs).Draw(t, "revrel")
	}
	return ld
}

func genEdgeScenario(t *rapid.T) *Scenario {
	sc := &Scenario{Edges: true}
	switch choose(t, "base", 5, 4, 1) {
	case 2:
		sc.BaseMode = "nil"
	case 1:
		// The base is offered to the constructor, which validates it: a valid
		// configuration, or one pushed over an edge by one or two edits.
		sc.BaseMode = "config"
		sc.Base = genEdgeSpec(t)
		for _, e := range genEdgeEdits(t, 2) {
			apply(sc.Base, e)
		}
		sc.Base.Rev = rapid.SampledFrom([]int64{0, 0, 1, 5, -2}).Draw(t, "baserev")
		sc.BaseRepr = genEdgeRepr(t)
	}
	sc.Loads = rapid.SliceOfN(rapid.Custom(genEdgeLoad), 1, 10).Draw(t, "loads")
	sc.Unset = genUnset(t)
	return sc
}

// TestC17Edges: the validity gate at the edges of every clause of the
// reference predicate (edges.go), through every entry point that validates.
func TestC17Edges(t *testing.T) {
	if !vstat.Enabled("C17") {
		t.Skip()
	}
	rec := vstat.New("C17", "edges")
	rec.RunRapid(t, func(rt *rapid.T) {
		sc := genEdgeScenario(rt)
		st, err := run(sc)
		rec.Case(sc, st.nontrivial(), st.labels()...)
		if err != nil {
			rt.Fatalf("%s", rec.Fail(sc, failClass(err), "%v", err))
		}
	})
}
