// Package targetprop decides property C17 ("Target config loads are monotonic
// and announced as exact diffs") for github.com/openconfig/gnmi/target.
//
// A scenario is plain data: an optional base configuration and a list of
// loads. Every load is described by edits that are resolved against the
// *current accepted configuration of the reference model* (never against the
// code under test), so that a scenario is self-contained and replayable.
package targetprop

import (
	"encoding/json"
	"sort"

	"google.golang.org/protobuf/encoding/prototext"

	gpb "github.com/openconfig/gnmi/proto/gnmi"
	pb "github.com/openconfig/gnmi/proto/target"
)

// Pools ------------------------------------------------------------------------

var (
	tgtNames = []string{"dev1", "dev2", "dev3", "dev4", "dev5"}
	reqNames = []string{"subA", "subB", "subC"}
	// ghostReq is a request name that is never defined.
	ghostReq = "ghost"
	// addrPool[0] is the invalid "no address" setting. addrPool[2] extends addrPool[1].
	addrPool = [][]string{
		nil,
		{"10.0.0.1:6030"},
		{"10.0.0.1:6030", "10.0.0.2:6030"},
		{"192.168.0.3:9339"},
	}
	instancePool = []string{"", "inst-1", "inst-2"}
	dialerPool   = []string{"", "tunnel"}
)

const (
	nBodies = 3
	nCreds  = 3
	nMetas  = 3
)

// Degenerate-but-valid values (part "degenerate"). They lie outside the pools
// that the relative edits cycle through (0..nBodies-1, 0..nCreds-1), so a saved
// scenario of the "random" part means what it meant when it was recorded.
const (
	// bodyEmpty: the request is present but empty (&gpb.SubscribeRequest{}).
	bodyEmpty = 3
	// bodyNil: the request map lists the name with a nil message. Validate only
	// asks for the key, so a target may refer to it; handlers then receive
	// Request == nil.
	bodyNil = 4
	// credEmpty: credentials present but empty (&pb.Credentials{}).
	credEmpty = 3

	// Values of part "edges" (edges.go). bodyFullA / bodyFullB are two different
	// requests that meet everything target.proto asks of a request ("at minimum a
	// SubscriptionList with a prefix containing origin and one or more
	// Subscriptions", STREAM mode); bodyPoll carries the other oneof arm and
	// bodyNoSubs a subscription list with prefix and origin but no subscription.
	bodyFullA  = 5
	bodyFullB  = 6
	bodyPoll   = 7
	bodyNoSubs = 8
	// Credentials with only some of their fields.
	credUserOnly = 4
	credPassOnly = 5
	credIDOnly   = 6
)

// normBody maps any integer to a body index (the two degenerate ones are kept).
func normBody(b int) int {
	if b >= bodyEmpty && b <= bodyNoSubs {
		return b
	}
	return mod(b, nBodies)
}

func normCred(c int) int {
	if c >= credEmpty && c <= credIDOnly {
		return c
	}
	return mod(c, nCreds)
}

// arguable reports whether a and b are the pair "nil message / empty message".
// Whether replacing one by the other is a change is arguable (both serialise to
// nothing, proto.Equal on the enclosing message calls them equal, proto.Equal
// on the two values does not), so the generators never produce that transition
// for one name (see materialise); everything else about nil values is judged.
func arguable(a, b, nilV, emptyV int) bool {
	return a == nilV && b == emptyV || a == emptyV && b == nilV
}

// Representations of the same content (Load.Repr / Scenario.BaseRepr, bit set).
const (
	// reprEmptyMaps: maps and slices without entries are non-nil and empty
	// instead of nil (request map, target map, meta maps, addresses).
	reprEmptyMaps = 1
	// reprNilInner: body 2 carries the subscribe wrapper with a nil
	// SubscriptionList instead of an empty one (equal content).
	reprNilInner = 2
	// reprText: the message went through the text format and back, the way a
	// configuration file reaches the package (cmd/gnmi_collector). Not applied
	// to configurations with a nil map value (the text format has none).
	reprText = 4
)

// body returns a fresh request body number i (three pairwise different bodies,
// the empty message and the nil message).
func body(i int) *gpb.SubscribeRequest {
	switch i {
	case bodyEmpty:
		return &gpb.SubscribeRequest{}
	case bodyNil:
		return nil
	case bodyFullA:
		return &gpb.SubscribeRequest{Request: &gpb.SubscribeRequest_Subscribe{Subscribe: &gpb.SubscriptionList{
			Prefix:       &gpb.Path{Origin: "openconfig"},
			Subscription: []*gpb.Subscription{{Path: &gpb.Path{Elem: []*gpb.PathElem{{Name: "interfaces"}}}}},
		}}}
	case bodyFullB:
		return &gpb.SubscribeRequest{Request: &gpb.SubscribeRequest_Subscribe{Subscribe: &gpb.SubscriptionList{
			Prefix: &gpb.Path{Origin: "openconfig"},
			Subscription: []*gpb.Subscription{
				{Path: &gpb.Path{Elem: []*gpb.PathElem{{Name: "system"}}}},
				{Path: &gpb.Path{Elem: []*gpb.PathElem{{Name: "lldp"}}}},
			},
		}}}
	case bodyPoll:
		return &gpb.SubscribeRequest{Request: &gpb.SubscribeRequest_Poll{Poll: &gpb.Poll{}}}
	case bodyNoSubs:
		return &gpb.SubscribeRequest{Request: &gpb.SubscribeRequest_Subscribe{Subscribe: &gpb.SubscriptionList{
			Prefix:       &gpb.Path{Origin: "openconfig"},
			Subscription: []*gpb.Subscription{},
		}}}
	case 0:
		return &gpb.SubscribeRequest{Request: &gpb.SubscribeRequest_Subscribe{Subscribe: &gpb.SubscriptionList{
			Prefix:       &gpb.Path{Target: "t"},
			Subscription: []*gpb.Subscription{{Path: &gpb.Path{Elem: []*gpb.PathElem{{Name: "a"}}}}},
		}}}
	case 1:
		return &gpb.SubscribeRequest{Request: &gpb.SubscribeRequest_Subscribe{Subscribe: &gpb.SubscriptionList{
			Mode:         gpb.SubscriptionList_ONCE,
			Subscription: []*gpb.Subscription{{Path: &gpb.Path{Elem: []*gpb.PathElem{{Name: "b"}, {Name: "c", Key: map[string]string{"k": "v"}}}}}},
		}}}
	default:
		return &gpb.SubscribeRequest{Request: &gpb.SubscribeRequest_Subscribe{Subscribe: &gpb.SubscriptionList{}}}
	}
}

func creds(i int) *pb.Credentials {
	switch i {
	case 1:
		return &pb.Credentials{Username: "u1", Password: "p1"}
	case 2:
		return &pb.Credentials{Username: "u1", PasswordId: "id-7"}
	case credEmpty:
		return &pb.Credentials{}
	case credUserOnly:
		return &pb.Credentials{Username: "u1"}
	case credPassOnly:
		return &pb.Credentials{Password: "p1"}
	case credIDOnly:
		return &pb.Credentials{PasswordId: "id-7"}
	}
	return nil
}

func meta(i int) map[string]string {
	switch i {
	case 1:
		return map[string]string{"k": "v"}
	case 2:
		return map[string]string{"k": "w", "z": "1"}
	}
	return nil
}

// Plain-data configuration -----------------------------------------------------

// TargetSpec is one entry of the target map. All fields are indices into the
// pools, so equality of specs is equality of the settings.
type TargetSpec struct {
	Nil    bool   `json:"nil,omitempty"`   // the map value is a nil *pb.Target
	Empty  bool   `json:"empty,omitempty"` // the map value is an empty message (&pb.Target{}); the other fields are zero
	Addr   int    `json:"addr"`            // index into addrPool, 0 = no address
	AddrX  int    `json:"addrx,omitempty"` // k > 0: the address list is edgeAddrs[k-1] instead (part "edges")
	Req    string `json:"req"`             // request name, "" = missing
	Cred   int    `json:"cred,omitempty"`
	Meta   int    `json:"meta,omitempty"`
	Dialer int    `json:"dialer,omitempty"`
}

// ConfigSpec is a configuration as plain data.
type ConfigSpec struct {
	Rev      int64                 `json:"rev"`
	Requests map[string]int        `json:"requests"` // request name -> body index
	Targets  map[string]TargetSpec `json:"targets"`
	Instance int                   `json:"instance,omitempty"`
	CfgMeta  int                   `json:"cfgmeta,omitempty"`
}

func emptySpec() *ConfigSpec {
	return &ConfigSpec{Requests: map[string]int{}, Targets: map[string]TargetSpec{}}
}

func (c *ConfigSpec) clone() *ConfigSpec {
	if c == nil {
		return nil
	}
	n := &ConfigSpec{Rev: c.Rev, Instance: c.Instance, CfgMeta: c.CfgMeta, Requests: map[string]int{}, Targets: map[string]TargetSpec{}}
	for k, v := range c.Requests {
		n.Requests[k] = v
	}
	for k, v := range c.Targets {
		n.Targets[k] = v
	}
	return n
}

func (c *ConfigSpec) String() string {
	if c == nil {
		return "<nil>"
	}
	b, _ := json.Marshal(c)
	return string(b)
}

func mod(i, n int) int {
	i %= n
	if i < 0 {
		i += n
	}
	return i
}

func (t TargetSpec) build() *pb.Target { return t.buildRepr(0) }

// addrs returns the address list of the target (shared, do not modify).
func (t TargetSpec) addrs() []string {
	if t.AddrX > 0 {
		return edgeAddrs[mod(t.AddrX-1, len(edgeAddrs))]
	}
	return addrPool[mod(t.Addr, len(addrPool))]
}

func (t TargetSpec) buildRepr(repr int) *pb.Target {
	if t.Nil {
		return nil
	}
	if t.Empty {
		return &pb.Target{}
	}
	addrs := t.addrs()
	out := &pb.Target{
		Addresses:   append([]string(nil), addrs...),
		Request:     t.Req,
		Credentials: creds(normCred(t.Cred)),
		Meta:        meta(mod(t.Meta, nMetas)),
		Dialer:      dialerPool[mod(t.Dialer, len(dialerPool))],
	}
	if addrs != nil && len(addrs) == 0 {
		out.Addresses = []string{} // an edge value of its own: the list is there and has no entry
	}
	if repr&reprEmptyMaps != 0 {
		if out.Addresses == nil {
			out.Addresses = []string{}
		}
		if out.Meta == nil {
			out.Meta = map[string]string{}
		}
	}
	return out
}

// build returns a fresh protobuf message for the configuration; nothing in it
// is shared with any other message.
func (c *ConfigSpec) build() *pb.Configuration { return c.buildRepr(0) }

// buildRepr is build in another representation of the same content.
func (c *ConfigSpec) buildRepr(repr int) *pb.Configuration {
	cfg := &pb.Configuration{
		Revision:   c.Rev,
		InstanceId: instancePool[mod(c.Instance, len(instancePool))],
		Meta:       meta(mod(c.CfgMeta, nMetas)),
	}
	if repr&reprEmptyMaps != 0 && cfg.Meta == nil {
		cfg.Meta = map[string]string{}
	}
	if len(c.Requests) > 0 || repr&reprEmptyMaps != 0 {
		cfg.Request = map[string]*gpb.SubscribeRequest{}
		for n, b := range c.Requests {
			r := body(normBody(b))
			if repr&reprNilInner != 0 && normBody(b) == 2 {
				r = &gpb.SubscribeRequest{Request: &gpb.SubscribeRequest_Subscribe{}}
			}
			cfg.Request[n] = r
		}
	}
	if len(c.Targets) > 0 || repr&reprEmptyMaps != 0 {
		cfg.Target = map[string]*pb.Target{}
		for n, t := range c.Targets {
			cfg.Target[n] = t.buildRepr(repr)
		}
	}
	if repr&reprText != 0 && c.textRepresentable() {
		if b, err := prototext.Marshal(cfg); err == nil {
			out := &pb.Configuration{}
			if err := prototext.Unmarshal(b, out); err == nil {
				return out
			}
		}
	}
	return cfg
}

// textRepresentable: no map value of c is a nil message.
func (c *ConfigSpec) textRepresentable() bool {
	for _, t := range c.Targets {
		if t.Nil {
			return false
		}
	}
	return !c.hasNilBody()
}

// nilRequestTargets returns the names of the targets that refer to a request
// listed with a nil message.
func (c *ConfigSpec) nilRequestTargets() map[string]bool {
	out := map[string]bool{}
	if c == nil {
		return out
	}
	for n, t := range c.Targets {
		if t.Nil {
			continue
		}
		if b, ok := c.Requests[t.Req]; ok && normBody(b) == bodyNil {
			out[n] = true
		}
	}
	return out
}

// invalidReasons is the reference validity predicate, written from the
// documentation of the configuration (every target has a non-empty name, a
// message, at least one address and names a request that is defined). It
// returns the sorted set of reasons; empty means valid.
func (c *ConfigSpec) invalidReasons() []string {
	set := map[string]bool{}
	for name, t := range c.Targets {
		if name == "" {
			set["empty-name"] = true
		}
		if t.Nil {
			set["nil-target"] = true
			continue
		}
		if len(t.addrs()) == 0 || t.Empty {
			set["no-address"] = true
		}
		if t.Req == "" {
			set["missing-request"] = true
		} else if _, ok := c.Requests[t.Req]; !ok {
			set["dangling-request"] = true
		}
	}
	var out []string
	for k := range set {
		out = append(out, k)
	}
	sort.Strings(out)
	return out
}

func sortedTargets(c *ConfigSpec) []string {
	var out []string
	for k := range c.Targets {
		out = append(out, k)
	}
	sort.Strings(out)
	return out
}

func sortedRequests(c *ConfigSpec) []string {
	var out []string
	for k := range c.Requests {
		out = append(out, k)
	}
	sort.Strings(out)
	return out
}

func freeNames(pool []string, used func(string) bool) []string {
	var out []string
	for _, n := range pool {
		if !used(n) {
			out = append(out, n)
		}
	}
	return out
}

// Edits --------------------------------------------------------------------------

// Edit is one change applied to a working copy of a configuration. Which
// target / request it addresses is an index into the sorted names that exist
// at that moment ("the Pick-th existing target"), so the choice depends on the
// state but is recorded in the scenario.
type Edit struct {
	// Kind: req-edit | req-rename | req-add | req-del | tgt-add | tgt-remove |
	// tgt-repoint | tgt-addr | tgt-cred | tgt-meta | tgt-dialer | cfg-instance | cfg-meta |
	// inv-empty-name | inv-nil-target | inv-no-address | inv-missing-request | inv-dangling-request |
	// req-nil | req-empty | tgt-cred-empty (degenerate but valid values) |
	// e-req-key | e-tgt-noreq | e-tgt-reqvar | e-reqkey-var | e-tgt-name | e-tgt-value | e-addr | e-cred | e-body |
	// e-body-full (values at the edges of the validity predicate, edges.go)
	Kind string `json:"kind"`
	Pick int    `json:"pick,omitempty"` // which existing target / request
	Name int    `json:"name,omitempty"` // which free pool name
	Body int    `json:"body,omitempty"`
	Addr int    `json:"addr,omitempty"`
	Req  int    `json:"req,omitempty"`
	Cred int    `json:"cred,omitempty"`
	Meta int    `json:"meta,omitempty"`
	Dial int    `json:"dial,omitempty"`
	// Part "edges" (kinds e-*, see edges.go): Var selects the edge value, Pair
	// asks for the neighbouring entry that goes with it.
	Var  int  `json:"var,omitempty"`
	Pair bool `json:"pair,omitempty"`
}

// newTarget adds a fresh, valid target under name (creating a request if the
// configuration has none).
func newTarget(c *ConfigSpec, name string, e Edit) {
	var req string
	if rs := sortedRequests(c); len(rs) > 0 {
		req = rs[mod(e.Req, len(rs))]
	} else {
		req = reqNames[mod(e.Req, len(reqNames))]
		c.Requests[req] = normBody(e.Body)
	}
	c.Targets[name] = TargetSpec{Addr: 1 + mod(e.Addr, len(addrPool)-1), Req: req, Cred: normCred(e.Cred), Meta: mod(e.Meta, nMetas), Dialer: mod(e.Dial, len(dialerPool))}
}

func freeTarget(c *ConfigSpec, e Edit) (string, bool) {
	free := freeNames(tgtNames, func(n string) bool { _, ok := c.Targets[n]; return ok })
	if len(free) == 0 {
		return "", false
	}
	return free[mod(e.Name, len(free))], true
}

// pickLive returns the Pick-th existing non-nil target.
func pickLive(c *ConfigSpec, pick int) (string, bool) {
	var live []string
	for _, n := range sortedTargets(c) {
		if !c.Targets[n].Nil && !c.Targets[n].Empty {
			live = append(live, n)
		}
	}
	if len(live) == 0 {
		return "", false
	}
	return live[mod(pick, len(live))], true
}

// apply performs e on c and returns the kind of edit that was effectively
// performed ("" if e changed nothing).
func apply(c *ConfigSpec, e Edit) string {
	if applyEdit(c, &e) {
		return e.Kind
	}
	return ""
}

func applyEdit(c *ConfigSpec, e *Edit) bool {
	// Valid per-target edits on a configuration without targets fall back to adding one.
	switch e.Kind {
	case "tgt-remove", "tgt-repoint", "tgt-addr", "tgt-cred", "tgt-cred-empty", "tgt-meta", "tgt-dialer":
		if _, ok := pickLive(c, e.Pick); !ok {
			e.Kind = "tgt-add"
		}
	}
	switch e.Kind {
	case "req-edit":
		rs := sortedRequests(c)
		if len(rs) == 0 {
			return false
		}
		n := rs[mod(e.Pick, len(rs))]
		c.Requests[n] = mod(c.Requests[n]+1+mod(e.Body, nBodies-1), nBodies)
		return true
	case "req-rename":
		rs := sortedRequests(c)
		free := freeNames(reqNames, func(n string) bool { _, ok := c.Requests[n]; return ok })
		if len(rs) == 0 || len(free) == 0 {
			return false
		}
		old, nu := rs[mod(e.Pick, len(rs))], free[mod(e.Name, len(free))]
		c.Requests[nu] = c.Requests[old]
		delete(c.Requests, old)
		for n, t := range c.Targets {
			if !t.Nil && t.Req == old {
				t.Req = nu
				c.Targets[n] = t
			}
		}
		return true
	case "req-add":
		free := freeNames(reqNames, func(n string) bool { _, ok := c.Requests[n]; return ok })
		if len(free) == 0 {
			return false
		}
		c.Requests[free[mod(e.Name, len(free))]] = normBody(e.Body)
		return true
	case "req-nil", "req-empty":
		// The message of an existing request becomes nil / empty. Req chooses
		// among the requests some target uses (even) or among all of them (odd).
		rs := sortedRequests(c)
		if mod(e.Req, 2) == 0 {
			used := map[string]bool{}
			for _, t := range c.Targets {
				if !t.Nil {
					used[t.Req] = true
				}
			}
			var u []string
			for _, n := range rs {
				if used[n] {
					u = append(u, n)
				}
			}
			if len(u) > 0 {
				rs = u
			}
		}
		if len(rs) == 0 {
			return false
		}
		n, v := rs[mod(e.Pick, len(rs))], bodyNil
		if e.Kind == "req-empty" {
			v = bodyEmpty
		}
		if normBody(c.Requests[n]) == v {
			return false
		}
		c.Requests[n] = v
		return true
	case "req-del":
		// Prefer a request no target refers to; deleting a referenced one
		// leaves a dangling reference (an invalid configuration).
		used := map[string]bool{}
		for _, t := range c.Targets {
			used[t.Req] = true
		}
		var unused []string
		for _, n := range sortedRequests(c) {
			if !used[n] {
				unused = append(unused, n)
			}
		}
		rs := sortedRequests(c)
		switch {
		case len(unused) > 0:
			delete(c.Requests, unused[mod(e.Pick, len(unused))])
		case len(rs) > 0:
			delete(c.Requests, rs[mod(e.Pick, len(rs))])
		default:
			return false
		}
		return true
	case "tgt-add":
		n, ok := freeTarget(c, *e)
		if !ok {
			return false
		}
		newTarget(c, n, *e)
		return true
	case "tgt-remove":
		n, _ := pickLive(c, e.Pick)
		delete(c.Targets, n)
		return true
	case "tgt-repoint":
		n, _ := pickLive(c, e.Pick)
		t := c.Targets[n]
		var others []string
		for _, r := range sortedRequests(c) {
			if r != t.Req {
				others = append(others, r)
			}
		}
		if len(others) == 0 {
			free := freeNames(reqNames, func(n string) bool { _, ok := c.Requests[n]; return ok })
			if len(free) == 0 {
				return false
			}
			r := free[mod(e.Name, len(free))]
			c.Requests[r] = normBody(e.Body)
			others = []string{r}
		}
		t.Req = others[mod(e.Req, len(others))]
		c.Targets[n] = t
		return true
	case "tgt-addr":
		n, _ := pickLive(c, e.Pick)
		t := c.Targets[n]
		k := len(addrPool) - 1
		if t.AddrX != 0 {
			t.AddrX, t.Addr = 0, 0
		}
		if a := mod(t.Addr, len(addrPool)); a == 0 {
			t.Addr = 1 + mod(e.Addr, k)
		} else {
			t.Addr = 1 + mod(a-1+1+mod(e.Addr, k-1), k)
		}
		c.Targets[n] = t
		return true
	case "tgt-cred":
		n, _ := pickLive(c, e.Pick)
		t := c.Targets[n]
		t.Cred = mod(t.Cred+1+mod(e.Cred, nCreds-1), nCreds)
		c.Targets[n] = t
		return true
	case "tgt-cred-empty":
		n, _ := pickLive(c, e.Pick)
		t := c.Targets[n]
		if normCred(t.Cred) == credEmpty {
			return false
		}
		t.Cred = credEmpty
		c.Targets[n] = t
		return true
	case "tgt-meta":
		n, _ := pickLive(c, e.Pick)
		t := c.Targets[n]
		t.Meta = mod(t.Meta+1+mod(e.Meta, nMetas-1), nMetas)
		c.Targets[n] = t
		return true
	case "tgt-dialer":
		n, _ := pickLive(c, e.Pick)
		t := c.Targets[n]
		t.Dialer = mod(t.Dialer+1, len(dialerPool))
		c.Targets[n] = t
		return true
	case "cfg-instance":
		c.Instance = mod(c.Instance+1+mod(e.Name, len(instancePool)-1), len(instancePool))
		return true
	case "cfg-meta":
		c.CfgMeta = mod(c.CfgMeta+1+mod(e.Meta, nMetas-1), nMetas)
		return true

	// invalid variants ---------------------------------------------------------
	case "inv-empty-name":
		newTarget(c, "", *e)
		return true
	case "inv-nil-target", "inv-no-address", "inv-missing-request", "inv-dangling-request":
		n, ok := pickLive(c, e.Pick)
		if !ok || mod(e.Name, 4) == 3 { // sometimes the broken target is a new one
			f, okf := freeTarget(c, *e)
			if okf {
				newTarget(c, f, *e)
				n, ok = f, true
			}
		}
		if !ok {
			return false
		}
		t := c.Targets[n]
		switch e.Kind {
		case "inv-nil-target":
			t = TargetSpec{Nil: true}
		case "inv-no-address":
			t.Addr, t.AddrX = 0, 0
		case "inv-missing-request":
			t.Req = ""
		case "inv-dangling-request":
			free := freeNames(reqNames, func(n string) bool { _, ok := c.Requests[n]; return ok })
			if len(free) > 0 && mod(e.Req, 2) == 0 {
				t.Req = free[mod(e.Req/2, len(free))]
			} else {
				t.Req = ghostReq
			}
		}
		c.Targets[n] = t
		return true
	}
	return applyEdgeEdit(c, e)
}

// Scenario ---------------------------------------------------------------------

// Load is one call of Config.Load.
type Load struct {
	// NilConfig: call Load(nil).
	NilConfig bool `json:"nil_config,omitempty"`
	// Full, if set, is the configuration the edits start from; otherwise they
	// start from the current accepted configuration (the base, or an empty
	// configuration, if nothing was accepted yet).
	Full *ConfigSpec `json:"full,omitempty"`
	// Edits are applied in order.
	Edits []Edit `json:"edits,omitempty"`
	// Revision: absolute value if RevAbs, else current accepted revision + Rev
	// (0 + Rev if there is no current configuration).
	RevAbs bool  `json:"rev_abs,omitempty"`
	Rev    int64 `json:"rev"`
	// Repr: representation of the message handed to Load (bit set of repr*).
	Repr int `json:"repr,omitempty"`
}

// Scenario is a whole case.
type Scenario struct {
	// BaseMode: "" = NewConfig; "nil" = NewConfigWithBase(h, nil); "config" = NewConfigWithBase(h, Base).
	BaseMode string      `json:"base_mode,omitempty"`
	Base     *ConfigSpec `json:"base,omitempty"`
	BaseRepr int         `json:"base_repr,omitempty"`
	Loads    []Load      `json:"loads"`
	// Edges marks a scenario of part "edges": the base may be invalid (the
	// constructor must then refuse it), every offered configuration is also put
	// to the other entry points, and validity clauses the documentation leaves
	// open are not judged (ConfigSpec.undecided).
	Edges bool `json:"edges,omitempty"`
	// Unset: the shape of the consumer - the callbacks of target.Handler that are
	// left nil, as letters out of "aud" (consumer.go). "" = all three registered.
	Unset string `json:"unset,omitempty"`
}

// settle removes the arguable transitions from spec: a request name / a target
// name that cur has with a nil message (no credentials) and spec with an empty
// one, or the other way round, keeps what cur has. Configurations without the
// degenerate values are never touched.
func settle(cur, spec *ConfigSpec) {
	if cur == nil {
		return
	}
	for n, b := range spec.Requests {
		if ob, ok := cur.Requests[n]; ok && arguable(normBody(ob), normBody(b), bodyNil, bodyEmpty) {
			spec.Requests[n] = ob
		}
	}
	for n, t := range spec.Targets {
		if ot, ok := cur.Targets[n]; ok && !t.Nil && !ot.Nil && arguable(normCred(ot.Cred), normCred(t.Cred), 0, credEmpty) {
			t.Cred = ot.Cred
			spec.Targets[n] = t
		}
	}
}

// materialise resolves ld against cur (the model's current accepted
// configuration, nil if none). It returns nil for Load(nil). applied lists the
// kinds of the edits that changed something.
func materialise(cur *ConfigSpec, ld Load) (spec *ConfigSpec, applied []string) {
	if ld.NilConfig {
		return nil, nil
	}
	var curRev int64
	switch {
	case ld.Full != nil:
		spec = ld.Full.clone()
	case cur != nil:
		spec = cur.clone()
	default:
		spec = emptySpec()
	}
	if cur != nil {
		curRev = cur.Rev
	}
	for _, e := range ld.Edits {
		if k := apply(spec, e); k != "" {
			applied = append(applied, k)
		}
	}
	settle(cur, spec)
	if ld.RevAbs {
		spec.Rev = ld.Rev
	} else {
		spec.Rev = curRev + ld.Rev
	}
	return spec, applied
}
