package targetprop

// Part "edges": the validity predicate at its edges.
//
// The reference predicate (ConfigSpec.invalidReasons, ConfigSpec.undecided) is
// written from what the package and the schema SAY, clause by clause:
//
//  1. every target has a non-empty name   - target.go "target with empty name";
//     target.proto "The key of the map is a unique name to identify a target".
//  2. every target has a configuration    - target.go "missing target configuration for %q".
//  3. every target has an address         - target.go "target %q missing address";
//     target.proto "A list of address and port or name that resolves to an
//     address and port". A list without entries has none, whether the slice is
//     nil or empty, and whatever else the target carries (credentials, dialer).
//     Whether an entry that is the empty string or blank IS an address is not
//     said anywhere: undecided ("blank-address").
//  4. every target names a request        - target.go "target %q missing request";
//     target.proto "The request to be sent to the target". An unset name is
//     missing whatever the request map contains.
//  5. the named request is defined        - target.go "missing request %q for target %q";
//     target.proto "The string supplied is looked up in the request map of the
//     Configuration message". A map lookup: the exact string, so a name that
//     exists only in another case or with surrounding spaces is not defined.
//
// Nothing restricts the keys of the request map (any string, the empty one
// included: such an entry can merely not be named by a target), the
// credentials (optional, any subset of their fields), meta, dialer ("If unset
// the collector's default implementation will be used"), instance id; duplicate
// addresses are addresses. Target names that differ in case or spaces are
// different unique names.
//
// Open: the CONTENT of a request. target.proto says "The request must have at
// minimum a SubscriptionList with a prefix containing origin and one or more
// Subscriptions. Only the STREAM mode is supported", but no error of the package
// speaks about request content. In a scenario of this part a configuration with
// a request below that minimum (nil, empty, other oneof arm, no / empty
// subscription list, no prefix, prefix without origin, ONCE) is therefore
// "undecided" unless one of the clauses 1-5 already makes it invalid.
//
// For an undecided configuration the validity half of the gate is not judged:
// the verdict of the code is followed, everything else is demanded (a stale
// revision is refused all the same, a refused load runs no handler and changes
// nothing, an applied one is announced exactly, and all entry points that
// validate give one and the same answer).

import (
	"fmt"
	"sort"
	"strings"

	pb "github.com/openconfig/gnmi/proto/target"
	"github.com/openconfig/gnmi/target"
)

// edgeAddrs are the address lists TargetSpec.AddrX selects (AddrX = index + 1).
var edgeAddrs = [][]string{
	{},                                 // the list is there and has no entry: no address
	{""},                               // undecided
	{"", "10.0.0.1:6030"},              // undecided
	{"10.0.0.1:6030", ""},              // undecided
	{"10.0.0.1:6030", "10.0.0.1:6030"}, // duplicate: valid
	{" "},                              // undecided
	{"192.168.0.3:9339", "10.0.0.1:6030", "192.168.0.3:9339"}, // duplicate, apart: valid
}

const (
	addrXEmptyList = 1
	addrXDup       = 5
	addrXDupApart  = 7
)

// subMinimumBodies are the request contents below what target.proto asks for.
var subMinimumBodies = []int{bodyNil, bodyEmpty, 2, 0, 1, bodyPoll, bodyNoSubs}

func fullBody(b int) bool {
	b = normBody(b)
	return b == bodyFullA || b == bodyFullB
}

// variants returns the strings that differ from s only in case or in
// surrounding white space (distinct, never s itself, never empty).
func variants(s string) []string {
	var out []string
	seen := map[string]bool{s: true, "": true}
	for _, v := range []string{" " + s, s + " ", strings.ToUpper(s), strings.ToLower(s), s + "\t", capitalised(s)} {
		if !seen[v] {
			seen[v] = true
			out = append(out, v)
		}
	}
	return out
}

func capitalised(s string) string {
	if s == "" {
		return s
	}
	return strings.ToUpper(s[:1]) + strings.ToLower(s[1:])
}

// canon maps all variants of a name to one string.
func canon(s string) string { return strings.ToLower(strings.TrimSpace(s)) }

// edgeName returns the v-th of: the empty name, the blank name, the variants of base.
func edgeName(base string, v int) string {
	opts := append([]string{"", " "}, variants(base)...)
	return opts[mod(v, len(opts))]
}

// liveOrNew returns the Pick-th existing target with a message of its own, or
// adds a valid one.
func liveOrNew(c *ConfigSpec, e Edit) (string, bool) {
	if n, ok := pickLive(c, e.Pick); ok {
		return n, true
	}
	f, ok := freeTarget(c, e)
	if !ok {
		return "", false
	}
	newTarget(c, f, e)
	return f, true
}

// pickRequest returns the Pick-th request, among those some target names if
// usedOnly and there are any.
func pickRequest(c *ConfigSpec, pick int, usedOnly bool) (string, bool) {
	rs := sortedRequests(c)
	if usedOnly {
		used := map[string]bool{}
		for _, t := range c.Targets {
			if !t.Nil && !t.Empty {
				used[t.Req] = true
			}
		}
		var u []string
		for _, n := range rs {
			if used[n] {
				u = append(u, n)
			}
		}
		if len(u) > 0 {
			rs = u
		}
	}
	if len(rs) == 0 {
		return "", false
	}
	return rs[mod(pick, len(rs))], true
}

// applyEdgeEdit performs the kinds of part "edges". Every kind puts ONE field
// on the edge of one clause of the validity predicate; Pair adds the
// neighbouring entry that a careless reading of the clause would be satisfied
// by (or, where the edge value is valid, the entry that makes it so).
func applyEdgeEdit(c *ConfigSpec, e *Edit) bool {
	switch e.Kind {
	case "e-req-key":
		// A request under the empty key, the blank key, or a key that differs
		// from an existing one only in case / spaces. Valid by itself.
		base := reqNames[mod(e.Pick, len(reqNames))]
		if n, ok := pickRequest(c, e.Pick, false); ok {
			base = n
		}
		key, b := edgeName(base, e.Var), normBody(e.Body)
		if ob, ok := c.Requests[key]; ok && normBody(ob) == b {
			return false
		}
		c.Requests[key] = b
		return true
	case "e-tgt-noreq":
		// A target whose request name is unset; Pair: the request map has an
		// entry under the empty key.
		n, ok := liveOrNew(c, *e)
		if !ok {
			return false
		}
		t := c.Targets[n]
		t.Req = ""
		c.Targets[n] = t
		if _, has := c.Requests[""]; e.Pair && !has {
			c.Requests[""] = normBody(e.Body)
		}
		return true
	case "e-tgt-reqvar":
		// A target names its request in another case / with spaces, next to the
		// request under the exact name; Pair: the other spelling is defined too.
		n, ok := liveOrNew(c, *e)
		if !ok {
			return false
		}
		t := c.Targets[n]
		vs := variants(t.Req)
		t.Req = vs[mod(e.Var, len(vs))]
		c.Targets[n] = t
		if _, has := c.Requests[t.Req]; e.Pair && !has {
			c.Requests[t.Req] = normBody(e.Body)
		}
		return true
	case "e-reqkey-var":
		// The key of a request changes its case / gains a space while the
		// targets keep the name; Pair: the targets follow.
		old, ok := pickRequest(c, e.Pick, mod(e.Req, 2) == 0)
		if !ok {
			return false
		}
		vs := variants(old)
		nu := vs[mod(e.Var, len(vs))]
		if _, has := c.Requests[nu]; has {
			return false
		}
		c.Requests[nu] = c.Requests[old]
		delete(c.Requests, old)
		if e.Pair {
			for n, t := range c.Targets {
				if !t.Nil && !t.Empty && t.Req == old {
					t.Req = nu
					c.Targets[n] = t
				}
			}
		}
		return true
	case "e-tgt-name":
		// A target under the empty name, the blank name or a name differing
		// from an existing one in case / spaces; its value is valid, nil or an
		// empty message. Pair: the target of the original name loses its message.
		base := tgtNames[mod(e.Pick, len(tgtNames))]
		if ts := sortedTargets(c); len(ts) > 0 {
			base = ts[mod(e.Pick, len(ts))]
		}
		name := edgeName(base, e.Var)
		if _, has := c.Targets[name]; has {
			return false
		}
		switch mod(e.Addr, 4) {
		case 2:
			c.Targets[name] = TargetSpec{Nil: true}
		case 3:
			c.Targets[name] = TargetSpec{Empty: true}
		default:
			newTarget(c, name, *e)
		}
		if _, has := c.Targets[base]; e.Pair && has && name != "" && name != " " {
			c.Targets[base] = TargetSpec{Nil: true}
		}
		return true
	case "e-tgt-value":
		n, ok := liveOrNew(c, *e)
		if !ok {
			return false
		}
		t := c.Targets[n]
		switch mod(e.Var, 4) {
		case 0:
			t = TargetSpec{Nil: true}
		case 1:
			t = TargetSpec{Empty: true}
		case 2: // everything but an address
			t.Addr, t.AddrX, t.Cred, t.Meta, t.Dialer = 0, 0, 1, 1, 1
		case 3: // ... and the address list present without entry
			t.Addr, t.AddrX, t.Cred, t.Dialer = 0, addrXEmptyList, 1, 1
		}
		c.Targets[n] = t
		return true
	case "e-addr":
		n, ok := liveOrNew(c, *e)
		if !ok {
			return false
		}
		t := c.Targets[n]
		x := 1 + mod(e.Var, len(edgeAddrs))
		if t.AddrX == x {
			return false
		}
		t.AddrX = x
		c.Targets[n] = t
		return true
	case "e-cred":
		n, ok := liveOrNew(c, *e)
		if !ok {
			return false
		}
		t := c.Targets[n]
		x := credEmpty + mod(e.Var, credIDOnly-credEmpty+1)
		if normCred(t.Cred) == x {
			return false
		}
		t.Cred = x
		c.Targets[n] = t
		return true
	case "e-body":
		// The content of a request falls below the documented minimum.
		n, ok := pickRequest(c, e.Pick, mod(e.Req, 2) == 0)
		if !ok {
			return false
		}
		v := subMinimumBodies[mod(e.Var, len(subMinimumBodies))]
		if normBody(c.Requests[n]) == v {
			return false
		}
		c.Requests[n] = v
		return true
	case "e-body-full":
		// A request gets (other) complete content.
		n, ok := pickRequest(c, e.Pick, mod(e.Req, 2) == 0)
		if !ok {
			return false
		}
		if normBody(c.Requests[n]) == bodyFullA {
			c.Requests[n] = bodyFullB
		} else {
			c.Requests[n] = bodyFullA
		}
		return true
	}
	return false
}

// undecided returns the sorted clauses on which the documentation does not
// decide whether c is valid. It matters only if c.invalidReasons() is empty.
// strict (part "edges") includes the content of the requests; the other parts
// take request content as not being part of validity (their pools hold no
// request that meets the documented minimum).
func (c *ConfigSpec) undecided(strict bool) []string {
	set := map[string]bool{}
	for _, t := range c.Targets {
		if t.Nil || t.Empty {
			continue
		}
		for _, a := range t.addrs() {
			if strings.TrimSpace(a) == "" {
				set["blank-address"] = true
			}
		}
	}
	if strict {
		for _, b := range c.Requests {
			if !fullBody(b) {
				set["request-below-documented-minimum"] = true
			}
		}
	}
	var out []string
	for k := range set {
		out = append(out, k)
	}
	sort.Strings(out)
	return out
}

func (c *ConfigSpec) hasNilBody() bool {
	for _, b := range c.Requests {
		if normBody(b) == bodyNil {
			return true
		}
	}
	return false
}

// edgeShapes names the edge values present in c (plain data only).
// invalidating: values that make c invalid on their own account; harmless:
// values that are valid on their own account (or undecided).
func edgeShapes(c *ConfigSpec) (invalidating, harmless []string) {
	inv, ok := map[string]bool{}, map[string]bool{}
	byCanonReq := map[string]int{}
	for k, b := range c.Requests {
		byCanonReq[canon(k)]++
		switch {
		case k == "":
			ok["empty-request-key"] = true
		case strings.TrimSpace(k) == "":
			ok["blank-request-key"] = true
		}
		switch normBody(b) {
		case bodyNil:
			ok["request-nil-message"] = true
		case bodyEmpty:
			ok["request-empty-message"] = true
		case 2:
			ok["request-empty-subscription-list"] = true
		case 0:
			ok["request-prefix-without-origin"] = true
		case 1:
			ok["request-once-mode-no-prefix"] = true
		case bodyPoll:
			ok["request-poll-arm"] = true
		case bodyNoSubs:
			ok["request-no-subscriptions"] = true
		}
	}
	for _, n := range byCanonReq {
		if n > 1 {
			ok["request-keys-differing-in-case-or-space"] = true
		}
	}
	byCanonTgt := map[string]int{}
	liveCanon := map[string]int{}
	for n, t := range c.Targets {
		byCanonTgt[canon(n)]++
		if !t.Nil && !t.Empty {
			liveCanon[canon(n)]++
		}
	}
	for n, t := range c.Targets {
		val := "valid-value"
		switch {
		case t.Nil:
			val = "nil-value"
		case t.Empty:
			val = "empty-message"
		case len(t.addrs()) == 0 || t.Req == "":
			val = "incomplete-value"
		}
		switch {
		case n == "":
			inv["empty-target-name-with-"+val] = true
		case strings.TrimSpace(n) == "":
			ok["blank-target-name"] = true
		case byCanonTgt[canon(n)] > 1:
			ok["target-names-differing-in-case-or-space"] = true
		}
		if t.Nil || t.Empty {
			if t.Nil {
				inv["nil-target"] = true
			} else {
				inv["empty-target-message"] = true
			}
			if n != "" && liveCanon[canon(n)] > 0 {
				inv["target-without-message-next-to-its-name-in-other-case-or-space"] = true
			}
			continue
		}
		switch a := t.addrs(); {
		case a != nil && len(a) == 0:
			inv["address-list-present-without-entry"] = true
		case len(a) == 0:
			inv["no-address"] = true
		}
		if len(t.addrs()) == 0 && (t.Cred != 0 || t.Dialer != 0) {
			inv["no-address-but-credentials-or-dialer"] = true
		}
		seen := map[string]bool{}
		for _, a := range t.addrs() {
			if strings.TrimSpace(a) == "" {
				ok["blank-address"] = true
			}
			if seen[a] {
				ok["duplicate-address"] = true
			}
			seen[a] = true
		}
		switch normCred(t.Cred) {
		case credEmpty:
			ok["credentials-empty-message"] = true
		case credUserOnly:
			ok["credentials-username-only"] = true
		case credPassOnly:
			ok["credentials-password-only"] = true
		case credIDOnly:
			ok["credentials-password-id-only"] = true
		}
		_, defined := c.Requests[t.Req]
		switch {
		case t.Req == "":
			if _, has := c.Requests[""]; has {
				inv["target-without-request-next-to-empty-request-key"] = true
			} else {
				inv["target-without-request"] = true
			}
		case !defined:
			if byCanonReq[canon(t.Req)] > 0 {
				inv["undefined-request-next-to-its-name-in-other-case-or-space"] = true
			} else {
				inv["undefined-request"] = true
			}
		case strings.TrimSpace(t.Req) == "":
			ok["target-uses-blank-request-key"] = true
		case byCanonReq[canon(t.Req)] > 1:
			ok["target-uses-one-of-request-keys-differing-in-case-or-space"] = true
		case t.Req != strings.TrimSpace(t.Req):
			ok["target-uses-request-key-with-surrounding-space"] = true
		}
	}
	for k := range inv {
		invalidating = append(invalidating, k)
	}
	for k := range ok {
		harmless = append(harmless, k)
	}
	sort.Strings(invalidating)
	sort.Strings(harmless)
	return invalidating, harmless
}

// noteEdges records what an offered configuration of part "edges" contained
// and what became of it.
func (st *stats) noteEdges(c *ConfigSpec, reasons, und []string, revOK, accepted bool) {
	inv, ok := edgeShapes(c)
	for _, k := range inv {
		st.edge["edge-invalid:"+k] = true
	}
	for _, k := range ok {
		st.edge["edge-harmless:"+k] = true
	}
	switch {
	case len(reasons) > 0:
		st.edge["offered-invalid"] = true
		if revOK {
			st.edge["offered-invalid-with-acceptable-revision"] = true
		}
		if len(reasons) > 1 || len(inv) > 1 {
			st.edge["offered-two-or-more-invalid-edge-values"] = true
			st.edgeCombined = true
		}
		if len(ok) > 0 {
			st.edge["offered-invalid-edge-value-next-to-harmless-edge-value"] = true
			st.edgeCombined = true
		}
	case len(und) > 0:
		for _, k := range und {
			st.edge["validity-not-judged:"+k] = true
		}
		if revOK {
			if accepted {
				st.edge["validity-not-judged-and-applied"] = true
			} else {
				st.edge["validity-not-judged-and-refused"] = true
			}
		}
	default:
		st.edge["offered-valid"] = true
		if len(ok) > 0 {
			st.edge["offered-valid-with-harmless-edge-value"] = true
			if accepted {
				st.edge["applied-with-harmless-edge-value"] = true
				st.edgeValidApplied = true
			}
		}
	}
}

// entryPoints offers spec to every entry point that validates: Validate,
// NewConfigWithBase and the first Load of a fresh Config (no current
// configuration, so the revision plays no part). They must give one verdict;
// a refusal has no effect, an acceptance makes spec the current configuration
// and, for Load, announces every target once with Add. It returns the verdict.
//
// reg is the consumer of the scenario (consumer.go): the same subset of
// callbacks is registered with the Configs made here, and what the first Load
// announces is judged by the projection oracle (all targets as Add if Add is
// registered, nothing otherwise).
func entryPoints(spec *ConfigSpec, repr int, desc string, reg consumer) (accepted bool, err error) {
	var calls []call
	h := reg.handler(func(c call) { calls = append(calls, c) })
	want := spec.build()

	verr := target.Validate(spec.buildRepr(repr))
	accepted = verr == nil

	c, cerr := target.NewConfigWithBase(h, spec.buildRepr(repr))
	if (cerr == nil) != accepted {
		return accepted, vio("entry-points-disagree", "%s: Validate returned %v but NewConfigWithBase with the same configuration returned %v", desc, verr, cerr)
	}
	if len(calls) != 0 {
		return accepted, vio("constructor", "%s: NewConfigWithBase ran handlers %s", desc, callList(calls))
	}
	if cerr == nil {
		if c == nil {
			return accepted, vio("constructor", "%s: NewConfigWithBase returned no Config and no error", desc)
		}
		if got := c.Current(); !sameConfig(got, want) {
			return accepted, vio("constructor", "%s: Current() of a Config constructed on this base is {%v}", desc, got)
		}
	}

	f := target.NewConfig(h)
	lerr := f.Load(spec.buildRepr(repr))
	sortCalls(calls)
	if (lerr == nil) != accepted {
		return accepted, vio("entry-points-disagree", "%s: Validate returned %v but the first Load of a fresh Config returned %v (handlers run: %s)", desc, verr, lerr, callList(calls))
	}
	var cur *pb.Configuration = f.Current()
	if lerr != nil {
		if len(calls) != 0 {
			return accepted, vio("rejected-load-ran-handlers", "%s: first Load of a fresh Config returned %v and ran handlers %s", desc, lerr, callList(calls))
		}
		if cur != nil {
			return accepted, vio("rejected-load-changed-current", "%s: first Load of a fresh Config returned %v and Current() is now {%v}", desc, lerr, cur)
		}
		return accepted, nil
	}
	if !sameConfig(cur, want) {
		return accepted, vio("current-is-not-loaded-config", "%s: first Load of a fresh Config accepted, but Current() = {%v}", desc, cur)
	}
	set := map[string]entry{}
	for _, cl := range calls {
		if _, dup := set[cl.name]; dup || cl.kind != "add" {
			return accepted, vio("handler-kind", "%s: first Load of a fresh Config must announce every target once with Add; calls %s", desc, callList(calls))
		}
		set[cl.name] = entry{cl.tgt, cl.req}
	}
	if !reg.add {
		// (a call of a callback that is not registered cannot be recorded; the
		// loop above has refused everything that is not an Add)
		return accepted, nil
	}
	if d := diffViews(set, view(cur), spec.nilRequestTargets()); d != "" {
		return accepted, vio("replay-mismatch", "%s: first Load of a fresh Config: replaying %s does not yield Current(): %s", desc, callList(calls), d)
	}
	return accepted, nil
}

func sortCalls(cs []call) {
	sort.Slice(cs, func(a, b int) bool {
		if cs[a].name != cs[b].name {
			return cs[a].name < cs[b].name
		}
		return cs[a].kind < cs[b].kind
	})
}

func describe(reasons, und []string) string {
	switch {
	case len(reasons) > 0:
		return fmt.Sprintf("invalid %v", reasons)
	case len(und) > 0:
		return fmt.Sprintf("validity not decided by the documentation %v", und)
	}
	return "valid"
}
