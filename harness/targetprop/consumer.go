package targetprop

// The shape of the consumer as a dimension of every scenario.
//
// target.Handler is a struct of three callbacks, each of which may be left
// nil; target.go checks every one of them for nil before calling it, so a
// consumer registers any subset of {Add, Update, Delete}, the empty one
// included. A Config receives its Handler once, by value, from its constructor
// (NewConfig, NewConfigWithBase with no base / a base without targets / a base
// with targets); the package offers no way to replace, add or remove a callback
// later and keeps no reference to the caller's Handler variable, so the subset
// registered at construction and the constructor used are the whole
// consumer-side shape.
//
// Oracle for a subset (the projection oracle). The difference between the
// current configuration and an accepted one is fully determined by the
// property: Delete for a name that is gone, Add for a name that is new, Update
// for a name whose settings or referenced request changed, nothing for a name
// whose settings and request are unchanged. The calls a load makes must be
// exactly that difference restricted to the registered kinds: every entry of
// the difference whose kind is registered is announced once, with the settings
// and the request of the loaded configuration; nothing else is announced.
// A kind that is not registered is simply absent. No order is demanded within
// one load (the sequential parts never demanded one). The replay oracle
// ("replaying the calls yields Current()") needs all three kinds and is applied
// only then.

import (
	"fmt"
	"sort"
	"strings"

	gpb "github.com/openconfig/gnmi/proto/gnmi"
	pb "github.com/openconfig/gnmi/proto/target"
	"github.com/openconfig/gnmi/target"
)

// consumer says which callbacks are registered.
type consumer struct{ add, update, del bool }

// parseUnset reads Scenario.Unset: the callbacks LEFT NIL, as letters out of
// "aud" (a = Add, u = Update, d = Delete). The empty string is the consumer
// that registers all three, so scenarios saved before this dimension existed
// mean what they meant.
func parseUnset(s string) (consumer, error) {
	c := consumer{true, true, true}
	for _, r := range s {
		switch r {
		case 'a':
			c.add = false
		case 'u':
			c.update = false
		case 'd':
			c.del = false
		default:
			return c, fmt.Errorf("bad scenario: unset %q (letters out of \"aud\")", s)
		}
	}
	return c, nil
}

// unsetOf is the inverse of parseUnset (canonical letter order).
func unsetOf(c consumer) string {
	var b strings.Builder
	if !c.add {
		b.WriteByte('a')
	}
	if !c.update {
		b.WriteByte('u')
	}
	if !c.del {
		b.WriteByte('d')
	}
	return b.String()
}

func (c consumer) all() bool { return c.add && c.update && c.del }

func (c consumer) has(kind string) bool {
	switch kind {
	case "add":
		return c.add
	case "update":
		return c.update
	case "delete":
		return c.del
	}
	return false
}

func (c consumer) String() string {
	var s []string
	for _, k := range []string{"add", "update", "delete"} {
		if c.has(k) {
			s = append(s, k)
		}
	}
	if len(s) == 0 {
		return "none"
	}
	return strings.Join(s, "+")
}

// label names the subset for the evidence.
func (c consumer) label() string {
	switch {
	case c.all():
		return "consumer-all-three"
	case !c.add && !c.update && !c.del:
		return "consumer-none"
	}
	s := c.String()
	if !strings.Contains(s, "+") {
		s += "-only"
	}
	return "consumer-" + strings.ReplaceAll(s, "+", "-")
}

// handler builds the Handler of the consumer: recording callbacks for the
// registered kinds, nil for the others.
func (c consumer) handler(rec func(call)) target.Handler {
	var h target.Handler
	if c.add {
		h.Add = func(u target.Update) { rec(call{"add", u.Name, cloneT(u.Target), cloneR(u.Request)}) }
	}
	if c.update {
		h.Update = func(u target.Update) { rec(call{"update", u.Name, cloneT(u.Target), cloneR(u.Request)}) }
	}
	if c.del {
		h.Delete = func(name string) { rec(call{"delete", name, nil, nil}) }
	}
	return h
}

// wantCall is one entry of the full difference between two configurations.
type wantCall struct {
	kind string
	tgt  *pb.Target
	req  *gpb.SubscribeRequest
}

// expectedDiff is the full difference old -> nu by target name, decided on the
// reference messages (never handed to the code under test): old may be nil
// (nothing accepted yet).
func expectedDiff(old, nu *pb.Configuration) map[string]wantCall {
	out := map[string]wantCall{}
	for n, ot := range old.GetTarget() {
		nt, ok := nu.GetTarget()[n]
		if !ok {
			out[n] = wantCall{kind: "delete"}
			continue
		}
		or, nr := old.GetRequest()[ot.GetRequest()], nu.GetRequest()[nt.GetRequest()]
		if sameTarget(ot, nt) && sameRequest(or, nr) {
			continue
		}
		out[n] = wantCall{"update", nt, nr}
	}
	for n, nt := range nu.GetTarget() {
		if _, ok := old.GetTarget()[n]; !ok {
			out[n] = wantCall{"add", nt, nu.GetRequest()[nt.GetRequest()]}
		}
	}
	return out
}

func diffList(w map[string]wantCall, reg consumer, registered bool) string {
	var s []string
	for n, k := range w {
		if reg.has(k.kind) == registered {
			s = append(s, fmt.Sprintf("%s(%q)", k.kind, n))
		}
	}
	sort.Strings(s)
	return "[" + strings.Join(s, " ") + "]"
}

// projection is what checkProjection saw (evidence only).
type projection struct {
	dropped   map[string]bool // kinds of the difference that the consumer did not register
	announced int             // entries of the difference that were announced
	silent    int             // targets in both configurations, unchanged, no call
}

// checkProjection: got (any order) must be want restricted to the kinds reg
// registers. old / nu are only used to word the message.
func checkProjection(got []call, want map[string]wantCall, reg consumer, old, nu *pb.Configuration) (p projection, err error) {
	p.dropped = map[string]bool{}
	seen := map[string]bool{}
	for _, c := range got {
		w, ok := want[c.name]
		_, inOld := old.GetTarget()[c.name]
		_, inNew := nu.GetTarget()[c.name]
		switch {
		case !reg.has(c.kind):
			return p, vio("handler-kind", "%s reached a consumer that registered only {%s}", c, reg)
		case seen[c.name]:
			return p, vio("two-calls-for-one-name", "target %q received more than one handler call in one load: %s", c.name, callList(got))
		case !ok && inOld && inNew:
			return p, vio("call-for-unchanged-target", "target %q has unchanged settings and an unchanged request but received %s (consumer registered {%s}; calls %s; the difference of the two configurations is %s for this consumer, and %s for kinds it did not register)",
				c.name, c, reg, callList(got), diffList(want, reg, true), diffList(want, reg, false))
		case !ok:
			return p, vio("handler-kind", "%s for a target that is neither in the current nor in the loaded configuration; calls %s", c, callList(got))
		case w.kind != c.kind:
			return p, vio("handler-kind", "%s where the difference of the two configurations is %s(%q) (consumer registered {%s}); calls %s", c, w.kind, c.name, reg, callList(got))
		}
		seen[c.name] = true
		if c.kind == "delete" {
			continue
		}
		if !sameTarget(c.tgt, w.tgt) {
			return p, vio("call-content", "%s carried settings {%v}, the loaded configuration has {%v}", c, c.tgt, w.tgt)
		}
		// A request listed with a nil message: "no message" and "empty message"
		// both stand for it (as in diffViews).
		if w.req == nil {
			if !noContent(c.req) {
				return p, vio("call-content", "%s carried request {%v}, the loaded configuration lists that request without a message", c, c.req)
			}
		} else if !sameRequest(c.req, w.req) {
			return p, vio("call-content", "%s carried request {%v}, the loaded configuration has {%v}", c, c.req, w.req)
		}
	}
	var names []string
	for n := range want {
		names = append(names, n)
	}
	sort.Strings(names)
	for _, n := range names {
		w := want[n]
		switch {
		case !reg.has(w.kind):
			p.dropped[w.kind] = true
		case !seen[n]:
			return p, vio("missing-call", "no handler call for target %q: the difference of the two configurations is %s(%q) and the consumer registered {%s}; calls %s", n, w.kind, n, reg, callList(got))
		default:
			p.announced++
		}
	}
	for n := range nu.GetTarget() {
		if _, inOld := old.GetTarget()[n]; inOld {
			if _, changed := want[n]; !changed {
				p.silent++
			}
		}
	}
	return p, nil
}

// consumerStats is the evidence of the consumer dimension (shared by the
// runners of the sequential parts).
type consumerStats struct {
	reg                               consumer
	ctor                              string // NewConfig | NewConfigWithBase-nil | base-without-targets | base-with-targets
	acceptedLoads                     int
	dropped                           map[string]bool
	announced, silent, silentAndCalls bool
	nothingToAnnounce                 bool // an accepted load whose whole difference consisted of unregistered kinds
}

func (cs *consumerStats) note(p projection, want map[string]wantCall) { cs.noteRich(p, len(want)) }

// noteRich is note for a runner that has the size of the full difference only.
func (cs *consumerStats) noteRich(p projection, nwant int) {
	cs.acceptedLoads++
	if cs.dropped == nil {
		cs.dropped = map[string]bool{}
	}
	for k := range p.dropped {
		cs.dropped[k] = true
	}
	if p.announced > 0 {
		cs.announced = true
	}
	if p.silent > 0 {
		cs.silent = true
		if p.announced > 0 {
			cs.silentAndCalls = true
		}
	}
	if nwant > 0 && p.announced == 0 {
		cs.nothingToAnnounce = true
	}
}

func (cs *consumerStats) labels() []string {
	l := []string{cs.reg.label()}
	if cs.reg.all() {
		return l
	}
	l = append(l, "partial-consumer", "partial-consumer-via-"+cs.ctor)
	add := func(b bool, n string) {
		if b {
			l = append(l, n)
		}
	}
	add(cs.acceptedLoads > 0, "partial-consumer-accepted-load")
	add(cs.acceptedLoads >= 2, "partial-consumer-two-or-more-accepted-loads")
	add(cs.announced, "partial-consumer-registered-kind-announced")
	add(cs.silent, "partial-consumer-unchanged-target-no-call")
	add(cs.silentAndCalls, "partial-consumer-unchanged-target-silent-while-others-announced")
	add(cs.nothingToAnnounce, "partial-consumer-difference-of-unregistered-kinds-only")
	var ks []string
	for k := range cs.dropped {
		ks = append(ks, k)
	}
	sort.Strings(ks)
	for _, k := range ks {
		l = append(l, "unregistered-"+k+"-in-difference")
	}
	return l
}
