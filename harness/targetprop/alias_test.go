package targetprop

import (
	"encoding/json"
	"strings"
	"testing"

	"pgregory.net/rapid"
	"verif/harness/internal/vstat"
)

var invKinds = []string{"inv-empty-name", "inv-nil-target", "inv-no-address", "inv-missing-request", "inv-dangling-request"}

func genBase(t *rapid.T) (mode string, base *ConfigSpec) {
	switch choose(t, "base", 5, 6, 1) {
	case 2:
		return "nil", nil
	case 1:
		base = genSpec(t, false)
		base.Rev = rapid.SampledFrom([]int64{0, 0, 1, 5, -2}).Draw(t, "baserev")
		return "config", base
	}
	return "", nil
}

func genScribble(t *rapid.T, label string) Scribble {
	var s Scribble
	s.Kind = []string{"", "morph", "deep", "rev", "clear"}[choose(t, label, 4, 4, 3, 1, 1)]
	switch s.Kind {
	case "morph":
		s.Edits = rapid.SliceOfN(rapid.Custom(func(t *rapid.T) Edit { return genEdit(t, false) }), 1, 3).Draw(t, label+"-edits")
		s.Rev = rapid.SampledFrom([]int64{1, 0, 98, -1}).Draw(t, label+"-rev")
	case "rev":
		s.Rev = rapid.SampledFrom([]int64{0, 98}).Draw(t, label+"-rev")
	}
	return s
}

func genAStep(t *rapid.T) AStep {
	st := AStep{Load: genLoad(t, false)}
	st.RMW = choose(t, "rmw", 1, 2) == 1
	if !st.NilConfig {
		// Steer the fate of the load: as drawn / stale revision / invalid.
		switch choose(t, "fate", 5, 2, 2) {
		case 1:
			st.RevAbs, st.Rev = false, rapid.SampledFrom([]int64{0, 0, -1, -3}).Draw(t, "stale")
			if len(st.Edits) == 0 {
				st.Edits = []Edit{genEdit(t, false)}
			}
		case 2:
			e := genEdit(t, false)
			e.Kind = rapid.SampledFrom(invKinds).Draw(t, "inv")
			st.Edits = append(st.Edits, e)
		}
	}
	st.Before = genScribble(t, "before")
	st.After = genScribble(t, "after")
	st.Handed = genScribble(t, "handed")
	return st
}

func genAliasScenario(t *rapid.T) *AliasScenario {
	sc := &AliasScenario{}
	sc.BaseMode, sc.Base = genBase(t)
	sc.Steps = rapid.SliceOfN(rapid.Custom(genAStep), 1, 10).Draw(t, "steps")
	return sc
}

// TestC17Alias: the caller edits every message it owns (see alias.go).
func TestC17Alias(t *testing.T) {
	if !vstat.Enabled("C17") {
		t.Skip()
	}
	rec := vstat.New("C17", "alias")
	rec.RunRapid(t, func(rt *rapid.T) {
		sc := genAliasScenario(rt)
		st, err := runAlias(sc)
		rec.Case(sc, st.nontrivial(), st.labels()...)
		if err != nil {
			rt.Fatalf("%s", rec.Fail(sc, failClass(err), "%v", err))
		}
	})
}

// genParLoad: a load of the group in flight; revisions spread so that two of
// them are usually acceptable one after the other.
func genParLoad(t *rapid.T, first bool) Load {
	var ld Load
	// 0: edits of the current configuration, 1: a complete other configuration
	if choose(t, "shape", 1, 1) == 1 {
		ld.Full = genSpec(t, false)
	}
	lo := 1
	if ld.Full != nil {
		lo = 0
	}
	ld.Edits = rapid.SliceOfN(rapid.Custom(func(t *rapid.T) Edit {
		e := genEdit(t, false)
		// mostly valid: what is looked for needs accepted loads with calls
		if strings.HasPrefix(e.Kind, "inv-") && choose(t, "keep-invalid", 3, 1) == 0 {
			e.Kind = rapid.SampledFrom([]string{"tgt-add", "tgt-remove", "tgt-addr", "req-edit"}).Draw(t, "instead")
		}
		return e
	}), lo, 4).Draw(t, "edits")
	if len(ld.Edits) == 0 {
		ld.Edits = nil
	}
	if first {
		ld.Rev = rapid.SampledFrom([]int64{1, 1, 1, 2, 3, 5, 0}).Draw(t, "rev")
	} else {
		ld.Rev = rapid.SampledFrom([]int64{2, 3, 1, 4, 7, 0, -1}).Draw(t, "rev")
	}
	return ld
}

func genOverlapScenario(t *rapid.T) *OverlapScenario {
	sc := &OverlapScenario{}
	sc.BaseMode, sc.Base = genBase(t)
	sc.Pre = rapid.SliceOfN(rapid.Custom(func(t *rapid.T) Load { return genLoad(t, false) }), 0, 2).Draw(t, "pre")
	if len(sc.Pre) == 0 {
		sc.Pre = nil
	}
	n := 2 + choose(t, "npar", 3, 1)
	for i := 0; i < n; i++ {
		sc.Par = append(sc.Par, genParLoad(t, i == 0))
	}
	sc.ParkAt = []int{1, 2, 3, 0}[choose(t, "park", 6, 2, 1, 1)]
	sc.Yields = rapid.SampledFrom([]int{200, 400, 50, 0}).Draw(t, "yields")
	if rapid.Bool().Draw(t, "post") {
		ld := genLoad(t, false)
		sc.Post = &ld
	}
	return sc
}

// TestC17Overlap: loads in flight together, the first one parked inside a
// handler call (see alias.go).
func TestC17Overlap(t *testing.T) {
	if !vstat.Enabled("C17") {
		t.Skip()
	}
	rec := vstat.New("C17", "overlap")
	rec.RunRapid(t, func(rt *rapid.T) {
		sc := genOverlapScenario(rt)
		st, err := runOverlap(sc)
		rec.Case(sc, st.nontrivial(), st.labels()...)
		if err != nil {
			rt.Fatalf("%s", rec.Fail(sc, failClass(err), "%v", err))
		}
	})
}

func replayAlias(raw json.RawMessage) string {
	var sc AliasScenario
	if err := json.Unmarshal(raw, &sc); err != nil {
		return "bad scenario: " + err.Error()
	}
	if _, err := runAlias(&sc); err != nil {
		return err.Error()
	}
	return ""
}

// replayOverlap: which interleaving a run meets is up to the scheduler; every
// run is judged by the same schedule-independent oracle, so the scenario is
// run several times and any failing run counts.
func replayOverlap(raw json.RawMessage) string {
	var sc OverlapScenario
	if err := json.Unmarshal(raw, &sc); err != nil {
		return "bad scenario: " + err.Error()
	}
	for i := 0; i < 20; i++ {
		if _, err := runOverlap(&sc); err != nil {
			return err.Error()
		}
	}
	return ""
}
