package targetprop

import (
	"encoding/json"
	"flag"
	"fmt"
	"math"
	"os"
	"testing"

	"pgregory.net/rapid"
	"verif/harness/internal/vstat"
)

func TestMain(m *testing.M) {
	flag.Parse()
	os.Exit(m.Run())
}

// Generators -------------------------------------------------------------------

// choose draws an index with the given weights. rapid's integer generators
// favour small values, so callers list the common alternatives first.
func choose(t *rapid.T, label string, weights ...int) int {
	total := 0
	for _, w := range weights {
		total += w
	}
	v := rapid.IntRange(0, total-1).Draw(t, label)
	for i, w := range weights {
		if v < w {
			return i
		}
		v -= w
	}
	return len(weights) - 1
}

// The generators take deg: false is the "random" part (draws exactly what it
// always drew), true the "degenerate" part, which adds the degenerate but
// valid values (nil and empty request messages, empty credentials, other
// representations of empty maps) with a high weight.

// genBody draws a body index.
func genBody(t *rapid.T, deg bool) int {
	if !deg {
		return rapid.IntRange(0, nBodies-1).Draw(t, "body")
	}
	return []int{bodyNil, 0, 1, 2, bodyEmpty}[choose(t, "body", 6, 2, 2, 1, 2)]
}

func genCred(t *rapid.T, deg bool) int {
	if !deg {
		return rapid.SampledFrom([]int{0, 0, 0, 1, 2}).Draw(t, "cred")
	}
	return rapid.SampledFrom([]int{0, 0, 0, 1, 2, credEmpty, credEmpty}).Draw(t, "cred")
}

// genSpec draws a complete valid configuration from the pools (revision left 0).
func genSpec(t *rapid.T, deg bool) *ConfigSpec {
	c := emptySpec()
	c.Instance = rapid.SampledFrom([]int{0, 0, 1, 2}).Draw(t, "instance")
	c.CfgMeta = rapid.SampledFrom([]int{0, 0, 0, 1, 2}).Draw(t, "cfgmeta")
	// 0: requests and targets, 1: requests only, 2: empty configuration
	shape := choose(t, "specshape", 16, 2, 1)
	if shape == 2 {
		return c
	}
	reqs := rapid.SliceOfNDistinct(rapid.SampledFrom(reqNames), 1, len(reqNames), rapid.ID[string]).Draw(t, "reqs")
	for _, r := range reqs {
		c.Requests[r] = genBody(t, deg)
	}
	if shape == 1 {
		return c
	}
	tgts := rapid.SliceOfNDistinct(rapid.SampledFrom(tgtNames), 1, len(tgtNames), rapid.ID[string]).Draw(t, "tgts")
	for _, n := range tgts {
		c.Targets[n] = TargetSpec{
			Addr:   rapid.IntRange(1, len(addrPool)-1).Draw(t, "addr"),
			Req:    rapid.SampledFrom(reqs).Draw(t, "req"),
			Cred:   genCred(t, deg),
			Meta:   rapid.SampledFrom([]int{0, 0, 0, 1, 2}).Draw(t, "meta"),
			Dialer: rapid.SampledFrom([]int{0, 0, 0, 1}).Draw(t, "dialer"),
		}
	}
	return c
}

type kindWeight struct {
	k string
	n int
}

func expandKinds(w []kindWeight) []string {
	var out []string
	for _, e := range w {
		for i := 0; i < e.n; i++ {
			out = append(out, e.k)
		}
	}
	return out
}

var baseKindWeights = []kindWeight{
	{"req-edit", 6}, {"req-rename", 3}, {"req-add", 2}, {"req-del", 2},
	{"tgt-add", 4}, {"tgt-remove", 4}, {"tgt-repoint", 4}, {"tgt-addr", 3},
	{"tgt-cred", 1}, {"tgt-meta", 1}, {"tgt-dialer", 1}, {"cfg-instance", 1}, {"cfg-meta", 1},
	{"inv-empty-name", 1}, {"inv-nil-target", 1}, {"inv-no-address", 1}, {"inv-missing-request", 1}, {"inv-dangling-request", 1},
}

var editKinds = expandKinds(baseKindWeights)

// editKindsDeg: the kinds of the random part plus the ones that introduce a
// degenerate value into the current configuration.
var editKindsDeg = expandKinds(append(append([]kindWeight(nil), baseKindWeights...),
	kindWeight{"req-nil", 7}, kindWeight{"req-empty", 2}, kindWeight{"tgt-cred-empty", 2}))

func genEdit(t *rapid.T, deg bool) Edit {
	kinds := editKinds
	if deg {
		kinds = editKindsDeg
	}
	e := Edit{Kind: rapid.SampledFrom(kinds).Draw(t, "kind")}
	pick := func() int { return rapid.IntRange(0, len(tgtNames)-1).Draw(t, "pick") }
	name := func() int { return rapid.IntRange(0, len(tgtNames)-1).Draw(t, "name") }
	bodyI := func() int { return genBody(t, deg) }
	req := func() int { return rapid.IntRange(0, len(reqNames)-1).Draw(t, "req") }
	switch e.Kind {
	case "req-nil", "req-empty":
		e.Pick, e.Req = pick(), req()
	case "tgt-cred-empty":
		e.Pick = pick()
	case "req-edit":
		e.Pick, e.Body = pick(), bodyI()
	case "req-rename":
		e.Pick, e.Name = pick(), name()
	case "req-add":
		e.Name, e.Body = name(), bodyI()
	case "req-del":
		e.Pick = pick()
	case "tgt-add":
		e.Name, e.Req, e.Body = name(), req(), bodyI()
		e.Addr = rapid.IntRange(0, len(addrPool)-2).Draw(t, "addr")
		e.Cred = genCred(t, deg)
		e.Meta = rapid.SampledFrom([]int{0, 0, 0, 1, 2}).Draw(t, "meta")
		e.Dial = rapid.SampledFrom([]int{0, 0, 0, 1}).Draw(t, "dial")
	case "tgt-remove", "tgt-dialer":
		e.Pick = pick()
	case "tgt-repoint":
		e.Pick, e.Req, e.Name, e.Body = pick(), req(), name(), bodyI()
	case "tgt-addr":
		e.Pick, e.Addr = pick(), rapid.IntRange(0, len(addrPool)-2).Draw(t, "addr")
	case "tgt-cred":
		e.Pick, e.Cred = pick(), rapid.IntRange(0, nCreds-1).Draw(t, "cred")
	case "tgt-meta":
		e.Pick, e.Meta = pick(), rapid.IntRange(0, nMetas-1).Draw(t, "meta")
	case "cfg-instance":
		e.Name = name()
	case "cfg-meta":
		e.Meta = rapid.IntRange(0, nMetas-1).Draw(t, "meta")
	case "inv-empty-name":
		e.Req, e.Body, e.Addr = req(), bodyI(), rapid.IntRange(0, len(addrPool)-2).Draw(t, "addr")
	case "inv-nil-target", "inv-no-address", "inv-missing-request":
		e.Pick, e.Name = pick(), name()
	case "inv-dangling-request":
		e.Pick, e.Name, e.Req = pick(), name(), req()
	}
	return e
}

var (
	// relative revision steps: mostly +1, sometimes a jump, equal or lower
	relRevs = []int64{1, 1, 1, 1, 1, 1, 1, 1, 1, 2, 3, 0, 0, 0, -1, -1, -3}
	absRevs = []int64{-1, 0, 1, 2, 3, 7, 100, math.MaxInt64, math.MinInt64}
)

// genRepr draws a representation (bit set of repr*), mostly the plain one.
func genRepr(t *rapid.T) int {
	return []int{0, reprEmptyMaps, reprNilInner, reprEmptyMaps | reprNilInner}[choose(t, "repr", 6, 3, 1, 1)]
}

func genLoad(t *rapid.T, deg bool) Load {
	var ld Load
	// 0: edits of the current configuration, 1: a complete configuration (plus edits), 2: Load(nil)
	switch choose(t, "shape", 30, 8, 1) {
	case 1:
		ld.Full = genSpec(t, deg)
	case 2:
		ld.NilConfig = true
		return ld
	}
	ld.Edits = rapid.SliceOfN(rapid.Custom(func(t *rapid.T) Edit { return genEdit(t, deg) }), 0, 4).Draw(t, "edits")
	if len(ld.Edits) == 0 {
		ld.Edits = nil
	}
	if deg {
		ld.Repr = genRepr(t)
	}
	if choose(t, "revmode", 9, 1) == 1 {
		ld.RevAbs = true
		ld.Rev = rapid.SampledFrom(absRevs).Draw(t, "rev")
	} else {
		ld.Rev = rapid.SampledFrom(relRevs).Draw(t, "revrel")
	}
	return ld
}

func genScenario(t *rapid.T, deg bool) *Scenario {
	sc := &Scenario{}
	switch choose(t, "base", 5, 4, 1) {
	case 2:
		sc.BaseMode = "nil"
	case 1:
		sc.BaseMode = "config"
		sc.Base = genSpec(t, deg)
		sc.Base.Rev = rapid.SampledFrom([]int64{0, 0, 1, 5, -2}).Draw(t, "baserev")
		if deg {
			sc.BaseRepr = genRepr(t)
		}
	}
	sc.Loads = rapid.SliceOfN(rapid.Custom(func(t *rapid.T) Load { return genLoad(t, deg) }), 1, 12).Draw(t, "loads")
	// (drawn last: everything above is drawn exactly as it was before this dimension existed)
	sc.Unset = genUnset(t)
	return sc
}

// consumerShapes: the subsets of {Add, Update, Delete} a consumer registers,
// written as the callbacks it leaves nil (Scenario.Unset).
var consumerShapes = []string{"", "ud", "d", "u", "au", "ad", "a", "aud"}

// genUnset draws the shape of the consumer: all three callbacks in half of the
// cases (only there the replay oracle applies), otherwise one of the seven
// proper subsets - Add only, Add+Update, Add+Delete, Update only, Delete only,
// Update+Delete, none.
func genUnset(t *rapid.T) string {
	return consumerShapes[choose(t, "consumer", 10, 2, 2, 2, 1, 1, 1, 1)]
}

// Parts ------------------------------------------------------------------------

// TestC17Random: generated load sequences against the reference model.
func TestC17Random(t *testing.T) {
	if !vstat.Enabled("C17") {
		t.Skip()
	}
	rec := vstat.New("C17", "random")
	rec.RunRapid(t, func(rt *rapid.T) {
		sc := genScenario(rt, false)
		st, err := run(sc)
		rec.Case(sc, st.nontrivial(), st.labels()...)
		if err != nil {
			rt.Fatalf("%s", rec.Fail(sc, failClass(err), "%v", err))
		}
	})
}

// TestC17Degenerate: the same load sequences and the same oracle over
// configurations with degenerate but valid shapes: request names listed with a
// nil message (Validate asks only for the key) or an empty one, used by
// targets or not, as stable content and as what an edit introduces or removes
// while other targets are added / removed / edited in the same load; empty
// credentials; empty maps handed over non-nil; a oneof wrapper around a nil
// message.
func TestC17Degenerate(t *testing.T) {
	if !vstat.Enabled("C17") {
		t.Skip()
	}
	rec := vstat.New("C17", "degenerate")
	rec.RunRapid(t, func(rt *rapid.T) {
		sc := genScenario(rt, true)
		st, err := run(sc)
		rec.Case(sc, st.nontrivial(), st.labels()...)
		if err != nil {
			rt.Fatalf("%s", rec.Fail(sc, failClass(err), "%v", err))
		}
	})
}

// TestReplay re-runs a saved scenario without the generators.
func TestReplay(t *testing.T) {
	rf, ok, err := vstat.LoadReplay()
	if !ok {
		t.Skip()
	}
	if err != nil {
		t.Fatal(err)
	}
	rec := vstat.New(rf.Property, "replay")
	defer rec.Flush(true)
	if msg := replayOne(rf); msg != "" {
		rec.AddViolation(json.RawMessage(rf.Scenario), rf.Kind, rf.Class, "%s", msg)
		fmt.Println("REPLAY-FAIL:", msg)
		t.Fail()
		return
	}
	rec.Case(json.RawMessage(rf.Scenario), false, "replayed")
	fmt.Println("REPLAY-OK")
}

func replayOne(rf *vstat.ReplayFile) string {
	if rf.Property != "C17" {
		return "unknown replay property " + rf.Property
	}
	if rf.Part == "reload" {
		return replayRich(rf.Scenario)
	}
	if rf.Part == "alias" {
		return replayAlias(rf.Scenario)
	}
	if rf.Part == "overlap" {
		return replayOverlap(rf.Scenario)
	}
	switch rf.Kind {
	case "rapid", "seq":
		var sc Scenario
		if err := json.Unmarshal(rf.Scenario, &sc); err != nil {
			return "bad scenario: " + err.Error()
		}
		if _, err := run(&sc); err != nil {
			return err.Error()
		}
		return ""
	}
	return "unknown replay kind " + rf.Kind
}
