package targetprop

// rich.go: the "reload" part of C17.
//
// The "random" part explores the gate and the diff classification over small
// pools of pre-built messages. This part explores what those pools cannot
// reach: configurations whose messages are *rich* (every field of
// target.proto populated, request bodies with prefixes, many subscriptions,
// path elements with 0-6 keys, every map field with several entries, names
// with unusual characters, 1-300 targets, 1-80 requests) and histories in
// which the same configuration is handed to Load again and again in many
// different *representations* of the same content (fresh build, other map
// insertion order, nil/empty maps and slices swapped, re-parsed from wire,
// text and JSON form, clones, messages that share sub-messages with the
// previously loaded configuration or within themselves), interleaved with
// loads that change exactly one field somewhere.
//
// The oracle is the one of the property, evaluated on plain data: the set of
// handler calls of one load is exactly {Delete(n) for n gone, Add(n) for n
// new, Update(n) for n whose settings or referenced request body differ};
// a semantically identical reload therefore produces no call at all. Replay
// of the calls yields Current(), Current() is the loaded configuration, a
// rejected load runs nothing and changes nothing.

import (
	"encoding/json"
	"fmt"
	"sort"
	"strings"

	"google.golang.org/protobuf/encoding/protojson"
	"google.golang.org/protobuf/encoding/prototext"
	"google.golang.org/protobuf/proto"

	gpb "github.com/openconfig/gnmi/proto/gnmi"
	epb "github.com/openconfig/gnmi/proto/gnmi_ext"
	pb "github.com/openconfig/gnmi/proto/target"
	"github.com/openconfig/gnmi/target"
)

// Plain data -------------------------------------------------------------------

// KV is one map entry. A map is a list of entries (insertion order of the
// "plain" representation); entries with the same key: the last one wins.
type KV struct {
	K string `json:"k"`
	V string `json:"v"`
}

// ElemSpec is a gnmi.PathElem.
type ElemSpec struct {
	Name string `json:"n"`
	Keys []KV   `json:"keys,omitempty"`
}

// PathSpec is a gnmi.Path.
type PathSpec struct {
	Origin  string     `json:"origin,omitempty"`
	Target  string     `json:"target,omitempty"`
	Elems   []ElemSpec `json:"elems,omitempty"`
	Element []string   `json:"element,omitempty"` // the deprecated string elements
}

// SubSpec is a gnmi.Subscription.
type SubSpec struct {
	Path      *PathSpec `json:"path,omitempty"`
	Mode      int       `json:"mode,omitempty"`
	Sample    uint64    `json:"sample,omitempty"`
	Suppress  bool      `json:"suppress,omitempty"`
	Heartbeat uint64    `json:"heartbeat,omitempty"`
}

// ModelSpec is a gnmi.ModelData.
type ModelSpec struct {
	Name    string `json:"name,omitempty"`
	Org     string `json:"org,omitempty"`
	Version string `json:"version,omitempty"`
}

// ExtSpec is a gnmi_ext.Extension. Kind: 0 registered, 1 master arbitration, 2 depth.
type ExtSpec struct {
	Kind  int    `json:"kind,omitempty"`
	ID    int32  `json:"id,omitempty"`
	Msg   string `json:"msg,omitempty"`
	Role  string `json:"role,omitempty"`
	Hi    uint64 `json:"hi,omitempty"`
	Lo    uint64 `json:"lo,omitempty"`
	Level uint32 `json:"level,omitempty"`
}

// ReqSpec is a gnmi.SubscribeRequest. Kind: 0 subscribe, 1 poll, 2 no request set.
type ReqSpec struct {
	Kind        int         `json:"kind,omitempty"`
	Prefix      *PathSpec   `json:"prefix,omitempty"`
	Subs        []SubSpec   `json:"subs,omitempty"`
	Mode        int         `json:"mode,omitempty"`
	HasQos      bool        `json:"has_qos,omitempty"`
	Qos         uint32      `json:"qos,omitempty"`
	AllowAgg    bool        `json:"allow_agg,omitempty"`
	UpdatesOnly bool        `json:"updates_only,omitempty"`
	Encoding    int         `json:"encoding,omitempty"`
	Models      []ModelSpec `json:"models,omitempty"`
	Ext         []ExtSpec   `json:"ext,omitempty"`
}

// CredSpec is a target.Credentials.
type CredSpec struct {
	User   string `json:"user,omitempty"`
	Pass   string `json:"pass,omitempty"`
	PassID string `json:"pass_id,omitempty"`
}

func (c *CredSpec) empty() bool { return c == nil || *c == CredSpec{} }

// RichTarget is a target.Target.
type RichTarget struct {
	Addrs  []string  `json:"addrs,omitempty"`
	Req    string    `json:"req"`
	Cred   *CredSpec `json:"cred,omitempty"`
	Meta   []KV      `json:"meta,omitempty"`
	Dialer string    `json:"dialer,omitempty"`
}

// NamedReq / NamedTgt are entries of the request / target map.
type NamedReq struct {
	Name string `json:"name"`
	// Nil: the map value is a nil *gnmi.SubscribeRequest. Validate asks only
	// for the key, so the configuration is valid, targets may refer to the
	// name and handlers receive Request == nil. Body is dormant while Nil.
	Nil  bool    `json:"nil,omitempty"`
	Body ReqSpec `json:"body"`
}
type NamedTgt struct {
	Name string     `json:"name"`
	Nil  bool       `json:"nil,omitempty"` // the map value is a nil *pb.Target (invalid)
	T    RichTarget `json:"t"`
}

// RichConfig is a target.Configuration. Names are unique within each list.
type RichConfig struct {
	Rev      int64      `json:"rev"`
	Instance string     `json:"instance,omitempty"`
	Meta     []KV       `json:"meta,omitempty"`
	Requests []NamedReq `json:"requests,omitempty"`
	Targets  []NamedTgt `json:"targets,omitempty"`
}

// Deep copies ----------------------------------------------------------------------

func cpKVs(in []KV) []KV { return append([]KV(nil), in...) }

func (p *PathSpec) clone() *PathSpec {
	if p == nil {
		return nil
	}
	n := &PathSpec{Origin: p.Origin, Target: p.Target, Element: append([]string(nil), p.Element...)}
	for _, e := range p.Elems {
		n.Elems = append(n.Elems, ElemSpec{Name: e.Name, Keys: cpKVs(e.Keys)})
	}
	return n
}

func (r *ReqSpec) clone() ReqSpec {
	n := *r
	n.Prefix = r.Prefix.clone()
	n.Subs = nil
	for _, s := range r.Subs {
		s.Path = s.Path.clone()
		n.Subs = append(n.Subs, s)
	}
	n.Models = append([]ModelSpec(nil), r.Models...)
	n.Ext = append([]ExtSpec(nil), r.Ext...)
	return n
}

func (t *RichTarget) clone() RichTarget {
	n := *t
	n.Addrs = append([]string(nil), t.Addrs...)
	n.Meta = cpKVs(t.Meta)
	if t.Cred != nil {
		c := *t.Cred
		n.Cred = &c
	}
	return n
}

func (c *RichConfig) clone() *RichConfig {
	n := &RichConfig{Rev: c.Rev, Instance: c.Instance, Meta: cpKVs(c.Meta)}
	for i := range c.Requests {
		n.Requests = append(n.Requests, NamedReq{c.Requests[i].Name, c.Requests[i].Nil, c.Requests[i].Body.clone()})
	}
	for i := range c.Targets {
		n.Targets = append(n.Targets, NamedTgt{c.Targets[i].Name, c.Targets[i].Nil, c.Targets[i].T.clone()})
	}
	return n
}

// Canonical form (the reference notion of "unchanged") -------------------------------

// dedupe keeps, for every key, the last value, in order of first occurrence.
func dedupe(kvs []KV) []KV {
	if len(kvs) < 2 {
		return kvs
	}
	idx := map[string]int{}
	var out []KV
	for _, kv := range kvs {
		if i, ok := idx[kv.K]; ok {
			out[i].V = kv.V
			continue
		}
		idx[kv.K] = len(out)
		out = append(out, kv)
	}
	return out
}

// normKVs is the order-free form of a map.
func normKVs(kvs []KV) []KV {
	out := cpKVs(dedupe(kvs))
	sort.Slice(out, func(i, j int) bool { return out[i].K < out[j].K })
	return out
}

func normPath(p *PathSpec) *PathSpec {
	n := p.clone()
	if n != nil {
		for i := range n.Elems {
			n.Elems[i].Keys = normKVs(n.Elems[i].Keys)
		}
	}
	return n
}

func mustJSON(v any) string {
	b, err := json.Marshal(v)
	if err != nil {
		panic(err)
	}
	return string(b)
}

// canonReq is equal for two request bodies iff they denote the same message.
func canonReq(r *ReqSpec) string {
	n := r.clone()
	n.Kind = mod(n.Kind, 3)
	if n.Kind != 0 {
		n = ReqSpec{Kind: n.Kind, Ext: n.Ext}
	} else {
		n.Prefix = normPath(n.Prefix)
		for i := range n.Subs {
			n.Subs[i].Path = normPath(n.Subs[i].Path)
			n.Subs[i].Mode = mod(n.Subs[i].Mode, 3)
		}
		n.Mode = mod(n.Mode, 3)
		n.Encoding = mod(n.Encoding, 5)
		if !n.HasQos {
			n.Qos = 0
		}
	}
	for i := range n.Ext {
		e := n.Ext[i]
		switch mod(e.Kind, 3) {
		case 0:
			n.Ext[i] = ExtSpec{Kind: 0, ID: e.ID, Msg: e.Msg}
		case 1:
			n.Ext[i] = ExtSpec{Kind: 1, Role: e.Role, Hi: e.Hi, Lo: e.Lo}
		default:
			n.Ext[i] = ExtSpec{Kind: 2, Level: e.Level}
		}
	}
	return mustJSON(n)
}

// canonNamedReq: a request listed with a nil message is its own content,
// different from every message (also from the empty one; the edits never turn
// one into the other under the same name, see "r-nil").
func canonNamedReq(r *NamedReq) string {
	if r.Nil {
		return "nil"
	}
	return canonReq(&r.Body)
}

// emptyBody reports whether the body denotes the empty message.
func emptyBody(r *ReqSpec) bool { return canonReq(r) == canonReq(&ReqSpec{Kind: 2}) }

// nilRequestTargets returns the names of the targets that refer to a request
// listed with a nil message.
func (c *RichConfig) nilRequestTargets() map[string]bool {
	nilReq := map[string]bool{}
	for i := range c.Requests {
		if c.Requests[i].Nil {
			nilReq[c.Requests[i].Name] = true
		}
	}
	out := map[string]bool{}
	if len(nilReq) == 0 {
		return out
	}
	for i := range c.Targets {
		if !c.Targets[i].Nil && nilReq[c.Targets[i].T.Req] {
			out[c.Targets[i].Name] = true
		}
	}
	return out
}

// renil makes the requests that spec lists with a nil message nil in msg
// again: parsing and copying turn a nil map value into an empty message.
func renil(spec *RichConfig, msg *pb.Configuration) {
	for i := range spec.Requests {
		if spec.Requests[i].Nil && msg != nil && msg.Request != nil {
			msg.Request[spec.Requests[i].Name] = nil
		}
	}
}

// canonTgt is equal for two target settings iff they denote the same message.
func canonTgt(t *NamedTgt) string {
	if t.Nil {
		return "nil"
	}
	n := t.T.clone()
	n.Meta = normKVs(n.Meta)
	return mustJSON(n)
}

// snap is the order-free view of a configuration.
type snap struct {
	tgt map[string]string // target name -> canonical settings
	use map[string]string // target name -> request name
	req map[string]string // request name -> canonical body
}

func snapshot(c *RichConfig) *snap {
	s := &snap{tgt: map[string]string{}, use: map[string]string{}, req: map[string]string{}}
	if c == nil {
		return s
	}
	for i := range c.Requests {
		s.req[c.Requests[i].Name] = canonNamedReq(&c.Requests[i])
	}
	for i := range c.Targets {
		s.tgt[c.Targets[i].Name] = canonTgt(&c.Targets[i])
		s.use[c.Targets[i].Name] = c.Targets[i].T.Req
	}
	return s
}

// expectedCalls is the property: Delete for a name that is gone, Add for a
// new name, Update for a name whose settings or referenced request body
// changed, nothing otherwise. Sorted by name.
func expectedCalls(old, nu *snap) []string {
	var out []string
	for n, ot := range old.tgt {
		nt, ok := nu.tgt[n]
		switch {
		case !ok:
			out = append(out, fmt.Sprintf("delete(%q)", n))
		case ot != nt || old.req[old.use[n]] != nu.req[nu.use[n]]:
			out = append(out, fmt.Sprintf("update(%q)", n))
		}
	}
	for n := range nu.tgt {
		if _, ok := old.tgt[n]; !ok {
			out = append(out, fmt.Sprintf("add(%q)", n))
		}
	}
	sort.Strings(out)
	return out
}

// richInvalid is the reference validity predicate on the rich plain data.
func richInvalid(c *RichConfig) []string {
	set := map[string]bool{}
	reqs := map[string]bool{}
	for i := range c.Requests {
		reqs[c.Requests[i].Name] = true
	}
	for i := range c.Targets {
		t := &c.Targets[i]
		if t.Name == "" {
			set["empty-name"] = true
		}
		if t.Nil {
			set["nil-target"] = true
			continue
		}
		if len(t.T.Addrs) == 0 {
			set["no-address"] = true
		}
		if t.T.Req == "" {
			set["missing-request"] = true
		} else if !reqs[t.T.Req] {
			set["dangling-request"] = true
		}
	}
	var out []string
	for k := range set {
		out = append(out, k)
	}
	sort.Strings(out)
	return out
}

// Building messages ------------------------------------------------------------------

// shuffler is a deterministic permutation source (seeded from the scenario).
type shuffler struct{ s uint64 }

func (s *shuffler) next() uint64 {
	s.s += 0x9e3779b97f4a7c15
	z := s.s
	z = (z ^ (z >> 30)) * 0xbf58476d1ce4e5b9
	z = (z ^ (z >> 27)) * 0x94d049bb133111eb
	return z ^ (z >> 31)
}

// bopt says how a message is built from the plain data. Every combination
// yields a message with the same content.
type bopt struct {
	sh       *shuffler // nil: insert map entries in list order
	emptyish bool      // empty maps and slices are non-nil and empty instead of nil
	alias    bool      // equal paths / bodies / settings share one message
	paths    map[string]*gpb.Path
	reqs     map[string]*gpb.SubscribeRequest
	tgts     map[string]*pb.Target
}

func (o *bopt) order(n int) []int {
	idx := make([]int, n)
	for i := range idx {
		idx[i] = i
	}
	if o.sh != nil {
		for i := n - 1; i > 0; i-- {
			j := int(o.sh.next() % uint64(i+1))
			idx[i], idx[j] = idx[j], idx[i]
		}
	}
	return idx
}

func (o *bopt) strmap(kvs []KV) map[string]string {
	kvs = dedupe(kvs)
	if len(kvs) == 0 {
		if o.emptyish {
			return map[string]string{}
		}
		return nil
	}
	m := map[string]string{}
	for _, i := range o.order(len(kvs)) {
		m[kvs[i].K] = kvs[i].V
	}
	return m
}

func (o *bopt) path(p *PathSpec) *gpb.Path {
	if p == nil {
		return nil
	}
	var key string
	if o.alias {
		key = mustJSON(normPath(p))
		if m, ok := o.paths[key]; ok {
			return m
		}
	}
	out := &gpb.Path{Origin: p.Origin, Target: p.Target}
	if o.emptyish {
		out.Element, out.Elem = []string{}, []*gpb.PathElem{}
	}
	out.Element = append(out.Element, p.Element...)
	for _, e := range p.Elems {
		out.Elem = append(out.Elem, &gpb.PathElem{Name: e.Name, Key: o.strmap(e.Keys)})
	}
	if o.alias {
		o.paths[key] = out
	}
	return out
}

func (o *bopt) req(r *ReqSpec) *gpb.SubscribeRequest {
	var key string
	if o.alias {
		key = canonReq(r)
		if m, ok := o.reqs[key]; ok {
			return m
		}
	}
	out := &gpb.SubscribeRequest{}
	switch mod(r.Kind, 3) {
	case 0:
		sl := &gpb.SubscriptionList{
			Prefix:           o.path(r.Prefix),
			Mode:             gpb.SubscriptionList_Mode(mod(r.Mode, 3)),
			AllowAggregation: r.AllowAgg,
			UpdatesOnly:      r.UpdatesOnly,
			Encoding:         gpb.Encoding(mod(r.Encoding, 5)),
		}
		if r.HasQos {
			sl.Qos = &gpb.QOSMarking{Marking: r.Qos}
		}
		if o.emptyish {
			sl.Subscription, sl.UseModels = []*gpb.Subscription{}, []*gpb.ModelData{}
		}
		for _, s := range r.Subs {
			sl.Subscription = append(sl.Subscription, &gpb.Subscription{
				Path: o.path(s.Path), Mode: gpb.SubscriptionMode(mod(s.Mode, 3)),
				SampleInterval: s.Sample, SuppressRedundant: s.Suppress, HeartbeatInterval: s.Heartbeat,
			})
		}
		for _, m := range r.Models {
			sl.UseModels = append(sl.UseModels, &gpb.ModelData{Name: m.Name, Organization: m.Org, Version: m.Version})
		}
		out.Request = &gpb.SubscribeRequest_Subscribe{Subscribe: sl}
	case 1:
		out.Request = &gpb.SubscribeRequest_Poll{Poll: &gpb.Poll{}}
	}
	if o.emptyish {
		out.Extension = []*epb.Extension{}
	}
	for _, e := range r.Ext {
		x := &epb.Extension{}
		switch mod(e.Kind, 3) {
		case 0:
			re := &epb.RegisteredExtension{Id: epb.ExtensionID(e.ID)}
			if e.Msg != "" {
				re.Msg = []byte(e.Msg)
			} else if o.emptyish {
				re.Msg = []byte{}
			}
			x.Ext = &epb.Extension_RegisteredExt{RegisteredExt: re}
		case 1:
			x.Ext = &epb.Extension_MasterArbitration{MasterArbitration: &epb.MasterArbitration{
				Role: &epb.Role{Id: e.Role}, ElectionId: &epb.Uint128{High: e.Hi, Low: e.Lo}}}
		default:
			x.Ext = &epb.Extension_Depth{Depth: &epb.Depth{Level: e.Level}}
		}
		out.Extension = append(out.Extension, x)
	}
	if o.alias {
		o.reqs[key] = out
	}
	return out
}

func (o *bopt) target(t *NamedTgt) *pb.Target {
	if t.Nil {
		return nil
	}
	var key string
	if o.alias {
		key = canonTgt(t)
		if m, ok := o.tgts[key]; ok {
			return m
		}
	}
	out := &pb.Target{Request: t.T.Req, Meta: o.strmap(t.T.Meta), Dialer: t.T.Dialer}
	if o.emptyish {
		out.Addresses = []string{}
	}
	out.Addresses = append(out.Addresses, t.T.Addrs...)
	if t.T.Cred != nil {
		out.Credentials = &pb.Credentials{Username: t.T.Cred.User, Password: t.T.Cred.Pass, PasswordId: t.T.Cred.PassID}
	}
	if o.alias {
		o.tgts[key] = out
	}
	return out
}

func (o *bopt) config(c *RichConfig) *pb.Configuration {
	if o.alias {
		o.paths, o.reqs, o.tgts = map[string]*gpb.Path{}, map[string]*gpb.SubscribeRequest{}, map[string]*pb.Target{}
	}
	cfg := &pb.Configuration{Revision: c.Rev, InstanceId: c.Instance, Meta: o.strmap(c.Meta)}
	if len(c.Requests) > 0 || o.emptyish {
		cfg.Request = map[string]*gpb.SubscribeRequest{}
	}
	for _, i := range o.order(len(c.Requests)) {
		if c.Requests[i].Nil {
			cfg.Request[c.Requests[i].Name] = nil
			continue
		}
		cfg.Request[c.Requests[i].Name] = o.req(&c.Requests[i].Body)
	}
	if len(c.Targets) > 0 || o.emptyish {
		cfg.Target = map[string]*pb.Target{}
	}
	for _, i := range o.order(len(c.Targets)) {
		cfg.Target[c.Targets[i].Name] = o.target(&c.Targets[i])
	}
	return cfg
}

// build is the plain representation: fresh messages, list order, nil for empty.
func (c *RichConfig) build() *pb.Configuration { return (&bopt{}).config(c) }

// Forms: representations of the same configuration ------------------------------------

var formNames = []string{
	"fresh",         // a fresh message, map entries inserted in list order
	"permuted",      // a fresh message, map entries inserted in another order
	"emptyish",      // empty maps / slices / bytes are non-nil
	"wire",          // proto.Marshal + Unmarshal
	"wire-det",      // deterministic marshal + Unmarshal
	"text",          // prototext round trip
	"json",          // protojson round trip
	"clone-prev",    // proto.Clone of the message handed to the previous accepted Load
	"clone-current", // what Current() returned
	"reuse",         // a new Configuration whose unchanged entries are the very messages of the previous one
	"alias",         // equal paths / bodies / settings are one shared message
}

// formCtx is what the forms that refer to the past need.
type formCtx struct {
	prevMsg  *pb.Configuration // message of the previous accepted load (or the base)
	prevSnap *snap             // its order-free view
	prevRev  int64
	current  func() *pb.Configuration
}

// buildForm returns a message with the content of spec in representation
// form; used names the representation actually produced (forms that need an
// identical predecessor fall back to "reuse" / "fresh").
func buildForm(spec *RichConfig, ns *snap, form, perm int, fc *formCtx) (msg *pb.Configuration, used string, err error) {
	name := formNames[mod(form, len(formNames))]
	identical := fc.prevMsg != nil && sameSnap(fc.prevSnap, ns)
	if (name == "clone-prev" || name == "clone-current") && !identical {
		name = "reuse"
	}
	if name == "reuse" && fc.prevMsg == nil {
		name = "fresh"
	}
	switch name {
	case "fresh":
		msg = spec.build()
	case "permuted":
		msg = (&bopt{sh: &shuffler{s: uint64(perm) + 1}}).config(spec)
	case "emptyish":
		msg = (&bopt{emptyish: true}).config(spec)
	case "alias":
		msg = (&bopt{alias: true, sh: &shuffler{s: uint64(perm) + 7}}).config(spec)
	case "wire", "wire-det":
		var b []byte
		b, err = proto.MarshalOptions{Deterministic: name == "wire-det"}.Marshal(spec.build())
		if err == nil {
			msg = &pb.Configuration{}
			err = proto.Unmarshal(b, msg)
		}
	case "text":
		var b []byte
		b, err = prototext.MarshalOptions{Multiline: perm%2 == 0}.Marshal(spec.build())
		if err == nil {
			msg = &pb.Configuration{}
			err = prototext.Unmarshal(b, msg)
		}
	case "json":
		var b []byte
		b, err = protojson.Marshal(spec.build())
		if err == nil {
			msg = &pb.Configuration{}
			err = protojson.Unmarshal(b, msg)
		}
	case "clone-prev", "clone-current":
		// Only content outside targets and requests (instance id, meta) may differ here.
		if name == "clone-prev" {
			msg = proto.Clone(fc.prevMsg).(*pb.Configuration)
		} else {
			msg = fc.current()
		}
		msg.Revision = spec.Rev
		msg.InstanceId = spec.Instance
		msg.Meta = (&bopt{}).strmap(spec.Meta)
	case "reuse":
		msg = (&bopt{sh: &shuffler{s: uint64(perm) + 3}}).config(spec)
		for n := range msg.Request {
			if old, ok := fc.prevMsg.GetRequest()[n]; ok && old != nil && fc.prevSnap.req[n] == ns.req[n] {
				msg.Request[n] = old
			}
		}
		for n := range msg.Target {
			if old, ok := fc.prevMsg.GetTarget()[n]; ok && old != nil && fc.prevSnap.tgt[n] == ns.tgt[n] {
				msg.Target[n] = old
			}
		}
	}
	if err == nil {
		renil(spec, msg)
	}
	return msg, name, err
}

func sameStrMap(a, b map[string]string) bool {
	if len(a) != len(b) {
		return false
	}
	for k, v := range a {
		if w, ok := b[k]; !ok || w != v {
			return false
		}
	}
	return true
}

func sameSnap(a, b *snap) bool {
	return sameStrMap(a.tgt, b.tgt) && sameStrMap(a.use, b.use) && sameStrMap(a.req, b.req)
}

// Edits --------------------------------------------------------------------------------

// REdit is one change of a rich configuration. T / R pick the target / the
// request (index into the list, modulo its length), A / B / C pick inside it,
// S is a fresh string (name, key, value, address).
type REdit struct {
	Kind string `json:"kind"`
	T    int    `json:"t,omitempty"`
	R    int    `json:"r,omitempty"`
	A    int    `json:"a,omitempty"`
	B    int    `json:"b,omitempty"`
	C    int    `json:"c,omitempty"`
	S    string `json:"s,omitempty"`
}

// The kinds of edits, by what they change.
var (
	editsTargetField = []string{
		"t-addr-append", "t-addr-change", "t-addr-swap", "t-addr-drop",
		"t-cred-user", "t-cred-pass", "t-cred-passid", "t-cred-drop",
		"t-meta-add", "t-meta-del", "t-meta-val", "t-meta-rekey", "t-meta-swapvals",
		"t-dialer", "t-repoint",
	}
	editsTargetSet    = []string{"t-rename", "t-add", "t-add-nearname", "t-del"}
	editsRequestField = []string{
		"r-key-val", "r-key-add", "r-key-del", "r-key-rekey", "r-key-swapvals",
		"r-elem-name", "r-elem-add", "r-elem-del", "r-element",
		"r-sub-add", "r-sub-del", "r-sub-swap", "r-sub-mode", "r-sub-interval", "r-sub-heartbeat", "r-sub-suppress",
		"r-list-mode", "r-encoding", "r-updates-only", "r-allow-agg", "r-qos",
		"r-prefix-target", "r-prefix-origin", "r-model-add", "r-ext", "r-kind",
	}
	editsRequestSet = []string{"r-rename", "r-add-unused", "r-del-unused", "r-edit-unused", "r-nil", "r-add-nil"}
	editsConfig     = []string{"c-instance", "c-meta-add", "c-meta-val"}
	// many entries at once (every A-th request / target)
	editsBulk    = []string{"bulk-req-edit", "bulk-tgt-edit", "bulk-tgt-del", "bulk-tgt-add"}
	editsInvalid = []string{"inv-no-address", "inv-missing-request", "inv-dangling-request", "inv-empty-name", "inv-nil-target"}
)

func hasKey(kvs []KV, k string) bool {
	for _, kv := range kvs {
		if kv.K == k {
			return true
		}
	}
	return false
}

func freshKey(kvs []KV, want string) string {
	for hasKey(kvs, want) {
		want += "+"
	}
	return want
}

func (c *RichConfig) hasTarget(n string) bool {
	for i := range c.Targets {
		if c.Targets[i].Name == n {
			return true
		}
	}
	return false
}

func (c *RichConfig) hasRequest(n string) bool {
	for i := range c.Requests {
		if c.Requests[i].Name == n {
			return true
		}
	}
	return false
}

func (c *RichConfig) freshTarget(want string) string {
	if want == "" {
		want = "new"
	}
	for c.hasTarget(want) {
		want += "'"
	}
	return want
}

func (c *RichConfig) freshRequest(want string) string {
	if want == "" {
		want = "newreq"
	}
	for c.hasRequest(want) {
		want += "'"
	}
	return want
}

func (c *RichConfig) used() map[string]bool {
	u := map[string]bool{}
	for i := range c.Targets {
		if !c.Targets[i].Nil {
			u[c.Targets[i].T.Req] = true
		}
	}
	return u
}

// nearName returns a name that differs from base only in a way that sloppy
// normalisation (case folding, trimming, Unicode normalisation) would erase.
func nearName(base string, k int) string {
	switch mod(k, 8) {
	case 0:
		return strings.ToUpper(base)
	case 1:
		return base + " "
	case 2:
		return " " + base
	case 3:
		return base + "\u200b"
	case 4:
		return base + "\x00"
	case 5:
		return strings.ToLower(base)
	case 6:
		return base + "/"
	}
	return base + "\t"
}

// elemRef addresses one path element of a request body.
type elemRef struct {
	p *PathSpec
	i int
}

func (r *ReqSpec) pathsOf() []*PathSpec {
	var ps []*PathSpec
	if r.Prefix != nil {
		ps = append(ps, r.Prefix)
	}
	for i := range r.Subs {
		if r.Subs[i].Path != nil {
			ps = append(ps, r.Subs[i].Path)
		}
	}
	return ps
}

func (r *ReqSpec) elems(minKeys int) []elemRef {
	var out []elemRef
	for _, p := range r.pathsOf() {
		for i := range p.Elems {
			if len(dedupe(p.Elems[i].Keys)) >= minKeys {
				out = append(out, elemRef{p, i})
			}
		}
	}
	return out
}

// keyedSub is the subscription that edits fall back to adding: a path with a
// multi-key element.
func keyedSub(s string) SubSpec {
	return SubSpec{Path: &PathSpec{Elems: []ElemSpec{{Name: "protocols"}, {Name: "protocol", Keys: []KV{{"identifier", "BGP"}, {"name", "bgp" + s}}}}}, Mode: 2, Sample: 10}
}

// applyRich performs e on c. It returns the kind effectively applied (edits
// that do not fit the configuration fall back to one that does).
func applyRich(c *RichConfig, e REdit) string {
	// Configurations without a (non-nil) target or without a request: add one.
	var live []int
	for i := range c.Targets {
		if !c.Targets[i].Nil {
			live = append(live, i)
		}
	}
	if strings.HasPrefix(e.Kind, "bulk-") {
		return applyBulk(c, e, live)
	}
	needT := strings.HasPrefix(e.Kind, "t-") || strings.HasPrefix(e.Kind, "inv-")
	needR := strings.HasPrefix(e.Kind, "r-")
	if (needT || needR) && len(c.Requests) == 0 {
		c.Requests = append(c.Requests, NamedReq{Name: c.freshRequest(e.S), Body: ReqSpec{Subs: []SubSpec{keyedSub("")}}})
		if needR {
			return "r-add-unused"
		}
	}
	if needT && len(live) == 0 {
		var rn string
		for i := range c.Requests {
			if c.Requests[i].Name != "" {
				rn = c.Requests[i].Name
			}
		}
		if rn == "" {
			rn = c.freshRequest("r")
			c.Requests = append(c.Requests, NamedReq{Name: rn, Body: ReqSpec{Subs: []SubSpec{keyedSub("")}}})
		}
		c.Targets = append(c.Targets, NamedTgt{Name: c.freshTarget(e.S), T: RichTarget{Addrs: []string{"192.0.2.1:9339"}, Req: rn}})
		return "t-add"
	}
	var t *RichTarget
	var ti int
	if needT {
		ti = live[mod(e.T, len(live))]
		t = &c.Targets[ti].T
	}
	var r *ReqSpec
	var ri int
	if needR {
		ri = mod(e.R, len(c.Requests))
		r = &c.Requests[ri].Body
		if c.Requests[ri].Nil {
			switch e.Kind {
			case "r-rename", "r-add-unused", "r-del-unused", "r-edit-unused", "r-nil", "r-add-nil":
			default:
				// an edit of the body of a request listed without a message:
				// it gets its (non-empty) message back
				c.Requests[ri].Nil = false
				if emptyBody(r) {
					r.Kind, r.Subs = 0, []SubSpec{keyedSub(e.S)}
				}
				return "r-unnil"
			}
		}
		switch e.Kind {
		case "r-rename", "r-add-unused", "r-del-unused", "r-edit-unused", "r-kind", "r-ext", "r-nil", "r-add-nil":
		default:
			if mod(r.Kind, 3) != 0 {
				// a body edit of a poll / empty request: make it a subscription
				r.Kind = 0
				if len(r.Subs) == 0 {
					r.Subs = []SubSpec{keyedSub(e.S)}
				}
				return "r-kind"
			}
		}
	}
	kind := e.Kind
	for {
		switch kind {
		// target fields ----------------------------------------------------------
		case "t-addr-append":
			a := e.S
			if a == "" {
				a = "198.51.100.7:9339"
			}
			t.Addrs = append(t.Addrs, a)
		case "t-addr-change":
			if len(t.Addrs) == 0 {
				kind = "t-addr-append"
				continue
			}
			t.Addrs[mod(e.A, len(t.Addrs))] += "0"
		case "t-addr-swap":
			i, j := -1, -1
			if len(t.Addrs) > 1 {
				i = mod(e.A, len(t.Addrs))
				for d := 1; d < len(t.Addrs); d++ {
					if k := (i + d) % len(t.Addrs); t.Addrs[k] != t.Addrs[i] {
						j = k
						break
					}
				}
			}
			if j < 0 {
				kind = "t-addr-append"
				continue
			}
			t.Addrs[i], t.Addrs[j] = t.Addrs[j], t.Addrs[i]
		case "t-addr-drop":
			if len(t.Addrs) < 2 {
				kind = "t-addr-change"
				continue
			}
			i := mod(e.A, len(t.Addrs))
			t.Addrs = append(t.Addrs[:i:i], t.Addrs[i+1:]...)
		case "t-cred-user", "t-cred-pass", "t-cred-passid":
			if t.Cred == nil {
				t.Cred = &CredSpec{User: "u"}
			}
			switch kind {
			case "t-cred-user":
				t.Cred.User += "x"
			case "t-cred-pass":
				t.Cred.Pass += "x"
			default:
				t.Cred.PassID += "x"
			}
		case "t-cred-drop":
			// nil and set-but-empty credentials are not told apart by an edit
			if t.Cred.empty() {
				kind = "t-cred-user"
				continue
			}
			t.Cred = nil
		case "t-meta-add":
			t.Meta = append(dedupe(t.Meta), KV{freshKey(t.Meta, e.S), "v" + e.S})
		case "t-meta-del", "t-meta-val", "t-meta-rekey":
			t.Meta = dedupe(t.Meta)
			if len(t.Meta) == 0 {
				kind = "t-meta-add"
				continue
			}
			i := mod(e.A, len(t.Meta))
			switch kind {
			case "t-meta-del":
				t.Meta = append(t.Meta[:i:i], t.Meta[i+1:]...)
			case "t-meta-val":
				t.Meta[i].V += "~"
			default:
				t.Meta[i].K = freshKey(t.Meta, t.Meta[i].K+"_")
			}
		case "t-meta-swapvals":
			t.Meta = dedupe(t.Meta)
			if !swapVals(t.Meta, e.A) {
				kind = "t-meta-val"
				continue
			}
		case "t-dialer":
			if t.Dialer == e.S {
				t.Dialer += "2"
			} else {
				t.Dialer = e.S
			}
		case "t-repoint":
			var others []string
			for i := range c.Requests {
				if n := c.Requests[i].Name; n != t.Req && n != "" {
					others = append(others, n)
				}
			}
			if len(others) == 0 {
				n := c.freshRequest(e.S)
				b := ReqSpec{Subs: []SubSpec{keyedSub(e.S)}}
				c.Requests = append(c.Requests, NamedReq{Name: n, Body: b})
				t = &c.Targets[ti].T
				others = []string{n}
			}
			t.Req = others[mod(e.A, len(others))]
		// the set of targets ----------------------------------------------------
		case "t-rename":
			c.Targets[ti].Name = c.freshTarget(e.S)
		case "t-add", "t-add-nearname":
			n := e.S
			if kind == "t-add-nearname" {
				n = nearName(c.Targets[ti].Name, e.A)
			}
			nt := NamedTgt{Name: c.freshTarget(n), T: t.clone()}
			c.Targets = append(c.Targets, nt)
		case "t-del":
			c.Targets = append(c.Targets[:ti:ti], c.Targets[ti+1:]...)
		// request body fields ---------------------------------------------------
		case "r-key-val", "r-key-del", "r-key-rekey":
			es := r.elems(1)
			if len(es) == 0 {
				kind = "r-key-add"
				continue
			}
			x := es[mod(e.A, len(es))]
			el := &x.p.Elems[x.i]
			el.Keys = dedupe(el.Keys)
			i := mod(e.B, len(el.Keys))
			switch kind {
			case "r-key-val":
				el.Keys[i].V += "~"
			case "r-key-del":
				el.Keys = append(el.Keys[:i:i], el.Keys[i+1:]...)
			default:
				el.Keys[i].K = freshKey(el.Keys, el.Keys[i].K+"_")
			}
		case "r-key-swapvals":
			done := false
			es := r.elems(2)
			for d := 0; d < len(es) && !done; d++ {
				x := es[mod(e.A+d, len(es))]
				x.p.Elems[x.i].Keys = dedupe(x.p.Elems[x.i].Keys)
				done = swapVals(x.p.Elems[x.i].Keys, e.B)
			}
			if !done {
				kind = "r-key-val"
				continue
			}
		case "r-key-add":
			es := r.elems(0)
			if len(es) == 0 {
				kind = "r-sub-add"
				continue
			}
			x := es[mod(e.A, len(es))]
			el := &x.p.Elems[x.i]
			el.Keys = append(dedupe(el.Keys), KV{freshKey(el.Keys, e.S), "v"})
		case "r-elem-name":
			es := r.elems(0)
			if len(es) == 0 {
				kind = "r-sub-add"
				continue
			}
			x := es[mod(e.A, len(es))]
			x.p.Elems[x.i].Name += "x"
		case "r-elem-add", "r-element":
			ps := r.pathsOf()
			if len(ps) == 0 {
				kind = "r-sub-add"
				continue
			}
			p := ps[mod(e.A, len(ps))]
			if kind == "r-element" {
				p.Element = append(p.Element, "e"+e.S)
			} else {
				p.Elems = append(p.Elems, ElemSpec{Name: "leaf" + e.S, Keys: []KV{{"a", "1"}, {"b", "2"}}})
			}
		case "r-elem-del":
			es := r.elems(0)
			if len(es) == 0 {
				kind = "r-sub-add"
				continue
			}
			x := es[mod(e.A, len(es))]
			x.p.Elems = append(x.p.Elems[:x.i:x.i], x.p.Elems[x.i+1:]...)
		case "r-sub-add":
			r.Subs = append(r.Subs, keyedSub(e.S))
		case "r-sub-del", "r-sub-mode", "r-sub-interval", "r-sub-heartbeat", "r-sub-suppress":
			if len(r.Subs) == 0 {
				kind = "r-sub-add"
				continue
			}
			i := mod(e.A, len(r.Subs))
			switch kind {
			case "r-sub-del":
				r.Subs = append(r.Subs[:i:i], r.Subs[i+1:]...)
			case "r-sub-mode":
				r.Subs[i].Mode = mod(r.Subs[i].Mode+1+mod(e.B, 2), 3)
			case "r-sub-interval":
				r.Subs[i].Sample++
			case "r-sub-heartbeat":
				r.Subs[i].Heartbeat++
			default:
				r.Subs[i].Suppress = !r.Subs[i].Suppress
			}
		case "r-sub-swap":
			i, j := -1, -1
			if len(r.Subs) > 1 {
				i = mod(e.A, len(r.Subs))
				ci := mustJSON(subNorm(r.Subs[i]))
				for d := 1; d < len(r.Subs); d++ {
					if k := (i + d) % len(r.Subs); mustJSON(subNorm(r.Subs[k])) != ci {
						j = k
						break
					}
				}
			}
			if j < 0 {
				kind = "r-sub-add"
				continue
			}
			r.Subs[i], r.Subs[j] = r.Subs[j], r.Subs[i]
		case "r-list-mode":
			r.Mode = mod(r.Mode+1+mod(e.A, 2), 3)
		case "r-encoding":
			r.Encoding = mod(r.Encoding+1+mod(e.A, 4), 5)
		case "r-updates-only":
			r.UpdatesOnly = !r.UpdatesOnly
		case "r-allow-agg":
			r.AllowAgg = !r.AllowAgg
		case "r-qos":
			// an unset marking and a set marking of 0 are not told apart by an edit
			if !r.HasQos || r.Qos == 0 {
				r.HasQos, r.Qos = true, 5+uint32(mod(e.A, 50))
			} else {
				r.Qos++
			}
		case "r-prefix-target", "r-prefix-origin":
			if r.Prefix == nil {
				r.Prefix = &PathSpec{}
			}
			if kind == "r-prefix-target" {
				r.Prefix.Target += "t"
			} else {
				r.Prefix.Origin += "o"
			}
		case "r-model-add":
			r.Models = append(r.Models, ModelSpec{Name: "openconfig-" + e.S, Org: "OpenConfig working group", Version: "1.0." + fmt.Sprint(mod(e.A, 10))})
		case "r-ext":
			r.Ext = append(r.Ext, ExtSpec{Kind: mod(e.A, 3), ID: 1 + int32(mod(e.B, 5)), Msg: "m" + e.S, Role: "r" + e.S, Hi: 1, Lo: uint64(mod(e.B, 9)) + 1, Level: 1 + uint32(mod(e.B, 4))})
		case "r-kind":
			// subscription -> poll -> none -> subscription (with content)
			r.Kind = mod(r.Kind+1, 3)
			if r.Kind == 0 && canonReq(r) == canonReq(&ReqSpec{}) {
				r.Subs = []SubSpec{keyedSub(e.S)}
			}
		// the set of requests -------------------------------------------------
		case "r-rename":
			old, nu := c.Requests[ri].Name, c.freshRequest(e.S)
			c.Requests[ri].Name = nu
			for i := range c.Targets {
				if !c.Targets[i].Nil && c.Targets[i].T.Req == old {
					c.Targets[i].T.Req = nu
				}
			}
		case "r-add-unused":
			b := r.clone()
			if mod(e.A, 2) == 0 {
				b.Subs = append(b.Subs, keyedSub(e.S))
			}
			c.Requests = append(c.Requests, NamedReq{Name: c.freshRequest(e.S), Body: b})
		case "r-del-unused", "r-edit-unused":
			u := c.used()
			var free []int
			for i := range c.Requests {
				if !u[c.Requests[i].Name] {
					free = append(free, i)
				}
			}
			if len(free) == 0 {
				kind = "r-add-unused"
				continue
			}
			i := free[mod(e.A, len(free))]
			if kind == "r-del-unused" {
				c.Requests = append(c.Requests[:i:i], c.Requests[i+1:]...)
			} else {
				b := &c.Requests[i].Body
				b.Kind = 0
				b.Subs = append(b.Subs, keyedSub(e.S))
				c.Requests[i].Nil = false
			}
		case "r-nil":
			// The message of the request becomes nil. (Not for a request whose
			// message is empty: whether empty -> nil is a change is arguable.)
			if c.Requests[ri].Nil || emptyBody(r) {
				kind = "r-add-nil"
				continue
			}
			c.Requests[ri].Nil = true
		case "r-add-nil":
			c.Requests = append(c.Requests, NamedReq{Name: c.freshRequest(e.S), Nil: true, Body: ReqSpec{Subs: []SubSpec{keyedSub(e.S)}}})
		// the configuration ---------------------------------------------------
		case "c-instance":
			c.Instance += "i"
		case "c-meta-add":
			c.Meta = append(dedupe(c.Meta), KV{freshKey(c.Meta, e.S), "v"})
		case "c-meta-val":
			c.Meta = dedupe(c.Meta)
			if len(c.Meta) == 0 {
				kind = "c-meta-add"
				continue
			}
			c.Meta[mod(e.A, len(c.Meta))].V += "~"
		// invalid variants ----------------------------------------------------
		case "inv-no-address":
			t.Addrs = nil
		case "inv-missing-request":
			t.Req = ""
		case "inv-dangling-request":
			t.Req = c.freshRequest("ghost" + e.S)
		case "inv-empty-name":
			if c.hasTarget("") {
				kind = "inv-no-address"
				continue
			}
			c.Targets = append(c.Targets, NamedTgt{Name: "", T: t.clone()})
		case "inv-nil-target":
			c.Targets[ti] = NamedTgt{Name: c.Targets[ti].Name, Nil: true}
		default:
			return ""
		}
		return kind
	}
}

// applyBulk changes every stride-th request / target at once.
func applyBulk(c *RichConfig, e REdit, live []int) string {
	stride := 1 + mod(e.A, 3)
	switch e.Kind {
	case "bulk-req-edit":
		n := 0
		for i := range c.Requests {
			if i%stride != 0 {
				continue
			}
			if b := &c.Requests[i].Body; mod(b.Kind, 3) == 0 {
				b.UpdatesOnly = !b.UpdatesOnly
			} else {
				b.Ext = append(b.Ext, ExtSpec{Kind: 2, Level: 1 + uint32(mod(e.B, 4))})
			}
			n++
		}
		if n == 0 {
			return ""
		}
	case "bulk-tgt-edit":
		if len(live) == 0 {
			return ""
		}
		for k, i := range live {
			if k%stride == 0 {
				t := &c.Targets[i].T
				t.Meta = append(dedupe(t.Meta), KV{freshKey(t.Meta, "bulk"+e.S), "1"})
			}
		}
	case "bulk-tgt-del":
		if len(c.Targets) == 0 {
			return ""
		}
		var keep []NamedTgt
		for i := range c.Targets {
			if i%(stride+1) != 0 {
				keep = append(keep, c.Targets[i])
			}
		}
		c.Targets = keep
	case "bulk-tgt-add":
		if len(live) == 0 {
			return ""
		}
		src := c.Targets[live[mod(e.T, len(live))]].T
		for k, n := 0, 1+mod(e.B*7+e.A, 40); k < n; k++ {
			c.Targets = append(c.Targets, NamedTgt{Name: c.freshTarget(fmt.Sprintf("bulk%s-%d", e.S, k)), T: src.clone()})
		}
	default:
		return ""
	}
	return e.Kind
}

func subNorm(s SubSpec) SubSpec {
	s.Path = normPath(s.Path)
	s.Mode = mod(s.Mode, 3)
	return s
}

// swapVals exchanges the values of two entries with different values
// (the keys and the multiset of values stay, the association changes).
func swapVals(kvs []KV, a int) bool {
	if len(kvs) < 2 {
		return false
	}
	i := mod(a, len(kvs))
	for d := 1; d < len(kvs); d++ {
		if j := (i + d) % len(kvs); kvs[j].V != kvs[i].V {
			kvs[i].V, kvs[j].V = kvs[j].V, kvs[i].V
			return true
		}
	}
	return false
}

// Scenario ---------------------------------------------------------------------------

// Reload says in which representation one load is handed over.
type Reload struct {
	Form int `json:"form"`
	Perm int `json:"perm,omitempty"`
}

// RStep is a group of loads: the first one is the current configuration with
// Edits applied and revision current+RevStep; every further one is the then
// current configuration again, unchanged, with revision current+1.
type RStep struct {
	Edits   []REdit  `json:"edits,omitempty"`
	RevStep int64    `json:"rev_step"`
	Reloads []Reload `json:"reloads"`
}

// RichScenario is a whole case of the reload part.
type RichScenario struct {
	// Base: Init is handed to NewConfigWithBase; otherwise NewConfig is used
	// and Init is the first load (in representation InitForm).
	Base     bool        `json:"base,omitempty"`
	Init     *RichConfig `json:"init"`
	InitForm Reload      `json:"init_form"`
	Steps    []RStep     `json:"steps"`
	// Unset: the callbacks of target.Handler the consumer leaves nil, letters
	// out of "aud" (consumer.go); "" = all three registered.
	Unset string `json:"unset,omitempty"`
}

type rstats struct {
	targets, requests                        int
	maxKeysUsed, maxKeysAny                  int // most keys in one path element (of a request some target uses / of any request)
	maxTgtMeta, maxCfgMeta                   int
	multiKeyUsedRequests                     int
	identical, identicalMultiKey             int // accepted reloads of an identical configuration (with a used multi-key request)
	accepted, rejected                       int
	forms                                    map[string]bool
	edits                                    map[string]bool
	oneUpdate, fanout, silentEdit            bool
	deleteAndAdd, rejStale, rejInvalid       bool
	rejectedBetweenAccepted, pendingReject   bool
	bodyEditWithRepointOrRemove              bool
	unusualName, nearNames, emptyRequestName bool
	withBase                                 bool
	// requests listed with a nil message
	nilReqUsed, nilReqUnused, nilReqUsedNow bool // (Now: in the current configuration)
	identicalNilUsed                        int  // accepted identical reloads while a target uses a nil request
	nilForms                                map[string]bool
	addUsesNil, updUsesNil, delUsedNil      bool
	nilCallAmongOthers                      bool
	// modelDisagreement: the plain-data notion of "unchanged" and proto.Equal
	// on the reference messages disagreed (a flaw of this harness, never seen);
	// the case is not judged from there on.
	modelDisagreement string

	// the shape of the consumer (consumer.go)
	cons consumerStats
}

func (s *rstats) nontrivial() bool { return s.bodyEditWithRepointOrRemove || s.rejectedBetweenAccepted }

func (s *rstats) labels() []string {
	var l []string
	add := func(b bool, n string) {
		if b {
			l = append(l, n)
		}
	}
	switch {
	case s.targets >= 50:
		l = append(l, "size:50-300-targets")
	case s.targets >= 9:
		l = append(l, "size:9-49-targets")
	default:
		l = append(l, "size:0-8-targets")
	}
	add(s.requests >= 50, "50-or-more-requests")
	add(s.maxKeysUsed >= 2, "used-request-has-element-with-2+-keys")
	add(s.maxKeysUsed >= 4, "used-request-has-element-with-4+-keys")
	add(s.maxKeysAny >= 2 && s.maxKeysUsed < 2, "only-unused-request-has-multi-key-element")
	add(s.maxKeysAny < 2, "no-multi-key-element")
	add(s.maxTgtMeta >= 2, "target-meta-with-2+-entries")
	add(s.maxCfgMeta >= 2, "config-meta-with-2+-entries")
	add(s.identical >= 5, "5+-identical-reloads")
	add(s.identical >= 20, "20+-identical-reloads")
	add(s.identical >= 100, "100+-identical-reloads")
	add(s.identicalMultiKey >= 10, "10+-identical-reloads-with-used-multi-key-request")
	for _, f := range formNames {
		add(s.forms[f], "form:"+f)
	}
	var ks []string
	for k := range s.edits {
		ks = append(ks, k)
	}
	sort.Strings(ks)
	for _, k := range ks {
		l = append(l, "edit:"+k)
	}
	add(s.oneUpdate, "edit-of-one-target-exactly-one-update")
	add(s.fanout, "request-edit-updates-2+-targets")
	add(s.silentEdit, "accepted-edit-without-calls")
	add(s.deleteAndAdd, "delete-and-add-in-one-load")
	add(s.rejStale, "rejected-revision")
	add(s.rejInvalid, "rejected-invalid")
	add(s.rejectedBetweenAccepted, "rejected-between-accepted")
	add(s.bodyEditWithRepointOrRemove, "body-edit-and-repoint-or-remove-in-one-revision")
	add(s.unusualName, "unusual-characters-in-names")
	add(s.nearNames, "names-equal-after-folding-or-trimming")
	add(s.emptyRequestName, "request-named-empty-string")
	add(s.withBase, "with-base")
	add(s.nilReqUsed, "nil-request-used-by-a-target")
	add(s.nilReqUnused, "nil-request-unused")
	add(s.identicalNilUsed >= 5, "5+-identical-reloads-with-used-nil-request")
	add(len(s.nilForms) >= 6, "used-nil-request-reloaded-in-6+-representations")
	add(s.addUsesNil, "added-target-uses-nil-request")
	add(s.updUsesNil, "updated-target-uses-nil-request")
	add(s.delUsedNil, "deleted-target-used-nil-request")
	add(s.nilCallAmongOthers, "call-with-nil-request-and-calls-for-other-targets-in-one-load")
	add(s.modelDisagreement != "", "excluded:model-disagreement")
	l = append(l, s.cons.labels()...)
	return l
}

func foldName(n string) string {
	n = strings.Map(func(r rune) rune {
		switch r {
		case '\u200b', '\x00', '\u0301', '\u202e':
			return -1
		}
		return r
	}, n)
	return strings.ToLower(strings.Trim(n, " \t\n/"))
}

func plainName(n string) bool {
	for _, r := range n {
		if !(r >= 'a' && r <= 'z' || r >= 'A' && r <= 'Z' || r >= '0' && r <= '9' || r == '-' || r == '_') {
			return false
		}
	}
	return n != ""
}

// measure fills the size / content figures of st from c.
func (st *rstats) measure(c *RichConfig) {
	if len(c.Targets) > st.targets {
		st.targets = len(c.Targets)
	}
	if len(c.Requests) > st.requests {
		st.requests = len(c.Requests)
	}
	if n := len(dedupe(c.Meta)); n > st.maxCfgMeta {
		st.maxCfgMeta = n
	}
	used := c.used()
	folded := map[string]bool{}
	for i := range c.Targets {
		t := &c.Targets[i]
		if n := len(dedupe(t.T.Meta)); n > st.maxTgtMeta {
			st.maxTgtMeta = n
		}
		if !plainName(t.Name) {
			st.unusualName = true
		}
		f := foldName(t.Name)
		if folded[f] {
			st.nearNames = true
		}
		folded[f] = true
	}
	st.multiKeyUsedRequests = 0
	st.nilReqUsedNow = false
	for i := range c.Requests {
		r := &c.Requests[i]
		if r.Name == "" {
			st.emptyRequestName = true
		}
		if !plainName(r.Name) {
			st.unusualName = true
		}
		if r.Nil {
			if used[r.Name] {
				st.nilReqUsedNow = true
				st.nilReqUsed = true
			} else {
				st.nilReqUnused = true
			}
			continue
		}
		if mod(r.Body.Kind, 3) != 0 {
			continue
		}
		mk := 0
		for _, x := range r.Body.elems(0) {
			if n := len(dedupe(x.p.Elems[x.i].Keys)); n > mk {
				mk = n
			}
		}
		if mk > st.maxKeysAny {
			st.maxKeysAny = mk
		}
		if used[r.Name] {
			if mk > st.maxKeysUsed {
				st.maxKeysUsed = mk
			}
			if mk >= 2 {
				st.multiKeyUsedRequests++
			}
		}
	}
}

// Execution ----------------------------------------------------------------------------

func shortCalls(cs []string) string {
	const max = 12
	if len(cs) > max {
		return fmt.Sprintf("[%s ... %d in total]", strings.Join(cs[:max], " "), len(cs))
	}
	return "[" + strings.Join(cs, " ") + "]"
}

func describeRich(c *RichConfig) string {
	if c == nil {
		return "<none>"
	}
	s := mustJSON(c)
	if len(s) > 1500 {
		s = s[:1500] + fmt.Sprintf("... (%d targets, %d requests)", len(c.Targets), len(c.Requests))
	}
	return s
}

var errNotJudged = fmt.Errorf("not judged")

// runRich executes sc against a fresh target.Config. Apart from the map
// iteration order inside the code under test it is a pure function of sc.
func runRich(sc *RichScenario) (st rstats, err error) {
	defer func() {
		if r := recover(); r != nil {
			err = vio("panic", "panic: %v", r)
		}
	}()
	st.forms, st.edits, st.nilForms = map[string]bool{}, map[string]bool{}, map[string]bool{}
	if sc.Init == nil {
		return st, vio("bad-scenario", "bad scenario: no initial configuration")
	}
	if r := richInvalid(sc.Init); len(r) > 0 {
		return st, vio("bad-scenario", "bad scenario: initial configuration is invalid (%v)", r)
	}

	reg, perr := parseUnset(sc.Unset)
	if perr != nil {
		return st, vio("bad-scenario", "%v", perr)
	}
	st.cons.reg, st.cons.ctor = reg, "NewConfig"
	var calls []call
	h := reg.handler(func(c call) { calls = append(calls, c) })

	var (
		cfg      *target.Config
		cur      *RichConfig // model: current configuration
		curSnap  = snapshot(nil)
		curRef   *pb.Configuration // plain representation of cur
		replayed = map[string]entry{}
		fc       = &formCtx{}
	)
	fc.current = func() *pb.Configuration { return cfg.Current() }

	type pending struct {
		spec   *RichConfig
		reload Reload
		edits  []string
		step   int
		rep    int
	}
	var queue []pending
	if sc.Base {
		st.withBase = true
		msg := sc.Init.build()
		c, cerr := target.NewConfigWithBase(h, msg)
		if cerr != nil || c == nil {
			return st, vio("constructor", "NewConfigWithBase(h, valid base %s) = %v, %v", describeRich(sc.Init), c, cerr)
		}
		if len(calls) != 0 {
			return st, vio("constructor", "constructing the Config ran handlers")
		}
		cfg = c
		cur = sc.Init.clone()
		curSnap = snapshot(cur)
		curRef = cur.build()
		replayed = view(cur.build())
		st.cons.ctor = "base-without-targets"
		if len(cur.Targets) > 0 {
			st.cons.ctor = "base-with-targets"
		}
		fc.prevMsg, fc.prevSnap, fc.prevRev = msg, curSnap, cur.Rev
		st.measure(cur)
	} else {
		cfg = target.NewConfig(h)
	}

	// one load -----------------------------------------------------------------------
	load := func(p pending) error {
		spec := p.spec
		ns := curSnap
		changed := len(p.edits) > 0 || cur == nil
		if changed {
			ns = snapshot(spec)
		}
		reasons := richInvalid(spec)
		valid := len(reasons) == 0
		revOK := cur == nil || spec.Rev > cur.Rev
		want := valid && revOK

		// ref is the plain representation; it is never handed to the code under test.
		ref := spec.build()
		msg, form, ferr := buildForm(spec, ns, p.reload.Form, p.reload.Perm, fc)
		if ferr != nil || msg == nil || (form != "fresh" && !proto.Equal(msg, ref)) {
			// The representation could not be produced (a harness matter, not a verdict): use the plain one.
			msg, form = spec.build(), "fallback-to-fresh"
		}
		st.forms[form] = true
		if changed && cur != nil {
			// Cross-check the reference notion of "unchanged" (plain data) with
			// proto.Equal on the plain representations; if they ever disagree the
			// case is not judged.
			for n, oc := range curSnap.req {
				if nc, ok := ns.req[n]; ok && (oc == nc) != sameRequest(curRef.Request[n], ref.Request[n]) {
					st.modelDisagreement = fmt.Sprintf("request %q", n)
				}
			}
			for n, oc := range curSnap.tgt {
				if nc, ok := ns.tgt[n]; ok && (oc == nc) != sameTarget(curRef.Target[n], ref.Target[n]) {
					st.modelDisagreement = fmt.Sprintf("target %q", n)
				}
			}
			if st.modelDisagreement != "" {
				return errNotJudged
			}
		}
		if verr := target.Validate(msg); (verr == nil) != valid {
			return vio("validate-mismatch", "step %d load %d: Validate returned an error: %v; the reference predicate says invalid reasons = %v; configuration %s", p.step, p.rep, verr != nil, reasons, describeRich(spec))
		}

		var before *pb.Configuration
		if !want {
			before = cfg.Current()
		}
		calls = nil
		gerr := cfg.Load(msg)
		got := append([]call(nil), calls...)
		sort.Slice(got, func(a, b int) bool {
			if got[a].name != got[b].name {
				return got[a].name < got[b].name
			}
			return got[a].kind < got[b].kind
		})
		var gotS []string
		for _, c := range got {
			gotS = append(gotS, c.String())
		}
		sort.Strings(gotS) // the order expectedCalls uses
		after := cfg.Current()

		desc := fmt.Sprintf("step %d load %d (representation %q, edits %v, revision %d -> %d)", p.step, p.rep, form, p.edits, fc.prevRev, spec.Rev)
		if !reg.all() {
			desc = fmt.Sprintf("step %d load %d (consumer registered {%s}, representation %q, edits %v, revision %d -> %d)", p.step, p.rep, reg, form, p.edits, fc.prevRev, spec.Rev)
		}
		if (gerr == nil) != want {
			var ran string
			if gerr != nil && len(got) > 0 {
				ran = fmt.Sprintf("; the load that returned this error had already run handlers %s", shortCalls(gotS))
			}
			return vio("gate", "%s: Load returned %v; expected accepted=%v (valid=%v %v, revision strictly greater or no current configuration=%v)%s; loaded %s", desc, gerr, want, valid, reasons, revOK, ran, describeRich(spec))
		}
		if !want {
			st.rejected++
			if len(got) > 0 {
				return vio("rejected-load-ran-handlers", "%s: rejected load ran handlers %s", desc, shortCalls(gotS))
			}
			if !sameConfig(before, after) {
				return vio("rejected-load-changed-current", "%s: rejected load changed Current()", desc)
			}
			if !valid {
				st.rejInvalid = true
			} else {
				st.rejStale = true
			}
			if st.accepted > 0 {
				st.pendingReject = true
			}
			return nil
		}

		// accepted
		st.accepted++
		if st.pendingReject {
			st.rejectedBetweenAccepted = true
		}
		// The difference of the two configurations, projected onto the kinds of
		// call the consumer registered (all of it for the consumer with all three).
		full := expectedCalls(curSnap, ns)
		exp, proj := full, projection{dropped: map[string]bool{}}
		if !reg.all() {
			exp = nil
			for _, e := range full {
				if k := e[:strings.IndexByte(e, '(')]; reg.has(k) {
					exp = append(exp, e)
				} else {
					proj.dropped[k] = true
				}
			}
		}
		proj.announced = len(exp)
		if strings.Join(exp, " ") != strings.Join(gotS, " ") {
			class, what := "wrong-calls", "the handler calls are not the difference between the two configurations"
			if !reg.all() {
				what = fmt.Sprintf("the handler calls are not the difference between the two configurations restricted to what the consumer registered {%s}", reg)
			}
			if len(full) == 0 {
				class, what = "call-for-unchanged-target", "the loaded configuration has exactly the targets, settings and requests of the current one, but handlers ran"
			} else {
				expSet := map[string]bool{}
				for _, e := range exp {
					expSet[e] = true
				}
				for _, g := range gotS {
					if !expSet[g] {
						class = "unexpected-call"
					}
				}
			}
			return vio(class, "%s: %s: got %s, expected %s; current %s; loaded %s", desc, what, shortCalls(gotS), shortCalls(exp), describeRich(cur), describeRich(spec))
		}
		if !sameConfig(after, ref) {
			return vio("current-is-not-loaded-config", "%s: accepted, but Current() is not the loaded configuration: {%v}", desc, after)
		}
		for _, c := range got {
			switch c.kind {
			case "add", "update":
				replayed[c.name] = entry{c.tgt, c.req}
				if !reg.all() {
					// no replay for a subset: the call must carry what the loaded configuration has for the name
					wt := ref.GetTarget()[c.name]
					wr := ref.GetRequest()[wt.GetRequest()]
					if !sameTarget(c.tgt, wt) || (wr == nil && !noContent(c.req)) || (wr != nil && !sameRequest(c.req, wr)) {
						return vio("call-content", "%s: %s carried settings {%v} and request {%v}; the loaded configuration has {%v} and {%v}", desc, c, c.tgt, c.req, wt, wr)
					}
				}
			case "delete":
				delete(replayed, c.name)
			}
		}
		if cur != nil {
			for n, nt := range ns.tgt {
				if ot, ok := curSnap.tgt[n]; ok && ot == nt && curSnap.req[curSnap.use[n]] == ns.req[ns.use[n]] {
					proj.silent++
					break // (evidence only: one is enough)
				}
			}
		}
		st.cons.noteRich(proj, len(full))
		// (An identical reload without calls leaves both sides of this comparison as they were.)
		// The replay needs every kind of call: consumer with all three only.
		if reg.all() && (changed || len(got) > 0) {
			nilNew := spec.nilRequestTargets()
			if len(nilNew) > 0 || st.nilReqUsedNow {
				nilOld, withNil := map[string]bool{}, 0
				if cur != nil {
					nilOld = cur.nilRequestTargets()
				}
				for _, c := range got {
					switch {
					case c.kind == "add" && nilNew[c.name]:
						st.addUsesNil = true
						withNil++
					case c.kind == "update" && nilNew[c.name]:
						st.updUsesNil = true
						withNil++
					case c.kind == "delete" && nilOld[c.name]:
						st.delUsedNil = true
						withNil++
					}
				}
				if withNil > 0 && len(got) > 1 {
					st.nilCallAmongOthers = true
				}
			}
			if d := diffViews(replayed, view(after), nilNew); d != "" {
				return vio("replay-mismatch", "%s: replaying the handler calls %s does not yield Current(): %s", desc, shortCalls(gotS), d)
			}
		}

		// statistics
		if cur != nil && !changed {
			st.identical++
			if st.multiKeyUsedRequests > 0 {
				st.identicalMultiKey++
			}
			if st.nilReqUsedNow {
				st.identicalNilUsed++
				st.nilForms[form] = true
			}
		}
		if changed && cur != nil {
			nUpd, nAdd, nDel := 0, 0, 0
			for _, c := range got {
				switch c.kind {
				case "update":
					nUpd++
				case "add":
					nAdd++
				default:
					nDel++
				}
			}
			bodyChanged, repointedOrRemoved := false, nDel > 0
			for n, b := range curSnap.req {
				if nb, ok := ns.req[n]; ok && nb != b {
					bodyChanged = true
				}
			}
			for n, r := range curSnap.use {
				if nr, ok := ns.use[n]; ok && nr != r {
					repointedOrRemoved = true
				}
			}
			if bodyChanged && repointedOrRemoved {
				st.bodyEditWithRepointOrRemove = true
			}
			tgtEdit, reqEdit := false, false
			for _, k := range p.edits {
				tgtEdit = tgtEdit || strings.HasPrefix(k, "t-")
				reqEdit = reqEdit || strings.HasPrefix(k, "r-")
			}
			if len(p.edits) == 1 && tgtEdit && nUpd == 1 && len(got) == 1 && len(ns.tgt) > 1 {
				st.oneUpdate = true
			}
			if reqEdit && nUpd >= 2 {
				st.fanout = true
			}
			if len(got) == 0 {
				st.silentEdit = true
			}
			if nAdd > 0 && nDel > 0 {
				st.deleteAndAdd = true
			}
		}
		cur, curSnap, curRef = spec, ns, ref
		fc.prevMsg, fc.prevSnap, fc.prevRev = msg, ns, spec.Rev
		if changed {
			st.measure(cur)
		}
		return nil
	}

	if !sc.Base {
		queue = append(queue, pending{spec: sc.Init.clone(), reload: sc.InitForm, step: -1})
	}
	for _, p := range queue {
		if err := load(p); err != nil {
			if err == errNotJudged {
				err = nil
			}
			return st, err
		}
	}
	for si, step := range sc.Steps {
		for ri, rl := range step.Reloads {
			var spec *RichConfig
			var applied []string
			if ri == 0 && (len(step.Edits) > 0 || step.RevStep != 1) {
				spec = cur.clone()
				for _, e := range step.Edits {
					if k := applyRich(spec, e); k != "" {
						applied = append(applied, k)
						st.edits[k] = true
					}
				}
				spec.Rev = cur.Rev + step.RevStep
				if len(applied) == 0 {
					applied = nil
				}
			} else {
				// the identical configuration again: a new plain-data copy is
				// not needed, only the revision differs
				cp := *cur
				cp.Rev = cur.Rev + 1
				spec = &cp
			}
			if err := load(pending{spec: spec, reload: rl, edits: applied, step: si, rep: ri}); err != nil {
				if err == errNotJudged {
					err = nil
				}
				return st, err
			}
		}
	}
	return st, nil
}
