package targetprop

import (
	"fmt"
	"sort"
	"strings"

	"google.golang.org/protobuf/proto"

	gpb "github.com/openconfig/gnmi/proto/gnmi"
	pb "github.com/openconfig/gnmi/proto/target"
	"github.com/openconfig/gnmi/target"
)

// violation is an oracle failure with the class of the demand it breaks.
type violation struct{ class, msg string }

func (v *violation) Error() string { return v.msg }

func vio(class, format string, a ...any) error {
	return &violation{class, fmt.Sprintf(format, a...)}
}

func failClass(err error) string {
	if v, ok := err.(*violation); ok {
		return v.class
	}
	return "model-mismatch"
}

// call is one recorded handler invocation (messages cloned at call time).
type call struct {
	kind string // add | update | delete
	name string
	tgt  *pb.Target
	req  *gpb.SubscribeRequest
}

func (c call) String() string { return c.kind + "(" + fmt.Sprintf("%q", c.name) + ")" }

// entry is what a consumer of the handler calls knows about one target.
type entry struct {
	tgt *pb.Target
	req *gpb.SubscribeRequest
}

type stats struct {
	loads, accepted                                 int
	rejInvalid, rejRevision, rejBoth, rejNil        bool
	invalidKinds                                    map[string]bool
	equalRev, lowerRev                              bool
	firstAnyRev                                     bool // first load accepted with a revision <= 0 (no current configuration)
	bodyEdit, bodyEditUsed, bodyEditUnused          bool
	reqRename, reqDropped, reqAdded                 bool
	tgtAdded, tgtRemoved, tgtRepointed, tgtSettings bool
	unchangedNoCall                                 bool
	acceptedNoCalls                                 bool // accepted load without any handler call
	multiChange                                     bool // >=3 handler calls in one load
	withBase, nilBase, fullLoad                     bool
	bodyEditWithRepointOrRemove                     bool // non-trivial clause 1
	rejectedBetweenAccepted                         bool // non-trivial clause 2
	seenAccepted, pendingReject                     bool
	sawAdd, sawUpdate, sawDelete                    bool
	updateByBodyOnly, repointSameBody, emptiedConf  bool

	// degenerate but valid shapes
	nilReqUsed, nilReqUnused, nilReqInBase         bool // an accepted configuration (the base) lists a nil request that is used / unused
	nilReqStable                                   bool // unchanged target on an unchanged nil request: no call
	nilReqStableAmongCalls                         bool // ... in a load that announced something for other targets
	addUsesNil, updUsesNil, delUsedNil             bool // the announced target refers (referred) to a nil request
	nilCallAmongOthers                             bool // ... and the same load announced something for another target as well
	nilIntroduced, nilRemoved                      bool // a used request became nil / stopped being nil under the same name
	rejectedWithNil                                bool // a rejected load carried a nil request that a target uses
	emptyReqUsed, emptyCredUsed                    bool
	reprEmptyMaps, reprNilInner, emptyMapsNoTarget bool
	reprText                                       bool

	// part "edges"
	edges                          bool
	edge                           map[string]bool // labels of the edge values offered and what became of them
	edgeCombined, edgeValidApplied bool

	// the shape of the consumer (consumer.go)
	cons consumerStats
}

// nontrivial is the rule of DESIGN.md: an accepted load that changes a
// request body and re-points or removes a target in the same revision, or a
// rejected load between two accepted ones.
//
// Part "edges" has its own rule: some offered configuration combined an
// invalidating edge value with a second edge value (invalidating or harmless)
// and some load was applied.
func (s *stats) nontrivial() bool {
	if s.edges {
		return s.edgeCombined && s.accepted > 0
	}
	return s.bodyEditWithRepointOrRemove || s.rejectedBetweenAccepted
}

func (s *stats) labels() []string {
	var l []string
	add := func(b bool, n string) {
		if b {
			l = append(l, n)
		}
	}
	add(s.accepted > 0, "accepted-load")
	add(s.accepted >= 3, "three-or-more-accepted-loads")
	add(s.rejInvalid, "rejected-invalid")
	add(s.rejRevision, "rejected-revision")
	add(s.rejBoth, "rejected-invalid-and-stale-revision")
	add(s.rejNil, "rejected-nil-config")
	var ks []string
	for k := range s.invalidKinds {
		ks = append(ks, k)
	}
	sort.Strings(ks)
	for _, k := range ks {
		l = append(l, "invalid-"+k)
	}
	add(s.equalRev, "equal-revision-rejected")
	add(s.lowerRev, "lower-revision-rejected")
	add(s.firstAnyRev, "first-load-nonpositive-revision-accepted")
	add(s.bodyEdit, "request-body-edit")
	add(s.bodyEditUsed, "request-body-edit-of-used-request")
	add(s.bodyEditUnused, "request-body-edit-of-unused-request")
	add(s.updateByBodyOnly, "update-caused-by-body-edit-only")
	add(s.reqRename, "request-rename")
	add(s.reqDropped, "request-dropped")
	add(s.reqAdded, "request-added")
	add(s.tgtAdded, "target-added")
	add(s.tgtRemoved, "target-removed")
	add(s.tgtRepointed, "target-repointed")
	add(s.repointSameBody, "target-repointed-to-equal-body")
	add(s.tgtSettings, "target-settings-edit")
	add(s.unchangedNoCall, "unchanged-target-no-call")
	add(s.acceptedNoCalls, "accepted-load-without-calls")
	add(s.multiChange, "three-or-more-calls-in-one-load")
	add(s.emptiedConf, "all-targets-removed")
	add(s.withBase, "with-base")
	add(s.nilBase, "with-nil-base")
	add(s.fullLoad, "full-configuration-load")
	add(s.sawAdd, "handler-add")
	add(s.sawUpdate, "handler-update")
	add(s.sawDelete, "handler-delete")
	add(s.bodyEditWithRepointOrRemove, "body-edit-and-repoint-or-remove-in-one-revision")
	add(s.rejectedBetweenAccepted, "rejected-between-accepted")
	add(s.nilReqUsed, "nil-request-used-by-a-target")
	add(s.nilReqUnused, "nil-request-unused")
	add(s.nilReqInBase, "nil-request-in-base")
	add(s.nilReqStable, "unchanged-target-on-nil-request-no-call")
	add(s.nilReqStableAmongCalls, "unchanged-target-on-nil-request-while-others-announced")
	add(s.addUsesNil, "added-target-uses-nil-request")
	add(s.updUsesNil, "updated-target-uses-nil-request")
	add(s.delUsedNil, "deleted-target-used-nil-request")
	add(s.nilCallAmongOthers, "call-with-nil-request-and-calls-for-other-targets-in-one-load")
	add(s.nilIntroduced, "used-request-becomes-nil")
	add(s.nilRemoved, "used-request-stops-being-nil")
	add(s.rejectedWithNil, "rejected-load-with-used-nil-request")
	add(s.emptyReqUsed, "empty-request-message-used")
	add(s.emptyCredUsed, "empty-credentials-message")
	add(s.reprEmptyMaps, "repr-empty-maps-non-nil")
	add(s.emptyMapsNoTarget, "repr-empty-target-map-non-nil")
	add(s.reprNilInner, "repr-oneof-wrapper-with-nil-message")
	add(s.reprText, "repr-text-format-round-trip")
	var es []string
	for k := range s.edge {
		es = append(es, k)
	}
	sort.Strings(es)
	l = append(l, es...)
	l = append(l, s.cons.labels()...)
	return l
}

// view returns name -> (target, referenced request body) of a configuration.
func view(cfg *pb.Configuration) map[string]entry {
	out := map[string]entry{}
	for n, t := range cfg.GetTarget() {
		out[n] = entry{tgt: t, req: cfg.GetRequest()[t.GetRequest()]}
	}
	return out
}

func sameMsg(a, b proto.Message, aNil, bNil bool) bool {
	if aNil || bNil {
		return aNil && bNil
	}
	return proto.Equal(a, b)
}

func sameTarget(a, b *pb.Target) bool { return sameMsg(a, b, a == nil, b == nil) }
func sameRequest(a, b *gpb.SubscribeRequest) bool {
	return sameMsg(a, b, a == nil, b == nil)
}
func sameConfig(a, b *pb.Configuration) bool { return sameMsg(a, b, a == nil, b == nil) }

// noContent: a nil request or one equal to the empty message.
func noContent(r *gpb.SubscribeRequest) bool {
	return r == nil || proto.Equal(r, &gpb.SubscribeRequest{})
}

// diffViews describes how two views differ ("" if equal); deterministic.
// nilReq names the targets whose request is, by the reference model, listed
// with a nil message: Current() returns a copy, and copying turns a nil map
// value into an empty message, so for exactly those targets "nil" and "empty
// message" both stand for the request. Everywhere else nil and empty differ.
func diffViews(got, want map[string]entry, nilReq map[string]bool) string {
	names := map[string]bool{}
	for n := range got {
		names[n] = true
	}
	for n := range want {
		names[n] = true
	}
	var ns []string
	for n := range names {
		ns = append(ns, n)
	}
	sort.Strings(ns)
	var d []string
	for _, n := range ns {
		g, okg := got[n]
		w, okw := want[n]
		switch {
		case !okg:
			d = append(d, fmt.Sprintf("target %q is in Current() but not in the replayed set", n))
		case !okw:
			d = append(d, fmt.Sprintf("target %q is in the replayed set but not in Current()", n))
		case !sameTarget(g.tgt, w.tgt):
			d = append(d, fmt.Sprintf("target %q: replayed settings {%v} != Current() settings {%v}", n, g.tgt, w.tgt))
		case nilReq[n]:
			if !noContent(g.req) || !noContent(w.req) {
				d = append(d, fmt.Sprintf("target %q refers to a request listed without a message: replayed request {%v}, request of Current() {%v}", n, g.req, w.req))
			}
		case !sameRequest(g.req, w.req):
			d = append(d, fmt.Sprintf("target %q: replayed request {%v} != request of Current() {%v}", n, g.req, w.req))
		}
	}
	return strings.Join(d, "; ")
}

// why names the reason a load must be rejected (deterministic, unlike the
// text of the error returned by Load, which depends on map iteration).
func why(spec *ConfigSpec, reasons []string, revOK bool) string {
	switch {
	case spec == nil:
		return "nil configuration"
	case len(reasons) > 0 && !revOK:
		return fmt.Sprintf("invalid %v and revision not strictly greater", reasons)
	case len(reasons) > 0:
		return fmt.Sprintf("invalid %v", reasons)
	}
	return "revision not strictly greater"
}

func callList(cs []call) string {
	var s []string
	for _, c := range cs {
		s = append(s, c.String())
	}
	return "[" + strings.Join(s, " ") + "]"
}

// run executes sc against a fresh target.Config and the reference model.
// It is a pure function of sc.
func run(sc *Scenario) (st stats, err error) {
	defer func() {
		if r := recover(); r != nil {
			err = vio("panic", "panic: %v", r)
		}
	}()
	st.invalidKinds = map[string]bool{}
	st.edges, st.edge = sc.Edges, map[string]bool{}

	// The consumer: any subset of the three callbacks, registered at construction.
	reg, perr := parseUnset(sc.Unset)
	if perr != nil {
		return st, vio("bad-scenario", "%v", perr)
	}
	st.cons.reg, st.cons.ctor = reg, "NewConfig"
	var calls []call
	h := reg.handler(func(c call) { calls = append(calls, c) })

	var (
		cfg      *target.Config
		cur      *ConfigSpec          // model: current configuration (base or last accepted load)
		curMsg   *pb.Configuration    // reference message of cur (never handed to the code under test)
		replayed = map[string]entry{} // handler calls applied to the initial set
	)
	switch sc.BaseMode {
	case "":
		cfg = target.NewConfig(h)
	case "nil":
		st.nilBase = true
		st.cons.ctor = "NewConfigWithBase-nil"
		c, cerr := target.NewConfigWithBase(h, nil)
		if cerr != nil || c == nil {
			return st, vio("constructor", "NewConfigWithBase(h, nil) = %v, %v", c, cerr)
		}
		cfg = c
	case "config":
		if sc.Base == nil {
			return st, vio("bad-scenario", "bad scenario: base_mode=config without base")
		}
		baseReasons, baseUnd := sc.Base.invalidReasons(), sc.Base.undecided(sc.Edges)
		if len(baseReasons) > 0 && !sc.Edges {
			return st, vio("bad-scenario", "bad scenario: base configuration is invalid (%v)", baseReasons)
		}
		c, cerr := target.NewConfigWithBase(h, sc.Base.buildRepr(sc.BaseRepr))
		switch {
		case len(baseReasons) > 0:
			// part "edges": the constructor is an entry point that validates
			if cerr == nil {
				return st, vio("gate", "NewConfigWithBase(h, %v) returned no error; the base is invalid %v", sc.Base, baseReasons)
			}
			st.edge["invalid-base-refused"] = true
		case len(baseUnd) > 0:
			st.edge["base-validity-not-judged"] = true
		case cerr != nil:
			return st, vio("constructor", "NewConfigWithBase(h, valid base %v) = %v, %v", sc.Base, c, cerr)
		}
		if cerr != nil {
			cfg = target.NewConfig(h)
			break
		}
		if c == nil {
			return st, vio("constructor", "NewConfigWithBase(h, base %v) returned no Config and no error", sc.Base)
		}
		st.withBase = true
		cfg = c
		cur = sc.Base.clone()
		curMsg = cur.build()
		replayed = view(cur.build())
		st.cons.ctor = "base-without-targets"
		if len(cur.Targets) > 0 {
			st.cons.ctor = "base-with-targets"
		}
		st.noteRepr(sc.BaseRepr, cur)
		if len(cur.nilRequestTargets()) > 0 {
			st.nilReqInBase = true
		}
		if sc.Edges {
			st.noteEdges(cur, nil, baseUnd, true, true)
		}
	default:
		return st, vio("bad-scenario", "bad scenario: base_mode %q", sc.BaseMode)
	}
	if len(calls) != 0 {
		return st, vio("constructor", "constructing the Config ran handlers %s", callList(calls))
	}

	for i, ld := range sc.Loads {
		spec, _ := materialise(cur, ld)
		st.loads++
		if ld.Full != nil {
			st.fullLoad = true
		}

		// Expected verdict, from the property statement: applied iff valid and
		// (there is no current configuration or the revision is strictly greater).
		// A configuration on which the documentation does not decide
		// (ConfigSpec.undecided) has no expected validity: the code's answer is
		// followed for that half of the gate and everything else is demanded.
		var reasons, und []string
		valid, decided := spec != nil, true
		if spec != nil {
			reasons, und = spec.invalidReasons(), spec.undecided(sc.Edges)
			valid = len(reasons) == 0
			decided = !valid || len(und) == 0
			// Cross-check the reference predicate with the package's own Validate
			// (part "edges" does it below, together with the other entry points,
			// after Load itself has been judged).
			if decided && !sc.Edges {
				if verr := target.Validate(spec.build()); (verr == nil) != valid {
					return st, vio("validate-mismatch", "load %d: Validate(%v) returned an error: %v; the reference predicate says invalid reasons = %v", i, spec, verr != nil, reasons)
				}
				if ld.Repr != 0 {
					if verr := target.Validate(spec.buildRepr(ld.Repr)); (verr == nil) != valid {
						return st, vio("validate-mismatch", "load %d: Validate(%v in representation %d) returned an error: %v; the reference predicate says invalid reasons = %v", i, spec, ld.Repr, verr != nil, reasons)
					}
				}
			}
		}
		revOK := spec != nil && (cur == nil || spec.Rev > cur.Rev)
		want := valid && revOK

		var in *pb.Configuration
		if spec != nil {
			in = spec.buildRepr(ld.Repr)
		}
		before := cfg.Current()
		calls = nil
		gerr := cfg.Load(in)
		// The order of the calls within one load is not part of the property
		// (it follows map iteration); sort so that run stays a pure function.
		got := append([]call(nil), calls...)
		sortCalls(got)
		after := cfg.Current()
		if !decided && revOK {
			valid = gerr == nil
			want = valid
		}

		desc := fmt.Sprintf("load %d (current=%v, loaded=%v)", i, cur, spec)
		if !reg.all() {
			desc = fmt.Sprintf("load %d (consumer registered {%s}, current=%v, loaded=%v)", i, reg, cur, spec)
		}
		if (gerr == nil) != want {
			var ran string
			if gerr != nil && len(got) > 0 {
				ran = fmt.Sprintf("; the load that returned this error had already run handlers %s and Current() unchanged=%v", callList(got), sameConfig(before, after))
			}
			if gerr == nil && len(got) > 0 {
				ran = fmt.Sprintf("; it ran handlers %s and Current() unchanged=%v", callList(got), sameConfig(before, after))
			}
			return st, vio("gate", "%s: Load returned %v; expected accepted=%v (%s, revision strictly greater or no current configuration=%v)%s", desc, gerr, want, describe(reasons, und), revOK, ran)
		}
		if sc.Edges && spec != nil {
			vOK, eerr := entryPoints(spec, ld.Repr, fmt.Sprintf("load %d (offered=%v, %s)", i, spec, describe(reasons, und)), reg)
			if eerr != nil {
				return st, eerr
			}
			if decided && vOK != valid {
				return st, vio("validate-mismatch", "load %d: Validate(%v) accepted=%v; the configuration is %s", i, spec, vOK, describe(reasons, und))
			}
			if !decided && revOK && vOK != (gerr == nil) {
				return st, vio("entry-points-disagree", "%s: Validate accepted=%v but Load with a strictly greater revision returned %v", desc, vOK, gerr)
			}
			st.noteEdges(spec, reasons, und, revOK, gerr == nil)
		}

		if !want {
			if len(got) > 0 {
				return st, vio("rejected-load-ran-handlers", "%s: rejected load (%s) ran handlers %s", desc, why(spec, reasons, revOK), callList(got))
			}
			if !sameConfig(before, after) {
				return st, vio("rejected-load-changed-current", "%s: rejected load (%s) changed Current(): before {%v} after {%v}", desc, why(spec, reasons, revOK), before, after)
			}
			switch {
			case spec == nil:
				st.rejNil = true
			case !valid && !revOK:
				st.rejBoth = true
				st.rejInvalid = true
			case !valid:
				st.rejInvalid = true
			default:
				st.rejRevision = true
				if spec.Rev == cur.Rev {
					st.equalRev = true
				} else {
					st.lowerRev = true
				}
			}
			for _, r := range reasons {
				st.invalidKinds[r] = true
			}
			if st.seenAccepted {
				st.pendingReject = true
			}
			if spec != nil && len(spec.nilRequestTargets()) > 0 {
				st.rejectedWithNil = true
			}
			continue
		}

		// Accepted ------------------------------------------------------------
		st.accepted++
		if st.pendingReject {
			st.rejectedBetweenAccepted = true
		}
		st.seenAccepted = true
		if cur == nil && spec.Rev <= 0 {
			st.firstAnyRev = true
		}

		// The loaded configuration is now the current one.
		specMsg := spec.build()
		if !sameConfig(after, specMsg) {
			return st, vio("current-is-not-loaded-config", "%s: accepted, but Current() = {%v}", desc, after)
		}

		// No name receives two calls in one load.
		perName := map[string]int{}
		for _, c := range got {
			perName[c.name]++
			if perName[c.name] > 1 {
				return st, vio("two-calls-for-one-name", "%s: target %q received more than one handler call in one load: %s", desc, c.name, callList(got))
			}
		}

		// Classify the change old -> new on the model (plain data).
		old := cur
		if old == nil {
			old = emptySpec()
		}
		var bodyChanged, repointed, removed bool
		usedOld := map[string]bool{}
		for _, t := range old.Targets {
			usedOld[t.Req] = true
		}
		for _, rn := range sortedRequests(old) {
			nb, ok := spec.Requests[rn]
			switch {
			case !ok:
				st.reqDropped = true
			case nb != old.Requests[rn]:
				bodyChanged = true
				if usedOld[rn] {
					st.bodyEditUsed = true
				} else {
					st.bodyEditUnused = true
				}
			}
		}
		for rn := range spec.Requests {
			if _, ok := old.Requests[rn]; !ok {
				st.reqAdded = true
			}
		}
		for _, n := range sortedTargets(old) {
			ot := old.Targets[n]
			nt, ok := spec.Targets[n]
			if !ok {
				removed = true
				continue
			}
			settingsSame := ot == nt
			bodySame := old.Requests[ot.Req] == spec.Requests[nt.Req]
			if ot.Req != nt.Req {
				repointed = true
				if bodySame {
					st.repointSameBody = true
				}
			}
			if !settingsSame {
				stripped := nt
				stripped.Req = ot.Req
				if stripped != ot {
					st.tgtSettings = true
				}
			}
			if settingsSame && !bodySame {
				st.updateByBodyOnly = true
			}
			if settingsSame && bodySame {
				// Unchanged settings and unchanged referenced request: no call.
				if perName[n] != 0 {
					return st, vio("call-for-unchanged-target", "%s: target %q has unchanged settings and an unchanged request but received a handler call: %s", desc, n, callList(got))
				}
				st.unchangedNoCall = true
			}
		}
		for n := range spec.Targets {
			if _, ok := old.Targets[n]; !ok {
				st.tgtAdded = true
			}
		}
		if bodyChanged {
			st.bodyEdit = true
		}
		if removed {
			st.tgtRemoved = true
			if len(spec.Targets) == 0 {
				st.emptiedConf = true
			}
		}
		if repointed {
			st.tgtRepointed = true
		}
		if bodyChanged && (repointed || removed) {
			st.bodyEditWithRepointOrRemove = true
		}
		// A rename: a request name disappears, a new name carries the same
		// body, and a target that used the old name now uses the new one.
		for _, n := range sortedTargets(old) {
			ot := old.Targets[n]
			nt, ok := spec.Targets[n]
			if !ok || ot.Req == nt.Req {
				continue
			}
			_, oldStill := spec.Requests[ot.Req]
			_, newWas := old.Requests[nt.Req]
			if !oldStill && !newWas && old.Requests[ot.Req] == spec.Requests[nt.Req] {
				st.reqRename = true
			}
		}
		if len(got) == 0 {
			st.acceptedNoCalls = true
		}
		if len(got) >= 3 {
			st.multiChange = true
		}

		// Replay the calls onto the set. Add announces a target that is not in
		// the set, Update and Delete one that is (Handler documentation:
		// "addition of a new target", "target modification", "a target being removed").
		// The replay needs every kind of call, so it is the oracle of the consumer
		// that registered all three; a subset is judged by the projection below.
		for _, c := range got {
			switch c.kind {
			case "add":
				st.sawAdd = true
			case "update":
				st.sawUpdate = true
			case "delete":
				st.sawDelete = true
			}
			if !reg.all() {
				continue
			}
			_, exists := replayed[c.name]
			switch c.kind {
			case "add":
				if exists {
					return st, vio("handler-kind", "%s: Add(%q) for a target that was already announced; calls %s", desc, c.name, callList(got))
				}
				replayed[c.name] = entry{c.tgt, c.req}
			case "update":
				if !exists {
					return st, vio("handler-kind", "%s: Update(%q) for a target that was never announced; calls %s", desc, c.name, callList(got))
				}
				replayed[c.name] = entry{c.tgt, c.req}
			case "delete":
				if !exists {
					return st, vio("handler-kind", "%s: Delete(%q) for a target that was never announced; calls %s", desc, c.name, callList(got))
				}
				delete(replayed, c.name)
			}
		}
		nilNew := spec.nilRequestTargets()
		if reg.all() {
			if d := diffViews(replayed, view(after), nilNew); d != "" {
				return st, vio("replay-mismatch", "%s: replaying the handler calls %s does not yield Current(): %s", desc, callList(got), d)
			}
		}
		// Every consumer: the calls are the full difference of the two
		// configurations projected onto the kinds it registered.
		wantDiff := expectedDiff(curMsg, specMsg)
		proj, perr := checkProjection(got, wantDiff, reg, curMsg, specMsg)
		if perr != nil {
			return st, vio(failClass(perr), "%s: %v", desc, perr)
		}
		st.cons.note(proj, wantDiff)
		st.noteDegenerate(old, spec, got, perName)
		st.noteRepr(ld.Repr, spec)
		cur, curMsg = spec, specMsg
	}
	return st, nil
}

// noteRepr records the representation a configuration was handed over in.
func (st *stats) noteRepr(repr int, spec *ConfigSpec) {
	if repr&reprEmptyMaps != 0 {
		st.reprEmptyMaps = true
		if len(spec.Targets) == 0 {
			st.emptyMapsNoTarget = true
		}
	}
	if repr&reprText != 0 && spec.textRepresentable() {
		st.reprText = true
	}
	if repr&reprNilInner != 0 {
		for _, b := range spec.Requests {
			if normBody(b) == 2 {
				st.reprNilInner = true
			}
		}
	}
}

// noteDegenerate records which of the degenerate-but-valid shapes an accepted
// load old -> spec (handler calls got) exercised.
func (st *stats) noteDegenerate(old, spec *ConfigSpec, got []call, perName map[string]int) {
	nilOld, nilNew := old.nilRequestTargets(), spec.nilRequestTargets()
	used := map[string]bool{}
	for _, t := range spec.Targets {
		used[t.Req] = true
		if normCred(t.Cred) == credEmpty {
			st.emptyCredUsed = true
		}
	}
	for rn, b := range spec.Requests {
		switch normBody(b) {
		case bodyNil:
			if used[rn] {
				st.nilReqUsed = true
			} else {
				st.nilReqUnused = true
			}
		case bodyEmpty:
			if used[rn] {
				st.emptyReqUsed = true
			}
		}
	}
	withNil := 0
	for _, c := range got {
		switch {
		case c.kind == "add" && nilNew[c.name]:
			st.addUsesNil = true
			withNil++
		case c.kind == "update" && nilNew[c.name]:
			st.updUsesNil = true
			withNil++
		case c.kind == "delete" && nilOld[c.name]:
			st.delUsedNil = true
			withNil++
		}
	}
	if withNil > 0 && len(got) > 1 {
		st.nilCallAmongOthers = true
	}
	for n := range nilNew {
		ot, ok := old.Targets[n]
		if !ok {
			continue
		}
		switch {
		case nilOld[n] && ot == spec.Targets[n] && perName[n] == 0:
			st.nilReqStable = true
			if len(got) > 0 {
				st.nilReqStableAmongCalls = true
			}
		case !nilOld[n] && ot.Req == spec.Targets[n].Req:
			st.nilIntroduced = true
		}
	}
	for n := range nilOld {
		if nt, ok := spec.Targets[n]; ok && !nilNew[n] && nt.Req == old.Targets[n].Req {
			st.nilRemoved = true
		}
	}
}

func cloneT(t *pb.Target) *pb.Target {
	if t == nil {
		return nil
	}
	return proto.Clone(t).(*pb.Target)
}

func cloneR(r *gpb.SubscribeRequest) *gpb.SubscribeRequest {
	if r == nil {
		return nil
	}
	return proto.Clone(r).(*gpb.SubscribeRequest)
}
