package targetprop

import (
	"encoding/json"
	"fmt"
	"strings"
	"testing"

	"pgregory.net/rapid"
	"verif/harness/internal/vstat"
)

// Pools of the reload part ------------------------------------------------------

// unusualNames are target / request names with characters that naive
// handling (trimming, case folding, splitting at separators, formatting,
// Unicode normalisation) would confuse; neighbours in the list collide under
// such handling.
var unusualNames = []string{
	"dev1", "Dev1", "DEV1", "dev1 ", " dev1", "dev1\t", "dev1\n", "dev1\x00", "dev1\u200b",
	"dev/1", "dev:1", "dev[1]", "dev[name=1]", "dev=1", "dev.1", "dev,1", "dev*", "*", "...", "/",
	"d\u00e9v1", "de\u0301v1", "дев1", "设备一", "\u202edev1", "dev\"1", "dev'1", "dev\\1",
	"%s%d", "dev1;rm", "<dev1>", "{dev1}", "dev|1", "dev#1", "dev?1", "dev&1", "dev@host",
	"router-1.example.com:9339", "[::1]:9339", "0", "-1", "true", "null", "target", "request",
	strings.Repeat("n", 300), "\U0001F600", "ß", "SS", "ss", "ı", "I", "i", "İ",
}

func init() {
	for _, p := range []string{"dev", "sub"} {
		seen := map[string]bool{}
		for i := 0; i < 400; i++ {
			n := nameOf(p, i)
			if n == "" || seen[n] {
				panic(fmt.Sprintf("name pool: %q is empty or not unique", n))
			}
			seen[n] = true
		}
	}
}

// nameOf maps an index to a name: the unusual ones first, then plain ones.
func nameOf(prefix string, i int) string {
	if i < len(unusualNames) {
		if prefix == "dev" {
			return unusualNames[i]
		}
		return strings.ReplaceAll(unusualNames[i], "dev", prefix)
	}
	return fmt.Sprintf("%s%d", prefix, i)
}

var (
	elemNames = []string{"interfaces", "interface", "state", "counters", "network-instances", "network-instance", "protocols", "protocol", "bgp", "neighbors", "neighbor", "afi-safis", "afi-safi", "", "a", "*", "...", "in-octets", "élément", "a/b", "a[b=c]"}
	keyNames  = []string{"name", "identifier", "id", "neighbor-address", "afi-safi-name", "index", "k", "K", "k ", "", "a.b", "a/b", "[x]", "=", "ключ", "key with space", "z", "y"}
	keyVals   = []string{"BGP", "bgp", "Ethernet1/1", "*", "", "1", "DEFAULT", "10.0.0.1", "2001:db8::1", "IPV4_UNICAST", "a=b]", "x y", "[", "\\]", "ü", "v", "0"}
	origins   = []string{"", "openconfig", "cli", "eos_native", "Openconfig", " openconfig"}
	ptargets  = []string{"", "dev1", "*", "t", "Dev1"}
	addrPoolR = []string{"10.0.0.1:6030", "10.0.0.2:6030", "192.168.0.3:9339", "[::1]:9339", "[2001:db8::1]:57400", "router-1.example.com:9339", "unix:///tmp/sock", "localhost:0", "10.0.0.1:6030 ", "dns:///r1:9339", "ü.example:1"}
	metaKeys  = []string{"site", "role", "vendor", "os", "rack", "", "Site", "site ", "k", "z", "к", "a.b", "password", "tier"}
	metaVals  = []string{"", "lab", "prod", "spine", "leaf", "arista", "cisco", "1", "true", "x y", "ü", "lab "}
	dialers   = []string{"", "tunnel", "custom dialer", "Ünï", "Tunnel"}
	users     = []string{"", "admin", "Admin", "u ser", "用户"}
	passwords = []string{"", "secret", "p@ss w0rd", "\x00"}
	passIDs   = []string{"", "id-7", "vault/path#1"}
)

// Generators -----------------------------------------------------------------------

// genKVs draws 0..max distinct keys (count weighted: 0,1 and 2-3 common, up to 6).
func genKVs(t *rapid.T, label string, keys, vals []string, weights ...int) []KV {
	n := choose(t, label+"-n", weights...)
	if n == 0 {
		return nil
	}
	ks := rapid.SliceOfNDistinct(rapid.SampledFrom(keys), n, n, rapid.ID[string]).Draw(t, label+"-keys")
	var out []KV
	for _, k := range ks {
		out = append(out, KV{k, rapid.SampledFrom(vals).Draw(t, label+"-val")})
	}
	return out
}

func genPath(t *rapid.T, prefix bool) *PathSpec {
	p := &PathSpec{}
	if prefix {
		p.Origin = rapid.SampledFrom(origins).Draw(t, "origin")
		p.Target = rapid.SampledFrom(ptargets).Draw(t, "ptarget")
	} else if choose(t, "sub-origin", 5, 1) == 1 {
		p.Origin = rapid.SampledFrom(origins).Draw(t, "origin")
	}
	maxE := 6
	if prefix {
		maxE = 3
	}
	ne := rapid.IntRange(0, maxE).Draw(t, "nelems")
	for i := 0; i < ne; i++ {
		p.Elems = append(p.Elems, ElemSpec{
			Name: rapid.SampledFrom(elemNames).Draw(t, "elem"),
			Keys: genKVs(t, "key", keyNames, keyVals, 6, 4, 6, 3, 2, 1, 1),
		})
	}
	if choose(t, "element", 8, 1) == 1 {
		p.Element = rapid.SliceOfN(rapid.SampledFrom(elemNames), 1, 3).Draw(t, "elements")
	}
	return p
}

func genReqSpec(t *rapid.T) ReqSpec {
	r := ReqSpec{Kind: choose(t, "reqkind", 14, 1, 1)}
	if r.Kind == 0 {
		switch choose(t, "prefix", 5, 3, 1) {
		case 0:
			r.Prefix = genPath(t, true)
		case 2:
			r.Prefix = &PathSpec{}
		}
		ns := choose(t, "nsubs", 1, 5, 5, 4, 3, 1, 1)
		for i := 0; i < ns; i++ {
			s := SubSpec{Mode: rapid.IntRange(0, 2).Draw(t, "submode")}
			if choose(t, "subpath", 12, 1) == 0 {
				s.Path = genPath(t, false)
			}
			if s.Mode == 2 || choose(t, "intervals", 3, 1) == 1 {
				s.Sample = rapid.SampledFrom([]uint64{0, 1, 1e9, 10e9, 1<<63 + 5}).Draw(t, "sample")
				s.Heartbeat = rapid.SampledFrom([]uint64{0, 0, 60e9, 1 << 62}).Draw(t, "heartbeat")
				s.Suppress = rapid.Bool().Draw(t, "suppress")
			}
			r.Subs = append(r.Subs, s)
		}
		r.Mode = rapid.IntRange(0, 2).Draw(t, "listmode")
		r.Encoding = rapid.IntRange(0, 4).Draw(t, "encoding")
		r.UpdatesOnly = rapid.Bool().Draw(t, "updonly")
		r.AllowAgg = rapid.Bool().Draw(t, "agg")
		if choose(t, "qos", 3, 1, 1) > 0 {
			r.HasQos = true
			r.Qos = rapid.SampledFrom([]uint32{0, 10, 46, 1<<32 - 1}).Draw(t, "qosv")
		}
		nm := choose(t, "nmodels", 6, 2, 1)
		for i := 0; i < nm; i++ {
			r.Models = append(r.Models, ModelSpec{
				Name:    rapid.SampledFrom([]string{"openconfig-interfaces", "openconfig-bgp", ""}).Draw(t, "model"),
				Org:     rapid.SampledFrom([]string{"OpenConfig working group", ""}).Draw(t, "org"),
				Version: rapid.SampledFrom([]string{"2.4.3", "", "0.1.0"}).Draw(t, "ver"),
			})
		}
	}
	ne := choose(t, "next", 8, 2, 1)
	for i := 0; i < ne; i++ {
		r.Ext = append(r.Ext, ExtSpec{
			Kind: rapid.IntRange(0, 2).Draw(t, "extkind"), ID: rapid.SampledFrom([]int32{0, 1, 999}).Draw(t, "extid"),
			Msg: rapid.SampledFrom([]string{"", "payload", "\x00\x01"}).Draw(t, "extmsg"), Role: rapid.SampledFrom([]string{"", "primary"}).Draw(t, "role"),
			Hi: rapid.SampledFrom([]uint64{0, 1}).Draw(t, "hi"), Lo: rapid.SampledFrom([]uint64{0, 7, 1<<64 - 1}).Draw(t, "lo"), Level: rapid.SampledFrom([]uint32{0, 1, 3}).Draw(t, "level"),
		})
	}
	return r
}

// genTemplate draws the settings of a target (request name left empty).
func genTemplate(t *rapid.T) RichTarget {
	rt := RichTarget{
		Addrs:  rapid.SliceOfN(rapid.SampledFrom(addrPoolR), 1, 4).Draw(t, "addrs"),
		Meta:   genKVs(t, "meta", metaKeys, metaVals, 4, 3, 5, 3, 2, 1, 1),
		Dialer: rapid.SampledFrom(dialers).Draw(t, "dialer"),
	}
	switch choose(t, "cred", 4, 5, 1) {
	case 1:
		rt.Cred = &CredSpec{User: rapid.SampledFrom(users).Draw(t, "user"), Pass: rapid.SampledFrom(passwords).Draw(t, "pass"), PassID: rapid.SampledFrom(passIDs).Draw(t, "passid")}
	case 2:
		rt.Cred = &CredSpec{}
	}
	return rt
}

// genRichConfig draws a valid configuration. size: 0 small, 1 medium, 2 large.
func genRichConfig(t *rapid.T, size int) *RichConfig {
	c := &RichConfig{
		Instance: rapid.SampledFrom([]string{"", "inst-1", "collector ü/1"}).Draw(t, "instance"),
		Meta:     genKVs(t, "cfgmeta", metaKeys, metaVals, 4, 2, 4, 2, 1, 1),
	}
	var nT, nR int
	switch size {
	case 0:
		nT, nR = rapid.IntRange(0, 8).Draw(t, "ntargets"), rapid.IntRange(1, 4).Draw(t, "nrequests")
	case 1:
		nT, nR = rapid.IntRange(9, 49).Draw(t, "ntargets"), rapid.IntRange(2, 12).Draw(t, "nrequests")
	default:
		nT = rapid.IntRange(50, 300).Draw(t, "ntargets")
		nR = rapid.SampledFrom([]int{3, 50, 51, 64, 65, 80}).Draw(t, "nrequests")
	}
	// Request bodies: a few drawn in full; every request is one of them,
	// possibly salted so that many requests have pairwise different bodies.
	bodies := rapid.SliceOfN(rapid.Custom(genReqSpec), 1, 4).Draw(t, "bodies")
	tmpls := rapid.SliceOfN(rapid.Custom(genTemplate), 1, 5).Draw(t, "templates")

	var rnames, tnames []int
	if size == 2 {
		rs, ts := rapid.IntRange(0, 60).Draw(t, "rstart"), rapid.IntRange(0, 60).Draw(t, "tstart")
		for i := 0; i < nR; i++ {
			rnames = append(rnames, rs+i)
		}
		for i := 0; i < nT; i++ {
			tnames = append(tnames, ts+i)
		}
	} else {
		rnames = rapid.SliceOfNDistinct(rapid.IntRange(0, 99), nR, nR, rapid.ID[int]).Draw(t, "rnames")
		tnames = rapid.SliceOfNDistinct(rapid.IntRange(0, 99), nT, nT, rapid.ID[int]).Draw(t, "tnames")
	}
	// In one configuration out of four some requests are listed with a nil
	// message (valid: Validate asks for the key only).
	nilReqs := choose(t, "nilreqs", 3, 1) == 1
	for _, i := range rnames {
		b := bodies[rapid.IntRange(0, len(bodies)-1).Draw(t, "body")].clone()
		if salt := rapid.IntRange(0, 3).Draw(t, "salt"); salt > 0 && b.Kind == 0 {
			s := uint64(salt) * uint64(i+1)
			if len(b.Subs) > 0 {
				b.Subs[0].Sample += s
			} else {
				b.HasQos, b.Qos = true, uint32(s)
			}
		}
		nr := NamedReq{Name: nameOf("sub", i), Body: b}
		if nilReqs && choose(t, "reqnil", 3, 2) == 1 {
			nr.Nil = true
		}
		c.Requests = append(c.Requests, nr)
	}
	for _, i := range tnames {
		rt := tmpls[rapid.IntRange(0, len(tmpls)-1).Draw(t, "tmpl")].clone()
		rt.Req = c.Requests[rapid.IntRange(0, nR-1).Draw(t, "treq")].Name
		c.Targets = append(c.Targets, NamedTgt{Name: nameOf("dev", i), T: rt})
	}
	// sometimes a request whose name is the empty string (nothing can refer to it)
	if choose(t, "emptyreq", 9, 1) == 1 {
		c.Requests = append(c.Requests, NamedReq{Name: "", Nil: nilReqs, Body: bodies[0].clone()})
	}
	return c
}

func genREdit(t *rapid.T, invalid bool) REdit {
	var e REdit
	if invalid {
		e.Kind = rapid.SampledFrom(editsInvalid).Draw(t, "invkind")
	} else {
		groups := [][]string{editsRequestField, editsTargetField, editsTargetSet, editsRequestSet, editsBulk, editsConfig}
		g := groups[choose(t, "editgroup", 8, 8, 3, 3, 2, 1)]
		e.Kind = g[rapid.IntRange(0, len(g)-1).Draw(t, "kind")]
	}
	e.T = rapid.IntRange(0, 299).Draw(t, "t")
	e.R = rapid.IntRange(0, 79).Draw(t, "r")
	e.A = rapid.IntRange(0, 11).Draw(t, "a")
	e.B = rapid.IntRange(0, 11).Draw(t, "b")
	switch {
	case strings.HasPrefix(e.Kind, "t-addr"):
		e.S = rapid.SampledFrom(addrPoolR).Draw(t, "s")
	case strings.HasPrefix(e.Kind, "t-meta"), strings.HasPrefix(e.Kind, "c-meta"):
		e.S = rapid.SampledFrom(metaKeys).Draw(t, "s")
	case e.Kind == "t-dialer":
		e.S = rapid.SampledFrom(dialers).Draw(t, "s")
	case strings.HasPrefix(e.Kind, "r-key"):
		e.S = rapid.SampledFrom(keyNames).Draw(t, "s")
	case e.Kind == "t-rename", e.Kind == "t-add":
		e.S = nameOf("dev", rapid.IntRange(0, 120).Draw(t, "sname"))
	case e.Kind == "r-rename", e.Kind == "r-add-unused", e.Kind == "t-repoint", e.Kind == "r-nil", e.Kind == "r-add-nil":
		e.S = nameOf("sub", rapid.IntRange(0, 120).Draw(t, "sname"))
	default:
		e.S = rapid.SampledFrom([]string{"", "1", "x", "ü"}).Draw(t, "s")
	}
	return e
}

func genRichScenario(t *rapid.T) *RichScenario {
	size := choose(t, "size", 14, 4, 2)
	sc := &RichScenario{Base: rapid.Bool().Draw(t, "base")}
	sc.Init = genRichConfig(t, size)
	sc.Init.Rev = rapid.SampledFrom([]int64{0, 1, 5, -2, 1 << 40}).Draw(t, "rev")
	sc.InitForm = Reload{Form: rapid.IntRange(0, len(formNames)-1).Draw(t, "form"), Perm: rapid.IntRange(0, 9999).Draw(t, "perm")}
	maxSteps, lo, hi := 6, 8, 50
	switch size {
	case 1:
		maxSteps, lo, hi = 4, 6, 30
	case 2:
		maxSteps, lo, hi = 3, 5, 12
	}
	ns := rapid.IntRange(1, maxSteps).Draw(t, "nsteps")
	for i := 0; i < ns; i++ {
		st := RStep{RevStep: 1}
		// 0: identical reloads only, 1: edit(s) then identical reloads, 2: stale revision, 3: invalid
		switch choose(t, "stepkind", 4, 10, 1, 1) {
		case 1:
			ne := 1 + choose(t, "nedits", 10, 3, 1)
			for k := 0; k < ne; k++ {
				st.Edits = append(st.Edits, genREdit(t, false))
			}
			st.RevStep = rapid.SampledFrom([]int64{1, 1, 1, 2, 1000}).Draw(t, "revstep")
		case 2:
			if rapid.Bool().Draw(t, "stale-edit") {
				st.Edits = append(st.Edits, genREdit(t, false))
			}
			st.RevStep = rapid.SampledFrom([]int64{0, -1, -1 << 41}).Draw(t, "revstep")
		case 3:
			st.Edits = append(st.Edits, genREdit(t, true))
			if rapid.Bool().Draw(t, "inv-more") {
				st.Edits = append(st.Edits, genREdit(t, false))
			}
		}
		n := rapid.IntRange(lo, hi).Draw(t, "nreloads")
		for k := 0; k < n; k++ {
			st.Reloads = append(st.Reloads, Reload{Form: rapid.IntRange(0, len(formNames)-1).Draw(t, "form"), Perm: rapid.IntRange(0, 9999).Draw(t, "perm")})
		}
		sc.Steps = append(sc.Steps, st)
	}
	// the shape of the consumer (drawn last: the draws above are what they were)
	sc.Unset = genUnset(t)
	return sc
}

// TestC17Reload: rich configurations, reloaded many times in many
// representations, with single-field edits in between.
func TestC17Reload(t *testing.T) {
	if !vstat.Enabled("C17") {
		t.Skip()
	}
	rec := vstat.New("C17", "reload")
	rec.RunRapid(t, func(rt *rapid.T) {
		sc := genRichScenario(rt)
		st, err := runRich(sc)
		rec.Case(sc, st.nontrivial(), st.labels()...)
		if err != nil {
			rt.Fatalf("%s", rec.Fail(sc, failClass(err), "%v", err))
		}
	})
}

// replayRich re-runs a saved scenario of the reload part. What this part
// looks for may depend on the map iteration order inside the code under
// test, which no scenario can pin; every run is judged by the same sound
// oracle, so the scenario is run several times and any failing run counts.
func replayRich(raw json.RawMessage) string {
	var sc RichScenario
	if err := json.Unmarshal(raw, &sc); err != nil {
		return "bad scenario: " + err.Error()
	}
	for i := 0; i < 40; i++ {
		if _, err := runRich(&sc); err != nil {
			return err.Error()
		}
	}
	return ""
}
