package targetprop

// Parts "alias" and "overlap" (same small pools and plain-data model as the
// random part).
//
// alias: the Config and its callers must not share messages in a way that
// lets a caller change the Config's state without an accepted load. The
// harness behaves like a caller that owns what it was given: every message it
// obtained from Current() is edited in place after it was compared (revision,
// targets, requests, nested sub-messages, containers), loads are built by
// read-modify-write of the message Current() returned (accepted, rejected as
// invalid, rejected as stale, or never loaded at all), and messages that the
// Config has no business with any more - a message whose load was rejected, a
// configuration that a later accepted load superseded - are edited as well.
// After every such edit Current() must still be the model's last accepted
// configuration, and the calls of every later load must be exactly the
// difference of the model's configurations.
// NOT done, because the unchanged code keeps the caller's pointer in Load /
// NewConfigWithBase and hands the handlers sub-messages of it: editing the
// message that IS the current configuration, or a message inside a handler.
//
// overlap: two or three loads in flight on one Config. The first one is
// parked inside one of its handler calls (the harness owns the handlers), the
// others are started on their own goroutines, the harness yields and then
// releases. Verdict (schedule independent): results, the sequence of all
// handler calls in the order they were invoked and the final Current() must
// be what the sequential model yields for ONE order of the loads; replaying
// the calls in invocation order yields Current().

import (
	"fmt"
	"runtime"
	"sort"
	"strings"
	"sync"
	"time"

	"google.golang.org/protobuf/proto"
	"google.golang.org/protobuf/reflect/protoreflect"

	gpb "github.com/openconfig/gnmi/proto/gnmi"
	pb "github.com/openconfig/gnmi/proto/target"
	"github.com/openconfig/gnmi/target"
)

// In-place edits of messages ------------------------------------------------------

func cloneValue(fd protoreflect.FieldDescriptor, v protoreflect.Value) protoreflect.Value {
	switch {
	case fd.Message() != nil:
		return protoreflect.ValueOfMessage(proto.Clone(v.Message().Interface()).ProtoReflect())
	case fd.Kind() == protoreflect.BytesKind:
		return protoreflect.ValueOfBytes(append([]byte(nil), v.Bytes()...))
	}
	return v
}

// morphMsg turns dst into a message equal to src by editing dst IN PLACE as
// deeply as possible: sub-messages, list elements and map entries that exist
// on both sides are kept and edited, nothing of src is shared with dst.
func morphMsg(dst, src protoreflect.Message) {
	var drop []protoreflect.FieldDescriptor
	dst.Range(func(fd protoreflect.FieldDescriptor, _ protoreflect.Value) bool {
		if !src.Has(fd) {
			drop = append(drop, fd)
		}
		return true
	})
	for _, fd := range drop {
		dst.Clear(fd)
	}
	src.Range(func(fd protoreflect.FieldDescriptor, sv protoreflect.Value) bool {
		switch {
		case fd.IsList():
			dl, sl := dst.Mutable(fd).List(), sv.List()
			n := dl.Len()
			if sl.Len() < n {
				n = sl.Len()
				dl.Truncate(n)
			}
			for i := 0; i < n; i++ {
				if fd.Message() != nil {
					morphMsg(dl.Get(i).Message(), sl.Get(i).Message())
				} else {
					dl.Set(i, cloneValue(fd, sl.Get(i)))
				}
			}
			for i := n; i < sl.Len(); i++ {
				dl.Append(cloneValue(fd, sl.Get(i)))
			}
		case fd.IsMap():
			dm, sm := dst.Mutable(fd).Map(), sv.Map()
			var gone []protoreflect.MapKey
			dm.Range(func(k protoreflect.MapKey, _ protoreflect.Value) bool {
				if !sm.Has(k) {
					gone = append(gone, k)
				}
				return true
			})
			for _, k := range gone {
				dm.Clear(k)
			}
			vd := fd.MapValue()
			sm.Range(func(k protoreflect.MapKey, v protoreflect.Value) bool {
				if vd.Message() != nil && dm.Has(k) && dm.Get(k).Message().IsValid() && v.Message().IsValid() {
					morphMsg(dm.Get(k).Message(), v.Message())
				} else {
					dm.Set(k, cloneValue(vd, v))
				}
				return true
			})
		case fd.Message() != nil:
			if dst.Has(fd) {
				morphMsg(dst.Mutable(fd).Message(), sv.Message())
			} else {
				dst.Set(fd, cloneValue(fd, sv))
			}
		default:
			dst.Set(fd, cloneValue(fd, sv))
		}
		return true
	})
}

func morphStrMap(m, want map[string]string) map[string]string {
	for k := range m {
		if _, ok := want[k]; !ok {
			delete(m, k)
		}
	}
	if m == nil && len(want) > 0 {
		m = map[string]string{}
	}
	for k, v := range want {
		m[k] = v
	}
	return m
}

// morphConfig turns m into want in place. The two message-valued maps are
// handled here (their values may be nil in an invalid configuration).
func morphConfig(m, want *pb.Configuration) {
	m.Revision = want.Revision
	m.InstanceId = want.InstanceId
	m.Meta = morphStrMap(m.Meta, want.Meta)
	for k := range m.Request {
		if _, ok := want.Request[k]; !ok {
			delete(m.Request, k)
		}
	}
	if m.Request == nil && len(want.Request) > 0 {
		m.Request = map[string]*gpb.SubscribeRequest{}
	}
	for k, v := range want.Request {
		switch have := m.Request[k]; {
		case v == nil:
			m.Request[k] = nil
		case have != nil:
			morphMsg(have.ProtoReflect(), v.ProtoReflect())
		default:
			m.Request[k] = cloneR(v)
		}
	}
	for k := range m.Target {
		if _, ok := want.Target[k]; !ok {
			delete(m.Target, k)
		}
	}
	if m.Target == nil && len(want.Target) > 0 {
		m.Target = map[string]*pb.Target{}
	}
	for k, v := range want.Target {
		switch have := m.Target[k]; {
		case v == nil:
			m.Target[k] = nil
		case have != nil:
			morphMsg(have.ProtoReflect(), v.ProtoReflect())
		default:
			m.Target[k] = cloneT(v)
		}
	}
}

func alter(fd protoreflect.FieldDescriptor, v protoreflect.Value) protoreflect.Value {
	switch fd.Kind() {
	case protoreflect.StringKind:
		return protoreflect.ValueOfString(v.String() + "~")
	case protoreflect.BytesKind:
		return protoreflect.ValueOfBytes(append(append([]byte(nil), v.Bytes()...), '~'))
	case protoreflect.BoolKind:
		return protoreflect.ValueOfBool(!v.Bool())
	case protoreflect.EnumKind:
		vals := fd.Enum().Values()
		for i := 0; i < vals.Len(); i++ {
			if vals.Get(i).Number() != v.Enum() {
				return protoreflect.ValueOfEnum(vals.Get(i).Number())
			}
		}
		return v
	case protoreflect.Int32Kind, protoreflect.Sint32Kind, protoreflect.Sfixed32Kind:
		return protoreflect.ValueOfInt32(int32(v.Int()) + 1)
	case protoreflect.Int64Kind, protoreflect.Sint64Kind, protoreflect.Sfixed64Kind:
		return protoreflect.ValueOfInt64(v.Int() + 1)
	case protoreflect.Uint32Kind, protoreflect.Fixed32Kind:
		return protoreflect.ValueOfUint32(uint32(v.Uint()) + 1)
	case protoreflect.Uint64Kind, protoreflect.Fixed64Kind:
		return protoreflect.ValueOfUint64(v.Uint() + 1)
	case protoreflect.FloatKind:
		return protoreflect.ValueOfFloat32(float32(v.Float()) + 1)
	case protoreflect.DoubleKind:
		return protoreflect.ValueOfFloat64(v.Float() + 1)
	}
	return v
}

// scribbleDeep changes every populated scalar of m at every depth, every list
// element and every map value in place, and adds an entry to every populated
// map and list of scalars: whatever part of m is shared with somebody else,
// that somebody sees a difference.
func scribbleDeep(m protoreflect.Message) {
	if !m.IsValid() {
		return
	}
	type fv struct {
		fd protoreflect.FieldDescriptor
		v  protoreflect.Value
	}
	var fields []fv
	m.Range(func(fd protoreflect.FieldDescriptor, v protoreflect.Value) bool {
		fields = append(fields, fv{fd, v})
		return true
	})
	for _, f := range fields {
		fd, v := f.fd, f.v
		switch {
		case fd.IsList():
			l := v.List()
			for i := 0; i < l.Len(); i++ {
				if fd.Message() != nil {
					scribbleDeep(l.Get(i).Message())
				} else {
					l.Set(i, alter(fd, l.Get(i)))
				}
			}
			if fd.Message() == nil && l.Len() > 0 {
				l.Append(alter(fd, l.Get(0)))
			}
		case fd.IsMap():
			mp, vd := v.Map(), fd.MapValue()
			var keys []protoreflect.MapKey
			mp.Range(func(k protoreflect.MapKey, _ protoreflect.Value) bool {
				keys = append(keys, k)
				return true
			})
			for _, k := range keys {
				if vd.Message() != nil {
					scribbleDeep(mp.Get(k).Message())
				} else {
					mp.Set(k, alter(vd, mp.Get(k)))
				}
			}
			if fd.MapKey().Kind() == protoreflect.StringKind {
				mp.Set(protoreflect.ValueOfString("scribbled~").MapKey(), mp.NewValue())
			}
		case fd.Message() != nil:
			scribbleDeep(v.Message())
		default:
			m.Set(fd, alter(fd, v))
		}
	}
}

// Scribble is an edit a caller makes to a message it owns.
type Scribble struct {
	// Kind: "" (leave it alone) | rev (revision only) | morph (turn it, in
	// place, into the model's current configuration with Edits applied and the
	// revision moved by Rev: a draft) | deep (every scalar, list element and
	// map value at every depth) | clear (empty the maps in place, then Reset).
	Kind  string `json:"kind,omitempty"`
	Edits []Edit `json:"edits,omitempty"`
	Rev   int64  `json:"rev,omitempty"`
}

// scribble applies s to m (cur: the model's current configuration) and
// reports whether m's content differs afterwards.
func scribble(m *pb.Configuration, s Scribble, cur *ConfigSpec) bool {
	if m == nil || s.Kind == "" {
		return false
	}
	was := proto.Clone(m)
	switch s.Kind {
	case "rev":
		m.Revision += 1 + s.Rev
	case "morph":
		spec := cur.clone()
		if spec == nil {
			spec = emptySpec()
		}
		for _, e := range s.Edits {
			apply(spec, e)
		}
		spec.Rev += s.Rev
		morphConfig(m, spec.build())
	case "deep":
		scribbleDeep(m.ProtoReflect())
	case "clear":
		clear(m.Target)
		clear(m.Request)
		clear(m.Meta)
		m.Reset()
	}
	return !proto.Equal(was, m)
}

// Model difference ---------------------------------------------------------------

// modelCalls is the difference old -> nu as handler calls by name.
func modelCalls(old, nu *ConfigSpec) map[string]string {
	if old == nil {
		old = emptySpec()
	}
	out := map[string]string{}
	for n, ot := range old.Targets {
		nt, ok := nu.Targets[n]
		switch {
		case !ok:
			out[n] = "delete"
		case ot == nt && old.Requests[ot.Req] == nu.Requests[nt.Req]:
		default:
			out[n] = "update"
		}
	}
	for n := range nu.Targets {
		if _, ok := old.Targets[n]; !ok {
			out[n] = "add"
		}
	}
	return out
}

func wantList(w map[string]string) string {
	var s []string
	for n, k := range w {
		s = append(s, fmt.Sprintf("%s(%q)", k, n))
	}
	sort.Strings(s)
	return "[" + strings.Join(s, " ") + "]"
}

// checkBatch: got (any order) must be exactly the difference old -> nu, each
// Add/Update carrying the settings and the request body nu has for the name.
func checkBatch(got []call, old, nu *ConfigSpec) error {
	want := modelCalls(old, nu)
	seen := map[string]bool{}
	for _, c := range got {
		k, ok := want[c.name]
		switch {
		case seen[c.name]:
			return vio("two-calls-for-one-name", "target %q received more than one handler call in one load", c.name)
		case !ok:
			if _, isNew := nu.Targets[c.name]; isNew {
				if _, wasOld := old.targets()[c.name]; wasOld {
					return vio("call-for-unchanged-target", "target %q has unchanged settings and an unchanged request but received %s", c.name, c)
				}
			}
			return vio("handler-kind", "%s for a target that is neither in the old nor in the new configuration", c)
		case k != c.kind:
			return vio("handler-kind", "%s where the difference of the configurations is %s(%q)", c, k, c.name)
		}
		seen[c.name] = true
		if c.kind != "delete" {
			nt := nu.Targets[c.name]
			if wt := nt.build(); !sameTarget(c.tgt, wt) {
				return vio("replay-mismatch", "%s carried settings {%v}, the loaded configuration has {%v}", c, c.tgt, wt)
			}
			if wr := body(normBody(nu.Requests[nt.Req])); !sameRequest(c.req, wr) {
				return vio("replay-mismatch", "%s carried request {%v}, the loaded configuration has {%v}", c, c.req, wr)
			}
		}
	}
	for n, k := range want {
		if !seen[n] {
			return vio("replay-mismatch", "no handler call for target %q; the difference of the configurations is %s(%q)", n, k, n)
		}
	}
	return nil
}

func (c *ConfigSpec) targets() map[string]TargetSpec {
	if c == nil {
		return nil
	}
	return c.Targets
}

// replayCalls applies cs, in order, to set (strictly: Add for a name not in
// the set, Update/Delete for a name in it).
func replayCalls(set map[string]entry, cs []call) error {
	for _, c := range cs {
		_, exists := set[c.name]
		switch {
		case c.kind == "add" && exists:
			return vio("handler-kind", "Add(%q) for a target that was already announced", c.name)
		case c.kind != "add" && !exists:
			return vio("handler-kind", "%s for a target that was never announced (or whose removal was announced)", c)
		}
		if c.kind == "delete" {
			delete(set, c.name)
		} else {
			set[c.name] = entry{c.tgt, c.req}
		}
	}
	return nil
}

// Session: a Config with recording (and parking) handlers + the model -------------

type session struct {
	cfg      *target.Config
	cur      *ConfigSpec       // model: last accepted configuration (or the base)
	live     *pb.Configuration // the message the Config was given for cur (never touched while current)
	replayed map[string]entry

	mu       sync.Mutex
	calls    []call
	parkAt   int // park inside the parkAt-th call (1-based; 0: never)
	parked   chan struct{}
	release  chan struct{}
	inFlight int  // handler calls running right now
	overlap  bool // a handler call started while another one was running (evidence only)
}

func (s *session) onCall(c call) {
	s.mu.Lock()
	s.calls = append(s.calls, c)
	if s.inFlight > 0 {
		s.overlap = true
	}
	s.inFlight++
	park := s.parkAt > 0 && len(s.calls) == s.parkAt
	if park {
		s.parkAt = 0 // once
	}
	s.mu.Unlock()
	if park {
		close(s.parked)
		<-s.release
	}
	s.mu.Lock()
	s.inFlight--
	s.mu.Unlock()
}

func (s *session) take() []call {
	s.mu.Lock()
	defer s.mu.Unlock()
	out := s.calls
	s.calls = nil
	return out
}

func newSession(baseMode string, base *ConfigSpec) (*session, error) {
	s := &session{replayed: map[string]entry{}}
	h := target.Handler{
		Add: func(u target.Update) {
			s.onCall(call{"add", u.Name, cloneT(u.Target), cloneR(u.Request)})
		},
		Update: func(u target.Update) {
			s.onCall(call{"update", u.Name, cloneT(u.Target), cloneR(u.Request)})
		},
		Delete: func(name string) { s.onCall(call{"delete", name, nil, nil}) },
	}
	switch baseMode {
	case "":
		s.cfg = target.NewConfig(h)
	case "nil":
		c, err := target.NewConfigWithBase(h, nil)
		if err != nil || c == nil {
			return nil, vio("constructor", "NewConfigWithBase(h, nil) = %v, %v", c, err)
		}
		s.cfg = c
	case "config":
		if base == nil {
			return nil, vio("bad-scenario", "bad scenario: base_mode=config without base")
		}
		if r := base.invalidReasons(); len(r) > 0 {
			return nil, vio("bad-scenario", "bad scenario: base configuration is invalid (%v)", r)
		}
		s.live = base.build()
		c, err := target.NewConfigWithBase(h, s.live)
		if err != nil || c == nil {
			return nil, vio("constructor", "NewConfigWithBase(h, valid base %v) = %v, %v", base, c, err)
		}
		s.cfg = c
		s.cur = base.clone()
		s.replayed = view(s.cur.build())
	default:
		return nil, vio("bad-scenario", "bad scenario: base_mode %q", baseMode)
	}
	if cs := s.take(); len(cs) != 0 {
		return nil, vio("constructor", "constructing the Config ran handlers %s", callList(cs))
	}
	return s, nil
}

// currentIs compares a message obtained from Current() with the model.
func (s *session) currentIs(m *pb.Configuration) bool {
	if s.cur == nil {
		return m == nil || proto.Size(m) == 0
	}
	return sameConfig(m, s.cur.build())
}

// verdict: the property's gate for spec against the model state cur.
func verdict(cur, spec *ConfigSpec) (want, valid, revOK bool, reasons []string) {
	if spec == nil {
		return false, false, false, nil
	}
	reasons = spec.invalidReasons()
	valid = len(reasons) == 0
	revOK = cur == nil || spec.Rev > cur.Rev
	return valid && revOK, valid, revOK, reasons
}

// Part alias -------------------------------------------------------------------------

// AStep is one load of the alias part with what the caller does to the
// messages it holds around it.
type AStep struct {
	Load
	// RMW: the message handed to Load is the one Current() returned, edited in
	// place into the configuration the load describes (instead of a message
	// built from the caller's own data).
	RMW bool `json:"rmw,omitempty"`
	// Before / After: edits of the messages Current() returned before / after
	// the load (Before is unused with RMW: that message is the one loaded).
	Before Scribble `json:"before,omitempty"`
	After  Scribble `json:"after,omitempty"`
	// Handed: edit, after Load returned, of the message handed to Load if the
	// load was rejected, else of the message of the configuration it superseded.
	Handed Scribble `json:"handed,omitempty"`
}

type AliasScenario struct {
	BaseMode string      `json:"base_mode,omitempty"`
	Base     *ConfigSpec `json:"base,omitempty"`
	Steps    []AStep     `json:"steps"`
}

type astats struct {
	accepted, rejected                          int
	rmwAccepted, rmwInvalid, rmwStale           bool
	rmwAfterRejectedRMW                         bool
	lastRMWRejected                             bool
	scrCopy                                     map[string]bool // effective scribbles of a Current() copy by kind
	draft, draftInvalid                         bool
	scrRejected, scrSuperseded, scrBase         bool
	acceptedAfterScribble, callsAfterScribble   bool
	rejectedRMWThenAccepted, pendingRejectedRMW bool
	scribbled                                   bool
	plainLoad, withBase                         bool
}

func (s *astats) nontrivial() bool {
	return s.rejectedRMWThenAccepted || s.callsAfterScribble
}

func (s *astats) labels() []string {
	var l []string
	add := func(b bool, n string) {
		if b {
			l = append(l, n)
		}
	}
	add(s.accepted > 0, "accepted-load")
	add(s.rejected > 0, "rejected-load")
	add(s.plainLoad, "load-of-a-message-built-by-the-caller")
	add(s.rmwAccepted, "read-modify-write-accepted")
	add(s.rmwInvalid, "read-modify-write-rejected-invalid")
	add(s.rmwStale, "read-modify-write-rejected-stale")
	add(s.rmwAfterRejectedRMW, "read-modify-write-right-after-a-rejected-one")
	add(s.rejectedRMWThenAccepted, "rejected-read-modify-write-then-accepted-load")
	var ks []string
	for k := range s.scrCopy {
		ks = append(ks, k)
	}
	sort.Strings(ks)
	for _, k := range ks {
		l = append(l, "edited-copy-from-Current-"+k)
	}
	add(s.draft, "draft-edited-never-loaded")
	add(s.draftInvalid, "draft-made-invalid-never-loaded")
	add(s.scrRejected, "edited-message-after-its-load-was-rejected")
	add(s.scrSuperseded, "edited-superseded-configuration-message")
	add(s.scrBase, "edited-superseded-base-message")
	add(s.acceptedAfterScribble, "accepted-load-after-an-edit")
	add(s.callsAfterScribble, "accepted-load-with-calls-after-an-edit")
	add(s.withBase, "with-base")
	return l
}

func edited(scr Scribble, what string) string {
	if scr.Kind == "" {
		return ""
	}
	return " and the caller's edit (" + scr.Kind + ") of " + what
}

// look calls Current(), compares with the model, lets the caller edit the
// message and looks again.
func (s *session) look(st *astats, when string, scr Scribble) (*pb.Configuration, error) {
	m := s.cfg.Current()
	if !s.currentIs(m) {
		hint := ""
		if st.scribbled {
			hint = " (earlier in this case the caller edited messages it owns: copies obtained from Current(), rejected or superseded messages)"
		}
		return nil, vio("current-is-not-last-accepted", "Current() = {%v}, the last accepted configuration is %v%s; at %s", m, s.cur, hint, when)
	}
	if scr.Kind == "" {
		return m, nil
	}
	if scribble(m, scr, s.cur) {
		st.scribbled = true
		st.scrCopy[scr.Kind] = true
		if scr.Kind == "morph" {
			st.draft = true
			if target.Validate(m) != nil {
				st.draftInvalid = true
			}
		}
		if again := s.cfg.Current(); !s.currentIs(again) {
			return nil, vio("current-aliased", "the caller edited (%s) the message Current() had returned - no load, no handler call - and Current() now reports {%v}; the last accepted configuration is %v; at %s", scr.Kind, again, s.cur, when)
		}
	}
	return m, nil
}

func runAlias(sc *AliasScenario) (st astats, err error) {
	defer func() {
		if r := recover(); r != nil {
			err = vio("panic", "panic: %v", r)
		}
	}()
	st.scrCopy = map[string]bool{}
	s, err := newSession(sc.BaseMode, sc.Base)
	if err != nil {
		return st, err
	}
	st.withBase = s.cur != nil
	baseLive := s.live

	for i, stp := range sc.Steps {
		spec, _ := materialise(s.cur, stp.Load)
		want, valid, revOK, reasons := verdict(s.cur, spec)
		desc := fmt.Sprintf("load %d (current=%v, loaded=%v)", i, s.cur, spec)

		before := Scribble{}
		if !stp.RMW {
			before = stp.Before
		}
		m, lerr := s.look(&st, desc+", before the load", before)
		if lerr != nil {
			return st, lerr
		}
		var in *pb.Configuration
		rmw := stp.RMW && spec != nil && m != nil
		switch {
		case rmw:
			wantMsg := spec.build()
			morphConfig(m, wantMsg)
			if !proto.Equal(m, wantMsg) {
				return st, vio("bad-scenario", "harness: in-place edit of {%v} did not produce {%v}", m, wantMsg)
			}
			in = m
		case spec != nil:
			in = spec.build()
			st.plainLoad = true
		}

		gerr := s.cfg.Load(in)
		got := s.take()
		if (gerr == nil) != want {
			return st, vio("gate", "%s: Load returned %v; expected accepted=%v (valid=%v %v, revision strictly greater or no current configuration=%v)", desc, gerr, want, valid, reasons, revOK)
		}
		if !want {
			st.rejected++
			if len(got) > 0 {
				return st, vio("rejected-load-ran-handlers", "%s: rejected load (%s) ran handlers %s", desc, why(spec, reasons, revOK), callList(got))
			}
			if rmw {
				if !valid {
					st.rmwInvalid = true
				} else {
					st.rmwStale = true
				}
				if st.lastRMWRejected {
					st.rmwAfterRejectedRMW = true
				}
				st.scribbled = true // the rejected message is an edited copy from Current()
				if s.cur != nil {
					st.pendingRejectedRMW = true
				}
			}
			st.lastRMWRejected = rmw
			if chk := s.cfg.Current(); !s.currentIs(chk) {
				return st, vio("rejected-load-changed-current", "%s: rejected load (%s; read-modify-write of the message Current() returned=%v) and Current() now reports {%v}", desc, why(spec, reasons, revOK), rmw, chk)
			}
			// The caller goes on editing the message whose load was refused.
			if scribble(in, stp.Handed, s.cur) {
				st.scribbled, st.scrRejected = true, true
			}
			if _, lerr := s.look(&st, desc+", after the rejected load"+edited(stp.Handed, "the rejected message"), stp.After); lerr != nil {
				return st, lerr
			}
			continue
		}

		// Accepted.
		st.accepted++
		st.lastRMWRejected = false
		if rmw {
			st.rmwAccepted = true
		}
		if st.pendingRejectedRMW {
			st.rejectedRMWThenAccepted = true
			st.pendingRejectedRMW = false
		}
		if st.scribbled {
			st.acceptedAfterScribble = true
			if len(got) > 0 {
				st.callsAfterScribble = true
			}
		}
		old := s.cur
		if old == nil {
			old = emptySpec()
		}
		if berr := checkBatch(got, old, spec); berr != nil {
			return st, vio(failClass(berr), "%s: handler calls %s, difference of the configurations %s: %v", desc, callList(got), wantList(modelCalls(old, spec)), berr)
		}
		if rerr := replayCalls(s.replayed, got); rerr != nil {
			return st, vio(failClass(rerr), "%s: handler calls %s: %v", desc, callList(got), rerr)
		}
		prev := s.live
		s.cur, s.live = spec, in
		if d := diffViews(s.replayed, view(spec.build()), nil); d != "" {
			return st, vio("replay-mismatch", "%s: replaying the handler calls %s does not yield the loaded configuration: %s", desc, callList(got), d)
		}
		if chk := s.cfg.Current(); !s.currentIs(chk) {
			return st, vio("current-is-not-loaded-config", "%s: accepted, but Current() = {%v}", desc, chk)
		}
		// The configuration this load superseded is the caller's again.
		if scribble(prev, stp.Handed, s.cur) {
			st.scribbled, st.scrSuperseded = true, true
			if prev == baseLive {
				st.scrBase = true
			}
		}
		if _, lerr := s.look(&st, desc+", after the accepted load"+edited(stp.Handed, "the message of the superseded configuration"), stp.After); lerr != nil {
			return st, lerr
		}
	}
	return st, nil
}

// Part overlap -----------------------------------------------------------------------

// OverlapScenario: sequential loads, then 2-3 loads in flight together, then
// one more sequential load.
type OverlapScenario struct {
	BaseMode string      `json:"base_mode,omitempty"`
	Base     *ConfigSpec `json:"base,omitempty"`
	Pre      []Load      `json:"pre,omitempty"`
	// Par: the loads in flight together, every one resolved against the
	// configuration that is current after Pre. Par[0] is started first.
	Par []Load `json:"par"`
	// ParkAt: Par[0] is parked inside its handler call number
	// 1+(ParkAt-1) mod (number of calls the model expects for it); 0: not parked
	// (all loads are simply started together).
	ParkAt int `json:"park_at,omitempty"`
	// Yields: how often the harness yields the processor after having started
	// the other loads before it releases the parked call.
	Yields int   `json:"yields,omitempty"`
	Post   *Load `json:"post,omitempty"`
}

type ostats struct {
	parked, parkedBeforeLast, othersHaveCalls, twoAccepted bool
	oneRejectedEitherWay, orderDecidesResult               bool
	three, pre, post, withBase                             bool
	finishedWhileParked, overlapSeen                       bool
	matched                                                string
}

func (s *ostats) nontrivial() bool { return s.parkedBeforeLast && s.othersHaveCalls }

func (s *ostats) labels() []string {
	var l []string
	add := func(b bool, n string) {
		if b {
			l = append(l, n)
		}
	}
	add(s.parked, "first-load-parked-inside-a-handler-call")
	add(s.parkedBeforeLast, "parked-with-calls-of-its-batch-still-to-come")
	add(s.othersHaveCalls, "a-later-load-has-calls-in-some-order")
	add(s.twoAccepted, "two-or-more-loads-accepted-in-some-order")
	add(s.oneRejectedEitherWay, "a-load-rejected-in-every-order")
	add(s.orderDecidesResult, "order-decides-a-result")
	add(s.three, "three-loads-in-flight")
	add(s.pre, "sequential-loads-before")
	add(s.post, "sequential-load-after")
	add(s.withBase, "with-base")
	add(s.finishedWhileParked, "observed-a-load-returning-while-the-first-was-parked")
	add(s.overlapSeen, "observed-a-handler-call-starting-during-another")
	if s.matched != "" {
		l = append(l, "matched-order-"+s.matched)
	}
	return l
}

func permutations(n int) [][]int {
	if n == 1 {
		return [][]int{{0}}
	}
	var out [][]int
	for _, p := range permutations(n - 1) {
		for pos := 0; pos <= len(p); pos++ {
			q := append(append(append([]int(nil), p[:pos]...), n-1), p[pos:]...)
			out = append(out, q)
		}
	}
	sort.Slice(out, func(a, b int) bool { return fmt.Sprint(out[a]) < fmt.Sprint(out[b]) })
	return out
}

// seqLoad performs one sequential load judged against the model.
func (s *session) seqLoad(desc string, ld Load) error {
	spec, _ := materialise(s.cur, ld)
	want, valid, revOK, reasons := verdict(s.cur, spec)
	var in *pb.Configuration
	if spec != nil {
		in = spec.build()
	}
	desc = fmt.Sprintf("%s (current=%v, loaded=%v)", desc, s.cur, spec)
	gerr := s.cfg.Load(in)
	got := s.take()
	if (gerr == nil) != want {
		return vio("gate", "%s: Load returned %v; expected accepted=%v (valid=%v %v, revision strictly greater or no current configuration=%v)", desc, gerr, want, valid, reasons, revOK)
	}
	if !want {
		if len(got) > 0 {
			return vio("rejected-load-ran-handlers", "%s: rejected load ran handlers %s", desc, callList(got))
		}
	} else {
		old := s.cur
		if old == nil {
			old = emptySpec()
		}
		if berr := checkBatch(got, old, spec); berr != nil {
			return vio(failClass(berr), "%s: handler calls %s, difference of the configurations %s: %v", desc, callList(got), wantList(modelCalls(old, spec)), berr)
		}
		if rerr := replayCalls(s.replayed, got); rerr != nil {
			return vio(failClass(rerr), "%s: handler calls %s: %v", desc, callList(got), rerr)
		}
		s.cur, s.live = spec, in
	}
	if chk := s.cfg.Current(); !s.currentIs(chk) {
		return vio("current-is-not-last-accepted", "%s: Current() = {%v}, the last accepted configuration is %v", desc, chk, s.cur)
	}
	return nil
}

func runOverlap(sc *OverlapScenario) (st ostats, err error) {
	defer func() {
		if r := recover(); r != nil {
			err = vio("panic", "panic: %v", r)
		}
	}()
	n := len(sc.Par)
	if n < 2 || n > 3 {
		return st, vio("bad-scenario", "bad scenario: %d loads in flight", n)
	}
	s, err := newSession(sc.BaseMode, sc.Base)
	if err != nil {
		return st, err
	}
	st.withBase = s.cur != nil
	for i, ld := range sc.Pre {
		st.pre = true
		if err := s.seqLoad(fmt.Sprintf("sequential load %d before", i), ld); err != nil {
			return st, err
		}
	}

	// The loads in flight, resolved against the configuration current now.
	start := s.cur
	specs := make([]*ConfigSpec, n)
	ins := make([]*pb.Configuration, n)
	for i, ld := range sc.Par {
		specs[i], _ = materialise(start, ld)
		if specs[i] != nil {
			ins[i] = specs[i].build()
		}
	}
	st.three = n == 3

	// What the sequential model says for every order.
	type outcome struct {
		order    []int
		accepted []bool // by load index
		batches  [][]call
		batchOld []*ConfigSpec
		final    *ConfigSpec
	}
	var outcomes []outcome
	for _, p := range permutations(n) {
		o := outcome{order: p, accepted: make([]bool, n), final: start}
		for _, i := range p {
			ok, _, _, _ := verdict(o.final, specs[i])
			o.accepted[i] = ok
			if ok {
				o.batchOld = append(o.batchOld, o.final)
				o.final = specs[i]
			}
		}
		outcomes = append(outcomes, o)
	}
	nAcc := func(o outcome) (k int) {
		for _, a := range o.accepted {
			if a {
				k++
			}
		}
		return
	}
	for i := 0; i < n; i++ {
		always, never := true, true
		for _, o := range outcomes {
			if o.accepted[i] {
				never = false
			} else {
				always = false
			}
		}
		if never {
			st.oneRejectedEitherWay = true
		}
		if !always && !never {
			st.orderDecidesResult = true
		}
	}
	for _, o := range outcomes {
		if nAcc(o) >= 2 {
			st.twoAccepted = true
		}
		prev := start
		for _, i := range o.order {
			if !o.accepted[i] {
				continue
			}
			if i != 0 && len(modelCalls(prev, specs[i])) > 0 {
				st.othersHaveCalls = true
			}
			prev = specs[i]
		}
	}

	// Park Par[0] inside one of the calls it makes when it is the first to be applied.
	firstCalls := 0
	if ok, _, _, _ := verdict(start, specs[0]); ok {
		firstCalls = len(modelCalls(start, specs[0]))
	}
	s.mu.Lock()
	s.calls = nil
	s.parkAt = 0
	if sc.ParkAt > 0 && firstCalls > 0 {
		s.parkAt = 1 + mod(sc.ParkAt-1, firstCalls)
	}
	parkAt := s.parkAt
	s.parked, s.release = make(chan struct{}), make(chan struct{})
	s.mu.Unlock()

	errs := make([]error, n)
	panics := make([]any, n)
	done := make([]chan struct{}, n)
	launch := func(i int) {
		done[i] = make(chan struct{})
		go func() {
			defer close(done[i])
			defer func() { panics[i] = recover() }()
			errs[i] = s.cfg.Load(ins[i])
		}()
	}
	finished := func(i int) bool {
		select {
		case <-done[i]:
			return true
		default:
			return false
		}
	}
	launch(0)
	isParked := false
	if parkAt > 0 {
		select {
		case <-s.parked:
			isParked = true
		case <-done[0]:
			// It made fewer calls than the model expects; judged below. Nobody
			// may park any more (there would be nobody to release).
			s.mu.Lock()
			s.parkAt = 0
			s.mu.Unlock()
		}
	}
	for i := 1; i < n; i++ {
		launch(i)
	}
	if isParked {
		st.parked = true
		st.parkedBeforeLast = parkAt < firstCalls
		// Give the others the processor. In the unchanged code they wait for the
		// mutex Par[0] holds; how far they get only selects the interleaving.
		for y := 0; y < sc.Yields; y++ {
			all := true
			for i := 1; i < n; i++ {
				all = all && finished(i)
			}
			if all {
				break
			}
			runtime.Gosched()
			if y%64 == 63 {
				time.Sleep(20 * time.Microsecond)
			}
		}
		for i := 1; i < n; i++ {
			if finished(i) {
				st.finishedWhileParked = true
			}
		}
		close(s.release)
	}
	for i := 0; i < n; i++ {
		<-done[i]
	}
	for i := 0; i < n; i++ {
		if panics[i] != nil {
			return st, vio("panic", "load %d in flight panicked: %v", i, panics[i])
		}
	}
	seq := s.take()
	s.mu.Lock()
	st.overlapSeen = s.overlap
	s.parkAt = 0
	s.mu.Unlock()
	final := s.cfg.Current()

	results := make([]string, n)
	for i := range errs {
		results[i] = fmt.Sprintf("load %d (%v): %v", i, specs[i], errs[i])
	}
	desc := fmt.Sprintf("load 0 was parked inside its handler call %d (0: not parked) while the others were started; current=%v [%s]", parkAt, start, strings.Join(results, "; "))

	// 1. The statement itself: replaying the calls in the order they were
	// invoked yields the current configuration.
	set := map[string]entry{}
	for k, v := range s.replayed {
		set[k] = v
	}
	if rerr := replayCalls(set, seq); rerr != nil {
		return st, vio("overlap-"+failClass(rerr), "replaying the handler calls of loads in flight together, in the order they were invoked %s: %v; %s", callList(seq), rerr, desc)
	}
	if d := diffViews(set, view(final), nil); d != "" {
		return st, vio("overlap-replay-mismatch", "replaying the handler calls of loads in flight together, in the order they were invoked %s, does not yield Current(): %s; %s", callList(seq), d, desc)
	}

	// 2. Results, batches and final configuration are those of one order.
	var whyNot []string
	var hit *outcome
	for k := range outcomes {
		o := &outcomes[k]
		reason := ""
		for i := 0; i < n && reason == ""; i++ {
			if (errs[i] == nil) != o.accepted[i] {
				reason = fmt.Sprintf("load %d would have been accepted=%v", i, o.accepted[i])
			}
		}
		if reason == "" {
			pos, b := 0, 0
			var expect []string
			for _, i := range o.order {
				if !o.accepted[i] {
					continue
				}
				old := o.batchOld[b]
				b++
				k := len(modelCalls(old, specs[i]))
				expect = append(expect, wantList(modelCalls(old, specs[i])))
				if reason != "" {
					continue
				}
				if pos+k > len(seq) {
					reason = "fewer calls than expected"
					continue
				}
				oo := old
				if oo == nil {
					oo = emptySpec()
				}
				if berr := checkBatch(seq[pos:pos+k], oo, specs[i]); berr != nil {
					reason = fmt.Sprintf("calls %d..%d are not the batch of load %d: %v", pos, pos+k-1, i, berr)
				}
				pos += k
			}
			if reason == "" && pos != len(seq) {
				reason = "more calls than expected"
			}
			if reason != "" {
				reason += "; expected batches " + strings.Join(expect, " then ")
			}
		}
		if reason == "" {
			ok := false
			if o.final == nil {
				ok = final == nil || proto.Size(final) == 0
			} else {
				ok = sameConfig(final, o.final.build())
			}
			if !ok {
				reason = fmt.Sprintf("Current() = {%v}, expected %v", final, o.final)
			}
		}
		if reason == "" {
			hit = o
			break
		}
		whyNot = append(whyNot, fmt.Sprintf("order %v: %s", o.order, reason))
	}
	if hit == nil {
		return st, vio("overlap-not-sequential", "no sequential order of the loads in flight explains results, handler calls %s and Current() (every load's calls must form one uninterrupted batch: the difference against the configuration the load before it left) - %s; %s", callList(seq), strings.Join(whyNot, " | "), desc)
	}
	st.matched = strings.Trim(strings.ReplaceAll(fmt.Sprint(hit.order), " ", "-"), "[]")
	s.replayed = set
	s.cur = hit.final
	s.live = nil

	if sc.Post != nil {
		st.post = true
		if err := s.seqLoad("sequential load after the loads in flight", *sc.Post); err != nil {
			return st, err
		}
	}
	return st, nil
}
