package connprop

import (
	"context"
	"errors"
	"fmt"
	"net"
	"sort"
	"strings"
	"sync"
	"testing"
	"testing/synctest"
	"time"

	"github.com/openconfig/gnmi/connection"
	"github.com/openconfig/gnmi/verifhook"
	"google.golang.org/grpc"
	"google.golang.org/grpc/connectivity"
	"google.golang.org/grpc/credentials/insecure"
	"verif/harness/internal/vstat"
)

// StormCase is one free-running workload in virtual time: many requesters
// (well beyond any plausible internal size threshold: 32, 64, 128 ...) ask for
// connections to many addresses inside one synctest bubble. Every requester is
// a goroutine of its own that sleeps until its start tick, calls Connection,
// holds the result for a while and releases it; dial functions take virtual
// time and succeed or fail as scripted; contexts are cancelled at scripted
// ticks, which may fall before the call, while the requester's own dial is in
// flight (or, in an implementation that queues dials, while it is queued),
// while the requester waits for a dial started by somebody else, while it
// holds the connection, or after it released it.
//
// Nothing is stepped: goroutines that wake at the same virtual instant are
// ordered by the real scheduler. The oracles (see runStorm) therefore hold
// under every schedule; the final verdict is taken when the bubble is
// quiescent, never after a wall-clock delay.
type StormCase struct {
	Addrs   int           `json:"addrs"`
	Callers []StormCaller `json:"callers"`
	// Dials scripts the dial function: the k-th invocation (k = 0, 1, ...) for
	// address a behaves as Dials[(a+k) mod len(Dials)].
	Dials []StormDial `json:"dials"`
	// Probe: after everything was released, one more request for each of these
	// addresses (mod Addrs) must dial afresh.
	Probe []int `json:"probe,omitempty"`
	// Names: templates of the address spellings (names.go); empty: a0, a1, ...
	Names []string `json:"names,omitempty"`
}

// StormDial is the scripted behaviour of one invocation of the dial function.
type StormDial struct {
	Dur int  `json:"dur"` // virtual ticks the dial takes (0: returns at once)
	OK  bool `json:"ok"`  // a fresh idle connection, else an error
	// Net (OK dials): 0 a lazily connecting client that nobody connects (IDLE);
	// 1 the dial function only returns once the connection is READY (a blocking
	// dial; the peer is a gRPC server inside the bubble, over net.Pipe); 2 it
	// calls Connect() and the transport dialer refuses (TRANSIENT_FAILURE,
	// back-off in virtual time); 3 ... hangs (CONNECTING). The connection is in
	// that state when its holders release it; closing it then involves the
	// transport / the pending attempt, so the last release overlaps for longer
	// with the requests that wake at the same virtual instant.
	Net int `json:"net,omitempty"`
}

// StormCaller is one requester.
type StormCaller struct {
	A      int  `json:"a"`             // address index (mod Addrs)
	Start  int  `json:"start"`         // tick of the Connection call
	Ctx    int  `json:"ctx,omitempty"` // 0: background context; 1: own context, never cancelled; 2: own context, cancelled at tick Cancel
	Cancel int  `json:"cancel,omitempty"`
	Hold   int  `json:"hold,omitempty"`  // ticks the connection is held
	Rel    int  `json:"rel,omitempty"`   // the done func is called from 1+Rel goroutines started together
	Again  int  `json:"again,omitempty"` // and Again more times afterwards, one call at a time
	Nest   bool `json:"nest,omitempty"`  // while holding, request the same address again: must be the same connection, no dial
	// X: what the requester does to the *grpc.ClientConn it was handed, outside the
	// manager. 1: Close() as soon as it has it (others may hold it, or get it
	// later); 2: Close() at the end of its hold, before its release; 3: Close()
	// after its release; 4: Connect() as soon as it has it (the transport dialer
	// refuses: TRANSIENT_FAILURE, gRPC's back-off timers run in virtual time).
	// A connection that a requester closed is excused from "never SHUTDOWN while
	// held" and from "no dial while held" (what the manager owes a requester of an
	// address whose connection was closed behind its back is not stated); every
	// other oracle is unchanged, in particular for connections dialled afterwards.
	X int `json:"x,omitempty"`
}

const stormTick = time.Millisecond

// stormHorizon is far beyond the end of any scripted activity (at most a few
// hundred requesters with dials and holds of tens of ticks each). A requester
// that has not returned when the bubble is quiescent and nothing but this timer
// is left to fire will never return.
const stormHorizon = time.Hour

type stormInv struct {
	id, ai, k int
	origin    int // index of the requester whose context the dial function was given, -1 unknown
	start     time.Duration
	// guarded by storm.mu
	returned  bool
	ret       time.Duration
	conn      *grpc.ClientConn
	err       error
	cancelled bool
}

// stormErr is the error returned by the scripted dial function; it identifies
// the invocation.
type stormErr struct {
	inv   *stormInv
	cause error
}

func (e *stormErr) Error() string {
	if e.cause != nil {
		return fmt.Sprintf("dial #%d to %s: %v", e.inv.id, addrName(e.inv.ai), e.cause)
	}
	return fmt.Sprintf("scripted failure of dial #%d to %s", e.inv.id, addrName(e.inv.ai))
}
func (e *stormErr) Unwrap() error { return e.cause }

type stormCallerState struct {
	// guarded by storm.mu
	called, returned bool
	s0, s1           time.Duration
	conn             *grpc.ClientConn
	err              error
	released         bool
	relTick          time.Duration
}

type stormKey struct{}

type storm struct {
	sc  *StormCase
	m   *connection.Manager
	t0  time.Time
	idx map[string]int
	tab []string // spelling of address i

	mu        sync.Mutex
	invs      []*stormInv
	perAddr   []int // invocations of the dial function so far
	inflight  []int // invocations that have not returned
	holders   []int // requesters holding a connection of the address right now
	gInflight int
	maxDials  int
	maxHold   int
	viol      *verr
	lis       *pipeListener // in-bubble server behind Net 1, nil if the case has no such dial
	cs        []stormCallerState
	labels    map[string]bool
	xclosed   map[*grpc.ClientConn]bool // closed by a requester itself; recorded before the call
}

// closeOutside: a requester closes the connection it was handed.
func (s *storm) closeOutside(who string, cc *grpc.ClientConn, label string) {
	s.mu.Lock()
	s.xclosed[cc] = true
	s.labels[label] = true
	s.mu.Unlock()
	s.guarded("Close() by "+who, func() { cc.Close() })
}

func (s *storm) closedOutside(cc *grpc.ClientConn) bool {
	s.mu.Lock()
	defer s.mu.Unlock()
	return s.xclosed[cc]
}

func (s *storm) now() time.Duration { return time.Since(s.t0) }

// an names address ai in messages: its index name and, if generated, its spelling.
func (s *storm) an(ai int) string {
	if len(s.sc.Names) == 0 {
		return addrName(ai)
	}
	a := s.tab[ai]
	if len(a) > 48 {
		a = a[:45] + "..."
	}
	return fmt.Sprintf("%s=%q", addrName(ai), a)
}

func tickOf(d time.Duration) int { return int(d / stormTick) }

// violate keeps the first violation (any of them is a sound verdict).
func (s *storm) violate(class, format string, a ...any) {
	s.mu.Lock()
	if s.viol == nil {
		s.viol = newVerr(class, format, a...)
	}
	s.mu.Unlock()
}

func (s *storm) label(l string) {
	s.mu.Lock()
	s.labels[l] = true
	s.mu.Unlock()
}

func (s *storm) invOfConn(cc *grpc.ClientConn) *stormInv {
	s.mu.Lock()
	defer s.mu.Unlock()
	for _, inv := range s.invs {
		if inv.returned && inv.conn == cc {
			return inv
		}
	}
	return nil
}

func (s *storm) dial(ctx context.Context, target string, opts ...grpc.DialOption) (*grpc.ClientConn, error) {
	ai, ok := s.idx[target]
	if !ok {
		s.violate("unexpected-dial", "the dial function was invoked for %q, which nobody asked for", target)
		return nil, fmt.Errorf("unknown target %q", target)
	}
	origin := -1
	if v, ok := ctx.Value(stormKey{}).(int); ok {
		origin = v
	}
	s.mu.Lock()
	inv := &stormInv{id: len(s.invs), ai: ai, k: s.perAddr[ai], origin: origin, start: s.now()}
	s.invs = append(s.invs, inv)
	s.perAddr[ai]++
	s.inflight[ai]++
	second := s.inflight[ai] > 1
	s.gInflight++
	if s.gInflight > s.maxDials {
		s.maxDials = s.gInflight
	}
	s.mu.Unlock()
	if second {
		s.violate("second-dial-in-flight", "dial #%d to %s was invoked at tick %d while an earlier invocation of the dial function for the same address had not returned", inv.id, target, tickOf(inv.start))
	}
	d := s.sc.Dials[(ai+inv.k)%len(s.sc.Dials)]
	var cc *grpc.ClientConn
	var err error
	cancelled := false
	switch {
	case ctx.Err() != nil:
		cancelled = true
	case d.Dur > 0:
		tm := time.NewTimer(time.Duration(d.Dur) * stormTick)
		select {
		case <-tm.C:
		case <-ctx.Done():
			cancelled = true
			tm.Stop()
		}
	}
	switch {
	case cancelled:
		err = &stormErr{inv: inv, cause: ctx.Err()}
	case d.OK:
		// the spelling of the address is never parsed by gRPC; a transport is only
		// attempted when a requester calls Connect() (X=4), and is refused
		netMode := mod(d.Net, 4)
		o := append(append([]grpc.DialOption(nil), opts...), grpc.WithContextDialer(func(ctx context.Context, _ string) (net.Conn, error) {
			switch {
			case netMode == 1 && s.lis != nil:
				a, b := net.Pipe()
				select {
				case s.lis.ch <- b:
					return a, nil
				case <-s.lis.done:
				case <-ctx.Done():
				}
				a.Close()
				b.Close()
				return nil, errors.New("c16: in-bubble server gone")
			case netMode == 3:
				<-ctx.Done()
				return nil, ctx.Err()
			}
			return nil, errors.New("c16: connection refused (scripted)")
		}))
		cc, err = grpc.NewClient("passthrough:///c16", o...)
		if err == nil && netMode != 0 {
			cc.Connect()
			s.label("connected:dial-function-connects-" + []string{"", "and-waits-for-READY", "refused", "hanging"}[netMode])
		}
		if err == nil && netMode == 1 && s.lis != nil {
			for st := cc.GetState(); st != connectivity.Ready; st = cc.GetState() {
				if !cc.WaitForStateChange(ctx, st) {
					// the context ended while the dial waited for READY
					cc.Close()
					cc, err, cancelled = nil, &stormErr{inv: inv, cause: ctx.Err()}, true
					break
				}
			}
		}
	default:
		err = &stormErr{inv: inv}
	}
	s.mu.Lock()
	inv.conn, inv.err, inv.cancelled, inv.returned, inv.ret = cc, err, cancelled, true, s.now()
	if cancelled && s.gInflight > 32 {
		s.labels["originator-cancelled-while-more-than-32-dials-in-flight"] = true
	}
	s.inflight[ai]--
	s.gInflight--
	s.mu.Unlock()
	return cc, err
}

// cancelledPeer: err is a context error and some requester of the same address,
// which has made its call, has a context of its own that is cancelled by now.
func (s *storm) cancelledPeer(ai int, err error) bool {
	if !errors.Is(err, context.Canceled) && !errors.Is(err, context.DeadlineExceeded) {
		return false
	}
	now := s.now()
	s.mu.Lock()
	defer s.mu.Unlock()
	for j, c := range s.sc.Callers {
		if mod(c.A, s.sc.Addrs) == ai && c.Ctx == 2 && s.cs[j].called && time.Duration(c.Cancel)*stormTick <= now {
			return true
		}
	}
	return false
}

// guarded runs f and turns a panic into a violation.
func (s *storm) guarded(what string, f func()) {
	defer func() {
		if p := recover(); p != nil {
			s.violate("panic", "%s panicked: %s", what, describePanic(p))
		}
	}()
	f()
}

// release calls done from n goroutines started together, then again more times.
func (s *storm) release(what string, done func(), n, again int) {
	if n <= 1 {
		s.guarded(what, done)
	} else {
		start := make(chan struct{})
		var wg sync.WaitGroup
		for g := 0; g < n; g++ {
			wg.Add(1)
			go func() {
				defer wg.Done()
				<-start
				s.guarded(what+" (one of several concurrent calls of the same done func)", done)
			}()
		}
		close(start)
		wg.Wait()
	}
	for k := 0; k < again; k++ {
		s.guarded(what+" (repeated call)", done)
	}
}

func (s *storm) caller(i int) {
	c := s.sc.Callers[i]
	ai := mod(c.A, s.sc.Addrs)
	addr := s.an(ai) // for messages; the calls use the spelling s.tab[ai]
	who := fmt.Sprintf("requester %d (%s, start tick %d)", i, addr, c.Start)
	ctx := context.Background()
	var cancel context.CancelFunc
	if c.Ctx > 0 {
		ctx, cancel = context.WithCancel(context.WithValue(ctx, stormKey{}, i))
		defer cancel() // when the requester is through with everything
		if c.Ctx == 2 {
			if c.Cancel <= 0 {
				cancel()
			} else {
				tm := time.AfterFunc(time.Duration(c.Cancel)*stormTick, cancel)
				defer tm.Stop()
			}
		}
	}
	if c.Start > 0 {
		time.Sleep(time.Duration(c.Start) * stormTick)
	}
	st := &s.cs[i]
	s0 := s.now()
	s.mu.Lock()
	st.called, st.s0 = true, s0
	s.mu.Unlock()
	var conn *grpc.ClientConn
	var done func()
	var err error
	s.guarded("Connection of "+who, func() {
		conn, done, err = s.m.Connection(ctx, s.tab[ai], connection.DEFAULT)
	})
	s1 := s.now()
	s.mu.Lock()
	st.returned, st.s1, st.conn, st.err = true, s1, conn, err
	panicked := s.viol != nil && s.viol.class == "panic"
	s.mu.Unlock()
	if done == nil {
		if !panicked {
			s.violate("nil-done", "%s: Connection returned a nil done func (connection nil: %v, error: %v)", who, conn == nil, err)
		}
		return
	}
	switch {
	case conn == nil && err == nil:
		s.violate("nil-conn-nil-error", "%s got (nil connection, nil error) at tick %d", who, tickOf(s1))
		return
	case conn != nil && err != nil:
		s.violate("outcome-not-shared", "%s got both a connection and the error %q", who, err)
		return
	}
	if err != nil {
		var se *stormErr
		switch {
		case errors.As(err, &se):
			switch {
			case se.inv.ai != ai:
				s.violate("outcome-not-shared", "%s got the error of dial #%d, which was a dial to %s", who, se.inv.id, addrName(se.inv.ai))
			case se.inv.ret < s0:
				// Virtual time advanced between the return of that dial function and
				// this call: the bubble was quiescent in between, so the failure had
				// been published and the entry forgotten.
				s.violate("no-fresh-dial", "%s got the error of dial #%d, whose dial function had returned at tick %d, before the request was made: a request made after a failed dial must dial afresh", who, se.inv.id, tickOf(se.inv.ret))
			}
			if se.inv.origin != i && se.inv.origin >= 0 {
				s.label("error-of-another-requesters-dial-shared")
			}
			if se.inv.cancelled && se.inv.origin != i {
				s.label("waiter-got-the-cancellation-of-the-originator")
			}
		case ctx.Err() != nil && errors.Is(err, ctx.Err()):
			s.label("refused-or-gave-up-for-own-cancelled-ctx")
		case s.cancelledPeer(ai, err):
			// "canceling the context of a pending attempt early would propagate an
			// error to blocked callers": also accepted when the dial function was
			// never entered for that attempt (an implementation that queues dials)
			s.label("waiter-got-the-context-error-of-another-requester")
		default:
			s.violate("outcome-not-shared", "%s got the error %q, which is neither the outcome of a dial to %s nor the error of its own context (own context cancelled: %v) or of the cancelled context of another requester of %s", who, err, addr, ctx.Err() != nil, addr)
		}
		// releasing after a failed request has no effect
		s.release("done func returned with an error to "+who, done, 1+c.Rel, c.Again)
		return
	}
	inv := s.invOfConn(conn)
	switch {
	case inv == nil:
		s.violate("outcome-not-shared", "%s got a connection that no invocation of the dial function has returned", who)
		return
	case inv.ai != ai:
		s.violate("outcome-not-shared", "%s got the connection made by dial #%d, which was a dial to %s", who, inv.id, addrName(inv.ai))
		return
	}
	if conn.GetState() == connectivity.Shutdown {
		if s.closedOutside(conn) {
			s.label("outside:handed-a-connection-that-a-requester-closed")
		} else {
			s.violate("closed-while-held", "%s got the connection of dial #%d at tick %d already closed (state SHUTDOWN)", who, inv.id, tickOf(s1))
		}
	}
	s.mu.Lock()
	n0 := s.perAddr[ai]
	s.holders[ai]++
	if s.holders[ai] > s.maxHold {
		s.maxHold = s.holders[ai]
	}
	s.mu.Unlock()
	if inv.origin != i {
		s.label("joined-another-requesters-dial-or-connection")
	}
	switch c.X {
	case 1:
		s.closeOutside(who, conn, "outside:close-by-holder-at-once")
	case 4:
		s.guarded("Connect() by "+who, conn.Connect)
		s.label("outside:connect-by-holder-refused-transport")
	}
	if c.Ctx == 2 && c.Cancel > 0 && time.Duration(c.Cancel)*stormTick < s1 && time.Duration(c.Cancel)*stormTick >= s0 {
		if inv.origin != i {
			s.label("cancelled-while-waiting-for-another-requesters-dial")
		}
	}
	if c.Nest {
		var c2 *grpc.ClientConn
		var d2 func()
		var e2 error
		s.guarded("nested Connection of "+who, func() {
			c2, d2, e2 = s.m.Connection(context.Background(), s.tab[ai], connection.DEFAULT)
		})
		if (e2 != nil || c2 != conn) && !s.closedOutside(conn) {
			s.violate("redial-while-live", "%s holds the connection of dial #%d unreleased and asked for %s again at tick %d: got (same connection: %v, error: %v) instead of the connection it holds", who, inv.id, addr, tickOf(s.now()), c2 == conn, e2)
		}
		if d2 != nil {
			s.release("done func of the nested request of "+who, d2, 1, 0)
		}
		s.label("nested-request-while-holding")
	}
	if c.Hold > 0 {
		time.Sleep(time.Duration(c.Hold) * stormTick)
	}
	if st := conn.GetState(); st == connectivity.TransientFailure || st == connectivity.Connecting {
		s.label("outside:held-connection-" + st.String())
	} else if st == connectivity.Ready {
		s.label("connected:released-in-state-READY")
	}
	if conn.GetState() == connectivity.Shutdown && s.closedOutside(conn) {
		s.label("outside:held-connection-closed-by-a-requester")
	} else if conn.GetState() == connectivity.Shutdown {
		s.violate("closed-while-held", "the connection of dial #%d (%s) is closed (state SHUTDOWN) at tick %d although %s, which got it at tick %d, has not released it", inv.id, addr, tickOf(s.now()), who, tickOf(s1))
	}
	s.mu.Lock()
	n1 := s.perAddr[ai]
	s.holders[ai]--
	s.mu.Unlock()
	if n1 != n0 && s.closedOutside(conn) {
		s.label("outside:fresh-dial-while-requester-closed-connection-is-held")
	} else if n1 != n0 {
		s.violate("redial-while-live", "the dial function was invoked %d more time(s) for %s between tick %d and tick %d, while %s held the connection of dial #%d unreleased", n1-n0, addr, tickOf(s1), tickOf(s.now()), who, inv.id)
	}
	if c.Ctx == 2 && c.Cancel > 0 && time.Duration(c.Cancel)*stormTick >= s1 && time.Duration(c.Cancel)*stormTick < s.now() {
		s.label("cancelled-while-holding")
	}
	if c.Rel > 0 {
		s.label("concurrent-release-of-the-same-done-func")
	}
	if c.X == 2 {
		s.closeOutside(who, conn, "outside:close-by-holder-before-its-release")
	}
	s.release("done func of "+who, done, 1+c.Rel, c.Again)
	s.mu.Lock()
	st.released, st.relTick = true, s.now()
	s.mu.Unlock()
	if c.X == 3 {
		s.closeOutside(who, conn, "outside:close-after-own-release")
	}
}

// waitOrStuck waits for ch; false if the bubble went quiescent for good first.
func waitOrStuck(ch <-chan struct{}) bool {
	tm := time.NewTimer(stormHorizon)
	defer tm.Stop()
	select {
	case <-ch:
		return true
	case <-tm.C:
		return false
	}
}

func (s *storm) describeStuck() string {
	s.mu.Lock()
	defer s.mu.Unlock()
	var out []string
	n := 0
	for i := range s.cs {
		st := &s.cs[i]
		if !st.called || st.returned {
			continue
		}
		n++
		if len(out) >= 6 {
			continue
		}
		c := s.sc.Callers[i]
		ai := mod(c.A, s.sc.Addrs)
		var last *stormInv
		for _, inv := range s.invs {
			if inv.ai == ai {
				last = inv
			}
		}
		what := "the dial function was never invoked for this address"
		if last != nil {
			switch {
			case !last.returned:
				what = fmt.Sprintf("dial #%d (invoked at tick %d) has not returned", last.id, tickOf(last.start))
			case last.err != nil:
				what = fmt.Sprintf("the last dial #%d returned the error %q at tick %d", last.id, last.err, tickOf(last.ret))
			default:
				what = fmt.Sprintf("the last dial #%d returned a connection at tick %d", last.id, tickOf(last.ret))
			}
		}
		own := "background context"
		if c.Ctx == 2 {
			own = fmt.Sprintf("own context cancelled at tick %d", c.Cancel)
		} else if c.Ctx == 1 {
			own = "own context, never cancelled"
		}
		out = append(out, fmt.Sprintf("requester %d called Connection(%s) at tick %d (%s) and never returned; %s", i, addrName(ai), tickOf(st.s0), own, what))
	}
	return fmt.Sprintf("%d requester(s) blocked forever: %s", n, strings.Join(out, "; "))
}

type stormStats struct {
	labels     []string
	nontrivial bool
}

func bucket(n int) string {
	switch {
	case n <= 8:
		return "01-08"
	case n <= 32:
		return "09-32"
	case n <= 64:
		return "33-64"
	case n <= 128:
		return "65-128"
	}
	return "129-plus"
}

func runStormBubble(sc *StormCase) (stormStats, *verr) {
	if sc.Addrs < 1 || sc.Addrs > 4096 || len(sc.Callers) < 1 || len(sc.Callers) > 4096 || len(sc.Dials) < 1 {
		return stormStats{}, newVerr("harness-error", "storm case out of range: %d addresses, %d requesters, %d dial scripts", sc.Addrs, len(sc.Callers), len(sc.Dials))
	}
	s := &storm{sc: sc, t0: time.Now(), idx: map[string]int{}, labels: map[string]bool{}, xclosed: map[*grpc.ClientConn]bool{},
		perAddr: make([]int, sc.Addrs), inflight: make([]int, sc.Addrs), holders: make([]int, sc.Addrs), cs: make([]stormCallerState, len(sc.Callers))}
	var distinct bool
	if s.tab, distinct = addrTable(sc.Names, sc.Addrs); !distinct {
		return stormStats{}, newVerr("harness-error", "the address spellings of the case are not pairwise different after case folding: this part decides nothing about such spellings")
	}
	for i := 0; i < sc.Addrs; i++ {
		s.idx[s.tab[i]] = i
	}
	for _, l := range nameLabels(s.tab, len(sc.Names) > 0) {
		s.labels[l] = true
	}
	m, err := connection.NewManagerCustom(map[string]connection.Dial{connection.DEFAULT: s.dial}, grpc.WithTransportCredentials(insecure.NewCredentials()))
	if err != nil {
		return stormStats{}, newVerr("harness-error", "NewManagerCustom: %v", err)
	}
	s.m = m
	verifhook.Set(nil)
	for _, d := range sc.Dials {
		if d.OK && mod(d.Net, 4) == 1 && s.lis == nil {
			s.lis = &pipeListener{ch: make(chan net.Conn), done: make(chan struct{})}
			srv := grpc.NewServer()
			go srv.Serve(s.lis)
			defer func() {
				srv.Stop()
				s.lis.Close()
				synctest.Wait()
			}()
		}
	}
	defer func() {
		// whatever happened: no connection outlives the case
		s.mu.Lock()
		var conns []*grpc.ClientConn
		for _, inv := range s.invs {
			if inv.conn != nil {
				conns = append(conns, inv.conn)
			}
		}
		s.mu.Unlock()
		for _, cc := range conns {
			if cc.GetState() != connectivity.Shutdown {
				cc.Close()
			}
		}
	}()
	var wg sync.WaitGroup
	for i := range sc.Callers {
		wg.Add(1)
		go func(i int) {
			defer wg.Done()
			s.caller(i)
		}(i)
	}
	all := make(chan struct{})
	go func() { wg.Wait(); close(all) }()
	finished := waitOrStuck(all)
	s.mu.Lock()
	v := s.viol
	s.mu.Unlock()
	if v != nil {
		return stormStats{}, v
	}
	if !finished {
		return stormStats{}, newVerr("stuck-requester", "the bubble is quiescent and no scripted event is left, but %s", s.describeStuck())
	}
	synctest.Wait()
	// every requester returned and released: every connection ever made is closed
	s.mu.Lock()
	for _, inv := range s.invs {
		if !inv.returned {
			v = newVerr("stuck-requester", "every requester has returned, but dial #%d to %s (invoked at tick %d) never returned", inv.id, addrName(inv.ai), tickOf(inv.start))
			break
		}
		if inv.conn != nil && inv.conn.GetState() != connectivity.Shutdown {
			v = newVerr("not-closed-at-last-release", "every requester has returned and released its handle, but the connection made by dial #%d to %s is in state %v: not closed at its last release", inv.id, addrName(inv.ai), inv.conn.GetState())
			break
		}
	}
	s.mu.Unlock()
	if v != nil {
		return stormStats{}, v
	}
	// the next request for an address dials afresh
	seen := map[int]bool{}
	for _, p := range sc.Probe {
		ai := mod(p, sc.Addrs)
		if seen[ai] {
			continue
		}
		seen[ai] = true
		if v := s.probe(ai); v != nil {
			return stormStats{}, v
		}
	}
	s.mu.Lock()
	if v = s.viol; v != nil {
		s.mu.Unlock()
		return stormStats{}, v
	}
	// labels
	failed, cancelledDials, okDials := 0, 0, 0
	for _, inv := range s.invs {
		switch {
		case inv.cancelled:
			cancelledDials++
		case inv.err != nil:
			failed++
		default:
			okDials++
		}
	}
	lb := s.labels
	lb["requesters-"+bucket(len(sc.Callers))] = true
	lb["addresses-"+bucket(sc.Addrs)] = true
	lb["max-dials-in-flight-"+bucket(s.maxDials)] = true
	lb["max-holders-of-one-address-"+bucket(s.maxHold)] = true
	if failed > 0 {
		lb["dial-failed"] = true
	}
	if cancelledDials > 0 {
		lb["dial-cancelled-by-originator"] = true
	}
	if okDials > 0 {
		lb["dial-ok"] = true
	}
	redial := false
	for _, n := range s.perAddr {
		redial = redial || n >= 2
	}
	if redial {
		lb["address-dialled-more-than-once"] = true
	}
	st := stormStats{nontrivial: s.maxHold >= 2 && failed+cancelledDials > 0}
	if st.nontrivial {
		lb["nontrivial"] = true
	}
	for l := range lb {
		st.labels = append(st.labels, l)
	}
	s.mu.Unlock()
	sort.Strings(st.labels)
	return st, nil
}

// probe: with nothing registered for the address any more, one more request
// must invoke the dial function once and get exactly its outcome.
func (s *storm) probe(ai int) *verr {
	addr := s.an(ai)
	s.mu.Lock()
	n0 := s.perAddr[ai]
	s.mu.Unlock()
	var conn *grpc.ClientConn
	var done func()
	var err error
	ret := make(chan struct{})
	go func() {
		defer close(ret)
		s.guarded("final Connection("+addr+")", func() {
			conn, done, err = s.m.Connection(context.Background(), s.tab[ai], connection.DEFAULT)
		})
	}()
	if !waitOrStuck(ret) {
		return newVerr("stuck-requester", "after every requester had returned and released its handle, one more request for %s never returned (dial function invoked for it: %v)", addr, func() bool { s.mu.Lock(); defer s.mu.Unlock(); return s.perAddr[ai] > n0 }())
	}
	s.mu.Lock()
	n1 := s.perAddr[ai]
	var inv *stormInv
	for _, x := range s.invs {
		if x.ai == ai {
			inv = x
		}
	}
	v := s.viol
	s.mu.Unlock()
	switch {
	case v != nil:
		return v
	case n1 != n0+1:
		return newVerr("no-fresh-dial", "after every requester had returned and released its handle, one more request for %s invoked the dial function %d time(s) and returned (connection nil: %v, error: %v): the address was not forgotten", addr, n1-n0, conn == nil, err)
	case done == nil:
		return newVerr("nil-done", "final request for %s: nil done func", addr)
	case inv.err != nil && (conn != nil || err == nil || !errors.Is(err, inv.err)):
		return newVerr("outcome-not-shared", "final request for %s: dial #%d failed with %q but the request returned (connection nil: %v, error: %v)", addr, inv.id, inv.err, conn == nil, err)
	case inv.err == nil && (conn != inv.conn || err != nil):
		return newVerr("outcome-not-shared", "final request for %s: dial #%d made a connection but the request returned (that connection: %v, error: %v)", addr, inv.id, conn == inv.conn, err)
	}
	if conn != nil && conn.GetState() == connectivity.Shutdown {
		return newVerr("closed-while-held", "final request for %s got a closed connection", addr)
	}
	s.release("done func of the final request for "+addr, done, 1, 0)
	synctest.Wait()
	s.mu.Lock()
	v = s.viol
	s.mu.Unlock()
	if v != nil {
		return v
	}
	if conn != nil && conn.GetState() != connectivity.Shutdown {
		return newVerr("not-closed-at-last-release", "final request for %s: the only holder released the connection of dial #%d but it is in state %v", addr, inv.id, conn.GetState())
	}
	return nil
}

// runStorm executes sc in a bubble of its own.
func runStorm(t *testing.T, sc *StormCase) (st stormStats, err error) {
	defer func() {
		if r := recover(); r != nil {
			// synctest.Test panics here when goroutines of the bubble are still
			// blocked after the root returned (requesters that never return).
			if err == nil {
				err = newVerr("deadlock", "goroutines of the case remain blocked for good: %v", r)
			}
		}
	}()
	stop := vstat.Watchdog(30*time.Second, 5*time.Second)
	defer stop()
	synctest.Test(t, func(*testing.T) {
		defer func() {
			if r := recover(); r != nil {
				err = newVerr("panic", "panic on the scenario goroutine: %s", describePanic(r))
			}
		}()
		s, v := runStormBubble(sc)
		st = s
		if v != nil {
			err = v
		}
	})
	return st, err
}
