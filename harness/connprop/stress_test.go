package connprop

import (
	"context"
	"flag"
	"fmt"
	"math/rand"
	"runtime"
	"strings"
	"sync"
	"sync/atomic"
	"testing"

	"github.com/openconfig/gnmi/connection"
	"google.golang.org/grpc"
	"google.golang.org/grpc/connectivity"
	"google.golang.org/grpc/credentials/insecure"
	"verif/harness/internal/vstat"
)

var stressRounds = flag.Int("c16.stress", 300, "rounds of the free-running acquire/release stress")

// StressRound is one free-running workload: a few goroutines acquire, hold and
// release connections to a few addresses as fast as they can, so that the
// reference count of an address keeps reaching zero while another request for
// it is arriving. The windows inside a single release or acquire (which the
// stepwise engine cannot enter) are explored by the real scheduler.
type StressRound struct {
	Seed    int64 `json:"seed"`
	Addrs   int   `json:"addrs"`
	Workers int   `json:"workers"`
	Cycles  int   `json:"cycles"`
	// Dup > 0: about one release in Dup is made by two to four goroutines that
	// call one and the same done func at the same moment (it counts once).
	Dup int `json:"dup,omitempty"`
	// Spell: the spelling of each address (empty: a0, a1, ...). Spellings that
	// differ only in case may occur together: every oracle of this part is local
	// to a holder or about all connections, and holds whether or not such
	// spellings share a connection.
	Spell []string `json:"spell,omitempty"`
	// XClose > 0: about one holder in XClose calls Close() itself on the connection
	// it was handed, while it holds it (others may hold it too, or be handed it
	// afterwards). Such a connection is excused from oracle (1); a connection that
	// nobody but the manager can have closed is not.
	XClose int `json:"xclose,omitempty"`
}

func (r *StressRound) addr(a int) string {
	if a < len(r.Spell) {
		return r.Spell[a]
	}
	return fmt.Sprintf("a%d", a)
}

// releaseTogether calls done from n goroutines released by a spin barrier.
func releaseTogether(done func(), n int, onPanic func(any)) {
	var wg sync.WaitGroup
	var ready, goNow atomic.Int32
	for g := 0; g < n; g++ {
		wg.Add(1)
		go func() {
			defer wg.Done()
			defer func() {
				if p := recover(); p != nil {
					onPanic(p)
				}
			}()
			ready.Add(1)
			for goNow.Load() == 0 {
				runtime.Gosched()
			}
			done()
		}()
	}
	for ready.Load() < int32(n) {
		runtime.Gosched()
	}
	goNow.Store(1)
	wg.Wait()
}

// runStressRound's oracles are local to a holder, hence sound under any
// schedule: (1) a connection obtained with a nil error and not yet released
// by this holder is never in state Shutdown; (2) once every holder has
// released, every connection ever handed out is Shutdown (closed at the last
// release, none leaked); (3) nothing panics.
func runStressRound(r *StressRound) (overlaps int64, err error) {
	var mu sync.Mutex
	var all []*grpc.ClientConn
	dial := func(ctx context.Context, target string, opts ...grpc.DialOption) (*grpc.ClientConn, error) {
		cc, derr := grpc.NewClient("passthrough:///c16", grpc.WithTransportCredentials(insecure.NewCredentials())) // the spelling is never parsed by gRPC
		if derr == nil {
			mu.Lock()
			all = append(all, cc)
			mu.Unlock()
		}
		return cc, derr
	}
	m, merr := connection.NewManagerCustom(map[string]connection.Dial{connection.DEFAULT: dial})
	if merr != nil {
		return 0, merr
	}
	defer func() {
		mu.Lock()
		for _, cc := range all {
			cc.Close()
		}
		mu.Unlock()
	}()
	var firstErr atomic.Value
	var shared atomic.Int64
	var xclosed sync.Map // connections closed by a holder itself, recorded before the call
	holders := make([]atomic.Int64, r.Addrs)
	var wg sync.WaitGroup
	start := make(chan struct{})
	for w := 0; w < r.Workers; w++ {
		wg.Add(1)
		go func(w int) {
			defer wg.Done()
			defer func() {
				if p := recover(); p != nil {
					firstErr.CompareAndSwap(nil, fmt.Errorf("panic in worker %d: %v", w, p))
				}
			}()
			rnd := rand.New(rand.NewSource(r.Seed*131 + int64(w)))
			<-start
			for i := 0; i < r.Cycles && firstErr.Load() == nil; i++ {
				a := rnd.Intn(r.Addrs)
				addr := r.addr(a)
				cc, done, cerr := m.Connection(context.Background(), addr, connection.DEFAULT)
				if cerr != nil {
					firstErr.CompareAndSwap(nil, fmt.Errorf("worker %d cycle %d: Connection(%q) failed although every dial succeeds: %v", w, i, addr, cerr))
					return
				}
				if holders[a].Add(1) > 1 {
					shared.Add(1)
				}
				for k := rnd.Intn(3); k >= 0; k-- {
					if r.XClose > 0 && rnd.Intn(r.XClose) == 0 {
						xclosed.Store(cc, true)
						cc.Close()
					}
					if st := cc.GetState(); st == connectivity.Shutdown {
						if _, byHolder := xclosed.Load(cc); byHolder {
							break
						}
						firstErr.CompareAndSwap(nil, fmt.Errorf("worker %d cycle %d: the connection to %q handed to this holder is in state SHUTDOWN although the holder has not released it", w, i, addr))
						holders[a].Add(-1)
						done()
						return
					}
				}
				holders[a].Add(-1)
				if r.Dup > 0 && rnd.Intn(r.Dup) == 0 {
					releaseTogether(done, 2+rnd.Intn(3), func(p any) {
						firstErr.CompareAndSwap(nil, fmt.Errorf("worker %d cycle %d: one of several concurrent calls of the same done func (%q) panicked: %v", w, i, addr, describePanic(p)))
					})
				} else {
					done()
				}
				if rnd.Intn(8) == 0 {
					done() // releasing twice has no effect
				}
			}
		}(w)
	}
	close(start)
	wg.Wait()
	if e := firstErr.Load(); e != nil {
		return shared.Load(), e.(error)
	}
	mu.Lock()
	defer mu.Unlock()
	for i, cc := range all {
		if st := cc.GetState(); st != connectivity.Shutdown {
			return shared.Load(), fmt.Errorf("every holder has released, but connection #%d is in state %v: not closed at its last release", i, st)
		}
	}
	return shared.Load(), nil
}

// TestC16Stress is the free-running part of C16.
func TestC16Stress(t *testing.T) {
	if !vstat.Enabled("C16") {
		t.Skip()
	}
	rec := vstat.New("C16", "stress")
	rec.SetRequested(*stressRounds)
	rec.Note("free-running part: workloads are a function of the seed, schedules are the real scheduler's and cannot be replayed; a replay re-runs the workload several times")
	rnd := rand.New(rand.NewSource(*vstat.Seed))
	for i := 0; i < *stressRounds; i++ {
		r := &StressRound{Seed: rnd.Int63(), Addrs: 1 + rnd.Intn(2), Workers: 2 + rnd.Intn(3), Cycles: 300}
		lb := []string{"free-running", fmt.Sprintf("workers-%d", r.Workers)}
		if i%2 == 1 {
			// every other round: some releases are concurrent calls of the same done func
			r.Dup = 4
			lb = append(lb, "concurrent-calls-of-the-same-done-func")
		}
		if i%4 == 3 {
			// some holders close the connection they were handed themselves
			r.XClose = 6
			lb = append(lb, "outside:holders-close-their-connection-themselves")
		}
		switch i % 3 {
		case 1:
			// spellings of one address that differ only in case
			base := addrOf([]string{nameTemplates[1+rnd.Intn(len(nameTemplates)-1)]}, 0)
			r.Addrs = 2 + rnd.Intn(2)
			r.Spell = []string{base, strings.ToLower(base), strings.ToUpper(base)}[:r.Addrs]
			if rnd.Intn(2) == 0 {
				r.Spell[0], r.Spell[1] = r.Spell[1], r.Spell[0]
			}
			lb = append(lb, "spellings-that-differ-only-in-case")
		case 2:
			names := make([]string, r.Addrs)
			for k := range names {
				names[k] = nameTemplates[rnd.Intn(len(nameTemplates))]
			}
			r.Spell, _ = addrTable(names, r.Addrs)
			lb = append(lb, nameLabels(r.Spell, true)...)
		}
		rec.Current(r)
		shared, err := runStressRound(r)
		rec.Case(r, shared > 0, lb...)
		if err != nil {
			rec.AddViolation(r, "stress", "closed-while-held-or-leaked", "%v", err)
			t.Fail()
			break
		}
	}
	rec.Flush(true)
}
