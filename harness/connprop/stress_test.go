package connprop

import (
	"context"
	"errors"
	"flag"
	"fmt"
	"math/rand"
	"net"
	"runtime"
	"strings"
	"sync"
	"sync/atomic"
	"testing"

	"github.com/openconfig/gnmi/connection"
	"google.golang.org/grpc"
	"google.golang.org/grpc/connectivity"
	"google.golang.org/grpc/credentials/insecure"
	"verif/harness/internal/vstat"
)

var stressRounds = flag.Int("c16.stress", 300, "rounds of the free-running acquire/release stress")

// StressRound is one free-running workload: a few goroutines acquire, hold and
// release connections to a few addresses as fast as they can, so that the
// reference count of an address keeps reaching zero while another request for
// it is arriving. The windows inside a single release or acquire (which the
// stepwise engine cannot enter) are explored by the real scheduler.
type StressRound struct {
	Seed    int64 `json:"seed"`
	Addrs   int   `json:"addrs"`
	Workers int   `json:"workers"`
	Cycles  int   `json:"cycles"`
	// Dup > 0: about one release in Dup is made by two to four goroutines that
	// call one and the same done func at the same moment (it counts once).
	Dup int `json:"dup,omitempty"`
	// Spell: the spelling of each address (empty: a0, a1, ...). Spellings that
	// differ only in case may occur together: every oracle of this part is local
	// to a holder or about all connections, and holds whether or not such
	// spellings share a connection.
	Spell []string `json:"spell,omitempty"`
	// XClose > 0: about one holder in XClose calls Close() itself on the connection
	// it was handed, while it holds it (others may hold it too, or be handed it
	// afterwards). Such a connection is excused from oracle (1); a connection that
	// nobody but the manager can have closed is not.
	XClose int `json:"xclose,omitempty"`
	// Net: what the connections are when their holders release them. 0: lazily
	// connecting clients that nobody connects (IDLE); 1: the dial function only
	// returns once the connection is READY (a blocking dial; the peer is a gRPC
	// server of the round, reached over net.Pipe); 2: the dial function calls
	// Connect() and the transport dialer refuses (TRANSIENT_FAILURE, back-off);
	// 3: ... and the transport dialer hangs (CONNECTING); 4: each dial another of
	// these. Closing a connection that has a transport or a pending connection
	// attempt takes longer and goes through more goroutines than closing an idle
	// one: the last release racing a new request is a different race then.
	Net int `json:"net,omitempty"`
	// Yield > 0: a holder yields the processor up to Yield times between the
	// looks it takes at the state of the connection it holds.
	Yield int `json:"yield,omitempty"`
}

var stressNetNames = []string{"idle", "ready", "transient-failure", "connecting", "mixed"}

// stressStats: what a round has seen (for the labels only).
type stressStats struct {
	shared atomic.Int64
	// connectivity state of a connection when a holder looked at it right before
	// its release, by state
	atRelease [5]atomic.Int64
}

func (s *stressStats) labels() []string {
	var out []string
	for st := connectivity.Idle; st <= connectivity.Shutdown; st++ {
		if s.atRelease[st].Load() > 0 && st != connectivity.Shutdown {
			out = append(out, "released-in-state-"+st.String())
		}
	}
	return out
}

func (r *StressRound) addr(a int) string {
	if a < len(r.Spell) {
		return r.Spell[a]
	}
	return fmt.Sprintf("a%d", a)
}

// releaseTogether calls done from n goroutines released by a spin barrier.
func releaseTogether(done func(), n int, onPanic func(any)) {
	var wg sync.WaitGroup
	var ready, goNow atomic.Int32
	for g := 0; g < n; g++ {
		wg.Add(1)
		go func() {
			defer wg.Done()
			defer func() {
				if p := recover(); p != nil {
					onPanic(p)
				}
			}()
			ready.Add(1)
			for goNow.Load() == 0 {
				runtime.Gosched()
			}
			done()
		}()
	}
	for ready.Load() < int32(n) {
		runtime.Gosched()
	}
	goNow.Store(1)
	wg.Wait()
}

// runStressRound's oracles are local to a holder, hence sound under any
// schedule: (1) a connection obtained with a nil error and not yet released
// by this holder is never in state Shutdown; (2) once every holder has
// released, every connection ever handed out is Shutdown (closed at the last
// release, none leaked); (3) nothing panics.
func runStressRound(r *StressRound) (overlaps int64, err error) {
	st, err := runStressRoundStats(r)
	return st.shared.Load(), err
}

func runStressRoundStats(r *StressRound) (st *stressStats, err error) {
	st = &stressStats{}
	var mu sync.Mutex
	var all []*grpc.ClientConn
	var lis *pipeListener
	if r.Net != 0 {
		// the peer of READY connections: a gRPC server without services behind an
		// in-memory listener (no network)
		lis = &pipeListener{ch: make(chan net.Conn), done: make(chan struct{})}
		srv := grpc.NewServer()
		go srv.Serve(lis)
		defer func() {
			srv.Stop()
			lis.Close()
		}()
	}
	var dialNo atomic.Int64
	dial := func(ctx context.Context, target string, opts ...grpc.DialOption) (*grpc.ClientConn, error) {
		mode := mod(r.Net, 5)
		if mode == 4 {
			mode = int(dialNo.Add(1)+r.Seed) & 3
		}
		o := []grpc.DialOption{grpc.WithTransportCredentials(insecure.NewCredentials())}
		if mode != 0 {
			o = append(o, grpc.WithContextDialer(func(ctx context.Context, _ string) (net.Conn, error) {
				switch mode {
				case 1:
					a, b := net.Pipe()
					select {
					case lis.ch <- b:
						return a, nil
					case <-lis.done:
					case <-ctx.Done():
					}
					a.Close()
					b.Close()
					return nil, errors.New("c16: server of the round gone")
				case 3:
					<-ctx.Done()
					return nil, ctx.Err()
				}
				return nil, errors.New("c16: connection refused (scripted)")
			}))
		}
		cc, derr := grpc.NewClient("passthrough:///c16", o...) // the spelling is never parsed by gRPC
		if derr == nil {
			mu.Lock()
			all = append(all, cc)
			mu.Unlock()
			if mode != 0 {
				cc.Connect()
			}
			if mode == 1 {
				for s := cc.GetState(); s != connectivity.Ready; s = cc.GetState() {
					if !cc.WaitForStateChange(ctx, s) {
						cc.Close()
						return nil, ctx.Err()
					}
				}
			}
		}
		return cc, derr
	}
	m, merr := connection.NewManagerCustom(map[string]connection.Dial{connection.DEFAULT: dial})
	if merr != nil {
		return st, merr
	}
	defer func() {
		mu.Lock()
		for _, cc := range all {
			cc.Close()
		}
		mu.Unlock()
	}()
	var firstErr atomic.Value
	shared := &st.shared
	var xclosed sync.Map // connections closed by a holder itself, recorded before the call
	holders := make([]atomic.Int64, r.Addrs)
	var wg sync.WaitGroup
	start := make(chan struct{})
	for w := 0; w < r.Workers; w++ {
		wg.Add(1)
		go func(w int) {
			defer wg.Done()
			defer func() {
				if p := recover(); p != nil {
					firstErr.CompareAndSwap(nil, fmt.Errorf("panic in worker %d: %v", w, p))
				}
			}()
			rnd := rand.New(rand.NewSource(r.Seed*131 + int64(w)))
			<-start
			for i := 0; i < r.Cycles && firstErr.Load() == nil; i++ {
				a := rnd.Intn(r.Addrs)
				addr := r.addr(a)
				cc, done, cerr := m.Connection(context.Background(), addr, connection.DEFAULT)
				if cerr != nil {
					firstErr.CompareAndSwap(nil, fmt.Errorf("worker %d cycle %d: Connection(%q) failed although every dial succeeds: %v", w, i, addr, cerr))
					return
				}
				if holders[a].Add(1) > 1 {
					shared.Add(1)
				}
				for k := rnd.Intn(3); k >= 0; k-- {
					if r.XClose > 0 && rnd.Intn(r.XClose) == 0 {
						xclosed.Store(cc, true)
						cc.Close()
					}
					cs := cc.GetState()
					if cs == connectivity.Shutdown {
						if _, byHolder := xclosed.Load(cc); byHolder {
							break
						}
						firstErr.CompareAndSwap(nil, fmt.Errorf("worker %d cycle %d: the connection to %q handed to this holder is in state SHUTDOWN although the holder has not released it", w, i, addr))
						holders[a].Add(-1)
						done()
						return
					}
					if k == 0 && cs >= 0 && int(cs) < len(st.atRelease) {
						st.atRelease[cs].Add(1)
					}
					if r.Yield > 0 && k > 0 {
						for y := rnd.Intn(r.Yield + 1); y > 0; y-- {
							runtime.Gosched()
						}
					}
				}
				holders[a].Add(-1)
				if r.Dup > 0 && rnd.Intn(r.Dup) == 0 {
					releaseTogether(done, 2+rnd.Intn(3), func(p any) {
						firstErr.CompareAndSwap(nil, fmt.Errorf("worker %d cycle %d: one of several concurrent calls of the same done func (%q) panicked: %v", w, i, addr, describePanic(p)))
					})
				} else {
					done()
				}
				if rnd.Intn(8) == 0 {
					done() // releasing twice has no effect
				}
			}
		}(w)
	}
	close(start)
	wg.Wait()
	if e := firstErr.Load(); e != nil {
		return st, e.(error)
	}
	mu.Lock()
	defer mu.Unlock()
	for i, cc := range all {
		if cs := cc.GetState(); cs != connectivity.Shutdown {
			return st, fmt.Errorf("every holder has released, but connection #%d is in state %v: not closed at its last release", i, cs)
		}
	}
	return st, nil
}

// TestC16Stress is the free-running part of C16.
func TestC16Stress(t *testing.T) {
	if !vstat.Enabled("C16") {
		t.Skip()
	}
	rec := vstat.New("C16", "stress")
	rec.SetRequested(*stressRounds)
	rec.Note("free-running part: workloads are a function of the seed, schedules are the real scheduler's and cannot be replayed; a replay re-runs the workload several times")
	rnd := rand.New(rand.NewSource(*vstat.Seed))
	for i := 0; i < *stressRounds; i++ {
		r := &StressRound{Seed: rnd.Int63(), Addrs: 1 + rnd.Intn(2), Workers: 2 + rnd.Intn(3), Cycles: 300}
		lb := []string{"free-running", fmt.Sprintf("workers-%d", r.Workers)}
		if i%2 == 1 {
			// every other round: some releases are concurrent calls of the same done func
			r.Dup = 4
			lb = append(lb, "concurrent-calls-of-the-same-done-func")
		}
		if i%4 == 3 {
			// some holders close the connection they were handed themselves
			r.XClose = 6
			lb = append(lb, "outside:holders-close-their-connection-themselves")
		}
		switch i % 3 {
		case 1:
			// spellings of one address that differ only in case
			base := addrOf([]string{nameTemplates[1+rnd.Intn(len(nameTemplates)-1)]}, 0)
			r.Addrs = 2 + rnd.Intn(2)
			r.Spell = []string{base, strings.ToLower(base), strings.ToUpper(base)}[:r.Addrs]
			if rnd.Intn(2) == 0 {
				r.Spell[0], r.Spell[1] = r.Spell[1], r.Spell[0]
			}
			lb = append(lb, "spellings-that-differ-only-in-case")
		case 2:
			names := make([]string, r.Addrs)
			for k := range names {
				names[k] = nameTemplates[rnd.Intn(len(nameTemplates))]
			}
			r.Spell, _ = addrTable(names, r.Addrs)
			lb = append(lb, nameLabels(r.Spell, true)...)
		}
		switch i % 5 {
		case 1, 3:
			// connections that are READY when they are released (a blocking dial to a
			// real peer): fewer cycles, every fresh dial is a handshake
			r.Net, r.Cycles, r.Yield = 1, 80, 1+rnd.Intn(4)
		case 4:
			// CONNECTING / TRANSIENT_FAILURE / another state per dial
			r.Net, r.Cycles, r.Yield = 2+rnd.Intn(3), 150, rnd.Intn(4)
		}
		if r.Net != 0 {
			lb = append(lb, "connections-"+stressNetNames[r.Net])
		}
		rec.Current(r)
		st, err := runStressRoundStats(r)
		lb = append(lb, st.labels()...)
		shared := st.shared.Load()
		rec.Case(r, shared > 0, lb...)
		if err != nil {
			rec.AddViolation(r, "stress", "closed-while-held-or-leaked", "%v", err)
			t.Fail()
			break
		}
	}
	rec.Flush(true)
}
