package connprop

import (
	"context"
	"fmt"
	"net"
	"runtime/debug"
	"sort"
	"strings"
	"sync"
	"testing"
	"testing/synctest"
	"time"

	"github.com/openconfig/gnmi/connection"
	"github.com/openconfig/gnmi/verifhook"
	"google.golang.org/grpc"
	"google.golang.org/grpc/connectivity"
	"google.golang.org/grpc/credentials/insecure"
	"verif/harness/internal/vstat"
)

// verr is an oracle verdict: class names the violated clause.
type verr struct{ class, msg string }

func (v *verr) Error() string { return "[" + v.class + "] " + v.msg }

func newVerr(class, format string, a ...any) *verr {
	return &verr{class: class, msg: fmt.Sprintf(format, a...)}
}

func classOf(err error) string {
	if v, ok := err.(*verr); ok {
		return v.class
	}
	return "unknown"
}

// invocation is one call of the scripted dial function.
type invocation struct {
	id   int
	addr string
	ai   int      // index of addr, -1 if it is not an address of the scenario
	via  int      // index into dialerTable of the dial function that was invoked
	ch   chan int // scripted outcome: outOK, outErr, outClosed
	// guarded by harness.mu
	returned  bool
	cancelled bool // returned because its context was cancelled
	conn      *grpc.ClientConn
	err       error
	net       int        // how the transport dialer of conn behaves (netRefuse, netHang, netServe)
	srvConns  []net.Conn // server side of the transports of conn that reached the in-bubble server
}

// scripted outcomes of the dial function
const (
	outOK     = 1
	outErr    = 2
	outClosed = 3 // a connection that the dial function has closed itself
)

const (
	attInflight = iota
	attOK
	attFailed
)

// attempt is the model's view of one connection generation of an address: a
// dial, the requesters that share its outcome and, if it succeeded, the
// connection until its last holder released it.
type attempt struct {
	id        int
	ai        int
	inv       *invocation // nil: unknown dialer, no dial function involved
	dialer    int         // index into dialerTable of the name given by the request that started it
	state     int
	conn      *grpc.ClientConn
	members   []*requester
	forgotten bool               // succeeded, every member released, closed
	lastState connectivity.State // state of conn at the previous quiescent point
}

// requester is one Connection() call.
type requester struct {
	id, thread, ai int
	ownCtx, pre    bool
	dialer         int             // index into dialerTable of the name it passed
	ctx            context.Context // set if the context carries a deadline
	cancel         context.CancelFunc
	cancelledAt    int // step, -1 if its context is not cancelled
	att            *attempt
	left           bool // returned an error because of its own cancelled context; no longer shares
	// guarded by harness.mu (written by the calling goroutine)
	returned bool
	conn     *grpc.ClientConn
	done     func()
	err      error
	panicMsg string
	parked   *park // at conn.wait
	// model
	observed bool
	holding  bool
	released int
}

type park struct {
	point string
	step  int // arrival
	ai    int
	ch    chan struct{}
	req   *requester
	open  bool
}

type stats struct {
	labels     map[string]bool
	nontrivial bool
	// a request naming another dialer met a pending dial / held connection and
	// was answered (with the connection or an error)
	dialerClass bool
	// sizes reached at some quiescent point of the generated steps
	maxPending, maxHolders, maxBlocked int
}

func (s *stats) labelList() []string {
	out := make([]string, 0, len(s.labels))
	for l := range s.labels {
		out = append(out, l)
	}
	sort.Strings(out)
	return out
}

type harness struct {
	mu      sync.Mutex
	sc      *Scenario
	m       *connection.Manager
	addrIdx map[string]int
	names   []string // spelling of address i
	// registered[k]: the Manager of this case was built with dialerTable[k]
	registered []bool
	// guarded by mu
	invs   []*invocation
	parks  []*park // arrival order
	armed  map[string]bool
	curReq *requester
	now    int // step being executed
	auto   int // outcome given at once to a dial function invoked now (0: park)
	// connections on which the scenario itself (a holder, an ex-holder or the dial
	// function) called Close(); recorded before the call is made
	xclosed map[*grpc.ClientConn]bool
	srv     *grpc.Server // in-bubble server behind netServe, started on demand
	lis     *pipeListener

	// model; root goroutine only
	reqs       []*requester
	atts       []*attempt
	cur        []*attempt // per address: pending dial or live connection
	lastEnd    []string   // per address: how the previous generation ended
	step       int
	log        []string
	st         stats
	overlap    bool
	failedDial bool
	epi        bool // the generated steps are over; the epilogue runs

	// dialer dimension: a request met an attempt started under another name / was
	// answered with an error there / was handed the connection there
	otherMet, otherRefused, otherShared bool
}

// label records an interesting event of the generated steps; what happens in
// the epilogue is counted separately.
func (h *harness) label(l string) {
	if h.st.labels == nil {
		h.st.labels = map[string]bool{}
	}
	if h.epi {
		l = "epilogue:" + l
	}
	h.st.labels[l] = true
}

func mod(i, n int) int { return ((i % n) + n) % n }

func describePanic(p any) string {
	var fr []string
	for _, ln := range strings.Split(string(debug.Stack()), "\n") {
		if strings.HasPrefix(ln, "github.com/openconfig/gnmi/") {
			if i := strings.LastIndex(ln, "("); i > 0 {
				ln = ln[:i]
			}
			fr = append(fr, strings.TrimPrefix(ln, "github.com/openconfig/gnmi/"))
		}
	}
	return fmt.Sprintf("%v [in %s]", p, strings.Join(fr, " < "))
}

// dial is the scripted connection.Dial: it parks until told (fin step) or until
// its context is cancelled. via names the entry of dialerTable it is registered
// under; an entry with a mode of its own returns that outcome at once, always.
func (h *harness) dial(via int, ctx context.Context, target string, opts ...grpc.DialOption) (*grpc.ClientConn, error) {
	h.mu.Lock()
	ai, ok := h.addrIdx[target]
	if !ok {
		ai = -1
	}
	inv := &invocation{id: len(h.invs), addr: target, ai: ai, via: via, ch: make(chan int, 1)}
	h.invs = append(h.invs, inv)
	if m := dialerTable[via].mode; m != 0 {
		inv.ch <- m
	} else if h.auto != 0 {
		inv.ch <- h.auto
	}
	h.mu.Unlock()
	var cc *grpc.ClientConn
	var err error
	cancelled := false
	if ctx.Err() != nil {
		// already cancelled: never a race with a scripted outcome
		err, cancelled = ctx.Err(), true
	} else {
		select {
		case <-ctx.Done():
			err, cancelled = ctx.Err(), true
		case out := <-inv.ch:
			if out != outErr {
				// idle client: no network, state IDLE until Close makes it SHUTDOWN
				// (the target string of the idle client is a harness constant: the
				// spelling of the address is never parsed by gRPC). Its transports are
				// made by the harness (outside.go) once somebody calls Connect().
				o := append(append([]grpc.DialOption(nil), opts...), grpc.WithContextDialer(func(ctx context.Context, _ string) (net.Conn, error) { return h.netDial(ctx, inv) }))
				cc, err = grpc.NewClient("passthrough:///c16", o...)
				if err == nil && out == outClosed {
					h.mu.Lock()
					h.xclosed[cc] = true
					h.mu.Unlock()
					cc.Close()
				}
			} else {
				err = fmt.Errorf("scripted failure of dial #%d to %q", inv.id, target)
			}
		}
	}
	h.mu.Lock()
	inv.conn, inv.err, inv.cancelled, inv.returned = cc, err, cancelled, true
	h.mu.Unlock()
	return cc, err
}

// hook is the verifhook handler: an arrival at an armed (point, addr) parks on a
// channel made inside the bubble.
func (h *harness) hook(name string, key interface{}) {
	addr, ok := key.(string)
	if !ok || (name != pointWait && name != pointDialResult) {
		return
	}
	h.mu.Lock()
	k := name + "|" + addr
	ai, known := h.addrIdx[addr]
	if !h.armed[k] || !known {
		h.mu.Unlock()
		return
	}
	delete(h.armed, k)
	p := &park{point: name, step: h.now, ai: ai, ch: make(chan struct{})}
	if name == pointWait && h.curReq != nil {
		p.req = h.curReq
		h.curReq.parked = p
	}
	h.parks = append(h.parks, p)
	h.mu.Unlock()
	<-p.ch
}

func (h *harness) dialParkedLocked(ai int) bool {
	for _, p := range h.parks {
		if !p.open && p.point == pointDialResult && p.ai == ai {
			return true
		}
	}
	return false
}

func (h *harness) invCount() int {
	h.mu.Lock()
	defer h.mu.Unlock()
	return len(h.invs)
}

func (h *harness) connName(cc *grpc.ClientConn) string {
	if cc == nil {
		return "nil"
	}
	for _, inv := range h.invs {
		if inv.conn == cc {
			return fmt.Sprintf("conn#%d", inv.id)
		}
	}
	return "conn#unknown"
}

func (h *harness) resultOf(r *requester) string {
	e := "nil"
	if r.err != nil {
		e = fmt.Sprintf("error %q", r.err.Error())
	}
	return fmt.Sprintf("(%s, %s)", h.connName(r.conn), e)
}

func (h *harness) attName(t *attempt) string {
	if t.inv == nil {
		return fmt.Sprintf("attempt %d (unknown dialer, %s)", t.id, addrName(t.ai))
	}
	if t.dialer != 0 {
		return fmt.Sprintf("dial #%d to %s (dialer %q)", t.inv.id, addrName(t.ai), dialerTable[t.dialer].name)
	}
	return fmt.Sprintf("dial #%d to %s", t.inv.id, addrName(t.ai))
}

// call runs f (a done func) on a goroutine of its own to quiescence.
func (h *harness) call(what string, f func()) *verr {
	var done bool
	var pm string
	go func() {
		defer func() {
			if p := recover(); p != nil {
				m := describePanic(p)
				h.mu.Lock()
				pm = m
				h.mu.Unlock()
			}
		}()
		f()
		h.mu.Lock()
		done = true
		h.mu.Unlock()
	}()
	synctest.Wait()
	h.mu.Lock()
	defer h.mu.Unlock()
	switch {
	case pm != "":
		return newVerr("panic", "%s panicked: %s", what, pm)
	case !done:
		return newVerr("blocked-call", "%s did not return", what)
	}
	return nil
}

func (h *harness) newAttempt(ai int, inv *invocation) *attempt {
	t := &attempt{id: len(h.atts), ai: ai, inv: inv}
	h.atts = append(h.atts, t)
	return t
}

// exec performs one step to quiescence and compares with the model.
func (h *harness) exec(st Step) *verr {
	var target *requester
	st = h.effective(st)
	switch st.K {
	case "acq":
		return h.sub(st, func(s int) (string, *verr) { return h.doAcq(s, st) })
	case "fin":
		return h.sub(st, func(s int) (string, *verr) { return h.doFin(s, st) })
	case "rel", "rel2", "relf":
		if v := h.sub(st, func(s int) (d string, v *verr) { target, d, v = h.doRelease(s, st, nil); return }); v != nil {
			return v
		}
		if st.K == "rel" && st.All && target != nil {
			// the other holders of the same connection follow, one call at a time
			for _, m := range target.att.members {
				if m.observed && m.holding {
					h.label("release-all-holders-in-a-row")
					if v := h.sub(st, func(s int) (d string, v *verr) { _, d, v = h.doRelease(s, st, m); return }); v != nil {
						return v
					}
				}
			}
		}
		return nil
	case "cancel":
		return h.sub(st, func(s int) (string, *verr) { return h.doCancel(s, st) })
	case "open":
		return h.sub(st, func(s int) (string, *verr) { return h.doOpen(s, st) })
	case "xclose", "xcon", "xreset", "xdrop", "tick":
		return h.sub(st, func(s int) (string, *verr) { return h.doOutside(s, st) })
	}
	return newVerr("harness-error", "unknown step kind %q", st.K)
}

// effective turns an acq step that finds every thread inside a call and a rel
// step that finds no unreleased handle into the step that unblocks the system
// (open a gate / let a parked dial return), so that few generated steps are
// wasted. A function of the model state only.
func (h *harness) effective(st Step) Step {
	if h.epi {
		return st
	}
	idle := make([]bool, h.sc.Threads)
	for i := range idle {
		idle[i] = true
	}
	anyIdle, anyHeld, anyDial, anyParked := false, false, false, false
	for _, r := range h.reqs {
		if !r.observed {
			idle[r.thread] = false
		}
		anyHeld = anyHeld || (r.observed && r.holding)
	}
	for _, i := range idle {
		anyIdle = anyIdle || i
	}
	h.mu.Lock()
	for _, t := range h.cur {
		anyDial = anyDial || (t != nil && t.state == attInflight && t.inv != nil && !t.inv.returned)
	}
	for _, p := range h.parks {
		anyParked = anyParked || !p.open
	}
	h.mu.Unlock()
	open, fin := Step{K: "open", I: st.I + st.T}, Step{K: "fin", I: st.I + st.A, OK: st.F != 2}
	switch {
	case st.K == "acq" && !anyIdle && anyParked:
		h.label("acq-became-open")
		return open
	case st.K == "acq" && !anyIdle && anyDial:
		h.label("acq-became-fin")
		return fin
	case st.K == "rel" && !anyHeld && anyDial:
		h.label("rel-became-fin")
		return fin
	case st.K == "rel" && !anyHeld && anyParked:
		h.label("rel-became-open")
		return open
	}
	return st
}

// sub runs one atomic action to quiescence, then the oracle.
func (h *harness) sub(st Step, f func(s int) (string, *verr)) *verr {
	s := h.step
	h.step++
	h.mu.Lock()
	h.now = s
	h.mu.Unlock()
	before := h.invCount()
	desc, v := f(s)
	h.log = append(h.log, fmt.Sprintf("s%d: %s", s, desc))
	if v != nil {
		return v
	}
	if strings.Contains(desc, "(skipped") {
		h.label("skipped-" + st.K)
	}
	if st.K != "acq" {
		if n := h.invCount(); n != before {
			return newVerr("unexpected-dial", "step %d (%s) invoked the dial function %d time(s) although it is not a connection request", s, desc, n-before)
		}
	}
	return h.settle(s)
}

func (h *harness) doAcq(s int, st Step) (string, *verr) {
	nT := h.sc.Threads
	busy := make([]bool, nT)
	for _, r := range h.reqs {
		if !r.observed {
			busy[r.thread] = true
		}
	}
	th := -1
	for k := 0; k < nT; k++ {
		if c := (mod(st.T, nT) + k) % nT; !busy[c] {
			th = c
			break
		}
	}
	if th < 0 {
		return st.String() + " (skipped: every thread is inside a call)", nil
	}
	ai := mod(st.A, h.sc.Addrs)
	r := &requester{id: len(h.reqs), thread: th, ai: ai, cancelledAt: -1}
	ctx := context.Background()
	if st.C || st.P {
		r.ownCtx = true
		ctx, r.cancel = context.WithCancel(ctx)
	}
	if dl := deadlineOf(st.Dl); dl != 0 {
		// a deadline in virtual time (below the context that cancel steps cancel)
		r.ownCtx = true
		var cf context.CancelFunc
		ctx, cf = context.WithTimeout(ctx, dl)
		if outer := r.cancel; outer != nil {
			r.cancel = func() { cf(); outer() }
		} else {
			r.cancel = cf
		}
		r.ctx = ctx
		if dl < 0 {
			r.cancelledAt, r.pre = s, true
			h.label("ctx:deadline-already-expired")
		} else {
			h.label("ctx:deadline-in-virtual-time")
		}
	}
	if st.P {
		r.cancel()
		r.cancelledAt, r.pre = s, true
	}
	cur := h.cur[ai]
	// connections of this address that are handed out and not yet released by
	// everybody: cur if it succeeded and, only after a replacement (which is
	// accepted for a connection that the scenario closed, see below), older ones
	live := h.liveGens(ai)
	// the dialer name: any entry of dialerTable, whatever is registered for the
	// address (the legacy flag B names the unregistered one, and only for an
	// address with nothing registered)
	r.dialer = mod(st.Dn, len(dialerTable))
	if st.B && r.dialer == 0 && cur == nil && len(live) == 0 {
		r.dialer = dialerUnknown
	}
	dialer := dialerTable[r.dialer].name
	unknown := !h.registered[r.dialer]
	// an unregistered name for an address with nothing registered: the request
	// is an attempt of its own that fails without any dial function
	bad := unknown && cur == nil && len(live) == 0
	if r.dialer != 0 {
		h.label("dialer:" + dialerTable[r.dialer].label)
		if unknown && dialerTable[r.dialer].reg {
			h.label("dialer:name-left-out-of-this-manager")
		}
	} else if unknown {
		h.label("dialer:default-name-left-out-of-this-manager")
	}
	h.reqs = append(h.reqs, r)
	desc := fmt.Sprintf("r%d (thread %d) calls Connection(%s)", r.id, th, addrName(ai))
	switch {
	case st.P:
		desc += " with an already cancelled context"
	case st.C:
		desc += " with a context of its own"
	}
	switch {
	case unknown:
		desc += fmt.Sprintf(" and the unregistered dialer name %q", dialer)
	case r.dialer != 0:
		desc += fmt.Sprintf(" and the dialer name %q", dialer)
	}
	if st.Dl != 0 {
		desc += ", deadline " + deadlineName(st.Dl)
	}
	if st.G {
		desc += ", gate " + pointWait + " armed"
	}
	if st.D {
		desc += ", gate " + pointDialResult + " armed"
	}
	switch st.F {
	case 1:
		desc += ", a dial it starts returns a fresh connection at once"
	case 2:
		desc += ", a dial it starts returns an error at once"
	case 3:
		desc += ", a dial it starts returns at once a connection that the dial function has closed itself"
	}
	h.mu.Lock()
	if st.G {
		h.armed[pointWait+"|"+h.names[ai]] = true
	}
	if st.D {
		h.armed[pointDialResult+"|"+h.names[ai]] = true
	}
	h.curReq = r
	h.auto = st.F
	invBefore := len(h.invs)
	h.mu.Unlock()
	go func() {
		defer func() {
			if p := recover(); p != nil {
				m := describePanic(p)
				h.mu.Lock()
				r.panicMsg = m
				h.mu.Unlock()
			}
		}()
		conn, done, err := h.m.Connection(ctx, h.names[ai], dialer)
		h.mu.Lock()
		r.conn, r.done, r.err, r.returned = conn, done, err, true
		h.mu.Unlock()
	}()
	synctest.Wait()
	h.mu.Lock()
	delete(h.armed, pointWait+"|"+h.names[ai])
	h.curReq = nil
	h.auto = 0
	newInvs := append([]*invocation(nil), h.invs[invBefore:]...)
	returned, parkedWait, pm := r.returned, r.parked != nil, r.panicMsg
	dialParked := h.dialParkedLocked(ai)
	h.mu.Unlock()
	if pm != "" {
		return desc, newVerr("panic", "step %d: Connection(%s) of r%d panicked: %s", s, addrName(ai), r.id, pm)
	}
	for _, inv := range newInvs {
		if inv.ai != ai {
			return desc, newVerr("unexpected-dial", "step %d: the request of r%d for %s invoked the dial function for %q", s, r.id, addrName(ai), inv.addr)
		}
	}
	n := len(newInvs)
	refused := r.pre && returned && n == 0 && r.conn == nil && r.err != nil
	switch {
	case returned:
		desc += " -> returned " + h.resultOf(r)
	case parkedWait:
		desc += " -> parked at " + pointWait
	default:
		desc += " -> blocked"
	}
	if n > 0 {
		desc += fmt.Sprintf(" [dial #%d invoked]", newInvs[0].id)
	}
	if n > 1 {
		return desc, newVerr("second-dial-in-flight", "step %d: one request for %s invoked the dial function %d times", s, addrName(ai), n)
	}
	switch {
	case n == 1:
		// a fresh dial: never while one is in flight, never while a connection of
		// the address is held - unless every such connection was closed by the
		// scenario itself (what the manager owes a requester then is not stated:
		// the dead connection may be shared until its last release, or a fresh one
		// dialled; either way the ref-count rules hold per hand-out)
		if cur != nil && cur.state == attInflight {
			return desc, newVerr("second-dial-in-flight", "step %d: the request of r%d invoked the dial function (dial #%d) while %s is still in flight", s, r.id, newInvs[0].id, h.attName(cur))
		}
		for _, t := range live {
			if t.dialer != r.dialer && !h.isXclosed(t.conn) {
				// a connection of its own through the dialer it named, next to the
				// one that went through another dialer: not stated either way
				h.label("dialer:other-name-got-a-dial-of-its-own-while-connection-is-held")
				continue
			}
			if !h.isXclosed(t.conn) {
				return desc, newVerr("redial-while-live", "step %d: the request of r%d invoked the dial function (dial #%d) although %s is registered for %s and has holders that did not release it", s, r.id, newInvs[0].id, h.connName(t.conn), addrName(ai))
			}
		}
		if unknown {
			return desc, newVerr("unexpected-dial", "step %d: the request of r%d names the dialer %q, which is not registered, but a dial function was invoked", s, r.id, dialer)
		}
		t := h.newAttempt(ai, newInvs[0])
		t.dialer = r.dialer
		if prev := h.lastGen(ai, t); prev != nil && prev.dialer != r.dialer && len(live) == 0 {
			h.label("dialer:fresh-dial-through-another-dialer-than-the-previous-generation")
		}
		t.members = []*requester{r}
		r.att = t
		h.cur[ai] = t
		switch {
		case len(live) > 0:
			h.label("outside:fresh-dial-while-scenario-closed-connection-is-still-held")
		case strings.HasPrefix(h.lastEnd[ai], "the previous connection"):
			h.label("redial-after-close")
		case h.lastEnd[ai] != "":
			h.label("redial-after-failed-dial")
		}
		if r.pre {
			h.label("dial-started-with-cancelled-ctx")
		}
	case refused:
		h.label("acquire-with-cancelled-ctx-refused")
	case bad:
		t := h.newAttempt(ai, nil)
		t.dialer = r.dialer
		t.members = []*requester{r}
		r.att = t
		h.cur[ai] = t
		h.label("unknown-dialer")
	default:
		// no dial: the request shares something that exists - the connection it
		// was handed if it returned one that is held, else the pending dial or the
		// registered connection
		var join *attempt
		if returned && r.conn != nil {
			for _, t := range live {
				if t.conn == r.conn {
					join = t
				}
			}
		}
		if join == nil {
			join = cur
		}
		if join == nil && len(live) > 0 {
			join = live[len(live)-1]
		}
		if join == nil {
			why := "no connection and no pending dial is registered for this address"
			if h.lastEnd[ai] != "" {
				why = h.lastEnd[ai]
			}
			state := "is blocked"
			if returned {
				state = "returned " + h.resultOf(r)
			} else if parkedWait {
				state = "is parked at " + pointWait
			}
			return desc, newVerr("no-fresh-dial", "step %d: the request of r%d for %s did not invoke the dial function although %s; the request %s", s, r.id, addrName(ai), why, state)
		}
		r.att = join
		join.members = append(join.members, r)
		if join != cur {
			h.label("outside:join-superseded-generation")
		}
		if otherDialer(r, join) {
			// the class of dialers.go: one address, two dialer names
			what := "held-connection"
			if join.state == attInflight {
				what = "pending-dial"
			}
			h.label("dialer:other-name-meets-" + what)
			if unknown {
				h.label("dialer:unregistered-name-meets-" + what)
			}
			if r.ownCtx {
				h.label("dialer:other-name-with-own-or-deadline-ctx-meets-" + what)
			}
			h.otherMet = true
		}
		if join.state == attInflight {
			h.label("join-pending-dial")
			h.mu.Lock()
			if dialParked && (join.inv == nil || (join.inv.returned && join.inv.err != nil)) {
				h.label("join-during-failing-dial")
				h.label("join-while-dial-failure-unpublished")
			}
			if dialParked && join.inv != nil && join.inv.returned && join.inv.err == nil {
				h.label("join-while-dial-success-unpublished")
			}
			h.mu.Unlock()
		} else {
			h.label("join-live-connection")
			if h.isXclosed(join.conn) {
				h.label("outside:join-scenario-closed-connection")
			}
		}
	}
	if parkedWait {
		h.label("gate-conn-wait-parked")
	}
	return desc, nil
}

func (h *harness) doFin(s int, st Step) (string, *verr) {
	var cands []*attempt
	h.mu.Lock()
	for _, t := range h.cur {
		if t != nil && t.state == attInflight && t.inv != nil && !t.inv.returned {
			cands = append(cands, t)
		}
	}
	h.mu.Unlock()
	if len(cands) == 0 {
		return st.String() + " (skipped: no dial function is parked)", nil
	}
	t := cands[mod(st.I, len(cands))]
	out, code := "an error", outErr
	if st.OK {
		out, code = "a fresh connection", outOK
		if st.X {
			out, code = "a connection that the dial function has closed itself", outClosed
		}
	}
	desc := fmt.Sprintf("%s returns %s", h.attName(t), out)
	if st.G {
		desc += ", gate " + pointDialResult + " armed"
		h.mu.Lock()
		h.armed[pointDialResult+"|"+h.names[t.ai]] = true
		h.mu.Unlock()
	}
	t.inv.ch <- code
	synctest.Wait()
	return desc, nil
}

func (h *harness) doRelease(s int, st Step, pick *requester) (*requester, string, *verr) {
	var cands []*requester
	if pick != nil {
		cands = append(cands, pick)
	}
	for _, r := range h.reqs {
		if pick != nil {
			break
		}
		if !r.observed {
			continue
		}
		switch st.K {
		case "rel":
			if r.holding {
				cands = append(cands, r)
			}
		case "rel2":
			if r.released > 0 && r.err == nil {
				cands = append(cands, r)
			}
		case "relf":
			if r.err != nil {
				cands = append(cands, r)
			}
		}
	}
	if len(cands) == 0 {
		return nil, st.String() + " (skipped: no such handle)", nil
	}
	r := cands[mod(st.I, len(cands))]
	var desc string
	succ := h.cur[r.ai] != nil && h.cur[r.ai] != r.att
	switch st.K {
	case "rel":
		desc = fmt.Sprintf("r%d releases %s", r.id, h.connName(r.conn))
		if succ {
			// only after a replacement: a first release that comes after the address
			// was registered again
			h.label("outside:release-of-superseded-generation-with-successor-registered")
		}
		if h.isXclosed(r.conn) {
			h.label("outside:release-of-scenario-closed-connection")
		}
		others := 0
		for _, m := range r.att.members {
			if m != r && m.observed && m.holding {
				others++
			}
		}
		for _, m := range r.att.members {
			h.mu.Lock()
			if m.parked != nil && !m.parked.open {
				h.label("release-while-joiner-parked-at-conn-wait")
				if others == 0 {
					h.label("last-returned-holder-releases-while-joiner-parked-at-conn-wait")
				}
			}
			h.mu.Unlock()
		}
	case "rel2":
		desc = fmt.Sprintf("r%d calls the done func of %s again", r.id, h.connName(r.conn))
		h.label("double-release")
		if succ {
			h.label("double-release-with-successor-registered")
		}
		if r.att != nil && !r.att.forgotten {
			h.label("double-release-while-other-holder-remains")
		} else if !succ {
			h.label("double-release-after-close-nothing-registered")
		}
	case "relf":
		desc = fmt.Sprintf("r%d calls the done func returned with its error", r.id)
		h.label("release-after-failed-acquire")
		if h.cur[r.ai] != nil {
			h.label("release-after-failed-acquire-with-successor-registered")
		}
		if r.released > 0 {
			h.label("release-after-failed-acquire-repeated")
		}
	}
	if r.done == nil {
		return r, desc, newVerr("nil-done", "step %d: %s: Connection returned a nil done func to r%d", s, desc, r.id)
	}
	if st.N > 0 && pick == nil {
		desc += fmt.Sprintf(", from %d goroutines started together", 1+mod(st.N, 4))
		h.label("outside:done-func-called-from-several-goroutines:" + st.K)
	}
	calls := 1
	if pick == nil {
		calls += mod(st.N, 4)
	}
	if v := h.callN(desc, r.done, calls); v != nil {
		v.msg = fmt.Sprintf("step %d: %s", s, v.msg)
		return r, desc, v
	}
	r.released++
	r.holding = false
	return r, desc, nil
}

func (h *harness) doCancel(s int, st Step) (string, *verr) {
	var blocked, rest []*requester
	for _, r := range h.reqs {
		if !r.ownCtx || r.cancelledAt >= 0 {
			continue
		}
		if r.observed {
			rest = append(rest, r)
		} else {
			blocked = append(blocked, r)
		}
	}
	cands := blocked
	if len(cands) == 0 {
		cands = rest
	}
	if len(cands) == 0 {
		return st.String() + " (skipped: no uncancelled context)", nil
	}
	r := cands[mod(st.I, len(cands))]
	desc := fmt.Sprintf("cancel the context of r%d", r.id)
	t := r.att
	h.mu.Lock()
	origin := t != nil && t.state == attInflight && t.inv != nil && !t.inv.returned && t.members[0] == r
	if origin && st.G {
		h.armed[pointDialResult+"|"+h.names[r.ai]] = true
		desc += ", gate " + pointDialResult + " armed"
	}
	h.mu.Unlock()
	switch {
	case origin:
		desc += fmt.Sprintf(" (it started %s)", h.attName(t))
		pending := 0
		for _, c := range h.cur {
			if c != nil && c.state == attInflight {
				pending++
			}
		}
		if pending > 32 {
			h.label("originator-cancelled-while-more-than-32-dials-pending")
		}
	case !r.observed:
		desc += " (it waits for a dial started by another request)"
		h.label("joiner-ctx-cancelled-while-waiting")
	case r.holding:
		desc += " (it holds " + h.connName(r.conn) + ")"
		h.label("ctx-cancelled-while-holding")
	default:
		h.label("ctx-cancelled-after-return")
	}
	r.cancelledAt = s
	r.cancel()
	synctest.Wait()
	if origin {
		h.mu.Lock()
		if t.inv.returned && t.inv.cancelled {
			h.label("cancelled-dial")
			if len(t.members) > 1 {
				h.label("cancelled-dial-with-joiners")
			}
		}
		h.mu.Unlock()
	}
	return desc, nil
}

func (h *harness) doOpen(s int, st Step) (string, *verr) {
	h.mu.Lock()
	var cands []*park
	for _, p := range h.parks {
		if !p.open {
			cands = append(cands, p)
		}
	}
	if len(cands) == 0 {
		h.mu.Unlock()
		return st.String() + " (skipped: nothing is parked at a gate)", nil
	}
	// two goroutines can reach their gates in one step (a caller at conn.wait and
	// the dial goroutine it started at conn.dial.result): order by step, then name
	sort.SliceStable(cands, func(i, j int) bool {
		if cands[i].step != cands[j].step {
			return cands[i].step < cands[j].step
		}
		return cands[i].point < cands[j].point
	})
	p := cands[mod(st.I, len(cands))]
	p.open = true
	h.mu.Unlock()
	desc := fmt.Sprintf("release the dial goroutine of %s from %s", addrName(p.ai), p.point)
	if p.req != nil {
		desc = fmt.Sprintf("release r%d from %s", p.req.id, p.point)
	}
	close(p.ch)
	synctest.Wait()
	return desc, nil
}

// settle looks at the quiescent system after step s: publishes finished dials
// in the model, takes the results of requests that returned and checks the
// clauses of C16.
func (h *harness) settle(s int) *verr {
	h.mu.Lock()
	defer h.mu.Unlock()
	liveElsewhere := func(ai int) bool {
		for a, t := range h.cur {
			if a != ai && t != nil && t.state == attOK {
				return true
			}
		}
		return false
	}
	// 0. deadlines that expired (virtual time only moves in tick steps)
	for _, r := range h.reqs {
		if r.ctx == nil || r.cancelledAt >= 0 || r.ctx.Err() == nil {
			continue
		}
		r.cancelledAt = s
		t := r.att
		switch {
		case t != nil && t.state == attInflight && t.members[0] == r:
			h.label("ctx:deadline-expired-on-originator-of-pending-dial")
			if len(t.members) > 1 {
				h.label("ctx:deadline-expired-on-originator-of-pending-dial-with-joiners")
			}
		case !r.observed:
			h.label("ctx:deadline-expired-while-joiner-waits")
		case r.holding:
			h.label("ctx:deadline-expired-while-holding")
		default:
			h.label("ctx:deadline-expired-after-return")
		}
	}
	// 1. dial results that were published (the dial function returned and the
	// dial goroutine is not held at conn.dial.result).
	for ai, t := range h.cur {
		if t == nil || t.state != attInflight || h.dialParkedLocked(ai) {
			continue
		}
		if t.inv != nil && !t.inv.returned {
			continue
		}
		if t.inv != nil && t.inv.err == nil {
			t.state, t.conn = attOK, t.inv.conn
			h.label("dial-ok")
			if h.xclosed[t.conn] {
				h.label("outside:dial-function-handed-back-a-connection-it-closed-itself")
			}
			if len(t.members) >= 2 {
				h.label("shared-dial-joined")
				h.label("shared-dial-joined-ok")
			}
			continue
		}
		t.state = attFailed
		h.cur[ai] = nil
		switch {
		case t.inv == nil:
			h.lastEnd[ai] = fmt.Sprintf("the previous request for it failed (unknown dialer, step %d)", s)
		case t.inv.cancelled:
			h.lastEnd[ai] = fmt.Sprintf("the previous dial #%d was cancelled and its failure was published in step %d", t.inv.id, s)
			h.failedDial = h.failedDial || !h.epi
		default:
			h.lastEnd[ai] = fmt.Sprintf("the previous dial #%d failed and its failure was published in step %d", t.inv.id, s)
			h.failedDial = h.failedDial || !h.epi
			h.label("dial-failed")
		}
		if len(t.members) >= 2 {
			h.label("shared-dial-joined")
			h.label("shared-dial-joined-error")
		}
		for _, m := range t.members {
			if m.parked != nil && !m.parked.open {
				h.label("join-during-failing-dial")
				h.label("dial-failure-published-while-joiner-parked-at-conn-wait")
			}
		}
		if liveElsewhere(ai) {
			h.label("two-addresses-independent")
		}
	}
	// 2. requests that returned
	for _, r := range h.reqs {
		if r.observed {
			continue
		}
		if r.panicMsg != "" {
			return newVerr("panic", "after step %d: Connection(%s) of r%d panicked: %s", s, addrName(r.ai), r.id, r.panicMsg)
		}
		if !r.returned {
			continue
		}
		t := r.att
		ownCancelled := r.cancelledAt >= 0
		gaveUp := ownCancelled && r.conn == nil && r.err != nil
		switch {
		case t == nil:
			// refused outright because its context was already cancelled
		case t.state == attInflight && !gaveUp && otherDialer(r, t) && r.conn == nil && r.err != nil:
			// refused while the dial it met is still pending, for the name it gave
			// (not stated either way): not a hand-out, it shares nothing
			r.left = true
			h.otherRefused = true
			h.label("dialer:other-name-refused-while-dial-pending")
		case t.state == attInflight:
			if !gaveUp {
				return newVerr("early-return", "after step %d: r%d returned %s while %s, which it joined, has not finished", s, r.id, h.resultOf(r), h.attName(t))
			}
			r.left = true
			h.label("cancelled-requester-returned-before-dial-finished")
		case t.state == attFailed:
			switch {
			case r.conn == nil && r.err == nil:
				return newVerr("nil-conn-nil-error", "after step %d: r%d joined %s, which failed, and got (nil connection, nil error)", s, r.id, h.attName(t))
			case r.conn != nil:
				return newVerr("outcome-not-shared", "after step %d: r%d joined %s, which failed, and got %s", s, r.id, h.attName(t), h.resultOf(r))
			}
			if r.parked != nil {
				h.label("joiner-parked-at-conn-wait-got-the-dial-error")
			}
		default: // attOK
			if r.conn != nil && r.err == nil && r.conn != t.conn {
				// it was handed a connection of this address that others still hold
				// (possible only after a replacement): it is a holder of that one
				for _, o := range h.atts {
					if o.ai == r.ai && o.state == attOK && !o.forgotten && o.conn == r.conn {
						for i, m := range t.members {
							if m == r {
								t.members = append(t.members[:i:i], t.members[i+1:]...)
								break
							}
						}
						o.members = append(o.members, r)
						r.att, t = o, o
						h.label("outside:join-superseded-generation")
						break
					}
				}
			}
			switch {
			case !gaveUp && r.conn == nil && r.err != nil && h.xclosed[t.conn]:
				// a request for an address whose registered connection was closed by
				// the scenario was answered with an error: not a hand-out
				r.left = true
				h.label("outside:request-for-scenario-closed-connection-answered-with-an-error")
			case gaveUp:
				r.left = true
				h.label("cancelled-requester-got-error-instead-of-shared-connection")
			case r.conn == nil && r.err != nil && otherDialer(r, t):
				// a request naming another dialer than the one this connection went
				// through was answered with an error (not stated either way): it is
				// not a hand-out, so it holds nothing - the connection is owed to the
				// requesters that were handed it and to nobody else
				r.left = true
				h.otherRefused = true
				h.label("dialer:other-name-refused-for-held-connection")
			case r.conn == nil && r.err == nil:
				return newVerr("nil-conn-nil-error", "after step %d: r%d shares %s, which produced %s, and got (nil connection, nil error)", s, r.id, h.attName(t), h.connName(t.conn))
			case r.err != nil || r.conn != t.conn:
				return newVerr("outcome-not-shared", "after step %d: r%d shares %s, which produced %s, and got %s", s, r.id, h.attName(t), h.connName(t.conn), h.resultOf(r))
			default:
				r.holding = true
				if ownCancelled && !r.pre {
					h.label("cancelled-joiner-still-got-the-shared-connection")
				}
				if otherDialer(r, t) {
					h.otherShared = true
					h.label("dialer:other-name-was-handed-the-connection")
				}
			}
		}
		if r.done == nil {
			return newVerr("nil-done", "after step %d: Connection returned a nil done func to r%d (result %s)", s, r.id, h.resultOf(r))
		}
		r.observed = true
	}
	// 3. requests still inside Connection
	for _, r := range h.reqs {
		if r.observed || (r.parked != nil && !r.parked.open) {
			continue
		}
		if r.att == nil || r.att.state != attInflight {
			what := "nothing it could wait for is pending"
			if r.att != nil {
				what = h.attName(r.att) + ", which it joined, has finished"
			}
			return newVerr("stuck-requester", "after step %d: r%d is still blocked in Connection(%s) although %s", s, r.id, addrName(r.ai), what)
		}
	}
	// 4. connections
	addrsActive, pending, blocked, holding := 0, 0, 0, 0
	for _, t := range h.cur {
		if t != nil {
			addrsActive++
			if t.state == attInflight {
				pending++
			}
		}
	}
	for _, r := range h.reqs {
		if !r.observed {
			blocked++
		} else if r.holding {
			holding++
		}
	}
	if !h.epi {
		h.st.maxPending, h.st.maxBlocked, h.st.maxHolders = max(h.st.maxPending, pending), max(h.st.maxBlocked, blocked), max(h.st.maxHolders, holding)
	}
	if addrsActive >= 2 {
		h.label("two-addresses-active")
	}
	if addrsActive >= 3 {
		h.label("three-addresses-active")
	}
	for _, t := range h.atts {
		if t.state != attOK || t.forgotten {
			continue
		}
		users, holders := 0, 0
		var who []string
		for _, m := range t.members {
			switch {
			case m.left:
			case !m.observed:
				users++
				who = append(who, fmt.Sprintf("r%d (inside Connection)", m.id))
			case m.holding:
				users++
				holders++
				who = append(who, fmt.Sprintf("r%d", m.id))
			}
		}
		state := t.conn.GetState()
		shut := state == connectivity.Shutdown
		byScenario := h.xclosed[t.conn]
		if users > 0 && !h.epi {
			switch {
			case byScenario:
				h.label("outside:scenario-closed-connection-still-held")
				if holders >= 2 {
					h.label("outside:scenario-closed-connection-held-by-2-or-more")
				}
			case state != connectivity.Idle && !shut:
				h.label("outside:held-connection-" + state.String())
			}
		}
		prev := t.lastState
		t.lastState = state
		// a connection that the scenario itself closed is excused: the clause is
		// about what the manager does to a connection it handed out
		if users > 0 && shut && !byScenario {
			return newVerr("closed-while-held", "after step %d: %s of %s is closed (state SHUTDOWN) although it was not released by %s", s, h.connName(t.conn), addrName(t.ai), strings.Join(who, ", "))
		}
		if holders >= 2 && !h.epi {
			h.overlap = true
			h.label("overlapping-holders-2")
		}
		if holders >= 3 {
			h.label("overlapping-holders-3-or-more")
		}
		if users == 0 {
			if !shut {
				return newVerr("not-closed-at-last-release", "after step %d: every holder of %s of %s has released it but it is not closed (state %v)", s, h.connName(t.conn), addrName(t.ai), t.conn.GetState())
			}
			t.forgotten = true
			if h.cur[t.ai] == t {
				h.cur[t.ai] = nil
			}
			h.lastEnd[t.ai] = fmt.Sprintf("the previous connection %s was closed in step %d when its last holder released it", h.connName(t.conn), s)
			h.label("last-release-closes")
			for _, m := range t.members {
				if otherDialer(m, t) {
					h.label("dialer:last-release-closes-connection-that-another-name-met")
					if m.left {
						h.label("dialer:last-release-closes-connection-after-a-refused-other-name")
					}
					break
				}
			}
			switch {
			case byScenario:
				h.label("outside:last-release-of-scenario-closed-connection")
			case prev != connectivity.Idle && prev != connectivity.Shutdown:
				h.label("outside:last-release-closes-connection-in-state-" + prev.String())
			}
			if len(t.members) >= 2 {
				h.label("last-release-closes-shared-connection")
			}
			if liveElsewhere(t.ai) {
				h.label("two-addresses-independent")
			}
		}
	}
	return nil
}

// epilogue (a fixed function of the state): open every gate, let every parked
// dial succeed, release every handle; every connection must end closed.
func (h *harness) epilogue() *verr {
	h.mu.Lock()
	h.armed = map[string]bool{}
	h.mu.Unlock()
	bound := 4*(len(h.reqs)+len(h.atts)) + 8
	for i := 0; i < bound; i++ {
		h.mu.Lock()
		anyParked, anyDial, anyHeld := false, false, false
		for _, p := range h.parks {
			anyParked = anyParked || !p.open
		}
		for _, t := range h.cur {
			anyDial = anyDial || (t != nil && t.state == attInflight && t.inv != nil && !t.inv.returned)
		}
		h.mu.Unlock()
		for _, r := range h.reqs {
			anyHeld = anyHeld || (r.observed && r.holding)
		}
		var st Step
		switch {
		case anyParked:
			st = Step{K: "open"}
		case anyDial:
			st = Step{K: "fin", OK: true}
		case anyHeld:
			st = Step{K: "rel"}
		default:
			for _, r := range h.reqs {
				if !r.observed {
					return newVerr("stuck-requester", "epilogue: r%d never returned from Connection(%s)", r.id, addrName(r.ai))
				}
			}
			for _, t := range h.atts {
				if t.state == attOK && !t.forgotten {
					return newVerr("not-closed-at-last-release", "epilogue: %s is still registered after every handle was released", h.connName(t.conn))
				}
			}
			return nil
		}
		if v := h.exec(st); v != nil {
			return v
		}
	}
	return newVerr("harness-error", "epilogue did not converge")
}

// cleanup lets every goroutine of the case end, whatever happened.
func (h *harness) cleanup() {
	h.mu.Lock()
	h.armed = map[string]bool{}
	for _, p := range h.parks {
		if !p.open {
			p.open = true
			close(p.ch)
		}
	}
	// Parked dials succeed (the connections are closed below): after a violation
	// the manager's table may be inconsistent and the failure path of the dial
	// goroutine, which nobody can recover, touches it; the success path does not.
	for _, inv := range h.invs {
		if !inv.returned {
			select {
			case inv.ch <- outOK:
			default:
			}
		}
	}
	h.mu.Unlock()
	synctest.Wait()
	for _, r := range h.reqs {
		if r.cancel != nil {
			r.cancel()
		}
	}
	synctest.Wait()
	h.mu.Lock()
	var conns []*grpc.ClientConn
	for _, inv := range h.invs {
		if inv.conn != nil {
			conns = append(conns, inv.conn)
		}
	}
	h.mu.Unlock()
	for _, cc := range conns {
		if cc.GetState() != connectivity.Shutdown {
			cc.Close()
		}
	}
	synctest.Wait()
	h.stopNet()
	synctest.Wait()
}

func (h *harness) history() string {
	return "\nhistory:\n  " + strings.Join(h.log, "\n  ")
}

func runBubble(sc *Scenario) (stats, *verr) {
	if sc.Addrs < 1 || sc.Addrs > 1024 || sc.Threads < 1 || sc.Threads > 4096 {
		return stats{}, newVerr("harness-error", "scenario out of range: %d addresses, %d threads", sc.Addrs, sc.Threads)
	}
	h := &harness{sc: sc, registered: registeredDialers(sc), addrIdx: map[string]int{}, armed: map[string]bool{}, xclosed: map[*grpc.ClientConn]bool{}, cur: make([]*attempt, sc.Addrs), lastEnd: make([]string, sc.Addrs)}
	var distinct bool
	if h.names, distinct = addrTable(sc.Names, sc.Addrs); !distinct {
		return stats{}, newVerr("harness-error", "the address spellings of the scenario are not pairwise different after case folding: this part decides nothing about such spellings")
	}
	for i := 0; i < sc.Addrs; i++ {
		h.addrIdx[h.names[i]] = i
	}
	if len(sc.Names) > 0 {
		h.log = append(h.log, describeTable(h.names))
	}
	for _, l := range nameLabels(h.names, len(sc.Names) > 0) {
		h.label(l)
	}
	if len(sc.Unreg) > 0 {
		h.label("dialer:manager-built-without-some-names")
	}
	m, err := connection.NewManagerCustom(h.dialerMap(), grpc.WithTransportCredentials(insecure.NewCredentials()))
	if err != nil {
		return stats{}, newVerr("harness-error", "NewManagerCustom: %v", err)
	}
	h.m = m
	verifhook.Set(h.hook)
	defer verifhook.Set(nil)
	defer h.cleanup()
	fail := func(v *verr) (stats, *verr) {
		v.msg += h.history()
		return h.st, v
	}
	for _, st := range sc.Steps {
		if v := h.exec(st); v != nil {
			return fail(v)
		}
	}
	h.log = append(h.log, "-- epilogue --")
	h.epi = true
	if v := h.epilogue(); v != nil {
		return fail(v)
	}
	h.epi = false
	switch n := len(sc.Steps); {
	case n < 10:
		h.label("steps-01-09")
	case n < 20:
		h.label("steps-10-19")
	default:
		h.label("steps-20-plus")
	}
	skipped := 0
	for _, l := range h.log {
		if strings.Contains(l, "(skipped") {
			skipped++
		}
	}
	if 2*skipped > len(sc.Steps) {
		h.label("more-than-half-of-steps-skipped")
	}
	if h.failedDial {
		h.label("failed-or-cancelled-dial")
	}
	h.st.nontrivial = h.overlap && h.failedDial
	h.st.dialerClass = h.otherMet && (h.otherRefused || h.otherShared)
	if h.st.nontrivial {
		h.label("nontrivial")
	}
	return h.st, nil
}

// runCase executes sc in a bubble of its own. t is the outer test.
func runCase(t *testing.T, sc *Scenario) (st stats, err error) {
	defer func() {
		if r := recover(); r != nil {
			// synctest.Test panics on this goroutine when goroutines of the bubble
			// are still blocked after the cleanup.
			if err == nil {
				err = newVerr("deadlock", "goroutines of the case remain blocked after every gate was opened, every dial finished, every context cancelled and every connection closed: %v", r)
			}
		}
	}()
	// a goroutine of the code under test that blocks on a channel while holding the
	// Manager's lock leaves the others blocked on a mutex, which synctest does not
	// regard as durable: neither Wait nor the virtual clock makes progress. The
	// watchdog's verdict is structural (see vstat.Watchdog), not a timeout.
	defer vstat.Watchdog(20*time.Second, 5*time.Second)()
	synctest.Test(t, func(*testing.T) {
		defer func() {
			if r := recover(); r != nil {
				err = newVerr("panic", "panic on the scenario goroutine: %s", describePanic(r))
			}
		}()
		s, v := runBubble(sc)
		st = s
		if v != nil {
			err = v
		}
	})
	return st, err
}
