package connprop

import (
	"testing"

	"pgregory.net/rapid"
	"verif/harness/internal/vstat"
)

func genDefaultCase(t *rapid.T) *DefaultCase {
	step := rapid.Custom(func(t *rapid.T) DStep {
		switch rapid.SampledFrom([]string{"req", "req", "req", "cancel", "cancel", "rel", "rel"}).Draw(t, "op") {
		case "req":
			return DStep{Op: "req", A: rapid.IntRange(0, 1).Draw(t, "addr"), C: rapid.SampledFrom([]int{0, 1, 1, 2, 3, 4}).Draw(t, "ctx")}
		case "cancel":
			return DStep{Op: "cancel", C: rapid.IntRange(1, 4).Draw(t, "ctx")}
		}
		return DStep{Op: "rel", H: rapid.IntRange(0, 5).Draw(t, "holder")}
	})
	return &DefaultCase{Steps: rapid.SliceOfN(step, 3, 16).Draw(t, "steps")}
}

// TestC16Default: part "default" (default_dial.go).
func TestC16Default(t *testing.T) {
	if !vstat.Enabled("C16") {
		t.Skip()
	}
	rec := vstat.New("C16", "default")
	rec.RunRapid(t, func(rt *rapid.T) {
		sc := genDefaultCase(rt)
		rec.Current(sc)
		nt, err := runDefault(sc)
		rec.Case(sc, nt, "manager-from-NewManager-real-grpc-dial")
		if err != nil {
			rt.Logf("%s", rec.Fail(sc, "oracle", "%v", err))
			rt.Fatalf("property C16 violated: %v", err)
		}
	})
}
