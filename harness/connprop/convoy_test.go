package connprop

import (
	"fmt"
	"testing"

	"pgregory.net/rapid"
	"verif/harness/internal/vstat"
)

func genConvoy(t *rapid.T) *ConvoyCase {
	cc := &ConvoyCase{}
	cc.Held = rapid.SliceOfN(rapid.SampledFrom([]int{0, 0, 0, 1}), 1, 5).Draw(t, "held")
	op := rapid.Custom(func(t *rapid.T) ConvoyOp {
		o := ConvoyOp{K: rapid.SampledFrom([]string{"rel", "rel", "rel", "acq", "acq"}).Draw(t, "k")}
		if o.K == "rel" {
			o.H = rapid.IntRange(0, 4).Draw(t, "h")
			o.N = rapid.SampledFrom([]int{0, 0, 1, 1, 1, 2, 3}).Draw(t, "n")
		} else {
			o.A = rapid.SampledFrom([]int{0, 0, 0, 1, 2}).Draw(t, "a")
			// a request for the address whose last release keeps the lock busy
			o.Z = rapid.SampledFrom(oneIn5).Draw(t, "z")
		}
		return o
	})
	cc.Ops = rapid.SliceOfN(op, 1, 6).Draw(t, "ops")
	cc.NoLever = rapid.SampledFrom(oneIn8).Draw(t, "nolever")
	cc.Names = genNames(t, convoyAddrs, "z")
	cc.ZReady = rapid.Bool().Draw(t, "zready")
	return cc
}

// convoyClass: does the data contain the interesting class - the same done func
// called concurrently while another handle of the same address stays unreleased?
func convoyClass(cc *ConvoyCase) (dupWhileHeld, dup, lastRelease, acqRace bool) {
	rel := map[int]bool{}
	for _, o := range cc.Ops {
		if o.K == "rel" {
			rel[mod(o.H, len(cc.Held))] = true
		}
	}
	for ai := 0; ai < 2; ai++ {
		remaining, dupHere, relHere, acqHere, holders := 0, false, false, false, 0
		for i, a := range cc.Held {
			if mod(a, 2) == ai {
				holders++
				if !rel[i] {
					remaining++
				}
			}
		}
		for _, o := range cc.Ops {
			switch {
			case o.K == "rel" && mod(cc.Held[mod(o.H, len(cc.Held))], 2) == ai:
				relHere = true
				dupHere = dupHere || mod(o.N, 8) > 0
			case o.K == "acq" && mod(o.A, convoyAddrs) == ai:
				acqHere = true
			}
		}
		dup = dup || dupHere
		dupWhileHeld = dupWhileHeld || (dupHere && remaining > 0)
		lastRelease = lastRelease || (relHere && remaining == 0 && holders > 0)
		acqRace = acqRace || (acqHere && relHere && remaining == 0)
	}
	return
}

// TestC16Convoy: calls piled up in front of the Manager's lock on the real
// scheduler, among them concurrent calls of one and the same done func.
func TestC16Convoy(t *testing.T) {
	if !vstat.Enabled("C16") {
		t.Skip()
	}
	rec := vstat.New("C16", "convoy")
	rec.Note("free-running part on the real scheduler: the schedule cannot be replayed; a replay re-runs the workload several times")
	rec.RunRapid(t, func(rt *rapid.T) {
		cc := genConvoy(rt)
		rec.Current(cc)
		// the same data several times: every run is another schedule
		var st convoyStats
		var err error
		for rep := 0; rep < 3 && err == nil; rep++ {
			st, err = runConvoy(cc)
		}
		dupWhileHeld, dup, lastRel, acqRace := convoyClass(cc)
		var lb []string
		if st.lever {
			lb = append(lb, "manager-lock-held-while-the-calls-pile-up")
		} else {
			lb = append(lb, "no-lever")
		}
		if dup {
			lb = append(lb, "concurrent-calls-of-the-same-done-func")
		}
		if dupWhileHeld {
			lb = append(lb, "concurrent-calls-of-the-same-done-func-while-another-holder-remains")
		}
		if lastRel {
			lb = append(lb, "last-release-in-the-convoy")
		}
		if acqRace {
			lb = append(lb, "request-races-the-last-release")
		}
		if st.zReady {
			lb = append(lb, "lever-connection-READY-at-its-last-release")
		}
		if st.zAcqs > 0 && st.lever {
			lb = append(lb, "request-for-the-address-whose-last-release-is-inside-close")
			if st.zReady {
				lb = append(lb, "request-for-the-address-whose-READY-connection-is-inside-close")
			}
		}
		lb = append(lb, fmt.Sprintf("ops-%d", len(cc.Ops)))
		tab, _ := addrTable(cc.Names, convoyAddrs)
		lb = append(lb, nameLabels(tab, len(cc.Names) > 0)...)
		rec.Case(cc, dupWhileHeld && st.lever, lb...)
		if err != nil {
			rt.Logf("%s", rec.Fail(cc, classOf(err), "%v", err))
			rt.Fatalf("property C16 violated: %s", classOf(err))
		}
	})
}
