package connprop

// Every argument of the exported API of package connection as generated data.
//
// The exported surface (connection/connection.go, read top to bottom):
//
//	const DEFAULT = ""                        the name used "if not explicitly specified"
//	type Dial func(ctx, target, opts...)      a dial function
//	NewManager(opts...)                       = NewManagerCustom({DEFAULT: grpc.DialContext}, opts...)
//	NewManagerCustom(d map[string]Dial, opts...)
//	    d     the registered dialers by name (refused if empty or if a value is nil);
//	          here: which names of dialerTable are registered is data (Scenario.Unreg)
//	          and the registered ones behave differently (scripted, always failing at
//	          once, always succeeding at once)
//	    opts  handed to the dial function unchanged (the harness appends its own
//	          transport dialer to them; nothing else to vary that C16 speaks about)
//	(*Manager).Connection(ctx, addr, dialer) (conn, done, err)
//	    ctx    background, already cancelled, cancelled while the request waits /
//	           holds / after its release (cancel steps), with a deadline in virtual
//	           time that tick steps let expire, deadline already expired (Step.C/P/Dl).
//	           The context of the request that starts a dial is the context of the dial.
//	    addr   index + spelling (names.go)
//	    dialer Step.Dn, per request: any name of dialerTable for any address in any
//	           state, so that requests for ONE address name different dialers while a
//	           dial is pending, a connection is held, or it was just released
//	done()     rel / rel2 / relf steps, from 1-4 goroutines
//
// What C16 says about the dialer name: nothing. The cache is keyed by address,
// so on the unchanged tree a request that names another dialer (registered or
// not) than the one the pending dial / held connection of its address went
// through shares that attempt like any other request. A manager that refuses
// such a request with an error (at once or after the pending dial finished), or
// that dials a connection of its own through the other dialer while no dial for
// the address is in flight, is accepted as well. Whatever the answer is, the
// clauses of C16 are demanded PER HAND-OUT:
//
//   - a request that was answered with an error holds nothing: it does not keep
//     the connection alive (the connection is SHUTDOWN right after the last
//     requester that was handed it released it, and the next request dials
//     afresh), and calling the done func it was given changes nothing;
//   - a request that was handed the connection is a holder like any other: the
//     connection is not SHUTDOWN before it released it;
//   - never two dials in flight for one address, whatever names were given.

import (
	"context"
	"time"

	"github.com/openconfig/gnmi/connection"
	"google.golang.org/grpc"
)

type dialerSpec struct {
	name  string
	label string
	reg   bool // registered unless the scenario says otherwise (Scenario.Unreg)
	mode  int  // 0: scripted (parks until a fin step or Step.F); outOK / outErr: returns that at once, always
}

// dialerTable: index 0 must stay the default name (Step.Dn == 0 is what every
// scenario written before this dimension existed means).
var dialerTable = []dialerSpec{
	{connection.DEFAULT, "default", true, 0},
	{"alt", "alt-registered-scripted", true, 0},
	{"refusing", "registered-always-fails-at-once", true, outErr},
	{"quick", "registered-always-succeeds-at-once", true, outOK},
	{"no-such-dialer", "never-registered", false, 0},
	{"ALT", "never-registered-differs-in-case-from-a-registered-name", false, 0},
}

const dialerUnknown = 4 // what the legacy flag Step.B names

// registeredDialers: which entries of dialerTable the Manager of sc is built with.
func registeredDialers(sc *Scenario) []bool {
	reg := make([]bool, len(dialerTable))
	any := false
	for k, d := range dialerTable {
		reg[k] = d.reg
	}
	for _, u := range sc.Unreg {
		reg[mod(u, len(dialerTable))] = false
	}
	for _, r := range reg {
		any = any || r
	}
	if !any {
		reg[0] = true // NewManagerCustom refuses an empty table
	}
	return reg
}

func (h *harness) dialerMap() map[string]connection.Dial {
	m := map[string]connection.Dial{}
	for k, d := range dialerTable {
		if h.registered[k] {
			m[d.name] = func(ctx context.Context, target string, opts ...grpc.DialOption) (*grpc.ClientConn, error) {
				return h.dial(k, ctx, target, opts...)
			}
		}
	}
	return m
}

var deadlines = []time.Duration{0, 2 * time.Second, 10 * time.Second, time.Hour, -time.Second}

func deadlineOf(dl int) time.Duration { return deadlines[mod(dl, len(deadlines))] }

func deadlineName(dl int) string {
	if d := deadlineOf(dl); d < 0 {
		return "already-expired"
	} else {
		return d.String()
	}
}

func (h *harness) dialerLabel(k int) string { return dialerTable[k].label }

// otherDialer: r named another dialer than the request that started attempt t.
func otherDialer(r *requester, t *attempt) bool { return t != nil && r.dialer != t.dialer }
