package connprop

import (
	"fmt"
	"testing"

	"pgregory.net/rapid"
	"verif/harness/internal/vstat"
)

func genRetry(t *rapid.T) *RetryCase {
	rc := &RetryCase{}
	rc.Loops = rapid.SliceOfN(rapid.SampledFrom([]int{0, 0, 0, 1}), 1, 3).Draw(t, "loops")
	rc.Rounds = rapid.SampledFrom([]int{5000, 2000, 5000, 15000}).Draw(t, "rounds")
	rc.OKEvery = rapid.SampledFrom([]int{0, 0, 0, 0, 7, 50, 1000}).Draw(t, "okevery")
	rc.Churn = rapid.SampledFrom([]int{0, 0, 0, 1, 2}).Draw(t, "churn")
	rc.V = rapid.SampledFrom([]int{0, 0, 2}).Draw(t, "v")
	rc.Yield = rapid.SampledFrom(oneIn5).Draw(t, "yield")
	rc.Names = genNames(t, retryAddrs+1)
	return rc
}

// TestC16Retry: requesters that ask again the moment they are told that their
// request failed, tens of thousands of times per case, on the real scheduler.
func TestC16Retry(t *testing.T) {
	if !vstat.Enabled("C16") {
		t.Skip()
	}
	rec := vstat.New("C16", "retry")
	rec.Note("free-running part on the real scheduler: the schedule cannot be replayed; a replay re-runs the workload several times")
	rec.RunRapid(t, func(rt *rapid.T) {
		rc := genRetry(rt)
		rec.Current(rc)
		st, err := runRetry(rc)
		lb := []string{fmt.Sprintf("loops-%d", len(rc.Loops)), fmt.Sprintf("churn-%d", rc.Churn), fmt.Sprintf("verbosity-%d", rc.V)}
		if rc.OKEvery > 0 {
			lb = append(lb, "some-dials-succeed")
		} else {
			lb = append(lb, "every-dial-fails")
		}
		if rc.Yield {
			lb = append(lb, "error-formatting-yields")
		}
		switch {
		case st.failures >= 20000:
			lb = append(lb, "immediate-retries-after-a-reported-failure-20000-plus")
		case st.failures >= 4000:
			lb = append(lb, "immediate-retries-after-a-reported-failure-4000-plus")
		default:
			lb = append(lb, "immediate-retries-after-a-reported-failure-below-4000")
		}
		tab, _ := addrTable(rc.Names, retryAddrs+1)
		lb = append(lb, nameLabels(tab, len(rc.Names) > 0)...)
		rec.Case(rc, st.failures >= 4000, lb...)
		if err != nil {
			rt.Logf("%s", rec.Fail(rc, classOf(err), "%v", err))
			rt.Fatalf("property C16 violated: %s", classOf(err))
		}
	})
}

func genPark(t *rapid.T) *ParkCase {
	pc := &ParkCase{}
	pc.V = rapid.SampledFrom([]int{2, 0, 1, 2, 2, 3, 5}).Draw(t, "v")
	gw := rapid.Custom(func(t *rapid.T) ParkWave {
		return ParkWave{
			N:    rapid.IntRange(1, 4).Draw(t, "n"),
			Join: rapid.SampledFrom([]int{0, 0, 1, 2}).Draw(t, "join"),
			Fail: rapid.Bool().Draw(t, "fail"),
			Hold: rapid.SampledFrom(oneIn3).Draw(t, "hold"),
		}
	})
	pc.Waves = rapid.SliceOfN(gw, 1, 5).Draw(t, "waves")
	pc.Pause = rapid.SampledFrom(oneIn3).Draw(t, "pause")
	if rapid.SampledFrom(twoIn3).Draw(t, "named") {
		pc.Name = rapid.SampledFrom(nameTemplates).Draw(t, "name")
	}
	return pc
}

// TestC16Parked: dial errors whose Error() method parks; requests in waves, each
// wave launched the moment the previous one has returned. See ParkCase.
func TestC16Parked(t *testing.T) {
	if !vstat.Enabled("C16") {
		t.Skip()
	}
	rec := vstat.New("C16", "parked")
	rec.Note("plain goroutines on the real scheduler: how far a launched request gets before a parked call is let go is up to the scheduler; a replay re-runs the case several times")
	rec.RunRapid(t, func(rt *rapid.T) {
		pc := genPark(rt)
		rec.Current(pc)
		st, err := runPark(pc)
		var lb []string
		for l := range st.labels {
			lb = append(lb, l)
		}
		retryAfterFailure := st.labels["wave-launched-the-moment-the-previous-failure-was-reported"]
		rec.Case(pc, retryAfterFailure, lb...)
		if err != nil {
			rt.Logf("%s", rec.Fail(pc, classOf(err), "%v", err))
			rt.Fatalf("property C16 violated: %s", classOf(err))
		}
	})
}
