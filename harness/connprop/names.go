package connprop

import (
	"fmt"
	"strconv"
	"strings"
	"unicode"

	"pgregory.net/rapid"
)

// The address alphabet is part of the data of every case: Names is a list of
// templates, address i is spelled addrOf(Names, i). An empty list gives the
// plain a0, a1, ...
//
// A template with '#' has every '#' replaced by the decimal index; a template
// without '#' is used literally for the first address that draws it (this is
// how the empty address is reached) and with "~<index>" appended for the others.
//
// The parts with an exact per-address model (random, wide, storm, convoy) only
// use tables whose spellings are pairwise different after trimming spaces and
// folding case: whether two spellings that differ only in case are "the same
// address" is not stated by C16 and is decided by no oracle there. Spellings
// that differ only in case meet in the spell part (either-way oracles) and in
// the stress part (holder-local oracles).
var nameTemplates = []string{
	"a#", // plain comes first: SampledFrom shrinks towards it
	"A#",
	"Core-RTR#.Example.NET:9339",
	"host#.example.net:9339",
	"10.0.0.#:9339",
	"[2001:DB8::#]:80",
	"[::#]:80",
	"dns:///X#:1",
	"unix:///tmp/Sock#",
	" a# ",
	"\tA#\n",
	"Ünï-ΣΩ#",
	"İstanbul#", // lower-casing changes its length
	"ǅ#ß",
	"a#/B?c=%20&d=%zz",
	"a#\x00B",
	strings.Repeat("LongName", 40) + "#",
	strings.Repeat("longname", 40) + "#",
	"#",
	"",               // the empty address (also the name of the default dialer)
	"no-such-dialer", // the dialer name the stepwise part uses as unknown
}

func addrOf(names []string, i int) string {
	if len(names) == 0 {
		return addrName(i)
	}
	k := i % len(names)
	t := names[k]
	if strings.Contains(t, "#") {
		return strings.ReplaceAll(t, "#", strconv.Itoa(i))
	}
	if i == k {
		first := true
		for j := 0; j < k; j++ {
			first = first && names[j] != t
		}
		if first {
			return t
		}
	}
	return t + "~" + strconv.Itoa(i)
}

// foldKey: spellings with different keys are different addresses under every
// reading of "address" that only ignores case and surrounding white space.
func foldKey(s string) string {
	return strings.ToLower(strings.ToUpper(strings.TrimSpace(s)))
}

// addrTable spells the n addresses of a case; ok is false if two of them have
// the same foldKey.
func addrTable(names []string, n int) (tab []string, ok bool) {
	tab = make([]string, n)
	seen := make(map[string]bool, n)
	ok = true
	for i := range tab {
		tab[i] = addrOf(names, i)
		k := foldKey(tab[i])
		if seen[k] {
			ok = false
		}
		seen[k] = true
	}
	return tab, ok
}

// genNames draws the templates of a case with n addresses (at most 4 of them,
// cycled). The result always gives a table of fold-distinct spellings; extra
// spellings that must not be produced (the convoy's lever address) are in avoid.
func genNames(t *rapid.T, n int, avoid ...string) []string {
	if !rapid.SampledFrom(twoIn3).Draw(t, "names") {
		return nil
	}
	k := min(n, 4)
	names := rapid.SliceOfN(rapid.SampledFrom(nameTemplates), 1, k).Draw(t, "templates")
	tab, ok := addrTable(names, n)
	for _, a := range tab {
		for _, b := range avoid {
			ok = ok && foldKey(a) != foldKey(b)
		}
	}
	if !ok {
		return nil
	}
	return names
}

func hasUpper(s string) bool {
	for _, r := range s {
		if unicode.IsUpper(r) || unicode.IsTitle(r) {
			return true
		}
	}
	return false
}

// nameLabels classifies the spellings that a case uses.
func nameLabels(tab []string, custom bool) []string {
	if !custom {
		return []string{"addr-plain-a0-a1"}
	}
	set := map[string]bool{}
	for _, a := range tab {
		if hasUpper(a) {
			set["addr-with-upper-case-letter"] = true
		}
		if a == "" {
			set["addr-empty"] = true
		}
		if a != strings.TrimSpace(a) {
			set["addr-leading-or-trailing-space"] = true
		}
		if len(a) > 100 {
			set["addr-long"] = true
		}
		if strings.ContainsAny(a, "[]/:") {
			set["addr-port-brackets-or-scheme"] = true
		}
		for _, r := range a {
			if r > 127 {
				set["addr-non-ascii"] = true
			}
			if r < 32 {
				set["addr-control-character"] = true
			}
		}
	}
	out := []string{"addr-generated-spelling"}
	for l := range set {
		out = append(out, l)
	}
	return out
}

// describeTable is put in front of a history when the spellings are not a0, a1, ...
func describeTable(tab []string) string {
	var b strings.Builder
	for i, a := range tab {
		if i == 8 {
			fmt.Fprintf(&b, " ... (%d addresses)", len(tab))
			break
		}
		if len(a) > 48 {
			a = a[:45] + "..."
		}
		fmt.Fprintf(&b, " %s=%q", addrName(i), a)
	}
	return "addresses:" + b.String()
}
