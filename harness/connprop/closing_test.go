package connprop

import (
	"testing"

	"pgregory.net/rapid"
	"verif/harness/internal/vstat"
)

// genClose draws a case of the part "closing" (closing.go). Plain variants come
// first in every table: SampledFrom shrinks towards the first element.
func genClose(t *rapid.T) *CloseCase {
	sc := &CloseCase{
		Ready: rapid.SampledFrom([]bool{false, false, true}).Draw(t, "ready"),
		By:    rapid.SampledFrom([]int{0, 1, 1, 2}).Draw(t, "by"),
	}
	op := rapid.Custom(func(t *rapid.T) CloseOp {
		o := CloseOp{K: rapid.SampledFrom([]string{"acq", "acq", "acq", "acq", "acq", "acq", "rel2", "dup", "relb", "relr", "cancel"}).Draw(t, "k")}
		switch o.K {
		case "acq":
			o.A = rapid.SampledFrom([]int{0, 0, 0, 1}).Draw(t, "a")
			o.Ctx = rapid.SampledFrom([]int{0, 0, 0, 1, 1}).Draw(t, "ctx")
		default:
			o.I = rapid.IntRange(0, 3).Draw(t, "i")
		}
		return o
	})
	round := rapid.Custom(func(t *rapid.T) CloseRound {
		rd := CloseRound{
			Holders: rapid.SampledFrom([]int{1, 1, 2, 3}).Draw(t, "holders"),
			State:   rapid.SampledFrom([]int{0, 1, 2, 3, 3, 3, 4}).Draw(t, "state"),
			LastN:   rapid.SampledFrom([]int{0, 0, 0, 1, 2}).Draw(t, "lastn"),
		}
		// mostly a gate that the Close of a connection in that state reaches
		switch {
		case rd.State == 3 || (rd.State == 0 && sc.Ready):
			rd.Gate = rapid.SampledFrom([]int{1, 1, 1, 2, 2, 0}).Draw(t, "gate")
		case rd.State == 0:
			rd.Gate = rapid.SampledFrom([]int{0, 2, 1}).Draw(t, "gate")
		default:
			rd.Gate = rapid.SampledFrom([]int{2, 2, 2, 2, 0, 1}).Draw(t, "gate")
		}
		rd.Ops = rapid.SliceOfN(op, 1, 5).Draw(t, "ops")
		return rd
	})
	sc.Rounds = rapid.SliceOfN(round, 1, 3).Draw(t, "rounds")
	if rapid.SampledFrom(oneIn3).Draw(t, "spelled") {
		sc.Names = genNames(t, 2)
	}
	return sc
}

// TestC16Closing: calls made while the last release of a connection is inside
// ClientConn.Close, for every connectivity state of that connection.
// Non-trivial = in some round the Close was parked, the connection had left
// IDLE, and a request for the address being closed was made meanwhile.
func TestC16Closing(t *testing.T) {
	if !vstat.Enabled("C16") {
		t.Skip()
	}
	rec := vstat.New("C16", "closing")
	rec.RunRapid(t, func(rt *rapid.T) {
		sc := genClose(rt)
		rec.Current(sc)
		st, err := runClose(t, sc)
		rec.Case(sc, st.nontrivial, st.labelList()...)
		if err != nil {
			rt.Logf("%s", rec.Fail(sc, classOf(err), "%v", err))
			rt.Fatalf("property C16 violated: %s", classOf(err))
		}
	})
}
