package connprop

import (
	"strings"
	"testing"
	"unicode"

	"pgregory.net/rapid"
	"verif/harness/internal/vstat"
)

func swapCase(s string) string {
	return strings.Map(func(r rune) rune {
		switch {
		case unicode.IsUpper(r):
			return unicode.ToLower(r)
		case unicode.IsLower(r):
			return unicode.ToUpper(r)
		}
		return r
	}, s)
}

// variant k of a spelling: the spellings of one class differ only in case or in
// surrounding white space.
func spellVariant(base string, k int) string {
	switch k {
	case 1:
		return strings.ToLower(base)
	case 2:
		return strings.ToUpper(base)
	case 3:
		return swapCase(base)
	case 4:
		return " " + base + "\t"
	}
	return base
}

var spellStepKinds = weighted(map[string]int{"acq": 10, "fin": 3, "rel": 7, "rel2": 2, "relf": 2})

func genSpell(t *rapid.T) *SpellCase {
	sc := &SpellCase{}
	nc := rapid.SampledFrom([]int{1, 1, 1, 2}).Draw(t, "classes")
	seen := map[string]bool{}
	for c := 0; c < nc; c++ {
		base := addrOf([]string{rapid.SampledFrom(nameTemplates).Draw(t, "template")}, c)
		vs := rapid.SliceOfNDistinct(rapid.SampledFrom([]int{0, 1, 2, 3, 4}), 1, 3, rapid.ID[int]).Draw(t, "variants")
		for _, k := range vs {
			if sp := spellVariant(base, k); !seen[sp] {
				seen[sp] = true
				sc.Spell = append(sc.Spell, sp)
			}
		}
	}
	n := len(sc.Spell)
	g := rapid.Custom(func(t *rapid.T) Step {
		st := Step{K: rapid.SampledFrom(spellStepKinds).Draw(t, "k")}
		switch st.K {
		case "acq":
			st.A = rapid.IntRange(0, n-1).Draw(t, "a")
			st.F = rapid.SampledFrom([]int{1, 1, 1, 1, 0, 0, 0, 2, 2}).Draw(t, "f")
		case "fin":
			st.I = rapid.IntRange(0, 2).Draw(t, "i")
			st.OK = rapid.SampledFrom(twoIn3).Draw(t, "ok")
		case "rel":
			st.I = rapid.IntRange(0, 5).Draw(t, "i")
			st.All = rapid.SampledFrom(oneIn3).Draw(t, "all")
		default:
			st.I = rapid.IntRange(0, 5).Draw(t, "i")
		}
		return st
	})
	sc.Steps = rapid.SliceOfN(g, 1, 12).Draw(t, "steps")
	sc.Steps = append(sc.Steps, rapid.SliceOfN(g, 0, 12).Draw(t, "more")...)
	return sc
}

// TestC16Spell: the address strings themselves - mixed case, spellings that
// differ only in case requested in every order, odd shapes - under oracles that
// hold whether or not such spellings are one address. See SpellCase.
func TestC16Spell(t *testing.T) {
	if !vstat.Enabled("C16") {
		t.Skip()
	}
	rec := vstat.New("C16", "spell")
	rec.RunRapid(t, func(rt *rapid.T) {
		sc := genSpell(rt)
		rec.Current(sc)
		st, err := runSpell(t, sc)
		rec.Case(sc, st.nontrivial, st.labels...)
		if err != nil {
			rt.Logf("%s", rec.Fail(sc, classOf(err), "%v", err))
			rt.Fatalf("property C16 violated: %s", classOf(err))
		}
	})
}
