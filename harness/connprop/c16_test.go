package connprop

import (
	"encoding/json"
	"flag"
	"fmt"
	"os"
	"sort"
	"testing"

	"pgregory.net/rapid"
	"verif/harness/internal/vstat"
)

func TestMain(m *testing.M) {
	flag.Parse()
	os.Exit(m.Run())
}

// --- generators ----------------------------------------------------------------

func weighted(w map[string]int) []string {
	var k []string
	for kind, n := range w {
		for i := 0; i < n; i++ {
			k = append(k, kind)
		}
	}
	sort.Strings(k)
	return k
}

var stepKinds = weighted(map[string]int{"acq": 10, "fin": 4, "rel": 7, "rel2": 3, "relf": 2, "cancel": 3, "open": 3})

// with events outside the manager (outside.go) sprinkled in / as the main theme
var (
	mixedKinds   = weighted(map[string]int{"acq": 10, "fin": 4, "rel": 7, "rel2": 3, "relf": 2, "cancel": 3, "open": 3, "xclose": 3, "xcon": 2, "xreset": 1, "xdrop": 1, "tick": 1})
	outsideKinds = weighted(map[string]int{"acq": 10, "fin": 3, "rel": 7, "rel2": 2, "relf": 1, "cancel": 1, "open": 1, "xclose": 6, "xcon": 4, "xreset": 1, "xdrop": 1, "tick": 2})
	// dial outcomes of the outside part: connections come into being quickly
	outsideDialModes = []int{1, 1, 1, 1, 1, 1, 0, 0, 0, 2, 3}
)

func genStep(addrs, threads int) func(t *rapid.T) Step { return genStepN(addrs, threads, 0) }

// genStepK draws from the given table of kinds, which may contain the kinds of
// outside.go; then releases may be made from several goroutines at once and a
// dial function may hand back a connection it closed itself.
func genStepK(addrs, threads, imax int, kinds []string, dials []int) func(t *rapid.T) Step {
	base := genPlain(addrs, threads, imax)
	xi := func(t *rapid.T) int {
		if imax > 0 && rapid.Bool().Draw(t, "wide") {
			return rapid.IntRange(0, imax).Draw(t, "i")
		}
		return rapid.IntRange(0, 7).Draw(t, "i")
	}
	return func(t *rapid.T) Step {
		k := rapid.SampledFrom(kinds).Draw(t, "k")
		switch k {
		case "xclose":
			return Step{K: k, I: xi(t), W: rapid.SampledFrom([]int{0, 0, 0, 1, 1, 2}).Draw(t, "w")}
		case "xcon":
			return Step{K: k, I: xi(t), M: rapid.IntRange(0, 2).Draw(t, "m")}
		case "xreset", "xdrop":
			return Step{K: k, I: xi(t)}
		case "tick":
			return Step{K: k, Dur: rapid.IntRange(0, 3).Draw(t, "dur")}
		}
		st := base(t, k)
		switch st.K {
		case "acq":
			st.F = rapid.SampledFrom(dials).Draw(t, "fx")
		case "fin":
			st.X = rapid.SampledFrom(oneIn5).Draw(t, "x")
		case "rel", "rel2", "relf":
			st.N = rapid.SampledFrom([]int{0, 0, 0, 1, 2, 3}).Draw(t, "n")
		}
		return st
	}
}

// genStepN: imax > 0 widens the candidate indices (which are taken modulo the
// number of candidates) so that every one of many candidates can be picked.
func genStepN(addrs, threads, imax int) func(t *rapid.T) Step {
	g := genPlain(addrs, threads, imax)
	return func(t *rapid.T) Step { return g(t, "") }
}

// genPlain draws a step of kind k (drawn from stepKinds if empty).
func genPlain(addrs, threads, imax int) func(t *rapid.T, k string) Step {
	idx := func(t *rapid.T, small int) int {
		if imax > 0 && rapid.Bool().Draw(t, "wide") {
			return rapid.IntRange(0, imax).Draw(t, "i")
		}
		return rapid.IntRange(0, small).Draw(t, "i")
	}
	return func(t *rapid.T, k string) Step {
		st := Step{K: k}
		if k == "" {
			st.K = rapid.SampledFrom(stepKinds).Draw(t, "k")
		}
		switch st.K {
		case "acq":
			st.T = rapid.IntRange(0, threads-1).Draw(t, "t")
			st.A = rapid.IntRange(0, addrs-1).Draw(t, "a")
			switch c := rapid.SampledFrom(ctxKinds).Draw(t, "ctx"); c {
			case "pre":
				st.P = true
			case "own":
				st.C = true
			}
			st.F = rapid.SampledFrom(dialModes).Draw(t, "f")
			st.B = rapid.SampledFrom(oneIn10).Draw(t, "b")
			st.G = rapid.SampledFrom(oneIn8).Draw(t, "g")
			st.D = rapid.SampledFrom(oneIn10).Draw(t, "d")
			// every argument of Connection is per-request data (dialers.go): the
			// dialer name and the kind of context, whatever the address holds
			st.Dn = rapid.SampledFrom(dialerSprinkle).Draw(t, "dn")
			st.Dl = rapid.SampledFrom(deadlineSprinkle).Draw(t, "dl")
		case "fin":
			st.I = idx(t, 2)
			st.OK = rapid.SampledFrom(twoIn3).Draw(t, "ok")
			st.G = rapid.SampledFrom(oneIn3).Draw(t, "g")
		case "rel":
			st.I = idx(t, 7)
			st.All = rapid.SampledFrom(oneIn3).Draw(t, "all")
		case "rel2", "relf":
			st.I = idx(t, 7)
		case "cancel":
			st.I = idx(t, 3)
			st.G = rapid.SampledFrom(oneIn3).Draw(t, "g")
		case "open":
			st.I = idx(t, 3)
		}
		return st
	}
}

func bools(trues, n int) []bool {
	b := make([]bool, n)
	for i := 0; i < trues; i++ {
		b[n-1-i] = true
	}
	return b
}

var (
	// SampledFrom shrinks towards the first element: the plain variant comes first
	ctxKinds  = []string{"bg", "bg", "bg", "bg", "bg", "bg", "bg", "bg", "bg", "own", "own", "own", "own", "own", "own", "pre"}
	dialModes = []int{0, 0, 0, 0, 0, 0, 0, 0, 0, 1, 1, 1, 1, 1, 1, 1, 1, 2, 2, 2}
	oneIn3    = bools(1, 3)
	// indices into dialerTable / deadlines; plain first
	dialerSprinkle   = []int{0, 0, 0, 0, 0, 0, 0, 0, 0, 0, 0, 0, 1, 1, 2, 3, 4, 5}
	deadlineSprinkle = []int{0, 0, 0, 0, 0, 0, 0, 0, 0, 0, 0, 0, 0, 0, 1, 2, 3, 4}
	oneIn5           = bools(1, 5)
	twoIn3           = bools(2, 3)
	oneIn8           = bools(1, 8)
	oneIn10          = bools(1, 10)
)

func genScenario(t *rapid.T) *Scenario {
	sc := &Scenario{
		Addrs:   rapid.IntRange(1, 3).Draw(t, "addrs"),
		Threads: rapid.IntRange(2, 8).Draw(t, "threads"),
	}
	g := rapid.Custom(genStep(sc.Addrs, sc.Threads))
	// three segments: rapid's slice lengths are biased towards the minimum
	if rapid.SampledFrom(oneIn3).Draw(t, "outside") {
		// things happen to handed-out connections outside the manager
		g = rapid.Custom(genStepK(sc.Addrs, sc.Threads, 0, mixedKinds, append(append([]int(nil), dialModes...), 3)))
	}
	sc.Steps = rapid.SliceOfN(g, 1, 14).Draw(t, "steps")
	sc.Steps = append(sc.Steps, rapid.SliceOfN(g, 0, 14).Draw(t, "more1")...)
	sc.Steps = append(sc.Steps, rapid.SliceOfN(g, 0, 14).Draw(t, "more2")...)
	sc.Names = genNames(t, sc.Addrs)
	return sc
}

// genOutsideScenario: few addresses and threads, connections that come into
// being quickly, and the steps of outside.go as the main theme: holders that
// close the connection they were handed, connectivity changes, virtual time.
func genOutsideScenario(t *rapid.T) *Scenario {
	sc := &Scenario{
		Addrs:   rapid.SampledFrom([]int{1, 1, 2, 2, 3}).Draw(t, "addrs"),
		Threads: rapid.IntRange(2, 6).Draw(t, "threads"),
	}
	g := rapid.Custom(genStepK(sc.Addrs, sc.Threads, 0, outsideKinds, outsideDialModes))
	sc.Steps = rapid.SliceOfN(g, 2, 14).Draw(t, "steps")
	sc.Steps = append(sc.Steps, rapid.SliceOfN(g, 0, 14).Draw(t, "more1")...)
	sc.Steps = append(sc.Steps, rapid.SliceOfN(g, 0, 14).Draw(t, "more2")...)
	if rapid.SampledFrom(oneIn3).Draw(t, "spelled") {
		sc.Names = genNames(t, sc.Addrs)
	}
	return sc
}

// TestC16Outside: the stepwise engine with things that happen to a handed-out
// connection outside the manager (see outside.go).
func TestC16Outside(t *testing.T) {
	if !vstat.Enabled("C16") {
		t.Skip()
	}
	rec := vstat.New("C16", "outside")
	rec.RunRapid(t, func(rt *rapid.T) {
		sc := genOutsideScenario(rt)
		rec.Current(sc)
		st, err := runCase(t, sc)
		rec.Case(sc, st.nontrivial, st.labelList()...)
		if err != nil {
			rt.Logf("%s", rec.Fail(sc, classOf(err), "%v", err))
			rt.Fatalf("property C16 violated: %s", classOf(err))
		}
	})
}

// --- known open findings -----------------------------------------------------------
//
// knownClasses maps the class name of an open finding listed for C16 in the
// -known file to the predicate (compiled in) that recognises its scenarios.
// No open finding exists for C16 at the time of writing, so the table is empty;
// a class listed in the file that has no predicate here is reported in a note
// and excludes nothing.
var knownClasses = map[string]func(*Scenario) bool{}

// TestC16Random: generated schedules of requests, releases, dial outcomes,
// cancellations and gate parks, each in a bubble of its own.
func TestC16Random(t *testing.T) {
	if !vstat.Enabled("C16") {
		t.Skip()
	}
	rec := vstat.New("C16", "random")
	var excl []string
	for class, f := range vstat.OpenClasses("C16") {
		if knownClasses[class] == nil {
			rec.Note("open finding %s (class %q) has no predicate in connprop; nothing is excluded for it", f.ID, class)
			continue
		}
		excl = append(excl, class)
		if len(f.Input) > 0 {
			var sc Scenario
			if json.Unmarshal(f.Input, &sc) == nil {
				if _, err := runCase(t, &sc); err != nil {
					rec.KnownFinding(fmt.Sprintf("KNOWN-FINDING: property=C16 %s", f.What))
				}
			}
		}
	}
	sort.Strings(excl)
	rec.RunRapid(t, func(rt *rapid.T) {
		sc := genScenario(rt)
		for _, class := range excl {
			if knownClasses[class](sc) {
				rec.Excluded(class)
				rt.Skip("scenario belongs to the class of an open finding")
			}
		}
		rec.Current(sc)
		st, err := runCase(t, sc)
		rec.Case(sc, st.nontrivial, st.labelList()...)
		if err != nil {
			// the history goes to the log and the replay file; the failure text is
			// kept short and stable for the shrinker
			rt.Logf("%s", rec.Fail(sc, classOf(err), "%v", err))
			rt.Fatalf("property C16 violated: %s", classOf(err))
		}
	})
}

// TestReplay re-runs a saved scenario without the generators.
func TestReplay(t *testing.T) {
	rf, ok, err := vstat.LoadReplay()
	if !ok {
		t.Skip()
	}
	if err != nil {
		t.Fatal(err)
	}
	rec := vstat.New(rf.Property, "replay")
	defer rec.Flush(true)
	if msg := replayOne(t, rf); msg != "" {
		rec.AddViolation(json.RawMessage(rf.Scenario), rf.Kind, rf.Class, "%s", msg)
		fmt.Println("REPLAY-FAIL:", msg)
		t.Fail()
		return
	}
	rec.Case(json.RawMessage(rf.Scenario), false, "replayed")
	fmt.Println("REPLAY-OK")
}

func replayOne(t *testing.T, rf *vstat.ReplayFile) string {
	if rf.Property != "C16" {
		return "replay file is for property " + rf.Property + ", this engine decides C16"
	}
	switch {
	case rf.Part == "storm":
		var sc StormCase
		if err := json.Unmarshal(rf.Scenario, &sc); err != nil {
			return "bad storm case: " + err.Error()
		}
		for i := 0; i < 20; i++ { // same virtual instants, another real schedule each time
			if _, err := runStorm(t, &sc); err != nil {
				return err.Error()
			}
		}
		return ""
	case rf.Part == "default":
		var sc DefaultCase
		if err := json.Unmarshal(rf.Scenario, &sc); err != nil {
			return "bad default case: " + err.Error()
		}
		for i := 0; i < 5; i++ {
			if _, err := runDefault(&sc); err != nil {
				return err.Error()
			}
		}
		return ""
	case rf.Part == "closing":
		var sc CloseCase
		if err := json.Unmarshal(rf.Scenario, &sc); err != nil {
			return "bad close case: " + err.Error()
		}
		if _, err := runClose(t, &sc); err != nil {
			return err.Error()
		}
		return ""
	case rf.Part == "spell":
		var sc SpellCase
		if err := json.Unmarshal(rf.Scenario, &sc); err != nil {
			return "bad spell case: " + err.Error()
		}
		if _, err := runSpell(t, &sc); err != nil {
			return err.Error()
		}
		return ""
	case rf.Part == "retry":
		var rc RetryCase
		if err := json.Unmarshal(rf.Scenario, &rc); err != nil {
			return "bad retry case: " + err.Error()
		}
		for i := 0; i < 10; i++ {
			if _, err := runRetry(&rc); err != nil {
				return err.Error()
			}
		}
		return ""
	case rf.Part == "parked":
		var pc ParkCase
		if err := json.Unmarshal(rf.Scenario, &pc); err != nil {
			return "bad park case: " + err.Error()
		}
		for i := 0; i < 20; i++ {
			if _, err := runPark(&pc); err != nil {
				return err.Error()
			}
		}
		return ""
	case rf.Part == "convoy":
		var cc ConvoyCase
		if err := json.Unmarshal(rf.Scenario, &cc); err != nil {
			return "bad convoy case: " + err.Error()
		}
		for i := 0; i < 50; i++ {
			if _, err := runConvoy(&cc); err != nil {
				return err.Error()
			}
		}
		return ""
	}
	if rf.Kind == "stress" || rf.Part == "stress" {
		var r StressRound
		if err := json.Unmarshal(rf.Scenario, &r); err != nil || r.Workers < 1 || r.Addrs < 1 {
			return fmt.Sprintf("bad stress round: %v", err)
		}
		for i := 0; i < 50; i++ { // the schedule is not reproducible: try the workload repeatedly
			if _, err := runStressRound(&r); err != nil {
				return err.Error()
			}
		}
		return ""
	}
	var sc Scenario
	if err := json.Unmarshal(rf.Scenario, &sc); err != nil {
		return "bad scenario: " + err.Error()
	}
	if _, err := runCase(t, &sc); err != nil {
		return err.Error()
	}
	return ""
}
