// Package connprop decides property C16: shared gRPC connections handed out by
// connection.Manager are reference-counted correctly.
//
// A case is plain data (Scenario). It is executed inside a synctest bubble one
// step at a time, every step running until all goroutines of the bubble are
// durably blocked, so the interleaving of Connection()/done() calls, dial
// results, context cancellations and the two schedule points
// conn.dial.result / conn.wait is part of the data.
//
// Parts: random (stepwise, exact generation model, run.go), wide (the same
// engine at sizes beyond 32/64/128 addresses, pending dials, blocked requesters,
// storm_test.go), storm (free-running requesters in virtual time inside one
// bubble: hundreds of requesters and addresses, slow dials, cancellation at
// every phase, concurrent calls of one done func; schedule-independent oracles,
// storm.go), convoy (real scheduler: calls piled up in front of the Manager's
// lock, among them several concurrent calls of the same done func, convoy.go)
// and stress (real scheduler, acquire/hold/release churn, stress_test.go).
// outside (outside.go): the stepwise engine with things that happen to a
// handed-out connection outside the manager - holders that call Close() on the
// connection they were handed, dial functions that hand back a closed one,
// connectivity changes, one done func called from several goroutines; the same
// events are sprinkled into random, wide, storm and stress.
//
// The spelling of the addresses is data of every part (names.go: mixed case,
// ports, brackets, schemes, white space, non-ASCII, long, empty). Further parts:
// spell (stepwise; spellings that differ only in case, under oracles that hold
// whether or not they are one address, spell.go), retry (real scheduler;
// requesters that ask again the moment they are told of a failure) and parked
// (dial errors whose Error() method parks while requests are made), retry.go.
//
// Every argument of Manager.Connection is per-request data of the stepwise
// engine (dialers.go): the dialer name (several registered dialers that behave
// differently, unregistered names, names this case's Manager was built without)
// and the context (background, cancelled, deadline in virtual time). Part
// dialers (dialers_test.go) combines them freely on one address.
package connprop

import (
	"fmt"
	"strings"
	"time"
)

// Scenario is one generated case.
type Scenario struct {
	Addrs int `json:"addrs"` // 1..3 addresses a0..a2
	// Names: templates of the address spellings (names.go); empty: a0, a1, ...
	// The history names an address by its index (a0, a1, ...) whatever its spelling.
	Names   []string `json:"names,omitempty"`
	Threads int      `json:"threads"` // 2..8 requester threads (a thread has at most one Connection call outstanding)
	Steps   []Step   `json:"steps"`
	// Unreg: indices into dialerTable (dialers.go) of dialer names that this
	// case's Manager is built WITHOUT (a request naming one of them names an
	// unregistered dialer). Empty: every name the table marks as registered is.
	Unreg []int `json:"unreg,omitempty"`
}

// Step kinds (all indices are taken modulo the number of candidates that exist
// when the step runs; a step without candidates is skipped):
//
//	acq    thread T (the next idle one if T is busy) calls Connection(ctx, addr A).
//	       C: with a cancellable context of its own; P: that context is already
//	       cancelled; B: with an unknown dialer name (only used when the model has
//	       neither a pending dial nor a live connection for A - what a request
//	       with a different dialer name gets for an address that is already
//	       connected is not part of C16); G: the caller parks at conn.wait (after
//	       it registered, before it waits for the dial); D: arm conn.dial.result
//	       for A (the dial goroutine parks between the return of the dial
//	       function and the publication of its result). F: if this request
//	       starts a dial, the dial function returns at once (1 = a fresh
//	       connection, 2 = an error) instead of parking until a fin step.
//	       Dn: the dialer NAME the request passes (index into dialerTable,
//	       dialers.go; 0 = connection.DEFAULT) - whatever is pending, held or
//	       just released for A, so requests for ONE address name different
//	       dialers; Dl: the context carries a deadline in virtual time (1: 2s,
//	       2: 10s, 3: 1h, 4: already expired), which tick steps let expire while
//	       the request waits, holds, or after it released.
//	fin    the I-th dial function that is parked returns: OK = a fresh idle
//	       connection, otherwise an error. G: arm conn.dial.result first.
//	rel    the I-th unreleased handle is released (done()). All: then every
//	       other unreleased handle of the same connection, one call at a time.
//	rel2   the done func of the I-th already released handle is called again.
//	relf   the done func returned by the I-th failed request is called.
//	cancel cancel the context of the I-th request with an uncancelled context of
//	       its own (requests that are still blocked are preferred). G: arm
//	       conn.dial.result for its address first if it originated the pending dial.
//	open   release the I-th goroutine parked at a gate.
//
// Things that happen to a handed-out connection OUTSIDE the manager, and holders
// that misbehave within what the API permits (candidates = requests that were
// handed a connection, released or not; W picks the class of candidate that is
// preferred, I the candidate):
//
//	xclose the requester calls Close() on the *grpc.ClientConn it was handed.
//	       W 0: one that still holds it; 1: one that already released it while
//	       another holder remains; 2: any (e.g. a connection forgotten long ago).
//	       The harness records the call before it is made: a connection the
//	       scenario closed is excused from "never SHUTDOWN while held", everything
//	       else (sharing per hand-out, closed and forgotten at the last release,
//	       releases of one hand-out never touch another) is demanded as before.
//	xcon   conn.Connect() on a handed-out connection whose transport dialer
//	       behaves as M from now on (0: refuses at once -> TRANSIENT_FAILURE,
//	       1: hangs -> CONNECTING, 2: reaches an in-bubble gRPC server -> READY).
//	xreset conn.ResetConnectBackoff().
//	xdrop  the server side drops the transports of a handed-out connection
//	       (READY -> IDLE).
//	tick   virtual time advances by Dur (0: 1s, 1: 3s, 2: 25s, 3: 31min; back-off,
//	       connect timeout and idle timers of gRPC fire).
//
// rel/rel2/relf with N > 0: the done func is called from 1+N goroutines started
// together. acq F=3 / fin X: the dial function hands back a connection that it
// has closed itself.
//
// An acq step that finds every thread inside a call acts as open (if something
// is parked at a gate) or else as fin; a rel step that finds no unreleased
// handle acts as fin (ok) or else as open. The history printed with a failure
// shows what every step did.
type Step struct {
	K   string `json:"k"`
	T   int    `json:"t,omitempty"`
	A   int    `json:"a,omitempty"`
	C   bool   `json:"c,omitempty"`
	P   bool   `json:"p,omitempty"`
	B   bool   `json:"b,omitempty"`
	G   bool   `json:"g,omitempty"`
	D   bool   `json:"d,omitempty"`
	F   int    `json:"f,omitempty"`
	OK  bool   `json:"ok,omitempty"`
	All bool   `json:"all,omitempty"`
	I   int    `json:"i,omitempty"`
	W   int    `json:"w,omitempty"`
	M   int    `json:"m,omitempty"`
	Dur int    `json:"dur,omitempty"`
	N   int    `json:"n,omitempty"`
	X   bool   `json:"x,omitempty"`
	Dn  int    `json:"dn,omitempty"`
	Dl  int    `json:"dl,omitempty"`
}

func (s Step) String() string {
	var f []string
	switch s.K {
	case "acq":
		f = append(f, fmt.Sprintf("acq t%d a%d", s.T, s.A))
		if s.P {
			f = append(f, "ctx-already-cancelled")
		} else if s.C {
			f = append(f, "own-ctx")
		}
		if s.B {
			f = append(f, "unknown-dialer")
		}
		if s.Dn != 0 {
			f = append(f, "dialer:"+dialerTable[mod(s.Dn, len(dialerTable))].label)
		}
		if s.Dl != 0 {
			f = append(f, "deadline:"+deadlineName(s.Dl))
		}
		if s.G {
			f = append(f, "gate:"+pointWait)
		}
		if s.D {
			f = append(f, "gate:"+pointDialResult)
		}
		switch s.F {
		case 1:
			f = append(f, "dial-returns-ok-at-once")
		case 2:
			f = append(f, "dial-returns-error-at-once")
		case 3:
			f = append(f, "dial-returns-at-once-a-connection-it-closed-itself")
		}
	case "fin":
		out := "error"
		if s.OK {
			out = "ok"
		}
		if s.OK && s.X {
			out = "ok-but-closed-by-the-dial-function"
		}
		f = append(f, fmt.Sprintf("fin #%d %s", s.I, out))
		if s.G {
			f = append(f, "gate:"+pointDialResult)
		}
	case "cancel":
		f = append(f, fmt.Sprintf("cancel #%d", s.I))
		if s.G {
			f = append(f, "gate:"+pointDialResult)
		}
	case "xclose":
		f = append(f, fmt.Sprintf("xclose #%d pref%d", s.I, s.W))
	case "xcon":
		f = append(f, fmt.Sprintf("xcon #%d net:%s", s.I, netModeName(s.M)))
	case "tick":
		f = append(f, "tick "+tickOfStep(s.Dur).String())
	default:
		f = append(f, fmt.Sprintf("%s #%d", s.K, s.I))
		if s.All {
			f = append(f, "all-holders")
		}
		if s.N > 0 {
			f = append(f, fmt.Sprintf("from-%d-goroutines", 1+s.N))
		}
	}
	return strings.Join(f, " ")
}

const (
	pointDialResult = "conn.dial.result"
	pointWait       = "conn.wait"
)

const (
	netRefuse = iota
	netHang
	netServe
)

func netModeName(m int) string {
	switch mod(m, 3) {
	case netRefuse:
		return "refuse"
	case netHang:
		return "hang"
	}
	return "serve"
}

var tickDurations = []time.Duration{time.Second, 3 * time.Second, 25 * time.Second, 31 * time.Minute}

func tickOfStep(d int) time.Duration { return tickDurations[mod(d, len(tickDurations))] }

func addrName(i int) string { return fmt.Sprintf("a%d", i) }
