// Package connprop decides property C16: shared gRPC connections handed out by
// connection.Manager are reference-counted correctly.
//
// A case is plain data (Scenario). It is executed inside a synctest bubble one
// step at a time, every step running until all goroutines of the bubble are
// durably blocked, so the interleaving of Connection()/done() calls, dial
// results, context cancellations and the two schedule points
// conn.dial.result / conn.wait is part of the data.
//
// Parts: random (stepwise, exact generation model, run.go), wide (the same
// engine at sizes beyond 32/64/128 addresses, pending dials, blocked requesters,
// storm_test.go), storm (free-running requesters in virtual time inside one
// bubble: hundreds of requesters and addresses, slow dials, cancellation at
// every phase, concurrent calls of one done func; schedule-independent oracles,
// storm.go), convoy (real scheduler: calls piled up in front of the Manager's
// lock, among them several concurrent calls of the same done func, convoy.go)
// and stress (real scheduler, acquire/hold/release churn, stress_test.go).
//
// The spelling of the addresses is data of every part (names.go: mixed case,
// ports, brackets, schemes, white space, non-ASCII, long, empty). Further parts:
// spell (stepwise; spellings that differ only in case, under oracles that hold
// whether or not they are one address, spell.go), retry (real scheduler;
// requesters that ask again the moment they are told of a failure) and parked
// (dial errors whose Error() method parks while requests are made), retry.go.
package connprop

import (
	"fmt"
	"strings"
)

// Scenario is one generated case.
type Scenario struct {
	Addrs int `json:"addrs"` // 1..3 addresses a0..a2
	// Names: templates of the address spellings (names.go); empty: a0, a1, ...
	// The history names an address by its index (a0, a1, ...) whatever its spelling.
	Names   []string `json:"names,omitempty"`
	Threads int      `json:"threads"` // 2..8 requester threads (a thread has at most one Connection call outstanding)
	Steps   []Step   `json:"steps"`
}

// Step kinds (all indices are taken modulo the number of candidates that exist
// when the step runs; a step without candidates is skipped):
//
//	acq    thread T (the next idle one if T is busy) calls Connection(ctx, addr A).
//	       C: with a cancellable context of its own; P: that context is already
//	       cancelled; B: with an unknown dialer name (only used when the model has
//	       neither a pending dial nor a live connection for A - what a request
//	       with a different dialer name gets for an address that is already
//	       connected is not part of C16); G: the caller parks at conn.wait (after
//	       it registered, before it waits for the dial); D: arm conn.dial.result
//	       for A (the dial goroutine parks between the return of the dial
//	       function and the publication of its result). F: if this request
//	       starts a dial, the dial function returns at once (1 = a fresh
//	       connection, 2 = an error) instead of parking until a fin step.
//	fin    the I-th dial function that is parked returns: OK = a fresh idle
//	       connection, otherwise an error. G: arm conn.dial.result first.
//	rel    the I-th unreleased handle is released (done()). All: then every
//	       other unreleased handle of the same connection, one call at a time.
//	rel2   the done func of the I-th already released handle is called again.
//	relf   the done func returned by the I-th failed request is called.
//	cancel cancel the context of the I-th request with an uncancelled context of
//	       its own (requests that are still blocked are preferred). G: arm
//	       conn.dial.result for its address first if it originated the pending dial.
//	open   release the I-th goroutine parked at a gate.
//
// An acq step that finds every thread inside a call acts as open (if something
// is parked at a gate) or else as fin; a rel step that finds no unreleased
// handle acts as fin (ok) or else as open. The history printed with a failure
// shows what every step did.
type Step struct {
	K   string `json:"k"`
	T   int    `json:"t,omitempty"`
	A   int    `json:"a,omitempty"`
	C   bool   `json:"c,omitempty"`
	P   bool   `json:"p,omitempty"`
	B   bool   `json:"b,omitempty"`
	G   bool   `json:"g,omitempty"`
	D   bool   `json:"d,omitempty"`
	F   int    `json:"f,omitempty"`
	OK  bool   `json:"ok,omitempty"`
	All bool   `json:"all,omitempty"`
	I   int    `json:"i,omitempty"`
}

func (s Step) String() string {
	var f []string
	switch s.K {
	case "acq":
		f = append(f, fmt.Sprintf("acq t%d a%d", s.T, s.A))
		if s.P {
			f = append(f, "ctx-already-cancelled")
		} else if s.C {
			f = append(f, "own-ctx")
		}
		if s.B {
			f = append(f, "unknown-dialer")
		}
		if s.G {
			f = append(f, "gate:"+pointWait)
		}
		if s.D {
			f = append(f, "gate:"+pointDialResult)
		}
		switch s.F {
		case 1:
			f = append(f, "dial-returns-ok-at-once")
		case 2:
			f = append(f, "dial-returns-error-at-once")
		}
	case "fin":
		out := "error"
		if s.OK {
			out = "ok"
		}
		f = append(f, fmt.Sprintf("fin #%d %s", s.I, out))
		if s.G {
			f = append(f, "gate:"+pointDialResult)
		}
	case "cancel":
		f = append(f, fmt.Sprintf("cancel #%d", s.I))
		if s.G {
			f = append(f, "gate:"+pointDialResult)
		}
	default:
		f = append(f, fmt.Sprintf("%s #%d", s.K, s.I))
		if s.All {
			f = append(f, "all-holders")
		}
	}
	return strings.Join(f, " ")
}

const (
	pointDialResult = "conn.dial.result"
	pointWait       = "conn.wait"
)

func addrName(i int) string { return fmt.Sprintf("a%d", i) }
