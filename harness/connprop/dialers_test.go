package connprop

import (
	"testing"

	"pgregory.net/rapid"
	"verif/harness/internal/vstat"
)

// Part dialers: the stepwise engine (exact generation model, run.go) with every
// argument of Manager.Connection drawn per request and combined freely on ONE
// address (sometimes two): the dialer name - the default, a second scripted one,
// one that always fails at once, one that always succeeds at once, two that are
// never registered, and names that THIS case's Manager was built without -
// varies between the requests for the address while a dial is pending, the
// connection is held, or right after its last release; contexts are background,
// already cancelled, cancelled by a later step, or carry a deadline in virtual
// time that tick steps let expire. See dialers.go for what is (not) demanded.

var (
	dialerKinds = weighted(map[string]int{"acq": 12, "fin": 3, "rel": 8, "rel2": 2, "relf": 3, "cancel": 2, "open": 2, "tick": 5, "xclose": 1})
	// dial outcomes: connections come into being quickly, some dials stay pending
	dialerDialModes = []int{1, 1, 1, 1, 1, 0, 0, 0, 0, 2, 3}
	dialerNamesGen  = []int{0, 0, 0, 0, 1, 1, 1, 2, 3, 4, 4, 5}
	deadlinesGen    = []int{0, 0, 0, 0, 0, 0, 1, 1, 1, 2, 2, 3, 4}
)

func genDialerScenario(t *rapid.T) *Scenario {
	sc := &Scenario{
		Addrs:   rapid.SampledFrom([]int{1, 1, 1, 2}).Draw(t, "addrs"),
		Threads: rapid.IntRange(2, 6).Draw(t, "threads"),
	}
	base := genStepK(sc.Addrs, sc.Threads, 0, dialerKinds, dialerDialModes)
	g := rapid.Custom(func(t *rapid.T) Step {
		st := base(t)
		if st.K == "acq" {
			st.B = false
			st.Dn = rapid.SampledFrom(dialerNamesGen).Draw(t, "dialer")
			st.Dl = rapid.SampledFrom(deadlinesGen).Draw(t, "deadline")
		}
		return st
	})
	sc.Steps = rapid.SliceOfN(g, 2, 14).Draw(t, "steps")
	sc.Steps = append(sc.Steps, rapid.SliceOfN(g, 0, 14).Draw(t, "more1")...)
	sc.Steps = append(sc.Steps, rapid.SliceOfN(g, 0, 14).Draw(t, "more2")...)
	if rapid.SampledFrom(oneIn5).Draw(t, "unreg") {
		// a Manager built without some of the names (the default one included)
		sc.Unreg = rapid.SliceOfNDistinct(rapid.IntRange(0, 3), 1, 3, rapid.ID[int]).Draw(t, "unregistered")
	}
	if rapid.SampledFrom(oneIn5).Draw(t, "spelled") {
		sc.Names = genNames(t, sc.Addrs)
	}
	return sc
}

// TestC16Dialers: non-trivial = some request named another dialer than the one
// the pending dial / held connection of its address was started through and was
// answered (handed the connection, or an error) - the ref-count clauses are then
// judged on that connection up to its last release.
func TestC16Dialers(t *testing.T) {
	if !vstat.Enabled("C16") {
		t.Skip()
	}
	rec := vstat.New("C16", "dialers")
	rec.RunRapid(t, func(rt *rapid.T) {
		sc := genDialerScenario(rt)
		rec.Current(sc)
		st, err := runCase(t, sc)
		rec.Case(sc, st.dialerClass, st.labelList()...)
		if err != nil {
			rt.Logf("%s", rec.Fail(sc, classOf(err), "%v", err))
			rt.Fatalf("property C16 violated: %s", classOf(err))
		}
	})
}
