package connprop

import (
	"context"
	"errors"
	"fmt"
	"net"
	"runtime"
	"sync"
	"sync/atomic"
	"time"

	"github.com/openconfig/gnmi/connection"
	"google.golang.org/grpc"
	"google.golang.org/grpc/connectivity"
	"google.golang.org/grpc/credentials/insecure"
	"google.golang.org/grpc/resolver"
)

// ConvoyCase is one free-running workload on the real scheduler (no bubble)
// that explores the windows INSIDE one done() / Connection() call, which the
// stepwise engine never enters: a set of calls - several concurrent calls of
// one and the same done func, releases through different handles, new requests
// - is started at the same moment, by default while the Manager's lock is busy,
// so that the calls pile up at whatever they do before taking the lock and are
// then let go together.
//
// The lock is kept busy without any hook in the code under test: one extra
// connection ("z") is made with a name resolver whose Close blocks until the
// harness opens a gate; ClientConn.Close waits for it, and the Manager closes a
// connection at its last release while holding its lock. Whether the calls
// have reached the lock when the gate opens is up to the scheduler (a short
// real-time pause makes it likely); it only decides whether the window was hit.
// The verdict is taken after every goroutine was joined and follows from the
// data alone, under every schedule.
type ConvoyCase struct {
	// Held: handles acquired one after the other before the convoy; the value is
	// the address index (0 or 1) of each.
	Held []int      `json:"held"`
	Ops  []ConvoyOp `json:"ops"`
	// NoLever: do not keep the lock busy (plain simultaneous start).
	NoLever bool `json:"nolever,omitempty"`
	// Names: templates of the spellings of the three addresses (names.go); empty: a0, a1, a2
	Names []string `json:"names,omitempty"`
	// ZReady: the lever's connection is READY when its last holder releases it (its
	// resolver reports an address and the transport is a net.Pipe to a gRPC server
	// of the case); otherwise it is a client whose resolver never reports anything.
	ZReady bool `json:"zready,omitempty"`
}

// ConvoyOp is one call of the convoy.
type ConvoyOp struct {
	K string `json:"k"`           // "rel": call the done func of handle H; "acq": request address A (0, 1: may be held; 2: held by nobody)
	H int    `json:"h,omitempty"` // handle index (mod len(Held))
	N int    `json:"n,omitempty"` // rel: the same done func is called from 1+N goroutines
	A int    `json:"a,omitempty"`
	// Z (acq): the request is for the LEVER's address: the address whose last
	// release is inside ClientConn.Close while the request is made. Whatever it
	// is handed must be open until it releases it, so it cannot be the connection
	// that is being closed.
	Z bool `json:"z,omitempty"`
}

const convoyAddrs = 3

type closeGate struct {
	built, entered, open chan struct{}
	bOnce, eOnce         sync.Once
}

type gateBuilder struct {
	g     *closeGate
	ready bool // report one address, so that a transport is made
}

func (b *gateBuilder) Scheme() string { return "c16gate" }
func (b *gateBuilder) Build(_ resolver.Target, cc resolver.ClientConn, _ resolver.BuildOptions) (resolver.Resolver, error) {
	b.g.bOnce.Do(func() { close(b.g.built) })
	if b.ready {
		cc.UpdateState(resolver.State{Addresses: []resolver.Address{{Addr: "z"}}})
	}
	return &gateResolver{g: b.g}, nil
}

// gateResolver never reports an address (no network); its Close parks.
type gateResolver struct{ g *closeGate }

func (r *gateResolver) ResolveNow(resolver.ResolveNowOptions) {}
func (r *gateResolver) Close() {
	r.g.eOnce.Do(func() { close(r.g.entered) })
	<-r.g.open
}

type convoyHandle struct {
	ai       int
	conn     *grpc.ClientConn
	done     func()
	released bool // by the data: some rel op names it
}

type convoyStats struct {
	lever    bool
	zReady   bool // the lever's connection was READY when its last release began
	zAcqs    int
	dupCalls int
	labels   []string
}

func runConvoy(cc *ConvoyCase) (st convoyStats, rerr error) {
	if len(cc.Held) < 1 || len(cc.Held) > 64 || len(cc.Ops) < 1 || len(cc.Ops) > 256 {
		return st, newVerr("harness-error", "convoy case out of range")
	}
	tab, distinct := addrTable(cc.Names, convoyAddrs)
	for _, a := range tab {
		distinct = distinct && foldKey(a) != "z"
	}
	if !distinct {
		return st, newVerr("harness-error", "the address spellings of the case are not pairwise different after case folding (or one of them is the lever's)")
	}
	var mu sync.Mutex
	var all []*grpc.ClientConn
	owner := map[*grpc.ClientConn]int{} // address index of a connection, -1: the lever's
	var dials [convoyAddrs]int
	zDials := 0
	var firstErr atomic.Value
	fail := func(class, format string, a ...any) {
		firstErr.CompareAndSwap(nil, newVerr(class, format, a...))
	}
	guarded := func(what string, f func()) {
		defer func() {
			if p := recover(); p != nil {
				fail("panic", "%s panicked: %s", what, describePanic(p))
			}
		}()
		f()
	}
	gate := &closeGate{built: make(chan struct{}), entered: make(chan struct{}), open: make(chan struct{})}
	var openOnce sync.Once
	openGate := func() { openOnce.Do(func() { close(gate.open) }) }
	defer openGate()
	var lis *pipeListener
	if cc.ZReady {
		lis = &pipeListener{ch: make(chan net.Conn), done: make(chan struct{})}
		srv := grpc.NewServer()
		go srv.Serve(lis)
		defer func() {
			srv.Stop()
			lis.Close()
		}()
	}
	dial := func(ctx context.Context, target string, opts ...grpc.DialOption) (*grpc.ClientConn, error) {
		var c *grpc.ClientConn
		var err error
		if target == "z" {
			o := []grpc.DialOption{grpc.WithResolvers(&gateBuilder{g: gate, ready: cc.ZReady}), grpc.WithTransportCredentials(insecure.NewCredentials())}
			if cc.ZReady {
				o = append(o, grpc.WithContextDialer(func(ctx context.Context, _ string) (net.Conn, error) {
					a, b := net.Pipe()
					select {
					case lis.ch <- b:
						return a, nil
					case <-lis.done:
					case <-ctx.Done():
					}
					a.Close()
					b.Close()
					return nil, errors.New("c16: server of the case gone")
				}))
			}
			c, err = grpc.NewClient("c16gate:///z", o...)
			if err == nil {
				c.Connect() // leaves idle mode: the resolver is built (unless ZReady it never resolves anything)
				for s := c.GetState(); cc.ZReady && s != connectivity.Ready; s = c.GetState() {
					if !c.WaitForStateChange(ctx, s) {
						break
					}
				}
				mu.Lock()
				zDials++
				mu.Unlock()
			}
		} else {
			// the spelling of the address is never parsed by gRPC
			c, err = grpc.NewClient("passthrough:///c16", grpc.WithTransportCredentials(insecure.NewCredentials()))
		}
		if err == nil {
			mu.Lock()
			all = append(all, c)
			owner[c] = -1
			for i := 0; i < convoyAddrs; i++ {
				if target == tab[i] {
					dials[i]++
					owner[c] = i
				}
			}
			mu.Unlock()
		}
		return c, err
	}
	nDials := func(ai int) int { mu.Lock(); defer mu.Unlock(); return dials[ai] }
	m, merr := connection.NewManagerCustom(map[string]connection.Dial{connection.DEFAULT: dial})
	if merr != nil {
		return st, newVerr("harness-error", "NewManagerCustom: %v", merr)
	}
	defer func() {
		openGate()
		mu.Lock()
		for _, c := range all {
			c.Close()
		}
		mu.Unlock()
	}()
	bg := context.Background()

	// --- before the convoy: everything one call at a time -------------------------
	var hs []*convoyHandle
	for i, a := range cc.Held {
		ai := mod(a, 2)
		h := &convoyHandle{ai: ai}
		var err error
		guarded(fmt.Sprintf("Connection(%s) of handle %d", addrName(ai), i), func() {
			h.conn, h.done, err = m.Connection(bg, tab[ai], connection.DEFAULT)
		})
		if e := firstErr.Load(); e != nil {
			return st, e.(error)
		}
		if err != nil || h.conn == nil || h.done == nil {
			return st, newVerr("outcome-not-shared", "handle %d: Connection(%s) returned (connection nil: %v, done nil: %v, error: %v) although every dial succeeds", i, addrName(ai), h.conn == nil, h.done == nil, err)
		}
		for _, o := range hs {
			if o.ai == ai && o.conn != h.conn {
				return st, newVerr("redial-while-live", "handle %d: Connection(%s) returned a connection different from the one held unreleased by an earlier handle", i, addrName(ai))
			}
		}
		hs = append(hs, h)
	}
	for ai := 0; ai < 2; ai++ {
		want := 0
		for _, h := range hs {
			if h.ai == ai {
				want = 1
			}
		}
		if n := nDials(ai); n != want {
			return st, newVerr("second-dial-in-flight", "%d dial(s) for %s after the handles were acquired one after the other (expected %d)", n, addrName(ai), want)
		}
	}
	var before [convoyAddrs]int
	for ai := range before {
		before[ai] = nDials(ai)
	}

	// --- the lever: keep the Manager's lock busy ---------------------------------------
	leverDone := make(chan struct{})
	var zc *grpc.ClientConn
	if !cc.NoLever {
		var zdone func()
		var zerr error
		guarded("Connection(z)", func() { zc, zdone, zerr = m.Connection(bg, "z", connection.DEFAULT) })
		st.zReady = zc != nil && zc.GetState() == connectivity.Ready
		built := false
		select {
		case <-gate.built:
			built = true
		default:
		}
		if zerr != nil || zc == nil || zdone == nil || !built {
			// no lever with this gRPC version / implementation: plain simultaneous start
			if zdone != nil {
				guarded("done of z", zdone)
			}
			close(leverDone)
		} else {
			go func() {
				defer close(leverDone)
				guarded("done of z", zdone)
			}()
			select {
			case <-gate.entered:
				// the last release of z is inside ClientConn.Close, called by the
				// Manager with its lock held
				st.lever = true
			case <-leverDone:
				// closed without waiting for the resolver, or not closed at all (the
				// final oracle decides): no lever
			}
		}
	} else {
		close(leverDone)
	}

	// --- the convoy ---------------------------------------------------------------------
	type acqRes struct {
		ai   int
		conn *grpc.ClientConn
		done func()
		err  error
	}
	var acqs, zacqs []*acqRes
	mu.Lock()
	zBefore := zDials
	mu.Unlock()
	var wg sync.WaitGroup
	var ready atomic.Int64
	start := make(chan struct{})
	total := 0
	launch := func(f func()) {
		total++
		wg.Add(1)
		go func() {
			defer wg.Done()
			ready.Add(1)
			<-start
			f()
		}()
	}
	for i, op := range cc.Ops {
		switch op.K {
		case "rel":
			hi := mod(op.H, len(hs))
			h := hs[hi]
			h.released = true
			n := 1 + mod(op.N, 8)
			if n > 1 {
				st.dupCalls += n
			}
			for g := 0; g < n; g++ {
				launch(func() {
					guarded(fmt.Sprintf("op %d: done func of handle %d (%s), one of %d concurrent call(s) of the same done func", i, hi, addrName(h.ai), n), h.done)
				})
			}
		case "acq":
			if op.Z {
				r := &acqRes{ai: -1}
				zacqs = append(zacqs, r)
				st.zAcqs++
				launch(func() {
					guarded(fmt.Sprintf("op %d: Connection(z)", i), func() {
						r.conn, r.done, r.err = m.Connection(bg, "z", connection.DEFAULT)
					})
				})
				break
			}
			r := &acqRes{ai: mod(op.A, convoyAddrs)}
			acqs = append(acqs, r)
			launch(func() {
				guarded(fmt.Sprintf("op %d: Connection(%s)", i, addrName(r.ai)), func() {
					r.conn, r.done, r.err = m.Connection(bg, tab[r.ai], connection.DEFAULT)
				})
			})
		default:
			return st, newVerr("harness-error", "unknown convoy op %q", op.K)
		}
	}
	for ready.Load() < int64(total) {
		runtime.Gosched()
	}
	close(start)
	if st.lever {
		// let the calls run up to the lock; how far they get only decides whether
		// the window is hit
		for i := 0; i < 50; i++ {
			runtime.Gosched()
		}
		time.Sleep(200 * time.Microsecond)
	}
	openGate()
	wg.Wait()
	<-leverDone
	if e := firstErr.Load(); e != nil {
		return st, e.(error)
	}

	// --- after the join: what the data implies under every schedule -------------------------
	// the lever's own address: its last holder began to release it before the
	// convoy started; the requests of the convoy for it hold what they were handed
	{
		how := "had released it before the request was made"
		if st.lever {
			how = "was releasing it (the release was inside ClientConn.Close) when the request was made"
		}
		var zcur *grpc.ClientConn
		for _, r := range zacqs {
			switch {
			case r.err != nil || r.conn == nil || r.done == nil:
				return st, newVerr("outcome-not-shared", "convoy request for the lever's address returned (connection nil: %v, done nil: %v, error: %v) although every dial succeeds", r.conn == nil, r.done == nil, r.err)
			case r.conn.GetState() == connectivity.Shutdown:
				return st, newVerr("closed-while-held", "after the convoy: the connection handed to a request for the lever's address, which has not released it, is closed (state SHUTDOWN); the last holder of the address's previous connection %s (handed that very connection: %v)", how, r.conn == zc)
			case zcur != nil && zcur != r.conn:
				return st, newVerr("redial-while-live", "after the convoy: two requests for the lever's address hold different connections, both unreleased")
			}
			zcur = r.conn
		}
		if zc != nil && zc.GetState() != connectivity.Shutdown {
			return st, newVerr("not-closed-at-last-release", "the lever's connection was released by its only holder, but it is in state %v", zc.GetState())
		}
		mu.Lock()
		n := zDials - zBefore
		mu.Unlock()
		switch {
		case len(zacqs) == 0 && n != 0:
			return st, newVerr("unexpected-dial", "the dial function was invoked %d time(s) for the lever's address during the convoy although nothing in it requests that address", n)
		case n > 1:
			return st, newVerr("second-dial-in-flight", "the dial function was invoked %d times for the lever's address during the convoy; its requests hold their connections until afterwards, so at most one dial can have been needed", n)
		}
		for k, r := range zacqs {
			if zcur.GetState() == connectivity.Shutdown {
				return st, newVerr("closed-while-held", "the connection to the lever's address is closed (state SHUTDOWN) although %d of its %d holders have not released it", len(zacqs)-k, len(zacqs))
			}
			guarded("done of a request for the lever's address", r.done)
		}
		if e := firstErr.Load(); e != nil {
			return st, e.(error)
		}
		if zcur != nil && zcur.GetState() != connectivity.Shutdown {
			return st, newVerr("not-closed-at-last-release", "every holder of the connection to the lever's address has released it, but it is in state %v", zcur.GetState())
		}
	}
	for ai := 0; ai < convoyAddrs; ai++ {
		addr := addrName(ai)
		var cur *grpc.ClientConn
		var who string
		remaining := 0
		hold := func(c *grpc.ClientConn, name string) *verr {
			if c.GetState() == connectivity.Shutdown {
				return newVerr("closed-while-held", "after the convoy: the connection to %s held by %s, which has not released it, is closed (state SHUTDOWN)", addr, name)
			}
			if cur != nil && cur != c {
				return newVerr("redial-while-live", "after the convoy: %s and %s hold different connections to %s, both unreleased", who, name, addr)
			}
			cur, who = c, name
			return nil
		}
		for i, h := range hs {
			if h.ai == ai && !h.released {
				remaining++
				if v := hold(h.conn, fmt.Sprintf("handle %d (acquired before the convoy, not released in it)", i)); v != nil {
					return st, v
				}
			}
		}
		nacq := 0
		for _, r := range acqs {
			if r.ai != ai {
				continue
			}
			nacq++
			if r.err != nil || r.conn == nil || r.done == nil {
				return st, newVerr("outcome-not-shared", "convoy request for %s returned (connection nil: %v, done nil: %v, error: %v) although every dial succeeds", addr, r.conn == nil, r.done == nil, r.err)
			}
			if v := hold(r.conn, "a request of the convoy"); v != nil {
				return st, v
			}
		}
		n := nDials(ai) - before[ai]
		switch {
		case remaining > 0 && n != 0:
			return st, newVerr("redial-while-live", "the dial function was invoked %d time(s) for %s during the convoy although %d handle(s) acquired before it were not released in it", n, addr, remaining)
		case nacq == 0 && n != 0:
			return st, newVerr("unexpected-dial", "the dial function was invoked %d time(s) for %s during the convoy although nothing in it requests that address", n, addr)
		case n > 1:
			return st, newVerr("second-dial-in-flight", "the dial function was invoked %d times for %s during the convoy; its requests hold their connections until afterwards, so at most one dial can have been needed", n, addr)
		}
		// connections of this address that nobody holds any more are closed
		mu.Lock()
		for _, c := range all {
			if owner[c] == ai && c != cur && c.GetState() != connectivity.Shutdown {
				mu.Unlock()
				return st, newVerr("not-closed-at-last-release", "after the convoy every holder of a connection to %s has released it, but it is in state %v", addr, c.GetState())
			}
		}
		mu.Unlock()
		if cur == nil {
			continue
		}
		// a holder exists: one more request shares its connection, without a dial
		d0 := nDials(ai)
		var c2 *grpc.ClientConn
		var d2 func()
		var e2 error
		guarded("Connection("+addr+") after the convoy", func() { c2, d2, e2 = m.Connection(bg, tab[ai], connection.DEFAULT) })
		if e := firstErr.Load(); e != nil {
			return st, e.(error)
		}
		if e2 != nil || c2 != cur || nDials(ai) != d0 {
			return st, newVerr("redial-while-live", "after the convoy %s still holds its connection to %s, but one more request returned (same connection: %v, error: %v) with %d new dial(s)", who, addr, c2 == cur, e2, nDials(ai)-d0)
		}
		if d2 != nil {
			guarded("done of the request after the convoy", d2)
		}
		// release what is left, one call at a time
		var rest []func()
		for _, h := range hs {
			if h.ai == ai && !h.released {
				rest = append(rest, h.done)
			}
		}
		for _, r := range acqs {
			if r.ai == ai {
				rest = append(rest, r.done)
			}
		}
		for k, d := range rest {
			if cur.GetState() == connectivity.Shutdown {
				return st, newVerr("closed-while-held", "the connection to %s is closed (state SHUTDOWN) although %d of its %d remaining holders have not released it", addr, len(rest)-k, len(rest))
			}
			guarded("done (epilogue)", d)
			if k%2 == 0 {
				guarded("done (epilogue, repeated)", d)
			}
		}
		if e := firstErr.Load(); e != nil {
			return st, e.(error)
		}
		if s := cur.GetState(); s != connectivity.Shutdown {
			return st, newVerr("not-closed-at-last-release", "every holder of the connection to %s has released it, but it is in state %v", addr, s)
		}
	}
	// every done func once more: no effect; then every address dials afresh
	for _, h := range hs {
		guarded("done (called again at the end)", h.done)
	}
	for ai := 0; ai < convoyAddrs; ai++ {
		addr := addrName(ai)
		d0 := nDials(ai)
		var c *grpc.ClientConn
		var d func()
		var err error
		guarded("final Connection("+addr+")", func() { c, d, err = m.Connection(bg, tab[ai], connection.DEFAULT) })
		if e := firstErr.Load(); e != nil {
			return st, e.(error)
		}
		if err != nil || c == nil || d == nil || nDials(ai) != d0+1 || c.GetState() == connectivity.Shutdown {
			return st, newVerr("no-fresh-dial", "with every handle released, one more request for %s returned (connection nil: %v, error: %v) with %d new dial(s); expected a freshly dialled open connection", addr, c == nil, err, nDials(ai)-d0)
		}
		guarded("final done", d)
		if s := c.GetState(); s != connectivity.Shutdown {
			return st, newVerr("not-closed-at-last-release", "final request for %s: released by its only holder but in state %v", addr, s)
		}
	}
	if e := firstErr.Load(); e != nil {
		return st, e.(error)
	}
	mu.Lock()
	defer mu.Unlock()
	for i, c := range all {
		if s := c.GetState(); s != connectivity.Shutdown {
			return st, newVerr("not-closed-at-last-release", "every handle has been released, but connection #%d (address index %d) is in state %v", i, owner[c], s)
		}
	}
	return st, nil
}
