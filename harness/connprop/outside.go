package connprop

// Things that happen to a handed-out connection OUTSIDE the manager, and holders
// that misbehave within what the API permits (steps xclose, xcon, xreset, xdrop,
// tick of the stepwise engine; see scenario.go).
//
// The clauses of C16 stay what they are. The only thing the harness must know in
// addition is WHO closed a connection: every Close() the scenario makes itself
// (a holder, an ex-holder, the dial function) is recorded in harness.xclosed
// before the call; a connection found SHUTDOWN while held that is not in that
// set was closed by the manager.
//
// Connectivity: the connections are grpc.NewClient clients whose transports are
// made by netDial below, inside the bubble: refused at once (TRANSIENT_FAILURE,
// back-off timers in virtual time), hanging (CONNECTING until gRPC's connect
// timeout), or a net.Pipe to a real grpc.Server without services that runs in
// the bubble (READY; dropped by the server side -> IDLE). No network, no wall
// clock: every state is reached at a quiescent point.

import (
	"context"
	"errors"
	"fmt"
	"net"
	"testing/synctest"
	"time"

	"google.golang.org/grpc"
	"google.golang.org/grpc/connectivity"
)

type pipeListener struct {
	ch   chan net.Conn
	done chan struct{}
}

type pipeAddr struct{}

func (pipeAddr) Network() string { return "pipe" }
func (pipeAddr) String() string  { return "c16-in-bubble" }

func (l *pipeListener) Accept() (net.Conn, error) {
	select {
	case c := <-l.ch:
		return c, nil
	case <-l.done:
		return nil, errors.New("listener closed")
	}
}

func (l *pipeListener) Close() error {
	select {
	case <-l.done:
	default:
		close(l.done)
	}
	return nil
}

func (l *pipeListener) Addr() net.Addr { return pipeAddr{} }

// ensureNet starts the in-bubble server (root goroutine only).
func (h *harness) ensureNet() {
	if h.srv != nil {
		return
	}
	lis := &pipeListener{ch: make(chan net.Conn), done: make(chan struct{})}
	h.mu.Lock()
	h.lis = lis
	h.mu.Unlock()
	h.srv = grpc.NewServer()
	go h.srv.Serve(lis)
}

func (h *harness) stopNet() {
	h.mu.Lock()
	var sc []net.Conn
	for _, inv := range h.invs {
		sc = append(sc, inv.srvConns...)
		inv.srvConns = nil
	}
	h.mu.Unlock()
	for _, c := range sc {
		c.Close()
	}
	if h.srv != nil {
		h.srv.Stop()
		h.lis.Close()
		h.srv = nil
	}
}

// netDial makes a transport for the connection returned by inv (called by gRPC
// on a goroutine of the bubble).
func (h *harness) netDial(ctx context.Context, inv *invocation) (net.Conn, error) {
	h.mu.Lock()
	mode, lis := inv.net, h.lis
	h.mu.Unlock()
	switch {
	case mode == netHang:
		<-ctx.Done()
		return nil, ctx.Err()
	case mode == netServe && lis != nil:
		a, b := net.Pipe()
		select {
		case lis.ch <- b:
			h.mu.Lock()
			inv.srvConns = append(inv.srvConns, b)
			h.mu.Unlock()
			return a, nil
		case <-lis.done:
		case <-ctx.Done():
		}
		a.Close()
		b.Close()
		return nil, errors.New("c16: in-bubble server gone")
	}
	return nil, errors.New("c16: connection refused (scripted)")
}

func (h *harness) isXclosed(cc *grpc.ClientConn) bool {
	h.mu.Lock()
	defer h.mu.Unlock()
	return cc != nil && h.xclosed[cc]
}

// liveGens: the connections of address ai that were handed out and are not yet
// released by everybody, oldest first.
func (h *harness) liveGens(ai int) []*attempt {
	var out []*attempt
	for _, t := range h.atts {
		if t.ai == ai && t.state == attOK && !t.forgotten {
			out = append(out, t)
		}
	}
	return out
}

func (h *harness) invOfConn(cc *grpc.ClientConn) *invocation {
	h.mu.Lock()
	defer h.mu.Unlock()
	for _, inv := range h.invs {
		if inv.conn == cc {
			return inv
		}
	}
	return nil
}

// callN runs f from n goroutines started together, to quiescence.
func (h *harness) callN(what string, f func(), n int) *verr {
	if n <= 1 {
		return h.call(what, f)
	}
	start := make(chan struct{})
	done, pm := 0, ""
	for g := 0; g < n; g++ {
		go func() {
			defer func() {
				if p := recover(); p != nil {
					m := describePanic(p)
					h.mu.Lock()
					pm = m
					h.mu.Unlock()
				}
			}()
			<-start
			f()
			h.mu.Lock()
			done++
			h.mu.Unlock()
		}()
	}
	synctest.Wait()
	close(start)
	synctest.Wait()
	h.mu.Lock()
	defer h.mu.Unlock()
	switch {
	case pm != "":
		return newVerr("panic", "%s (one of %d concurrent calls) panicked: %s", what, n, pm)
	case done != n:
		return newVerr("blocked-call", "%s: %d of %d concurrent calls did not return", what, n-done, n)
	}
	return nil
}

// handedOut: requests that were handed a connection (released or not).
func (h *harness) handedOut() []*requester {
	var out []*requester
	for _, r := range h.reqs {
		if r.observed && !r.left && r.err == nil && r.conn != nil && r.att != nil {
			out = append(out, r)
		}
	}
	return out
}

func (h *harness) doOutside(s int, st Step) (string, *verr) {
	if st.K == "tick" {
		d := tickOfStep(st.Dur)
		time.Sleep(d)
		synctest.Wait()
		h.label("outside:virtual-time-advanced")
		return fmt.Sprintf("virtual time advances by %v", d), nil
	}
	all := h.handedOut()
	if len(all) == 0 {
		return st.String() + " (skipped: no connection was handed out yet)", nil
	}
	othersHold := func(r *requester) int {
		n := 0
		for _, m := range r.att.members {
			if m != r && !m.left && (!m.observed || m.holding) {
				n++
			}
		}
		return n
	}
	switch st.K {
	case "xclose":
		var pref []*requester
		for _, r := range all {
			switch mod(st.W, 3) {
			case 0:
				if r.holding {
					pref = append(pref, r)
				}
			case 1:
				if !r.holding && !r.att.forgotten {
					pref = append(pref, r)
				}
			}
		}
		if len(pref) == 0 {
			pref = all
		}
		r := pref[mod(st.I, len(pref))]
		desc := fmt.Sprintf("r%d calls Close() on %s itself", r.id, h.connName(r.conn))
		others := othersHold(r)
		switch {
		case h.isXclosed(r.conn):
			desc += " (closed by the scenario before)"
			h.label("outside:close-of-connection-already-closed-by-the-scenario")
		case r.att.forgotten:
			desc += " (released by everybody and closed by the manager long ago)"
			h.label("outside:close-of-forgotten-connection")
			if c := h.cur[r.ai]; c != nil && c != r.att {
				h.label("outside:close-of-forgotten-connection-with-successor-registered")
			}
		case r.holding && others > 0:
			desc += fmt.Sprintf(" while it holds it and %d other(s) hold it", others)
			h.label("outside:close-by-holder-while-others-hold")
		case r.holding:
			desc += " while it is the only holder"
			h.label("outside:close-by-sole-holder")
		default:
			desc += fmt.Sprintf(" after its own release, while %d other(s) hold it", others)
			h.label("outside:close-after-own-release-while-others-hold")
		}
		h.mu.Lock()
		h.xclosed[r.conn] = true
		h.mu.Unlock()
		cc := r.conn
		if v := h.call(desc, func() { cc.Close() }); v != nil {
			v.msg = fmt.Sprintf("step %d: %s", s, v.msg)
			return desc, v
		}
		return desc, nil
	case "xcon", "xreset":
		var pref []*requester
		for _, r := range all {
			if r.conn.GetState() != connectivity.Shutdown {
				pref = append(pref, r)
			}
		}
		if len(pref) == 0 {
			pref = all
		}
		r := pref[mod(st.I, len(pref))]
		cc := r.conn
		before := cc.GetState()
		var desc string
		if st.K == "xreset" {
			desc = fmt.Sprintf("ResetConnectBackoff() on %s (state %v)", h.connName(cc), before)
			h.label("outside:reset-connect-backoff")
			if v := h.call(desc, cc.ResetConnectBackoff); v != nil {
				return desc, v
			}
		} else {
			m := mod(st.M, 3)
			if inv := h.invOfConn(cc); inv != nil {
				if m == netServe {
					h.ensureNet()
				}
				h.mu.Lock()
				inv.net = m
				h.mu.Unlock()
			}
			desc = fmt.Sprintf("Connect() on %s (state %v), transport dialer: %s", h.connName(cc), before, netModeName(m))
			h.label("outside:connect-" + netModeName(m))
			if v := h.call(desc, cc.Connect); v != nil {
				return desc, v
			}
		}
		desc += fmt.Sprintf(" -> %v", cc.GetState())
		return desc, nil
	case "xdrop":
		h.mu.Lock()
		var cands []*invocation
		for _, inv := range h.invs {
			if len(inv.srvConns) > 0 {
				cands = append(cands, inv)
			}
		}
		if len(cands) == 0 {
			// nothing to drop yet: let a connection reach the server instead
			h.mu.Unlock()
			h.label("outside:xdrop-became-connect-serve")
			return h.doOutside(s, Step{K: "xcon", I: st.I, M: netServe})
		}
		inv := cands[mod(st.I, len(cands))]
		sc := inv.srvConns
		inv.srvConns = nil
		h.mu.Unlock()
		before := inv.conn.GetState()
		for _, c := range sc {
			c.Close()
		}
		synctest.Wait()
		h.label("outside:server-drops-transport")
		return fmt.Sprintf("the server side drops the transport(s) of %s (state %v -> %v)", h.connName(inv.conn), before, inv.conn.GetState()), nil
	}
	return st.String(), newVerr("harness-error", "unknown step kind %q", st.K)
}

// lastGen: the youngest generation of address ai other than not (nil if none).
func (h *harness) lastGen(ai int, not *attempt) *attempt {
	for i := len(h.atts) - 1; i >= 0; i-- {
		if t := h.atts[i]; t.ai == ai && t != not {
			return t
		}
	}
	return nil
}
