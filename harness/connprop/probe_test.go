package connprop

import (
	"fmt"
	"testing"
	"testing/synctest"
	"time"
	_ "verif/harness/internal/vstat"

	"google.golang.org/grpc"
	"google.golang.org/grpc/credentials/insecure"
)

func TestProbe(t *testing.T) {
	func() {
		defer func() { fmt.Println("recovered:", recover()) }()
		synctest.Test(t, func(*testing.T) {
			cc, _ := grpc.NewClient("passthrough:///a0", grpc.WithTransportCredentials(insecure.NewCredentials()))
			_ = cc
		})
	}()
	t0 := time.Now()
	for i := 0; i < 1000; i++ {
		synctest.Test(t, func(*testing.T) {
			for j := 0; j < 5; j++ {
				cc, _ := grpc.NewClient("passthrough:///a0", grpc.WithTransportCredentials(insecure.NewCredentials()))
				synctest.Wait()
				cc.Close()
				synctest.Wait()
			}
		})
	}
	fmt.Println("1000 bubbles x 5 conns:", time.Since(t0))
}
