package connprop

// Part "default": the Manager as NewManager builds it - its one dialer is the real grpc.DialContext - over a
// transport that accepts and then stays silent (net.Pipe; nothing leaves the process), so that a handed-out
// channel is never READY. Every other part scripts the dial function, which the default constructor does not
// let a caller do; here the channel is a real *grpc.ClientConn and what C16 says is read off its connectivity
// state:
//
//   - a connection that was handed out is not SHUTDOWN while a requester that was handed it has not released
//     it - whatever happened to the context of the request that started the dial (cancelled, expired) after
//     the hand-out;
//   - all holders of one address hold the same connection;
//   - the last release closes it (SHUTDOWN), and the next request is handed a fresh one;
//   - a request made with a context that is already done is refused and holds nothing.
//
// Real time (the sleeps only give a wrongly armed callback time to act: they can hide a violation, never make one).

import (
	"context"
	"fmt"
	"net"
	"time"

	"github.com/openconfig/gnmi/connection"
	"google.golang.org/grpc"
	"google.golang.org/grpc/connectivity"
	"google.golang.org/grpc/credentials/insecure"
)

type DStep struct {
	Op string `json:"op"`          // req | cancel | rel
	A  int    `json:"a,omitempty"` // req: address
	C  int    `json:"c,omitempty"` // req, cancel: context (0: background; 1-3 cancellable; 4: expires 2 ms after its first use)
	H  int    `json:"h,omitempty"` // rel: the H-th holder still holding
}

type DefaultCase struct {
	Steps []DStep `json:"steps"`
}

func runDefault(sc *DefaultCase) (nontrivial bool, err error) {
	var pipes []net.Conn
	defer func() {
		for _, p := range pipes {
			p.Close()
		}
	}()
	m, merr := connection.NewManager(grpc.WithTransportCredentials(insecure.NewCredentials()),
		grpc.WithContextDialer(func(ctx context.Context, _ string) (net.Conn, error) {
			a, b := net.Pipe()
			pipes = append(pipes, a, b)
			return a, nil
		}))
	if merr != nil {
		return false, fmt.Errorf("NewManager: %v", merr)
	}
	type holder struct {
		addr string
		conn *grpc.ClientConn
		done func()
	}
	var holders []*holder
	ctxs := map[int]context.Context{0: context.Background()}
	cancels := map[int]context.CancelFunc{}
	defer func() {
		for _, c := range cancels {
			c()
		}
	}()
	ctxOf := func(c int) context.Context {
		if x, ok := ctxs[c]; ok {
			return x
		}
		if c == 4 {
			ctxs[c], cancels[c] = context.WithTimeout(context.Background(), 2*time.Millisecond)
		} else {
			ctxs[c], cancels[c] = context.WithCancel(context.Background())
		}
		return ctxs[c]
	}
	closed := map[*grpc.ClientConn]bool{}
	check := func(i int, st DStep) error {
		byAddr := map[string]*grpc.ClientConn{}
		for _, h := range holders {
			if c, ok := byAddr[h.addr]; ok && c != h.conn {
				return fmt.Errorf("step %d %+v: two requesters hold different connections for %s at the same time", i, st, h.addr)
			}
			byAddr[h.addr] = h.conn
			if h.conn.GetState() == connectivity.Shutdown {
				return fmt.Errorf("step %d %+v: the connection for %s is SHUTDOWN while a requester that was handed it has not released it", i, st, h.addr)
			}
		}
		return nil
	}
	for i, st := range sc.Steps {
		switch st.Op {
		case "req":
			ctx := ctxOf(st.C)
			wasDone := ctx.Err() != nil
			addr := fmt.Sprintf("addr%d:9339", st.A)
			conn, done, e := m.Connection(ctx, addr, connection.DEFAULT)
			if wasDone {
				if e == nil {
					return nontrivial, fmt.Errorf("step %d %+v: a request whose context was already done was handed a connection", i, st)
				}
				done() // changes nothing
				break
			}
			if e != nil {
				if ctx.Err() != nil {
					break // expired meanwhile
				}
				return nontrivial, fmt.Errorf("step %d %+v: Connection failed: %v", i, st, e)
			}
			if conn == nil || closed[conn] {
				return nontrivial, fmt.Errorf("step %d %+v: handed a connection that was closed by an earlier last release (or nil)", i, st)
			}
			holders = append(holders, &holder{addr, conn, done})
		case "cancel":
			if c, ok := cancels[st.C]; ok {
				c()
				if len(holders) > 0 {
					nontrivial = true
				}
				time.Sleep(4 * time.Millisecond)
			}
		case "rel":
			if len(holders) == 0 {
				break
			}
			k := st.H % len(holders)
			h := holders[k]
			holders = append(holders[:k], holders[k+1:]...)
			h.done()
			last := true
			for _, o := range holders {
				if o.addr == h.addr {
					last = false
				}
			}
			if last {
				if s := h.conn.GetState(); s != connectivity.Shutdown {
					return nontrivial, fmt.Errorf("step %d %+v: after the last release the connection for %s is %v, not SHUTDOWN", i, st, h.addr, s)
				}
				closed[h.conn] = true
			}
		}
		if e := check(i, st); e != nil {
			return nontrivial, e
		}
	}
	time.Sleep(3 * time.Millisecond)
	if e := check(len(sc.Steps), DStep{Op: "end"}); e != nil {
		return nontrivial, e
	}
	for _, h := range holders {
		h.done()
	}
	for _, h := range holders {
		if s := h.conn.GetState(); s != connectivity.Shutdown {
			return nontrivial, fmt.Errorf("end: every holder released, the connection for %s is %v, not SHUTDOWN", h.addr, s)
		}
	}
	return nontrivial, nil
}
