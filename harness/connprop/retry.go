package connprop

import (
	"context"
	"flag"
	"fmt"
	"runtime"
	"strconv"
	"sync"
	"sync/atomic"
	"time"

	"github.com/openconfig/gnmi/connection"
	"google.golang.org/grpc"
	"google.golang.org/grpc/connectivity"
	"google.golang.org/grpc/credentials/insecure"
)

// The two parts of this file are about "retry the moment you are told": a
// requester that learns that its request failed asks again at once, which is
// what retry loops around Connection() do. The clause decided is
//
//	a failed dial is forgotten, so that the next request dials afresh; only
//	CONCURRENT requesters share an outcome
//
// in the form that is sound under every schedule: a request that BEGAN after a
// request for the same address had RETURNED the failure of dial #q (program
// order on one goroutine, or the atomic stamp "reported" below, which is
// written after the return and read before the call) is never answered with
// the failure of a dial #p, p <= q. Dial numbers are taken from an atomic
// counter at the entry of the dial function, per address.
//
// Why it cannot fail on a correct Manager: the failure of dial #q reaches a
// requester only after the attempt has been forgotten; a request that begins
// after that finds no attempt, or a younger one, whose dial function is entered
// later and therefore has a larger number.

// setVerbosity sets glog's -v for the running process (the Manager logs more at
// higher verbosity, among other things error values, whose Error() method is
// then a call-back into the harness). false: no such flag.
func setVerbosity(v int) bool {
	if flag.Lookup("v") == nil {
		return false
	}
	return flag.Set("v", strconv.Itoa(v)) == nil
}

// atomicMax raises a to v.
func atomicMax(a *atomic.Int64, v int64) {
	for {
		o := a.Load()
		if v <= o || a.CompareAndSwap(o, v) {
			return
		}
	}
}

// ---------------------------------------------------------------------------------
// part "retry": real scheduler, tight loops
// ---------------------------------------------------------------------------------

// RetryCase: every loop is a goroutine that calls Connection for its address
// Rounds times in a row, the next call immediately after the previous one
// returned. Dials return at once: an error, or (every OKEvery-th dial of an
// address) a connection, which the requester checks, holds for a moment and
// releases. Churn goroutines acquire and release a different address all the
// time, so that the Manager's lock is contended.
type RetryCase struct {
	Names   []string `json:"names,omitempty"` // spelling templates of the addresses (names.go)
	Loops   []int    `json:"loops"`           // address index (0, 1) of each requester loop
	Rounds  int      `json:"rounds"`
	OKEvery int      `json:"okevery,omitempty"`
	Churn   int      `json:"churn,omitempty"`
	V       int      `json:"v,omitempty"`     // glog verbosity
	Yield   bool     `json:"yield,omitempty"` // the Error() method of the dial errors yields the processor
}

const retryAddrs = 2

type retryErr struct {
	ai    int
	seq   int64
	yield bool
}

func (e *retryErr) Error() string {
	if e.yield {
		runtime.Gosched()
	}
	return "scripted failure of dial #" + strconv.FormatInt(e.seq, 10)
}

type retryStats struct {
	requests, failures, conns int64
	labels                    []string
}

func runRetry(rc *RetryCase) (st retryStats, rerr error) {
	if len(rc.Loops) < 1 || len(rc.Loops) > 16 || rc.Rounds < 1 || rc.Rounds > 1000000 || rc.Churn < 0 || rc.Churn > 8 {
		return st, newVerr("harness-error", "retry case out of range")
	}
	tab, distinct := addrTable(rc.Names, retryAddrs+1) // the last one is the churn address
	if !distinct {
		return st, newVerr("harness-error", "the address spellings of the case are not pairwise different after case folding")
	}
	if setVerbosity(rc.V) {
		defer setVerbosity(0)
	}
	idx := map[string]int{}
	for i, a := range tab {
		idx[a] = i
	}
	var started, reported [retryAddrs + 1]atomic.Int64
	var mu sync.Mutex
	var all []*grpc.ClientConn
	owner := map[*grpc.ClientConn]int{}
	var firstErr atomic.Value
	fail := func(class, format string, a ...any) {
		firstErr.CompareAndSwap(nil, newVerr(class, format, a...))
	}
	dial := func(ctx context.Context, target string, opts ...grpc.DialOption) (*grpc.ClientConn, error) {
		ai, ok := idx[target]
		if !ok {
			fail("unexpected-dial", "the dial function was invoked for %s, which nobody asked for", short(target))
			return nil, fmt.Errorf("unknown target")
		}
		seq := started[ai].Add(1)
		if ai < retryAddrs && (rc.OKEvery <= 0 || seq%int64(rc.OKEvery) != 0) {
			return nil, &retryErr{ai: ai, seq: seq, yield: rc.Yield}
		}
		cc, err := grpc.NewClient("passthrough:///c16", opts...)
		if err == nil {
			mu.Lock()
			all = append(all, cc)
			owner[cc] = ai
			mu.Unlock()
		}
		return cc, err
	}
	m, merr := connection.NewManagerCustom(map[string]connection.Dial{connection.DEFAULT: dial}, grpc.WithTransportCredentials(insecure.NewCredentials()))
	if merr != nil {
		return st, newVerr("harness-error", "NewManagerCustom: %v", merr)
	}
	defer func() {
		mu.Lock()
		for _, cc := range all {
			cc.Close()
		}
		mu.Unlock()
	}()
	bg := context.Background()
	var wg, cwg sync.WaitGroup
	var stop atomic.Bool
	var nReq, nFail, nConn atomic.Int64
	start := make(chan struct{})
	guard := func(what string) {
		if p := recover(); p != nil {
			fail("panic", "%s panicked: %s", what, describePanic(p))
		}
	}
	for li, a := range rc.Loops {
		ai := mod(a, retryAddrs)
		addr := tab[ai]
		wg.Add(1)
		go func() {
			defer wg.Done()
			defer guard(fmt.Sprintf("loop %d (%s)", li, short(addr)))
			<-start
			var lastOwn int64 // number of the dial whose failure this goroutine was told last
			for i := 0; i < rc.Rounds && firstErr.Load() == nil; i++ {
				r0 := reported[ai].Load()
				d0 := started[ai].Load()
				conn, done, err := m.Connection(bg, addr, connection.DEFAULT)
				nReq.Add(1)
				switch {
				case done == nil:
					fail("nil-done", "loop %d request %d for %s: nil done func", li, i, short(addr))
					return
				case conn == nil && err == nil:
					fail("nil-conn-nil-error", "loop %d request %d for %s got (nil connection, nil error)", li, i, short(addr))
					return
				case conn != nil && err != nil:
					fail("outcome-not-shared", "loop %d request %d for %s got both a connection and an error", li, i, short(addr))
					return
				}
				if err != nil {
					e, ok := err.(*retryErr)
					switch {
					case !ok:
						fail("outcome-not-shared", "loop %d request %d for %s got an error that no dial returned (type %T)", li, i, short(addr), err)
						return
					case e.ai != ai:
						fail("outcome-not-shared", "loop %d request %d for %s got the failure of dial #%d of another address (%s)", li, i, short(addr), e.seq, short(tab[e.ai]))
						return
					case e.seq <= r0:
						whose := "another requester"
						if e.seq <= lastOwn {
							whose = "this very goroutine, by its previous call,"
						}
						fail("no-fresh-dial", "loop %d, request %d for %s: the request was made after %s had been told that dial #%d failed (%d dials started by then) and it was answered with the failure of dial #%d, which is not a younger one; %d dial(s) were started for the address during the call: a failure that was already reported is handed to a request made afterwards, which must dial afresh", li, i, short(addr), whose, r0, d0, e.seq, started[ai].Load()-d0)
						return
					}
					lastOwn = e.seq
					atomicMax(&reported[ai], e.seq)
					nFail.Add(1)
					if i%8 == 0 {
						done() // releasing after a failed request has no effect
					}
					continue
				}
				nConn.Add(1)
				mu.Lock()
				o, known := owner[conn]
				mu.Unlock()
				switch {
				case !known || o != ai:
					fail("outcome-not-shared", "loop %d request %d for %s got a connection that no dial for this address returned", li, i, short(addr))
					done()
					return
				case conn.GetState() == connectivity.Shutdown:
					fail("closed-while-held", "loop %d request %d for %s was handed a connection in state SHUTDOWN (it has not released it)", li, i, short(addr))
					done()
					return
				}
				done()
				if i%4 == 0 {
					done()
				}
			}
		}()
	}
	for c := 0; c < rc.Churn; c++ {
		cwg.Add(1)
		go func() {
			defer cwg.Done()
			defer guard("churn")
			<-start
			for !stop.Load() && firstErr.Load() == nil {
				conn, done, err := m.Connection(bg, tab[retryAddrs], connection.DEFAULT)
				if err != nil || conn == nil || done == nil {
					fail("outcome-not-shared", "churn request for %s returned (connection nil: %v, error: %v) although its dials succeed", short(tab[retryAddrs]), conn == nil, err)
					return
				}
				if conn.GetState() == connectivity.Shutdown {
					fail("closed-while-held", "churn request for %s was handed a connection in state SHUTDOWN", short(tab[retryAddrs]))
				}
				done()
			}
		}()
	}
	close(start)
	wg.Wait()
	stop.Store(true)
	cwg.Wait()
	st.requests, st.failures, st.conns = nReq.Load(), nFail.Load(), nConn.Load()
	if e := firstErr.Load(); e != nil {
		return st, e.(error)
	}
	// everything was released: every connection is closed, every address forgotten
	mu.Lock()
	for i, cc := range all {
		if s := cc.GetState(); s != connectivity.Shutdown {
			mu.Unlock()
			return st, newVerr("not-closed-at-last-release", "every holder has released, but connection #%d (address index %d) is in state %v", i, owner[cc], s)
		}
	}
	mu.Unlock()
	for ai := 0; ai < retryAddrs; ai++ {
		d0 := started[ai].Load()
		_, done, _ := m.Connection(bg, tab[ai], connection.DEFAULT)
		if n := started[ai].Load() - d0; n != 1 {
			return st, newVerr("no-fresh-dial", "after every loop ended, one more request for %s started %d dial(s), expected 1", short(tab[ai]), n)
		}
		if done != nil {
			done()
		}
	}
	return st, nil
}

// ---------------------------------------------------------------------------------
// part "parked": error values whose Error() method parks
// ---------------------------------------------------------------------------------

// ParkCase: the dial errors are values whose Error() method is a call-back into
// the harness that parks until it is let go. Wherever the Manager formats the
// error of a failed dial (it logs it; more at higher verbosity) the goroutine
// that does so stands still, and requests are made meanwhile. Requests come in
// waves; wave w is launched when every request of the earlier waves has
// returned ("retry the moment you are told"), and Join more requests are
// launched while a formatting call is parked. Plain goroutines on the real
// scheduler (a request may have to wait for the Manager's mutex, which synctest
// does not regard as durably blocked): launch, yield, let go, join. The yields
// only decide how far the other goroutines get, never a verdict.
type ParkCase struct {
	Name  string     `json:"name,omitempty"` // spelling template of the address
	V     int        `json:"v,omitempty"`    // glog verbosity
	Waves []ParkWave `json:"waves"`
	Pause bool       `json:"pause,omitempty"` // yield between two waves
}

// ParkWave is one wave of requests.
type ParkWave struct {
	N    int  `json:"n"`              // requests launched together (1..4)
	Join int  `json:"join,omitempty"` // requests launched while a formatting call is parked
	Fail bool `json:"fail,omitempty"` // a dial started during this wave fails (parking error), else it succeeds
	Hold bool `json:"hold,omitempty"` // connections obtained in this wave are held until the end, else released when the wave is over
}

type parkEvent struct{ release chan struct{} }

type parker struct {
	events chan parkEvent
	free   chan struct{} // closed: Error() no longer parks
	calls  atomic.Int64
}

type parkErr struct {
	p   *parker
	seq int64
}

func (e *parkErr) Error() string {
	e.p.calls.Add(1)
	ev := parkEvent{release: make(chan struct{})}
	select {
	case <-e.p.free:
		return "scripted failure of dial #" + strconv.FormatInt(e.seq, 10)
	default:
	}
	select {
	case e.p.events <- ev:
		select {
		case <-ev.release:
		case <-e.p.free:
		}
	case <-e.p.free:
	}
	return "scripted failure of dial #" + strconv.FormatInt(e.seq, 10)
}

type parkReq struct {
	wave     int
	r0       int64 // stamp read before the call
	conn     *grpc.ClientConn
	done     func()
	err      error
	released bool
}

type parkStats struct{ labels map[string]bool }

func yieldABit() {
	for i := 0; i < 40; i++ {
		runtime.Gosched()
	}
	time.Sleep(100 * time.Microsecond)
}

func runPark(pc *ParkCase) (st parkStats, rerr error) {
	st.labels = map[string]bool{}
	if len(pc.Waves) < 1 || len(pc.Waves) > 16 {
		return st, newVerr("harness-error", "park case out of range")
	}
	addr := addrOf([]string{pc.Name}, 0)
	if pc.Name == "" {
		addr = addrName(0)
	}
	if setVerbosity(pc.V) {
		defer setVerbosity(0)
		st.labels[fmt.Sprintf("verbosity-%d", pc.V)] = true
	} else {
		st.labels["verbosity-flag-unavailable"] = true
	}
	pk := &parker{events: make(chan parkEvent), free: make(chan struct{})}
	var freeOnce sync.Once
	setFree := func() { freeOnce.Do(func() { close(pk.free) }) }
	defer setFree()
	var started, reported atomic.Int64
	var curWave atomic.Int64
	var mu sync.Mutex
	var all []*grpc.ClientConn
	var firstErr atomic.Value
	fail := func(class, format string, a ...any) {
		firstErr.CompareAndSwap(nil, newVerr(class, format, a...))
	}
	dial := func(ctx context.Context, target string, opts ...grpc.DialOption) (*grpc.ClientConn, error) {
		seq := started.Add(1)
		if target != addr {
			fail("unexpected-dial", "the dial function was invoked for %s, which nobody asked for", short(target))
		}
		if pc.Waves[curWave.Load()].Fail {
			return nil, &parkErr{p: pk, seq: seq}
		}
		cc, err := grpc.NewClient("passthrough:///c16", opts...)
		if err == nil {
			mu.Lock()
			all = append(all, cc)
			mu.Unlock()
		}
		return cc, err
	}
	m, merr := connection.NewManagerCustom(map[string]connection.Dial{connection.DEFAULT: dial}, grpc.WithTransportCredentials(insecure.NewCredentials()))
	if merr != nil {
		return st, newVerr("harness-error", "NewManagerCustom: %v", merr)
	}
	defer func() {
		setFree()
		mu.Lock()
		for _, cc := range all {
			cc.Close()
		}
		mu.Unlock()
	}()
	bg := context.Background()
	var reqs []*parkReq
	retCh := make(chan *parkReq, 64)
	outstanding := 0
	launch := func(w int) {
		r := &parkReq{wave: w}
		reqs = append(reqs, r)
		outstanding++
		go func() {
			defer func() {
				if p := recover(); p != nil {
					fail("panic", "Connection(%s) of a request of wave %d panicked: %s", short(addr), w, describePanic(p))
				}
				retCh <- r
			}()
			r.r0 = reported.Load()
			r.conn, r.done, r.err = m.Connection(bg, addr, connection.DEFAULT)
			if e, ok := r.err.(*parkErr); ok {
				atomicMax(&reported, e.seq)
			}
		}()
	}
	held := func() *grpc.ClientConn {
		for _, r := range reqs {
			if r.conn != nil && r.err == nil && !r.released {
				return r.conn
			}
		}
		return nil
	}
	release := func(r *parkReq, what string) {
		defer func() {
			if p := recover(); p != nil {
				fail("panic", "%s panicked: %s", what, describePanic(p))
			}
		}()
		r.done()
	}
	prevFailed := false
	for w, wave := range pc.Waves {
		curWave.Store(int64(w))
		live := held()
		d0 := started.Load()
		first := len(reqs)
		n := 1 + mod(wave.N-1, 4)
		for i := 0; i < n; i++ {
			launch(w)
		}
		if prevFailed {
			st.labels["wave-launched-the-moment-the-previous-failure-was-reported"] = true
		}
		returned, joined := 0, false
		for outstanding > 0 {
			select {
			case <-retCh:
				outstanding--
				returned++
			case ev := <-pk.events:
				if returned == 0 {
					st.labels["error-formatting-parked-while-no-request-of-the-wave-has-returned"] = true
				} else {
					st.labels["error-formatting-parked-while-some-requests-of-the-wave-have-returned"] = true
				}
				if !joined {
					joined = true
					for i := 0; i < mod(wave.Join, 3); i++ {
						launch(w)
						st.labels["request-launched-while-error-formatting-is-parked"] = true
					}
				}
				yieldABit()
				close(ev.release)
			}
		}
		if e := firstErr.Load(); e != nil {
			return st, e.(error)
		}
		// every request of the wave (and of the earlier ones) has returned
		dn := started.Load() - d0
		var got *grpc.ClientConn
		anyErr := false
		for i, r := range reqs[first:] {
			who := fmt.Sprintf("request %d of wave %d for %s", i, w, short(addr))
			switch {
			case r.done == nil:
				return st, newVerr("nil-done", "%s: nil done func", who)
			case r.conn == nil && r.err == nil:
				return st, newVerr("nil-conn-nil-error", "%s got (nil connection, nil error)", who)
			case r.conn != nil && r.err != nil:
				return st, newVerr("outcome-not-shared", "%s got both a connection and an error", who)
			}
			if r.err != nil {
				anyErr = true
				e, ok := r.err.(*parkErr)
				switch {
				case !ok:
					return st, newVerr("outcome-not-shared", "%s got an error that no dial returned (type %T)", who, r.err)
				case e.seq <= r.r0:
					return st, newVerr("no-fresh-dial", "%s was made after a request had returned the failure of dial #%d (every request of the earlier waves had returned) and was answered with the failure of dial #%d; dials started during the wave: %d (verbosity %d): a failure that was already reported is handed to a request made afterwards, which must dial afresh", who, r.r0, e.seq, dn, pc.V)
				case live != nil:
					return st, newVerr("redial-while-live", "%s failed although a connection to the address was held unreleased during the whole wave", who)
				}
				release(r, "done func returned with an error")
				continue
			}
			if r.conn.GetState() == connectivity.Shutdown {
				return st, newVerr("closed-while-held", "%s was handed a connection in state SHUTDOWN (nobody has released anything in this wave)", who)
			}
			if got != nil && got != r.conn {
				return st, newVerr("redial-while-live", "two requests of wave %d hold different connections to %s, both unreleased", w, short(addr))
			}
			got = r.conn
		}
		switch {
		case live != nil && (dn != 0 || got != live || anyErr):
			return st, newVerr("redial-while-live", "wave %d: a connection to %s was held unreleased during the whole wave, but its requests started %d dial(s) (same connection: %v, errors: %v)", w, short(addr), dn, got == live, anyErr)
		case live == nil && dn == 0:
			return st, newVerr("no-fresh-dial", "wave %d: nothing was held or pending for %s when the wave was launched, but its %d request(s) started no dial", w, short(addr), len(reqs)-first)
		case live == nil && !wave.Fail && (dn != 1 || anyErr):
			return st, newVerr("outcome-not-shared", "wave %d: the dial started in this wave succeeds and its connection is held until the wave is over, but the requests started %d dial(s) (errors: %v)", w, dn, anyErr)
		case live == nil && wave.Fail && got != nil:
			return st, newVerr("outcome-not-shared", "wave %d: every dial of this wave fails but a request got a connection", w)
		}
		prevFailed = anyErr
		if got != nil && !wave.Hold {
			// the handles of this wave are released, one call at a time
			for _, r := range reqs[first:] {
				if r.conn != nil && r.err == nil && !r.released {
					if r.conn.GetState() == connectivity.Shutdown {
						return st, newVerr("closed-while-held", "after wave %d: the connection is closed (state SHUTDOWN) although a holder has not released it", w)
					}
					release(r, "done func")
					r.released = true
				}
			}
			switch s := got.GetState(); {
			case held() == nil && s != connectivity.Shutdown:
				return st, newVerr("not-closed-at-last-release", "after wave %d every holder released the connection but it is in state %v", w, s)
			case held() != nil && s == connectivity.Shutdown:
				return st, newVerr("closed-while-held", "after wave %d: the connection is closed (state SHUTDOWN) although a request of an earlier wave holds it unreleased", w)
			}
			if held() == nil {
				st.labels["connection-closed-between-waves"] = true
			}
		}
		if e := firstErr.Load(); e != nil {
			return st, e.(error)
		}
		if pc.Pause {
			yieldABit()
		}
	}
	// epilogue: no parking any more; release everything; the address is forgotten
	setFree()
	for _, r := range reqs {
		if r.conn != nil && r.err == nil && !r.released {
			if r.conn.GetState() == connectivity.Shutdown {
				return st, newVerr("closed-while-held", "epilogue: the connection is closed (state SHUTDOWN) although a holder has not released it")
			}
			release(r, "done func")
			r.released = true
		}
	}
	for _, r := range reqs {
		release(r, "done func (called again)")
	}
	if e := firstErr.Load(); e != nil {
		return st, e.(error)
	}
	mu.Lock()
	for i, cc := range all {
		if s := cc.GetState(); s != connectivity.Shutdown {
			mu.Unlock()
			return st, newVerr("not-closed-at-last-release", "every holder has released, but connection #%d is in state %v", i, s)
		}
	}
	mu.Unlock()
	d0 := started.Load()
	_, done, _ := m.Connection(bg, addr, connection.DEFAULT)
	if n := started.Load() - d0; n != 1 {
		return st, newVerr("no-fresh-dial", "after everything was released, one more request for %s started %d dial(s), expected 1", short(addr), n)
	}
	if done != nil {
		done()
	}
	if pk.calls.Load() > 0 {
		st.labels["error-formatted-by-the-manager"] = true
	}
	return st, nil
}
