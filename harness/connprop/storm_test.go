package connprop

import (
	"testing"

	"pgregory.net/rapid"
	"verif/harness/internal/vstat"
)

// --- generators of the storm part ----------------------------------------------

// size classes: rapid's integer ranges are biased towards small values, so the
// classes beyond the usual internal thresholds (32, 64, 128) are drawn explicitly.
var stormSizes = []string{"small", "small", "small", "small", "small", "small", "medium", "medium", "medium", "large", "large", "large", "huge"}

func genStorm(t *rapid.T) *StormCase {
	var n int
	// pile-up: many addresses requested within a few ticks with dials that take
	// long, so that the number of dials pending at the same moment is about the
	// number of requesters
	pile := rapid.SampledFrom(oneIn5).Draw(t, "pileup")
	size := rapid.SampledFrom(stormSizes).Draw(t, "size")
	if pile && (size == "small" || size == "medium") {
		size = "large"
	}
	// crowd: very many requesters of one or two addresses whose holds overlap,
	// so that one connection has hundreds of holders at the same moment
	crowd := !pile && rapid.SampledFrom(oneIn10).Draw(t, "crowd")
	if crowd {
		size = rapid.SampledFrom([]string{"large", "huge", "huge"}).Draw(t, "crowdsize")
	}
	switch size {
	case "small":
		n = rapid.IntRange(1, 12).Draw(t, "n")
	case "medium":
		n = rapid.IntRange(13, 40).Draw(t, "n")
	case "large":
		n = rapid.IntRange(41, 140).Draw(t, "n")
	default:
		n = rapid.IntRange(141, 300).Draw(t, "n")
	}
	sc := &StormCase{}
	// addresses: a few (much sharing), about as many as requesters (many dials
	// pending at the same time), or anything in between
	addrMode := rapid.SampledFrom([]string{"few", "many", "many", "any"}).Draw(t, "addrmode")
	if pile {
		addrMode = "many"
	}
	if crowd {
		addrMode = "few"
	}
	switch addrMode {
	case "few":
		sc.Addrs = rapid.IntRange(1, 3).Draw(t, "addrs")
	case "many":
		sc.Addrs = rapid.IntRange((n+1)/2, n+n/4+1).Draw(t, "addrs")
	default:
		sc.Addrs = rapid.IntRange(1, n+1).Draw(t, "addrs")
	}
	// start ticks: a burst (everything is requested within a few ticks) or spread out
	maxStart := rapid.SampledFrom([]int{0, 2, 2, 5, 30, 80}).Draw(t, "maxstart")
	maxDur := rapid.SampledFrom([]int{0, 3, 20, 20, 40}).Draw(t, "maxdur")
	minDur := 0
	if pile {
		maxStart = rapid.SampledFrom([]int{0, 2, 5}).Draw(t, "pilestart")
		minDur, maxDur = maxStart+1, maxStart+1+rapid.SampledFrom([]int{5, 20, 40}).Draw(t, "piledur")
	}
	minHold := 0
	if crowd {
		maxStart = rapid.SampledFrom([]int{0, 2, 5}).Draw(t, "crowdstart")
		maxDur = rapid.SampledFrom([]int{0, 3, 10}).Draw(t, "crowddur")
		minHold = maxStart + maxDur + 1
	}
	// connectivity of what the dial function returns: lazily connecting clients
	// (IDLE, half of the cases), READY connections (a blocking dial), or per dial
	// one of IDLE / READY / TRANSIENT_FAILURE / CONNECTING
	netKind := rapid.SampledFrom([]string{"idle", "idle", "ready", "mixed"}).Draw(t, "net")
	sc.Dials = rapid.SliceOfN(rapid.Custom(func(t *rapid.T) StormDial {
		d := StormDial{Dur: rapid.IntRange(minDur, maxDur).Draw(t, "dur"), OK: rapid.SampledFrom(twoIn3).Draw(t, "ok")}
		switch netKind {
		case "ready":
			d.Net = 1
		case "mixed":
			d.Net = rapid.SampledFrom([]int{0, 1, 1, 2, 3}).Draw(t, "netmode")
		}
		return d
	}), 1, 6).Draw(t, "dials")
	distinct := rapid.Bool().Draw(t, "distinct") || pile // requester i asks for address i (mod Addrs)
	gc := rapid.Custom(func(t *rapid.T) StormCaller {
		c := StormCaller{
			A:     rapid.IntRange(0, sc.Addrs-1).Draw(t, "a"),
			Start: rapid.IntRange(0, maxStart).Draw(t, "start"),
			Ctx:   rapid.SampledFrom([]int{0, 0, 0, 1, 1, 2, 2, 2}).Draw(t, "ctx"),
			Hold:  rapid.IntRange(minHold, minHold+30).Draw(t, "hold"),
			Rel:   rapid.SampledFrom([]int{0, 0, 0, 0, 0, 1, 1, 2, 3}).Draw(t, "rel"),
			Again: rapid.SampledFrom([]int{0, 0, 0, 0, 1, 2}).Draw(t, "again"),
			Nest:  rapid.SampledFrom(oneIn8).Draw(t, "nest"),
		}
		if c.Ctx == 2 {
			c.Cancel = rapid.IntRange(0, maxStart+maxDur+35).Draw(t, "cancel")
		}
		return c
	})
	sc.Callers = rapid.SliceOfN(gc, n, n).Draw(t, "callers")
	// one case in three: some requesters close (or connect) the connection they
	// were handed themselves
	if rapid.SampledFrom(oneIn3).Draw(t, "outside") {
		xs := rapid.SliceOfN(rapid.SampledFrom([]int{0, 0, 0, 0, 0, 1, 1, 2, 3, 4}), n, n).Draw(t, "x")
		for i := range sc.Callers {
			sc.Callers[i].X = xs[i]
		}
	}
	if distinct {
		for i := range sc.Callers {
			sc.Callers[i].A = i % sc.Addrs
		}
	}
	sc.Probe = rapid.SliceOfN(rapid.IntRange(0, sc.Addrs-1), 0, 3).Draw(t, "probe")
	sc.Names = genNames(t, sc.Addrs)
	return sc
}

// TestC16Storm: free-running requesters in virtual time, sizes far beyond the
// stepwise part's, cancellation at every phase. See StormCase.
func TestC16Storm(t *testing.T) {
	if !vstat.Enabled("C16") {
		t.Skip()
	}
	rec := vstat.New("C16", "storm")
	rec.Note("free-running in a synctest bubble: the scenario fixes every virtual instant; goroutines that wake at the same instant are ordered by the real scheduler, so a replay runs the case several times")
	rec.RunRapid(t, func(rt *rapid.T) {
		sc := genStorm(rt)
		rec.Current(sc)
		st, err := runStorm(t, sc)
		rec.Case(sc, st.nontrivial, st.labels...)
		if err != nil {
			rt.Logf("%s", rec.Fail(sc, classOf(err), "%v", err))
			rt.Fatalf("property C16 violated: %s", classOf(err))
		}
	})
}

// --- the wide variant of the stepwise part -------------------------------------------

// genWideScenario draws scenarios for the stepwise engine (exact generation
// model, see run.go) whose sizes lie beyond the usual internal thresholds: tens
// to hundreds of addresses and requester threads, a prologue that leaves many
// dials pending and many requests blocked at the same time, then the usual
// random steps with indices that reach every candidate.
func genWideScenario(t *rapid.T) *Scenario {
	sc := &Scenario{}
	switch rapid.SampledFrom([]string{"medium", "large", "large", "huge"}).Draw(t, "size") {
	case "medium":
		sc.Addrs = rapid.IntRange(4, 30).Draw(t, "addrs")
	case "large":
		sc.Addrs = rapid.IntRange(31, 100).Draw(t, "addrs")
	default:
		sc.Addrs = rapid.IntRange(101, 260).Draw(t, "addrs")
	}
	extra := rapid.IntRange(1, 40).Draw(t, "extrathreads")
	sc.Threads = sc.Addrs + extra
	// prologue: requests for the first P addresses, most of them starting a dial
	// that stays pending, some with contexts of their own
	p := rapid.IntRange(sc.Addrs/2, sc.Addrs).Draw(t, "prologue")
	pro := rapid.Custom(func(t *rapid.T) Step {
		st := Step{K: "acq"}
		switch rapid.SampledFrom(ctxKinds).Draw(t, "ctx") {
		case "own":
			st.C = true
		case "pre":
			st.P = true
		}
		st.F = rapid.SampledFrom([]int{0, 0, 0, 0, 0, 0, 1, 2}).Draw(t, "f")
		return st
	})
	sc.Steps = rapid.SliceOfN(pro, p, p).Draw(t, "pro")
	// distinct addresses, or several requesters per address (they join the dial
	// that is pending, or the connection)
	stride := rapid.SampledFrom([]int{sc.Addrs, sc.Addrs, sc.Addrs, (sc.Addrs + 1) / 2, (sc.Addrs + 3) / 4, 2}).Draw(t, "stride")
	for i := range sc.Steps {
		sc.Steps[i].T, sc.Steps[i].A = i, i%stride
	}
	g := rapid.Custom(genStepN(sc.Addrs, sc.Threads, sc.Threads+8))
	if rapid.SampledFrom(oneIn3).Draw(t, "outside") {
		// things happen to handed-out connections outside the manager (outside.go)
		g = rapid.Custom(genStepK(sc.Addrs, sc.Threads, sc.Threads+8, mixedKinds, append(append([]int(nil), dialModes...), 3)))
	}
	sc.Steps = append(sc.Steps, rapid.SliceOfN(g, 1, 30).Draw(t, "steps")...)
	sc.Steps = append(sc.Steps, rapid.SliceOfN(g, 0, 30).Draw(t, "more")...)
	sc.Names = genNames(t, sc.Addrs)
	return sc
}

// TestC16Wide: the stepwise engine at sizes beyond 32/64/128 pending dials,
// addresses, blocked requesters and holders.
func TestC16Wide(t *testing.T) {
	if !vstat.Enabled("C16") {
		t.Skip()
	}
	rec := vstat.New("C16", "wide")
	rec.RunRapid(t, func(rt *rapid.T) {
		sc := genWideScenario(rt)
		rec.Current(sc)
		st, err := runCase(t, sc)
		lb := append(st.labelList(), "addresses-"+bucket(sc.Addrs), "max-dials-pending-"+bucket(st.maxPending), "max-holders-"+bucket(st.maxHolders), "max-blocked-requesters-"+bucket(st.maxBlocked))
		rec.Case(sc, st.nontrivial, lb...)
		if err != nil {
			rt.Logf("%s", rec.Fail(sc, classOf(err), "%v", err))
			rt.Fatalf("property C16 violated: %s", classOf(err))
		}
	})
}
